(** C09 -- proofs about the scan model (generic heap semantics, then the concrete instance). *)
From Coq Require Import List Arith Lia Bool ZArith NArith.
From MxlBase Require Import ListX.
From Scan Require Import ScanGeneric ScanModel.
Import ListNotations.

Section GenericProofs.
  Variables (M Row Lbl Sim Out : Type).
  Variable apply_row : Row -> M -> M.
  Variable work : M -> Sim * M.
  Variable view : Sim -> M -> Out * M.

  Notation hget := (hget M).
  Notation hset := (hset M).
  Notation entry := (entry Lbl Sim).
  Notation task := (task M Row Lbl Sim apply_row work).
  Notation run_seq := (run_seq M Row Lbl Sim apply_row work).
  Notation view_all := (view_all M Lbl Sim Out view).
  Notation remote_task := (remote_task M Row Lbl Sim apply_row work).
  Notation import := (import M Lbl Sim).
  Notation independent := (independent M Row Sim Out apply_row work view).
  Notation spec := (spec M Row Lbl Sim Out apply_row work view).

  (** ---- heap ---- *)
  Lemma hset_length h a m : length (hset h a m) = length h.
  Proof. revert a. induction h as [|x t IH]; intros [|a]; simpl; auto. Qed.

  Lemma hget_hset_same d h a m : a < length h -> hget d (hset h a m) a = m.
  Proof.
    revert a. induction h as [|x t IH]; intros a Ha.
    - simpl in Ha. lia.
    - destruct a as [|a]; [reflexivity|]. simpl in Ha. cbn [ScanGeneric.hset]. unfold ScanGeneric.hget. cbn [nth].
      apply IH. lia.
  Qed.

  Lemma hget_hset_other d h a b m : a <> b -> hget d (hset h a m) b = hget d h b.
  Proof.
    revert a b. induction h as [|x t IH]; intros a b Hab.
    - reflexivity.
    - destruct a as [|a], b as [|b]; try reflexivity; [congruence|].
      cbn [ScanGeneric.hset]. unfold ScanGeneric.hget. cbn [nth]. apply IH. congruence.
  Qed.

  Lemma hget_app_l d h l a : a < length h -> hget d (h ++ l) a = hget d h a.
  Proof. intros Ha. unfold ScanGeneric.hget. apply app_nth1. exact Ha. Qed.

  Lemma hget_app_new d h m : hget d (h ++ [m]) (length h) = m.
  Proof. unfold ScanGeneric.hget. rewrite app_nth2 by lia. rewrite Nat.sub_diag. reflexivity. Qed.

  Lemma hset_app_new h x m : hset (h ++ [x]) (length h) m = h ++ [m].
  Proof. induction h as [|y t IH]; simpl; [reflexivity|]. rewrite IH. reflexivity. Qed.

  (** ---- views of results whose model objects are pairwise distinct ---- *)
  Lemma view_all_sep d : forall (es : list entry) h,
    NoDup (map e_addr es) -> (forall e, In e es -> e_addr e < length h) ->
    snd (view_all d h es) = map (fun e => (e_lbl e, fst (view (e_sim e) (hget d h (e_addr e))))) es.
  Proof.
    induction es as [|e es IH]; intros h Hnd Hlt; simpl; [reflexivity|].
    f_equal. inversion Hnd as [|? ? Hnotin Hnd']; subst.
    rewrite IH.
    - apply map_ext_in. intros e' He'. rewrite hget_hset_other; [reflexivity|].
      intro Heq. apply Hnotin. rewrite Heq. apply in_map. exact He'.
    - exact Hnd'.
    - intros e' He'. rewrite hset_length. apply Hlt. right. exact He'.
  Qed.

  (** what a row must produce: label, simulation data, and its own model after the run *)
  Definition tri (m0 : M) (lr : Lbl * Row) : Lbl * Sim * M :=
    (fst lr, fst (work (apply_row (snd lr) m0)), snd (work (apply_row (snd lr) m0))).
  Definition tri_of (d : M) (h : list M) (e : entry) : Lbl * Sim * M := (e_lbl e, e_sim e, hget d h (e_addr e)).

  Lemma seq_NoDup' a n : NoDup (seq a n).
  Proof. apply seq_NoDup. Qed.

  (** from separated entries to the specification *)
  Lemma views_of_tris d m0 (es : list entry) h rows :
    map e_addr es = seq (length h - length es) (length es) -> length es <= length h ->
    map (tri_of d h) es = map (tri m0) rows ->
    snd (view_all d h es) = spec m0 rows.
  Proof.
    intros Haddr Hlen Htri.
    rewrite view_all_sep.
    - unfold ScanGeneric.spec, ScanGeneric.independent.
      transitivity (map (fun t : Lbl * Sim * M => (fst (fst t), fst (view (snd (fst t)) (snd t)))) (map (tri_of d h) es)).
      + rewrite map_map. reflexivity.
      + rewrite Htri, map_map. reflexivity.
    - rewrite Haddr. apply seq_NoDup.
    - intros e He. assert (Hin : In (e_addr e) (map e_addr es)) by (apply in_map; exact He).
      rewrite Haddr in Hin. apply in_seq in Hin. lia.
  Qed.

  (** ---- sequential mode with one deep copy per task ---- *)
  Lemma run_seq_copies d m0 : forall rows h a,
    a < length h -> hget d h a = m0 ->
    length (fst (run_seq true d h a rows)) = length h + length rows /\
    (forall j, j < length h -> hget d (fst (run_seq true d h a rows)) j = hget d h j) /\
    map e_addr (snd (run_seq true d h a rows)) = seq (length h) (length rows) /\
    map (tri_of d (fst (run_seq true d h a rows))) (snd (run_seq true d h a rows)) = map (tri m0) rows.
  Proof.
    induction rows as [|[l r] rows IH]; intros h a Ha Hm0.
    - simpl. repeat split; auto.
    - cbn [ScanGeneric.run_seq ScanGeneric.task fst snd].
      rewrite Hm0.
      set (m1 := apply_row r (hget d (h ++ [m0]) (length h))).
      assert (Hm1 : m1 = apply_row r m0) by (unfold m1; rewrite hget_app_new; reflexivity).
      set (h' := hset (h ++ [m0]) (length h) (snd (work m1))).
      assert (Hh' : h' = h ++ [snd (work m1)]) by (unfold h'; apply hset_app_new).
      assert (Hlen' : length h' = S (length h)) by (rewrite Hh', app_length; simpl; lia).
      assert (Ha' : a < length h') by lia.
      assert (Hm0' : hget d h' a = m0) by (rewrite Hh', hget_app_l by exact Ha; exact Hm0).
      destruct (IH h' a Ha' Hm0') as (IH1 & IH2 & IH3 & IH4).
      cbn [fst snd map e_addr length].
      repeat split.
      + rewrite IH1. lia.
      + intros j Hj. rewrite IH2 by lia. rewrite Hh'. apply hget_app_l. exact Hj.
      + rewrite IH3, Hlen'. reflexivity.
      + rewrite IH4. f_equal. unfold tri_of, tri. cbn [e_lbl e_sim e_addr fst snd].
        rewrite IH2 by lia. rewrite Hh', hget_app_new, Hm1. reflexivity.
  Qed.

  Theorem scan_seq_copies m0 rows :
    scan_list M Row Lbl Sim Out apply_row work view true Seq m0 rows = spec m0 rows.
  Proof.
    unfold scan_list, run.
    destruct (run_seq_copies m0 m0 rows [m0] 0) as (H1 & _ & H3 & H4); [simpl; lia | reflexivity |].
    assert (Hles : length (snd (run_seq true m0 [m0] 0 rows)) = length rows).
    { rewrite <- (map_length e_addr), H3. apply seq_length. }
    apply views_of_tris.
    - rewrite H3, H1, Hles. f_equal. cbn [length]. lia.
    - rewrite H1, Hles. lia.
    - exact H4.
  Qed.

  (** ---- parallel mode ---- *)
  Lemma remote_task_tri copies m0 lr : remote_task copies m0 lr = tri m0 lr.
  Proof. destruct copies; reflexivity. Qed.

  Lemma import_spec d : forall (ms : list (Lbl * Sim * M)) h,
    length (fst (import h ms)) = length h + length ms /\
    (forall j, j < length h -> hget d (fst (import h ms)) j = hget d h j) /\
    map e_addr (snd (import h ms)) = seq (length h) (length ms) /\
    map (tri_of d (fst (import h ms))) (snd (import h ms)) = ms.
  Proof.
    induction ms as [|[[l s] m] ms IH]; intros h.
    - simpl. repeat split; auto.
    - cbn [ScanGeneric.import fst snd].
      destruct (IH (h ++ [m])) as (IH1 & IH2 & IH3 & IH4).
      assert (Hlen : length (h ++ [m]) = S (length h)) by (rewrite app_length; simpl; lia).
      cbn [map e_addr length].
      repeat split.
      + rewrite IH1, Hlen. lia.
      + intros j Hj. rewrite IH2 by lia. apply hget_app_l. exact Hj.
      + rewrite IH3, Hlen. reflexivity.
      + rewrite IH4. f_equal. unfold tri_of. cbn [e_lbl e_sim e_addr].
        rewrite IH2 by lia. rewrite hget_app_new. reflexivity.
  Qed.

  (** the pool: whatever the completion order, the slots end up holding the results in input order *)
  Section Pool.
    Variables (T R : Type) (f : T -> R) (tasks : list T).

    Definition pstep (sl : list (option R)) (iw : nat * nat) : list (option R) :=
      match nth_error tasks (fst iw) with
      | Some t => set_slot sl (fst iw) (f t)
      | None => sl
      end.

    Lemma set_slot_length {A} (sl : list (option A)) i x : length (set_slot sl i x) = length sl.
    Proof. revert i. induction sl as [|y t IH]; intros [|i]; simpl; auto. Qed.

    Lemma set_slot_same {A} (sl : list (option A)) i x : i < length sl -> nth_error (set_slot sl i x) i = Some (Some x).
    Proof. revert i. induction sl as [|y t IH]; intros [|i] Hi; simpl in *; try lia; auto. apply IH. lia. Qed.

    Lemma set_slot_other {A} (sl : list (option A)) i j x : i <> j -> nth_error (set_slot sl i x) j = nth_error sl j.
    Proof. revert i j. induction sl as [|y t IH]; intros [|i] [|j] Hij; simpl; auto; try congruence. Qed.

    Definition PInv (sl : list (option R)) (D : nat -> Prop) : Prop :=
      length sl = length tasks /\
      forall i t, nth_error tasks i = Some t ->
        nth_error sl i = Some (Some (f t)) \/ (nth_error sl i = Some None /\ ~ D i).

    Lemma pstep_inv sl D iw : PInv sl D -> PInv (pstep sl iw) (fun i => D i \/ i = fst iw).
    Proof.
      intros [Hlen Hall]. unfold pstep. destruct (nth_error tasks (fst iw)) as [t0|] eqn:Et0.
      - split; [rewrite set_slot_length; exact Hlen|].
        intros i t Hi. destruct (Nat.eq_dec (fst iw) i) as [Heq|Hne].
        + left. rewrite Heq in *. rewrite Et0 in Hi. inversion Hi; subst. apply set_slot_same.
          rewrite Hlen. apply nth_error_Some. congruence.
        + rewrite set_slot_other by exact Hne. destruct (Hall i t Hi) as [H|[H HD]]; [left; exact H|].
          right. split; [exact H|]. intros [HDi|Heq]; [exact (HD HDi)|congruence].
      - split; [exact Hlen|]. intros i t Hi. destruct (Hall i t Hi) as [H|[H HD]]; [left; exact H|].
        right. split; [exact H|]. intros [HDi|Heq]; [exact (HD HDi)|]. subst i. congruence.
    Qed.

    Lemma pfold_inv : forall sched sl D, PInv sl D ->
      PInv (fold_left pstep sched sl) (fun i => D i \/ In i (map fst sched)).
    Proof.
      induction sched as [|iw sched IH]; intros sl D HI; simpl.
      - destruct HI as [Hlen Hall]. split; [exact Hlen|]. intros i t Hi.
        destruct (Hall i t Hi) as [H|[H HD]]; [left; exact H|]. right. split; [exact H|]. tauto.
      - pose proof (IH _ _ (pstep_inv sl D iw HI)) as [Hlen Hall]. split; [exact Hlen|].
        intros i t Hi. destruct (Hall i t Hi) as [H|[H HD]]; [left; exact H|]. right. split; [exact H|].
        intros [HDi|[Heq|Hin]]; apply HD; auto.
    Qed.

    Lemma repeat_None_inv : PInv (repeat None (length tasks)) (fun _ => False).
    Proof.
      split; [apply repeat_length|]. intros i t Hi. right. split; [|tauto].
      assert (Hlt : i < length tasks) by (apply nth_error_Some; congruence).
      rewrite nth_error_repeat; [reflexivity | exact Hlt].
    Qed.

    Lemma all_some_map : forall (ts : list T) (sl : list (option R)),
      length sl = length ts ->
      (forall i t, nth_error ts i = Some t -> nth_error sl i = Some (Some (f t))) ->
      collect sl = map f ts.
    Proof.
      induction ts as [|t ts IH]; intros [|o sl] Hlen Hall; simpl in *; try discriminate; [reflexivity|].
      pose proof (Hall 0 t eq_refl) as H0. simpl in H0. inversion H0; subst. simpl. f_equal.
      apply IH; [lia|]. intros i t' Hi. exact (Hall (S i) t' Hi).
    Qed.

    Theorem pool_schedule_independent sched :
      (forall i, i < length tasks -> In i (map fst sched)) ->
      collect (pool_run sched f tasks) = map f tasks.
    Proof.
      intros Hcov. unfold pool_run.
      change (fun (sl : list (option R)) (iw : nat * nat) =>
                match nth_error tasks (fst iw) with Some t => set_slot sl (fst iw) (f t) | None => sl end) with pstep.
      destruct (pfold_inv sched _ _ repeat_None_inv) as [Hlen Hall].
      apply all_some_map; [exact Hlen|]. intros i t Hi.
      destruct (Hall i t Hi) as [H|[_ HD]]; [exact H|]. exfalso. apply HD. right. apply Hcov.
      apply nth_error_Some. congruence.
    Qed.
  End Pool.

  Theorem scan_par copies w sched m0 rows :
    covers sched w (length rows) ->
    scan_list M Row Lbl Sim Out apply_row work view copies (Par w sched) m0 rows = spec m0 rows.
  Proof.
    intros [Hcov _]. unfold scan_list, run.
    rewrite pool_schedule_independent by exact Hcov.
    destruct (import_spec m0 (map (remote_task copies m0) rows) [m0]) as (H1 & _ & H3 & H4).
    rewrite map_length in *.
    assert (Hles : length (snd (import [m0] (map (remote_task copies m0) rows))) = length rows).
    { rewrite <- (map_length e_addr), H3. apply seq_length. }
    apply views_of_tris.
    - rewrite H3, H1, Hles. f_equal. cbn [length]. lia.
    - rewrite H1, Hles. lia.
    - rewrite H4. apply map_ext. intros lr. apply remote_task_tri.
  Qed.

  Theorem scan_list_equals_independent copies md m0 rows :
    (md = Seq -> copies = true) -> mode_ok md (length rows) ->
    scan_list M Row Lbl Sim Out apply_row work view copies md m0 rows = spec m0 rows.
  Proof.
    intros Hc Hok. destruct md as [|w sched].
    - rewrite (Hc eq_refl). apply scan_seq_copies.
    - apply scan_par. exact Hok.
  Qed.

  (** ---- dict-keyed containers ---- *)
  Variable lbl_eqb : Lbl -> Lbl -> bool.
  Hypothesis lbl_eqb_spec : forall a b, lbl_eqb a b = true <-> a = b.
  Notation dict_set := (dict_set Lbl Sim lbl_eqb).
  Notation dict_of := (dict_of Lbl Sim lbl_eqb).

  Lemma dict_set_fresh : forall (acc : list entry) e,
    ~ In (e_lbl e) (map e_lbl acc) -> dict_set acc e = acc ++ [e].
  Proof.
    induction acc as [|x acc IH]; intros e Hni; simpl; [reflexivity|].
    destruct (lbl_eqb (e_lbl x) (e_lbl e)) eqn:E.
    - apply lbl_eqb_spec in E. exfalso. apply Hni. left. exact E.
    - rewrite IH; [reflexivity|]. intro H. apply Hni. right. exact H.
  Qed.

  Lemma dict_fold_fresh : forall (es acc : list entry),
    NoDup (map e_lbl (acc ++ es)) -> fold_left dict_set es acc = acc ++ es.
  Proof.
    induction es as [|e es IH]; intros acc Hnd; simpl; [rewrite app_nil_r; reflexivity|].
    rewrite dict_set_fresh.
    - rewrite IH; rewrite <- app_assoc; simpl; [reflexivity | exact Hnd].
    - rewrite map_app in Hnd. simpl in Hnd. apply NoDup_remove_2 in Hnd.
      intro H. apply Hnd. apply in_or_app. left. exact H.
  Qed.

  Lemma dict_of_NoDup (es : list entry) : NoDup (map e_lbl es) -> dict_of es = es.
  Proof. intros H. unfold ScanGeneric.dict_of. rewrite dict_fold_fresh; [reflexivity | exact H]. Qed.

  Lemma run_labels copies md m0 rows :
    (md = Seq -> copies = true) -> mode_ok md (length rows) ->
    map e_lbl (snd (run M Row Lbl Sim apply_row work copies md m0 rows)) = map fst rows.
  Proof.
    intros Hc Hok. destruct md as [|w sched]; unfold run.
    - rewrite (Hc eq_refl).
      destruct (run_seq_copies m0 m0 rows [m0] 0) as (_ & _ & _ & H4); [simpl; lia | reflexivity |].
      apply (f_equal (map (fun t : Lbl * Sim * M => fst (fst t)))) in H4.
      rewrite !map_map in H4. exact H4.
    - destruct Hok as [Hcov _]. rewrite pool_schedule_independent by exact Hcov.
      destruct (import_spec m0 (map (remote_task copies m0) rows) [m0]) as (_ & _ & _ & H4).
      apply (f_equal (map (fun t : Lbl * Sim * M => fst (fst t)))) in H4.
      rewrite !map_map in H4. etransitivity; [exact H4|]. apply map_ext. intros lr. rewrite remote_task_tri. reflexivity.
  Qed.

  Theorem scan_dict_equals_independent copies md m0 rows :
    (md = Seq -> copies = true) -> mode_ok md (length rows) -> NoDup (map fst rows) ->
    scan_dict M Row Lbl Sim Out apply_row work view lbl_eqb copies md m0 rows = spec m0 rows.
  Proof.
    intros Hc Hok Hnd. unfold scan_dict. rewrite dict_of_NoDup.
    - exact (scan_list_equals_independent copies md m0 rows Hc Hok).
    - rewrite run_labels by assumption. exact Hnd.
  Qed.
End GenericProofs.

(** ------------------------------------------------------------------------------------------ *)
(** the concrete instance *)
Local Open Scope Z_scope.

Definition spec_c (ax : tc_axis) (w : wkind) (m0 : mdl) (rows : list (label * row)) : list (label * out) :=
  map (fun lr => (fst lr, independent_c ax w m0 (snd lr))) rows.

Theorem scan_list_c_spec f w md m0 rows :
  (md = Seq -> sf_copies f = true) -> mode_ok md (length rows) ->
  scan_list_c f w md m0 rows = spec_c (sf_tc_axis f) w m0 rows.
Proof.
  intros Hc Hok. unfold scan_list_c, spec_c, independent_c.
  exact (scan_list_equals_independent mdl row label sim out apply_row (work (sf_tc_axis f) w) view (sf_copies f) md m0 rows Hc Hok).
Qed.

Theorem scan_dict_c_spec f w md m0 rows :
  (md = Seq -> sf_copies f = true) -> mode_ok md (length rows) -> NoDup (map fst rows) ->
  scan_dict_c f w md m0 rows = spec_c (sf_tc_axis f) w m0 rows.
Proof.
  intros Hc Hok Hnd. unfold scan_dict_c, spec_c, independent_c.
  exact (scan_dict_equals_independent mdl row label sim out apply_row (work (sf_tc_axis f) w) view Z.eqb Z.eqb_eq
           (sf_copies f) md m0 rows Hc Hok Hnd).
Qed.

(** the flux column at the first time point of every block (for readable counter-examples) *)
Definition first_flux (lo : label * out) : option val :=
  match snd lo with
  | OOk ((_, _, fl :: _) :: _) => Some fl
  | _ => None
  end.

Definition stale_model : mdl :=
  mkM [(10%N, Plain 1)] [(20%N, Plain 1); (21%N, IA 0%N [10%N])] [] [mkR 40%N 3%N [21%N; 20%N] [(10%N, -1)]].
Definition stale_rows : list (label * row) := [(0, [(10%N, 1)]); (1, [(10%N, 2)]); (2, [(10%N, 3)])].

Lemma shared_model_stale (f : scan_facts) :
  sf_copies f = false ->
  map first_flux (scan_dict_c f (WTimeCourse [0; 1]) Seq stale_model stale_rows) = [Some (Num 3); Some (Num 3); Some (Num 3)]
  /\ map first_flux (spec_c (sf_tc_axis f) (WTimeCourse [0; 1]) stale_model stale_rows) = [Some (Num 1); Some (Num 2); Some (Num 3)].
Proof.
  intros Hf. unfold scan_dict_c. rewrite Hf. split; vm_compute; reflexivity.
Qed.

(** duplicate labels: the dict-keyed containers lose rows *)
Lemma duplicate_labels_lose_rows :
  let rows := [(5, [(10%N, 1)]); (7, [(10%N, 2)]); (5, [(10%N, 3)])] in
  forall f md, (md = Seq -> sf_copies f = true) -> mode_ok md (length rows) ->
  length (scan_dict_c f (WTimeCourse [0; 1]) md stale_model rows) = 2%nat.
Proof.
  intros rows f md Hc Hok. unfold scan_dict_c, scan_dict.
  assert (Hl : map e_lbl (snd (run mdl row label sim apply_row (work (sf_tc_axis f) (WTimeCourse [0; 1])) (sf_copies f) md stale_model rows)) = map fst rows)
    by (apply run_labels; assumption).
  set (es := snd (run mdl row label sim apply_row (work (sf_tc_axis f) (WTimeCourse [0; 1])) (sf_copies f) md stale_model rows)) in *.
  destruct es as [|[l1 s1 a1] [|[l2 s2 a2] [|[l3 s3 a3] [|e4 es]]]]; try discriminate Hl.
  cbn in Hl. inversion Hl; subst l1 l2 l3.
  unfold dict_of. cbn [fold_left dict_set e_lbl Z.eqb Pos.eqb].
  cbn [ScanGeneric.view_all snd length]. reflexivity.
Qed.

(** ---- failing rows ---- *)
Definition axis_of (ax : tc_axis) (w : wkind) : list Z :=
  match w with WTimeCourse tps => tc_placeholder_axis ax tps | WSteady => [0] end.
Definition integ_of (w : wkind) (m : mdl) (c : cache) : ires :=
  match w with
  | WTimeCourse tps => integrate_tc m c (map snd (ca_ic c)) tps
  | WSteady => steady m c 0 (map snd (ca_ic c)) MAXS
  end.
Definition nan_rows (m : mdl) (axis : list Z) : list (Z * list val) :=
  map (fun t => (t, map (fun _ => NaN) (m_vars m))) axis.

Lemma work_failed ax w m c :
  create_cache m = Ok c -> (integ_of w m c = IFail \/ integ_of w m c = IZeroDiv) ->
  work ax w m = (SOk (nan_rows m (axis_of ax w)) (ca_base c), m).
Proof.
  intros Hc Hf. unfold work. rewrite Hc. destruct w as [tps|]; cbn [integ_of axis_of] in *.
  - destruct Hf as [Hf|Hf]; rewrite Hf; reflexivity.
  - destruct Hf as [Hf|Hf]; rewrite Hf; reflexivity.
Qed.

Lemma work_ok ax w m c tc :
  create_cache m = Ok c -> integ_of w m c = IOk tc -> work ax w m = (SOk tc (ca_base c), m).
Proof.
  intros Hc Hf. unfold work. rewrite Hc. destruct w as [tps|]; cbn [integ_of] in *; rewrite Hf; reflexivity.
Qed.

Lemma work_unevaluable ax w m e : create_cache m = Err e -> work ax w m = (SCrash e, m).
Proof. intros Hc. unfold work. rewrite Hc. reflexivity. Qed.

Lemma euler_axis : forall tps m c t y tc, euler m c t y tps = IOk tc -> map fst tc = tps.
Proof.
  induction tps as [|t1 rest IH]; intros m c t y tc H; cbn [euler] in H.
  - inversion H. reflexivity.
  - destruct (rhs m c y t) as [dy|[| |]]; try discriminate H.
    destruct (in_limit _); [|discriminate H].
    destruct (euler m c t1 _ rest) as [tc'| | |] eqn:E; try discriminate H.
    inversion H; subst. cbn [map fst]. f_equal. exact (IH _ _ _ _ _ E).
Qed.

Lemma integrate_tc_axis m c y0 tps tc :
  integrate_tc m c y0 tps = IOk tc -> map fst tc = if starts_at_zero tps then tps else 0 :: tps.
Proof.
  unfold integrate_tc, starts_at_zero. intros H.
  destruct tps as [|t rest].
  - destruct (euler m c 0 y0 []) as [tc'| | |] eqn:E; try discriminate H. inversion H; subst.
    cbn [map fst]. rewrite (euler_axis _ _ _ _ _ _ E). reflexivity.
  - destruct (Z.eqb t 0) eqn:Et.
    + destruct (euler m c 0 y0 rest) as [tc'| | |] eqn:E; try discriminate H. inversion H; subst.
      cbn [map fst]. rewrite (euler_axis _ _ _ _ _ _ E). apply Z.eqb_eq in Et. subst. reflexivity.
    + destruct (euler m c 0 y0 (t :: rest)) as [tc'| | |] eqn:E; try discriminate H. inversion H; subst.
      cbn [map fst]. rewrite (euler_axis _ _ _ _ _ _ E). reflexivity.
Qed.

Lemma steady_single : forall fuel m c t y tc, steady m c t y fuel = IOk tc -> length tc = 1%nat.
Proof.
  induction fuel as [|f IH]; intros m c t y tc H; cbn [steady] in H; [discriminate H|].
  destruct (rhs m c y t) as [dy|[| |]]; try discriminate H.
  destruct (in_limit _); [|discriminate H].
  destruct (list_eqb val_eqb _ y).
  - inversion H. reflexivity.
  - exact (IH _ _ _ _ _ H).
Qed.

Lemma nan_rows_all_nan m axis :
  map fst (nan_rows m axis) = axis /\
  Forall (fun tv => length (snd tv) = length (m_vars m) /\ Forall (fun v => v = NaN) (snd tv)) (nan_rows m axis).
Proof.
  unfold nan_rows. split.
  - rewrite map_map. cbn [fst]. apply map_id.
  - apply Forall_forall. intros tv Hin. apply in_map_iff in Hin. destruct Hin as [t [<- _]]. cbn [snd].
    split; [apply map_length|]. apply Forall_forall. intros v Hv. apply in_map_iff in Hv. destruct Hv as [? [<- _]]. reflexivity.
Qed.

(** a failing row of a time-course scan: NaN placeholder; same time axis as a successful row when
    the requested points start at t0 = 0 *)
Theorem tc_placeholder ax m c tps :
  create_cache m = Ok c ->
  (integ_of (WTimeCourse tps) m c = IFail \/ integ_of (WTimeCourse tps) m c = IZeroDiv) ->
  exists rv rp, work ax (WTimeCourse tps) m = (SOk rv rp, m) /\ map fst rv = tc_placeholder_axis ax tps /\
    Forall (fun tv => length (snd tv) = length (m_vars m) /\ Forall (fun v => v = NaN) (snd tv)) rv.
Proof.
  intros Hc Hf. exists (nan_rows m (tc_placeholder_axis ax tps)), (ca_base c). split; [exact (work_failed ax _ _ _ Hc Hf)|].
  apply nan_rows_all_nan.
Qed.

Theorem tc_success_axis ax m c tps tc :
  create_cache m = Ok c -> integ_of (WTimeCourse tps) m c = IOk tc ->
  work ax (WTimeCourse tps) m = (SOk tc (ca_base c), m) /\
  map fst tc = if starts_at_zero tps then tps else 0 :: tps.
Proof.
  intros Hc Hi. split; [exact (work_ok ax _ _ _ _ Hc Hi)|]. exact (integrate_tc_axis _ _ _ _ _ Hi).
Qed.

Theorem ss_placeholder ax m c :
  create_cache m = Ok c ->
  (integ_of WSteady m c = IFail \/ integ_of WSteady m c = IZeroDiv) ->
  exists rv rp, work ax WSteady m = (SOk rv rp, m) /\ length rv = 1%nat /\
    Forall (fun tv => length (snd tv) = length (m_vars m) /\ Forall (fun v => v = NaN) (snd tv)) rv.
Proof.
  intros Hc Hf. exists (nan_rows m [0]), (ca_base c). split; [exact (work_failed ax _ _ _ Hc Hf)|].
  split; [reflexivity|]. apply nan_rows_all_nan.
Qed.

Theorem ss_success_single ax m c tc :
  create_cache m = Ok c -> integ_of WSteady m c = IOk tc ->
  work ax WSteady m = (SOk tc (ca_base c), m) /\ length tc = 1%nat.
Proof.
  intros Hc Hi. split; [exact (work_ok ax _ _ _ _ Hc Hi)|]. exact (steady_single _ _ _ _ _ _ Hi).
Qed.

(** x' = x*x: stays at 0 from 0, leaves the integrator's range from 100 *)
Definition sq_model (x0 : Z) : mdl := mkM [(10%N, Plain x0)] [] [] [mkR 40%N 5%N [10%N] [(10%N, 1)]].

Lemma tc_placeholder_misses_t0 :
  exists rv rp rv' rp',
    work TcRequested (WTimeCourse [1; 2]) (sq_model 0) = (SOk rv rp, sq_model 0) /\
    work TcRequested (WTimeCourse [1; 2]) (sq_model 100) = (SOk rv' rp', sq_model 100) /\
    map fst rv = [0; 1; 2] /\ map fst rv' = [1; 2] /\ rv' = nan_rows (sq_model 100) [1; 2].
Proof. do 4 eexists. repeat split; vm_compute; reflexivity. Qed.

(** a row whose model cannot be evaluated at t = 0 makes the worker call raise: no placeholder *)
Definition guard_model (x0 : Z) : mdl :=
  mkM [(10%N, Plain x0)] [(20%N, Plain 1)] [] [mkR 40%N 7%N [20%N; 10%N] [(10%N, -1)]].
Lemma unevaluable_row_raises :
  forall ax, fst (work ax (WTimeCourse [0; 1]) (apply_row [(10%N, 0)] (guard_model 2))) = SCrash EZeroDiv
  /\ independent_c ax (WTimeCourse [0; 1]) (guard_model 2) [(10%N, 0)] = OCrash EZeroDiv.
Proof. intros ax. split; vm_compute; reflexivity. Qed.

(** ... and no placeholder could help: whatever data a result carries, viewing it against that row's
    model ([_compute_args] -> [get_args_time_course] / [get_arg_names] -> [_create_cache]) raises *)
Lemma unevaluable_row_any_placeholder_view_raises :
  forall (rv : list (Z * list val)),
    let m := apply_row [(10%N, 0)] (guard_model 2) in
    fst (view (SOk rv (plain_of (m_pars m))) m) = OCrash EZeroDiv.
Proof. intros rv. vm_compute. reflexivity. Qed.

(** ---- the protocol worker's placeholder axis ---- *)
Section AxesProofs.
  Variable T : Type.
  Variable lin : T -> T -> nat -> nat -> T.
  Variable zero : T.
  Hypothesis lin_start : forall a b n, lin a b n 0%nat = a.

  Notation linspace := (linspace T lin).
  Notation success_axis_from := (success_axis_from T lin).
  Notation step_grid := (step_grid T lin).

  Lemma linspace_head a b n : linspace a b n = a :: tl (linspace a b n).
  Proof. unfold ScanModel.linspace. cbn [seq map tl]. rewrite lin_start. reflexivity. Qed.

  Lemma success_false_step_grid : forall tends t0 tpps,
    success_axis_from false t0 tends tpps = step_grid t0 tends tpps.
  Proof. induction tends as [|t1 rest IH]; intros t0 tpps; cbn; [reflexivity|]. rewrite IH. reflexivity. Qed.

  Theorem protocol_placeholder_axis_ok tends tpps :
    tends <> [] -> placeholder_axis T lin zero PhStepGrid tends tpps = success_axis T lin zero tends tpps.
  Proof.
    intros Hne. destruct tends as [|t1 rest]; [congruence|].
    unfold placeholder_axis, success_axis. cbn [ScanModel.success_axis_from ScanModel.step_grid].
    rewrite success_false_step_grid. rewrite (linspace_head zero t1 tpps) at 2. reflexivity.
  Qed.

  Lemma linspace_length a b n : length (linspace a b n) = S n.
  Proof. unfold ScanModel.linspace. rewrite map_length, seq_length. reflexivity. Qed.

  Lemma step_grid_length : forall tends t0 tpps, length (step_grid t0 tends tpps) = (length tends * tpps)%nat.
  Proof.
    induction tends as [|t1 rest IH]; intros t0 tpps; cbn [ScanModel.step_grid length]; [reflexivity|].
    rewrite app_length, IH. rewrite (linspace_head t0 t1 tpps) at 1.
    pose proof (linspace_length t0 t1 tpps) as HL. rewrite (linspace_head t0 t1 tpps) in HL. cbn [length tl] in *. lia.
  Qed.

  Theorem protocol_success_length tends tpps :
    tends <> [] -> length (success_axis T lin zero tends tpps) = (length tends * tpps + 1)%nat.
  Proof.
    intros Hne. rewrite <- protocol_placeholder_axis_ok by exact Hne.
    cbn [placeholder_axis length]. rewrite step_grid_length. lia.
  Qed.

  Theorem protocol_unfixed_placeholder_length tends tpps :
    length (placeholder_axis T lin zero PhLinspaceNT tends tpps) = (length tends * tpps)%nat.
  Proof.
    cbn [placeholder_axis]. destruct (length tends * tpps)%nat as [|n] eqn:E; [reflexivity|].
    apply linspace_length.
  Qed.
End AxesProofs.

(** ---- statements at the regenerated facts ---- *)
Theorem list_scan_pinned f : sf_copies f = true ->
  forall w md m0 rows, mode_ok md (length rows) ->
    scan_list_c f w md m0 rows = map (fun lr => (fst lr, independent_c (sf_tc_axis f) w m0 (snd lr))) rows.
Proof. intros Hf w md m0 rows Hok. apply scan_list_c_spec; [intros _; exact Hf | exact Hok]. Qed.

Theorem dict_scan_pinned f : sf_copies f = true ->
  forall w md m0 rows, mode_ok md (length rows) -> NoDup (map fst rows) ->
    scan_dict_c f w md m0 rows = map (fun lr => (fst lr, independent_c (sf_tc_axis f) w m0 (snd lr))) rows.
Proof. intros Hf w md m0 rows Hok Hnd. apply scan_dict_c_spec; [intros _; exact Hf | exact Hok | exact Hnd]. Qed.

Theorem duplicate_labels_pinned f : sf_copies f = true ->
  exists w m0 rows, forall md, mode_ok md (length rows) ->
    length (scan_dict_c f w md m0 rows) <> length rows.
Proof.
  intros Hf. exists (WTimeCourse [0; 1]), stale_model, [(5, [(10%N, 1)]); (7, [(10%N, 2)]); (5, [(10%N, 3)])].
  intros md Hok. rewrite (duplicate_labels_lose_rows f md (fun _ => Hf) Hok). discriminate.
Qed.

(** the placeholder has the time axis of a successful row: whenever the requested points start at 0,
    and ALWAYS once the worker puts the start point in front ([TcWithStart]) *)
Theorem tc_placeholder_shape_gen ax tps m c tc m' c' :
  (ax = TcWithStart \/ starts_at_zero tps = true) ->
  create_cache m = Ok c -> integ_of (WTimeCourse tps) m c = IOk tc ->
  create_cache m' = Ok c' ->
  (integ_of (WTimeCourse tps) m' c' = IFail \/ integ_of (WTimeCourse tps) m' c' = IZeroDiv) ->
  exists rv rp rv' rp',
    work ax (WTimeCourse tps) m = (SOk rv rp, m) /\ work ax (WTimeCourse tps) m' = (SOk rv' rp', m') /\
    map fst rv' = map fst rv /\
    Forall (fun tv => length (snd tv) = length (m_vars m') /\ Forall (fun v => v = NaN) (snd tv)) rv'.
Proof.
  intros Hz Hc Hi Hc' Hf.
  destruct (tc_success_axis ax m c tps tc Hc Hi) as [Hw Hax].
  destruct (tc_placeholder ax m' c' tps Hc' Hf) as (rv' & rp' & Hw' & Hax' & Hnan).
  exists tc, (ca_base c), rv', rp'. repeat split; try assumption.
  rewrite Hax, Hax'. destruct Hz as [-> | Hz].
  - reflexivity.
  - rewrite Hz. unfold tc_placeholder_axis. rewrite Hz. destruct ax; reflexivity.
Qed.

Theorem tc_placeholder_shape tps m c tc m' c' :
  create_cache m = Ok c -> integ_of (WTimeCourse tps) m c = IOk tc ->
  create_cache m' = Ok c' ->
  (integ_of (WTimeCourse tps) m' c' = IFail \/ integ_of (WTimeCourse tps) m' c' = IZeroDiv) ->
  exists rv rp rv' rp',
    work TcWithStart (WTimeCourse tps) m = (SOk rv rp, m) /\ work TcWithStart (WTimeCourse tps) m' = (SOk rv' rp', m') /\
    map fst rv' = map fst rv /\
    Forall (fun tv => length (snd tv) = length (m_vars m') /\ Forall (fun v => v = NaN) (snd tv)) rv'.
Proof. apply tc_placeholder_shape_gen. left. reflexivity. Qed.

Theorem tc_placeholder_shape_partial ax tps m c tc m' c' :
  starts_at_zero tps = true ->
  create_cache m = Ok c -> integ_of (WTimeCourse tps) m c = IOk tc ->
  create_cache m' = Ok c' ->
  (integ_of (WTimeCourse tps) m' c' = IFail \/ integ_of (WTimeCourse tps) m' c' = IZeroDiv) ->
  exists rv rp rv' rp',
    work ax (WTimeCourse tps) m = (SOk rv rp, m) /\ work ax (WTimeCourse tps) m' = (SOk rv' rp', m') /\
    map fst rv' = map fst rv /\
    Forall (fun tv => length (snd tv) = length (m_vars m') /\ Forall (fun v => v = NaN) (snd tv)) rv'.
Proof. intros Hz. apply tc_placeholder_shape_gen. right. exact Hz. Qed.

Theorem ss_placeholder_shape ax m c tc m' c' :
  create_cache m = Ok c -> integ_of WSteady m c = IOk tc ->
  create_cache m' = Ok c' -> (integ_of WSteady m' c' = IFail \/ integ_of WSteady m' c' = IZeroDiv) ->
  exists rv rp rv' rp',
    work ax WSteady m = (SOk rv rp, m) /\ work ax WSteady m' = (SOk rv' rp', m') /\
    length rv' = length rv /\
    Forall (fun tv => length (snd tv) = length (m_vars m') /\ Forall (fun v => v = NaN) (snd tv)) rv'.
Proof.
  intros Hc Hi Hc' Hf.
  destruct (ss_success_single ax m c tc Hc Hi) as [Hw Hl].
  destruct (ss_placeholder ax m' c' Hc' Hf) as (rv' & rp' & Hw' & Hl' & Hnan).
  exists tc, (ca_base c), rv', rp'. repeat split; try assumption. congruence.
Qed.

Theorem protocol_axis_pinned f : sf_protocol_axis f = PhStepGrid ->
  forall (T : Type) (lin : T -> T -> nat -> nat -> T) (zero : T),
    (forall a b n, lin a b n 0%nat = a) ->
    forall tends tpps, tends <> [] ->
      placeholder_axis T lin zero (sf_protocol_axis f) tends tpps = success_axis T lin zero tends tpps.
Proof. intros -> T lin zero Hs tends tpps Hne. exact (protocol_placeholder_axis_ok T lin zero Hs tends tpps Hne). Qed.

Theorem protocol_unfixed_axis_short :
  forall (T : Type) (lin : T -> T -> nat -> nat -> T) (zero : T),
    (forall a b n, lin a b n 0%nat = a) ->
    forall tends tpps, tends <> [] ->
      S (length (placeholder_axis T lin zero PhLinspaceNT tends tpps)) = length (success_axis T lin zero tends tpps).
Proof.
  intros T lin zero Hs tends tpps Hne.
  rewrite protocol_unfixed_placeholder_length, (protocol_success_length T lin zero Hs tends tpps Hne). lia.
Qed.

(** non-vacuity: three rows, two workers, tasks completing in the order 2, 0, 1 *)
Definition nonvac_facts : scan_facts :=
  mkScanFacts true true true true true true PhStepGrid TcWithStart PtcJoined DupRefuse.
Example nonvacuous_schedule :
  let md := Par 2 [(2, 1); (0, 0); (1, 1)]%nat in
  mode_ok md (length stale_rows) /\ NoDup (map fst stale_rows) /\
  map first_flux (scan_dict_c nonvac_facts (WTimeCourse [0; 1]) md stale_model stale_rows)
    = [Some (Num 1); Some (Num 2); Some (Num 3)] /\
  map first_flux (scan_dict_c nonvac_facts (WTimeCourse [0; 1]) Seq stale_model stale_rows)
    = [Some (Num 1); Some (Num 2); Some (Num 3)].
Proof.
  cbv zeta. split; [|split; [|split]].
  - split.
    + intros i Hi. cbn in *. destruct i as [|[|[|i]]]; try lia; tauto.
    + intros iw [<-|[<-|[<-|[]]]]; cbn; lia.
  - cbn. repeat constructor; cbn; intuition discriminate.
  - vm_compute. reflexivity.
  - vm_compute. reflexivity.
Qed.
