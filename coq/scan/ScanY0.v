(** C09 -- second deepening: the [y0] argument of the scans, the label-indexed list container
    (shape of seeded change C09-6) and the result cache keyed by row label.  Model only, no proofs.

    [y0].  Every entry point takes [y0: dict | None], initial values for the WHOLE scan.  The tree
    writes them into the caller's model object before fanning out
    ([if y0 is not None: model.update_variables(y0)]) and hands [y0=None] to the worker, so each
    task deep-copies a model that already carries y0 and then writes the row's own values on top.
    The other shape ([Y0ToWorker], seeded change C09-4) leaves the model alone and hands y0 to the
    worker, which completes it with the initial values of the TASK's model
    ([model.get_initial_conditions() | y0]) and starts the integration from that vector. *)
From Coq Require Import List ZArith NArith Bool.
From MxlBase Require Import ListX.
From Scan Require Import ScanGeneric ScanModel.
Import ListNotations.

Section Y0Generic.
  Variables (M Row Lbl Sim Out Y0 : Type).
  Variable apply_row : Row -> M -> M.
  Variable apply_y0 : Y0 -> M -> M.              (* model.update_variables(y0) *)
  Variable work : option Y0 -> M -> Sim * M.     (* the worker with its [y0] argument *)
  Variable view : Sim -> M -> Out * M.
  Variable lbl_eqb : Lbl -> Lbl -> bool.

  Definition with_y0 (oy0 : option Y0) (m : M) : M :=
    match oy0 with Some y => apply_y0 y m | None => m end.

  (** the list container (steady-state scans) of an entry point with y0 policy [p] *)
  Definition scan_list_y0 (p : y0_policy) (copies : bool) (md : mode) (m0 : M) (oy0 : option Y0)
             (rows : list (Lbl * Row)) : list (Lbl * Out) :=
    match p with
    | Y0IntoModel => scan_list M Row Lbl Sim Out apply_row (work None) view copies md (with_y0 oy0 m0) rows
    | Y0ToWorker | Y0Unknown => scan_list M Row Lbl Sim Out apply_row (work oy0) view copies md m0 rows
    end.

  (** the dict-keyed containers behind the index test *)
  Definition scan_dict_y0 (p : y0_policy) (refuse copies : bool) (md : mode) (m0 : M) (oy0 : option Y0)
             (rows : list (Lbl * Row)) : option (list (Lbl * Out)) :=
    match p with
    | Y0IntoModel =>
        scan_dict_checked M Row Lbl Sim Out apply_row (work None) view lbl_eqb refuse copies md (with_y0 oy0 m0) rows
    | Y0ToWorker | Y0Unknown =>
        scan_dict_checked M Row Lbl Sim Out apply_row (work oy0) view lbl_eqb refuse copies md m0 rows
    end.

  (** THE SPECIFICATION with y0: a separate run (worker without y0) on a fresh copy of the model
      that carries y0 and then exactly that row's values *)
  Definition spec_y0 (m0 : M) (oy0 : option Y0) (rows : list (Lbl * Row)) : list (Lbl * Out) :=
    spec M Row Lbl Sim Out apply_row (work None) view (with_y0 oy0 m0) rows.

  (** ---- the list container filled BY LABEL (seeded change C09-6):
      [by_label = dict(res); raw_results = [by_label[k] for k in to_scan.index]] ---- *)
  Definition by_label (d : list (entry Lbl Sim)) (l : Lbl) : list (entry Lbl Sim) :=
    match find (fun e => lbl_eqb (e_lbl e) l) d with
    | Some e => [e]
    | None => []                                   (* KeyError: cannot happen, every label was inserted *)
    end.
  Definition scan_list_by_label (work1 : M -> Sim * M) (copies : bool) (md : mode) (m0 : M) (rows : list (Lbl * Row))
    : list (Lbl * Out) :=
    let hes := run M Row Lbl Sim apply_row work1 copies md m0 rows in
    let d := dict_of Lbl Sim lbl_eqb (snd hes) in
    snd (view_all M Lbl Sim Out view m0 (fst hes) (flat_map (by_label d) (map fst rows))).
End Y0Generic.

(** ---- the result cache ([parallel.py::_load_or_run]): one file per KEY, the key of a scan task is
    the row's index label.  Pure model: a store of results by key; a call looks its key up, returns
    the stored result on a hit, otherwise runs the function and stores the result. ---- *)
Section Cache.
  Variables (K T R : Type).
  Variable keqb : K -> K -> bool.

  Definition store := list (K * R).
  Fixpoint slookup (k : K) (st : store) : option R :=
    match st with
    | [] => None
    | (k', r) :: t => if keqb k k' then Some r else slookup k t
    end.

  Definition load_or_run (f : T -> R) (st : store) (kt : K * T) : store * (K * R) :=
    match slookup (fst kt) st with
    | Some r => (st, (fst kt, r))
    | None => (st ++ [(fst kt, f (snd kt))], (fst kt, f (snd kt)))
    end.

  (** [list(map(worker, inputs))] with a cache *)
  Fixpoint run_cached (f : T -> R) (st : store) (inputs : list (K * T)) : store * list (K * R) :=
    match inputs with
    | [] => (st, [])
    | kt :: rest =>
        let sr := load_or_run f st kt in
        let more := run_cached f (fst sr) rest in
        (fst more, snd sr :: snd more)
    end.

  (** ... behind a test of the keys ([if cache is not None: _require_unique_index(table)]) *)
  Definition run_cached_checked (check : bool) (f : T -> R) (st : store) (inputs : list (K * T)) : option (list (K * R)) :=
    if check && has_dup K keqb (map fst inputs) then None else Some (snd (run_cached f st inputs)).

  (** what is on disk once the rows [done] have been worked off *)
  Definition saved (f : T -> R) (done : list (K * T)) : store := map (fun kt => (fst kt, f (snd kt))) done.
End Cache.

(** ---- the concrete instance ---- *)
Local Open Scope Z_scope.

Definition y0 := list (name * Z).

(** [model.get_initial_conditions() | y0] in the order of the variables *)
Definition complete_y0 (c : cache) (y : y0) : list val :=
  map (fun kv => match lookup (fst kv) y with Some z => Num z | None => snd kv end) (ca_ic c).

(** the worker called with [y0]: [Simulator(model, y0=...)] starts from the given vector; everything
    else (cache, initial assignments, placeholder) comes from the model as it is *)
Definition work_y0 (ax : tc_axis) (w : wkind) (oy0 : option y0) (m : mdl) : sim * mdl :=
  match oy0 with
  | None => work ax w m
  | Some y =>
      match create_cache m with
      | Err e => (SCrash e, m)
      | Ok c =>
          let y0v := complete_y0 c y in
          let placeholder idx := SOk (map (fun t => (t, map (fun _ => NaN) (m_vars m))) idx) (ca_base c) in
          match w with
          | WTimeCourse tps =>
              match integrate_tc m c y0v tps with
              | IOk tc => (SOk tc (ca_base c), m)
              | IFail | IZeroDiv => (placeholder (tc_placeholder_axis ax tps), m)
              | IOther => (SCrash EKey, m)
              end
          | WSteady =>
              match steady m c 0 y0v MAXS with
              | IOk tc => (SOk tc (ca_base c), m)
              | IFail | IZeroDiv => (placeholder [0], m)
              | IOther => (SCrash EKey, m)
              end
          end
      end
  end.

(** [model.update_variables(y0)] only takes names of variables (anything else raises: not generated) *)
Definition apply_y0_c (y : y0) (m : mdl) : mdl := update_variables m y.

Definition scan_list_y0_c (p : y0_policy) (f : scan_facts) (w : wkind) md m0 (oy0 : option y0) rows :=
  scan_list_y0 mdl row label sim out y0 apply_row apply_y0_c (work_y0 (sf_tc_axis f) w) view p (sf_copies f) md m0 oy0 rows.
Definition scan_dict_y0_c (p : y0_policy) (f : scan_facts) (w : wkind) md m0 (oy0 : option y0) rows :=
  scan_dict_y0 mdl row label sim out y0 apply_row apply_y0_c (work_y0 (sf_tc_axis f) w) view Z.eqb p
               (refuses (sf_dups f)) (sf_copies f) md m0 oy0 rows.
Definition spec_y0_c (ax : tc_axis) (w : wkind) m0 (oy0 : option y0) rows :=
  spec_y0 mdl row label sim out y0 apply_row apply_y0_c (work_y0 ax w) view m0 oy0 rows.
Definition scan_list_by_label_c (f : scan_facts) (w : wkind) md m0 rows :=
  scan_list_by_label mdl row label sim out apply_row view Z.eqb (work (sf_tc_axis f) w) (sf_copies f) md m0 rows.
