(** C09 -- proofs, second part: index test of the dict-keyed entry points, arbitrary batching of the
    rows, the nested Monte-Carlo scan, the protocol-time-course axes, the entry-point table. *)
From Coq Require Import List Arith Lia Bool ZArith NArith Sorting.Sorted FinFun.
From MxlBase Require Import ListX.
From Scan Require Import ScanGeneric ScanModel ScanNested ScanProofs.
Import ListNotations.

Lemma NoDup_app_intro {A} (l1 l2 : list A) :
  NoDup l1 -> NoDup l2 -> (forall a, In a l1 -> In a l2 -> False) -> NoDup (l1 ++ l2).
Proof.
  induction l1 as [|x l1 IH]; intros H1 H2 Hd; cbn; [exact H2|].
  inversion H1 as [|? ? Hx H1']; subst. constructor.
  - intro Hin. apply in_app_or in Hin. destruct Hin as [Hin|Hin]; [exact (Hx Hin)|].
    apply (Hd x); [left; reflexivity | exact Hin].
  - apply IH; [exact H1' | exact H2|]. intros a Ha Hb. apply (Hd a); [right; exact Ha | exact Hb].
Qed.

Section Generic2.
  Variables (M Row Lbl Sim Out : Type).
  Variable apply_row : Row -> M -> M.
  Variable work : M -> Sim * M.
  Variable view : Sim -> M -> Out * M.

  Notation hget := (hget M).
  Notation entry := (entry Lbl Sim).
  Notation run_seq := (run_seq M Row Lbl Sim apply_row work).
  Notation view_all := (view_all M Lbl Sim Out view).
  Notation spec := (spec M Row Lbl Sim Out apply_row work view).
  Notation tri := (tri M Row Lbl Sim apply_row work).
  Notation tri_of := (tri_of M Lbl Sim).
  Notation import_b := (import_b M Lbl Sim).
  Notation shift := (shift Lbl Sim).

  (** ---- the index test ---- *)
  Section Dups.
    Variable lbl_eqb : Lbl -> Lbl -> bool.
    Hypothesis lbl_eqb_spec : forall a b, lbl_eqb a b = true <-> a = b.

    Lemma has_dup_false_NoDup : forall ls, has_dup Lbl lbl_eqb ls = false <-> NoDup ls.
    Proof.
      induction ls as [|l t IH]; cbn [has_dup].
      - split; [constructor | reflexivity].
      - rewrite orb_false_iff, IH. split.
        + intros [Hex Hnd]. constructor; [|exact Hnd]. intro Hin.
          assert (existsb (lbl_eqb l) t = true) as E by (apply existsb_exists; exists l; split; [exact Hin | apply lbl_eqb_spec; reflexivity]).
          congruence.
        + intros Hnd. inversion Hnd as [|? ? Hnotin Hnd']; subst. split; [|exact Hnd'].
          destruct (existsb (lbl_eqb l) t) eqn:E; [|reflexivity].
          apply existsb_exists in E. destruct E as [x [Hin Hx]]. apply lbl_eqb_spec in Hx. subst x. contradiction.
    Qed.

    (** with the test in front, a dict-keyed scan is TOTAL-ly right: tables with pairwise different
        labels give the specification, all others are refused -- never a table with rows missing *)
    Theorem scan_dict_checked_total copies md m0 rows :
      (md = Seq -> copies = true) -> mode_ok md (length rows) ->
      (NoDup (map fst rows) ->
         scan_dict_checked M Row Lbl Sim Out apply_row work view lbl_eqb true copies md m0 rows = Some (spec m0 rows)) /\
      (~ NoDup (map fst rows) ->
         scan_dict_checked M Row Lbl Sim Out apply_row work view lbl_eqb true copies md m0 rows = None).
    Proof.
      intros Hc Hok. unfold scan_dict_checked. cbn [andb]. split; intros Hnd.
      - rewrite (proj2 (has_dup_false_NoDup _) Hnd).
        rewrite (scan_dict_equals_independent M Row Lbl Sim Out apply_row work view lbl_eqb lbl_eqb_spec copies md m0 rows Hc Hok Hnd).
        reflexivity.
      - destruct (has_dup Lbl lbl_eqb (map fst rows)) eqn:E; [reflexivity|].
        exfalso. apply Hnd. apply has_dup_false_NoDup. exact E.
    Qed.

    Theorem scan_dict_checked_result refuse copies md m0 rows res :
      (md = Seq -> copies = true) -> mode_ok md (length rows) ->
      scan_dict_checked M Row Lbl Sim Out apply_row work view lbl_eqb refuse copies md m0 rows = Some res ->
      NoDup (map fst rows) -> res = spec m0 rows.
    Proof.
      intros Hc Hok H Hnd. unfold scan_dict_checked in H.
      rewrite (proj2 (has_dup_false_NoDup _) Hnd), andb_false_r in H. inversion H; subst.
      exact (scan_dict_equals_independent M Row Lbl Sim Out apply_row work view lbl_eqb lbl_eqb_spec copies md m0 rows Hc Hok Hnd).
    Qed.
  End Dups.

  (** ---- any partition into batches ---- *)
  Lemma pool_batches_flat (T R : Type) (f : T -> R) (batches : list (list T)) sched :
    (forall i, i < length batches -> In i (map fst sched)) ->
    concat (collect (pool_run sched (map f) batches)) = map f (concat batches).
  Proof.
    intros Hcov. rewrite pool_schedule_independent by exact Hcov. symmetry. apply concat_map.
  Qed.

  Lemma hget_app_r d (h l : list M) a : hget d (h ++ l) (length h + a) = hget d l a.
  Proof. unfold ScanGeneric.hget. rewrite app_nth2 by lia. f_equal. lia. Qed.

  (** views of separated entries, without assuming contiguous addresses *)
  Lemma views_of_tris_sep d m0 (es : list entry) h rows :
    NoDup (map e_addr es) -> (forall e, In e es -> e_addr e < length h) ->
    map (tri_of d h) es = map (tri m0) rows ->
    snd (view_all d h es) = spec m0 rows.
  Proof.
    intros Hnd Hlt Htri. rewrite (view_all_sep M Lbl Sim Out view d es h Hnd Hlt).
    unfold ScanGeneric.spec, ScanGeneric.independent.
    transitivity (map (fun t : Lbl * Sim * M => (fst (fst t), fst (view (snd (fst t)) (snd t)))) (map (tri_of d h) es)).
    - rewrite map_map. reflexivity.
    - rewrite Htri, map_map. reflexivity.
  Qed.

  Definition wf_msg (m : list M * list entry) : Prop :=
    NoDup (map e_addr (snd m)) /\ forall e, In e (snd m) -> e_addr e < length (fst m).

  Lemma import_b_spec d : forall (ms : list (list M * list entry)) h,
    (forall m, In m ms -> wf_msg m) ->
    length h <= length (fst (import_b h ms)) /\
    (forall j, j < length h -> hget d (fst (import_b h ms)) j = hget d h j) /\
    (forall e, In e (snd (import_b h ms)) -> length h <= e_addr e < length (fst (import_b h ms))) /\
    NoDup (map e_addr (snd (import_b h ms))) /\
    map (tri_of d (fst (import_b h ms))) (snd (import_b h ms))
      = concat (map (fun m => map (tri_of d (fst m)) (snd m)) ms).
  Proof.
    induction ms as [|[hb es] ms IH]; intros h Hwf.
    - cbn. split; [lia|]. split; [auto|]. split; [intros e []|]. split; [constructor | reflexivity].
    - cbn [ScanGeneric.import_b fst snd].
      assert (Hwf' : forall m, In m ms -> wf_msg m) by (intros m Hm; apply Hwf; right; exact Hm).
      destruct (Hwf (hb, es) (or_introl eq_refl)) as [Hnd Hlt]. cbn [fst snd] in Hnd, Hlt.
      destruct (IH (h ++ hb) Hwf') as (I1 & I2 & I3 & I4 & I5).
      rewrite app_length in I1, I3.
      assert (Hsh : forall e, In e es -> length h <= e_addr (shift (length h) e) < length h + length hb).
      { intros e He. cbn [ScanGeneric.shift e_addr]. specialize (Hlt e He). lia. }
      split; [|split; [|split; [|split]]].
      + lia.
      + intros j Hj. rewrite I2 by (rewrite app_length; lia). apply hget_app_l. exact Hj.
      + intros e H. apply in_app_or in H. destruct H as [H|H].
        * apply in_map_iff in H. destruct H as [e0 [<- He0]]. specialize (Hsh e0 He0). lia.
        * specialize (I3 e H). lia.
      + rewrite map_app. apply NoDup_app_intro.
        * rewrite map_map. cbn [ScanGeneric.shift e_addr].
          rewrite <- (map_map e_addr (fun a => length h + a)).
          apply Injective_map_NoDup; [|exact Hnd]. intros a b Hab. lia.
        * exact I4.
        * intros a Ha Hb. apply in_map_iff in Ha. destruct Ha as [e1 [<- He1]].
          apply in_map_iff in He1. destruct He1 as [e0 [<- He0]].
          apply in_map_iff in Hb. destruct Hb as [e2 [Heq He2]].
          specialize (Hsh e0 He0). specialize (I3 e2 He2). lia.
      + rewrite map_app. cbn [map concat fst snd]. f_equal; [|exact I5].
        rewrite map_map. apply map_ext_in. intros e He. unfold ScanProofs.tri_of. cbn [ScanGeneric.shift e_lbl e_sim e_addr].
        f_equal. rewrite I2 by (rewrite app_length; specialize (Hlt e He); lia). apply hget_app_r.
  Qed.

  Lemma remote_batch_wf m0 (b : list (Lbl * Row)) :
    wf_msg (remote_batch M Row Lbl Sim apply_row work true m0 b) /\
    map (tri_of m0 (fst (remote_batch M Row Lbl Sim apply_row work true m0 b)))
        (snd (remote_batch M Row Lbl Sim apply_row work true m0 b)) = map (tri m0) b.
  Proof.
    unfold remote_batch.
    destruct (run_seq_copies M Row Lbl Sim apply_row work m0 m0 b [m0] 0) as (H1 & _ & H3 & H4); [simpl; lia | reflexivity |].
    unfold ScanGeneric.heap in *.
    split; [split|].
    - cbn [snd]. rewrite H3. apply seq_NoDup.
    - intros e He. cbn [fst snd] in *. apply (in_map e_addr) in He.
      rewrite H3 in He. apply in_seq in He. rewrite H1. cbn [length] in *. lia.
    - exact H4.
  Qed.

  (** ANY partition of the rows into batches, ANY completion order of the batches: with one deep
      copy per task, the scan shows the independent runs of the rows in the order in which the
      batches list them *)
  Theorem scan_list_batched_spec sched m0 (batches : list (list (Lbl * Row))) :
    (forall i, i < length batches -> In i (map fst sched)) ->
    scan_list_batched M Row Lbl Sim Out apply_row work view true sched m0 batches = spec m0 (concat batches).
  Proof.
    intros Hcov. unfold scan_list_batched, run_batched.
    rewrite pool_schedule_independent by exact Hcov.
    set (ms := map (remote_batch M Row Lbl Sim apply_row work true m0) batches).
    assert (Hwf : forall m, In m ms -> wf_msg m).
    { intros m Hm. apply in_map_iff in Hm. destruct Hm as [b [<- _]]. apply remote_batch_wf. }
    destruct (import_b_spec m0 ms [m0] Hwf) as (_ & _ & I3 & I4 & I5).
    apply views_of_tris_sep.
    - exact I4.
    - intros e He. apply I3. exact He.
    - rewrite I5. unfold ms. rewrite map_map. rewrite concat_map. f_equal.
      apply map_ext. intros b. apply remote_batch_wf.
  Qed.

  Corollary scan_list_batched_order_preserving sched m0 rows (batches : list (list (Lbl * Row))) :
    concat batches = rows ->
    (forall i, i < length batches -> In i (map fst sched)) ->
    scan_list_batched M Row Lbl Sim Out apply_row work view true sched m0 batches = spec m0 rows.
  Proof. intros <- Hcov. apply scan_list_batched_spec. exact Hcov. Qed.
End Generic2.

(** the flattened pool result is aligned with the inputs for EVERY function exactly when the
    partition keeps the input order *)
Theorem batching_aligned_iff (T : Type) (tasks : list T) (batches : list (list T)) sched :
  (forall i, i < length batches -> In i (map fst sched)) ->
  ((forall (R : Type) (f : T -> R), concat (collect (pool_run sched (map f) batches)) = map f tasks)
   <-> concat batches = tasks).
Proof.
  intros Hcov. split.
  - intros H. specialize (H T (fun x => x)). rewrite (pool_batches_flat T T (fun x => x) batches sched Hcov) in H.
    rewrite !map_id in H. exact H.
  - intros <- R f. apply pool_batches_flat. exact Hcov.
Qed.

(** ---- the nested Monte-Carlo scan ---- *)
Section NestedProofs.
  Variables (M Row Lbl Lbl2 Sim Out : Type).
  Variable apply_row : Row -> M -> M.
  Variable work : M -> Sim * M.
  Variable view : Sim -> M -> Out * M.
  Variable lbl_eqb : Lbl -> Lbl -> bool.
  Hypothesis lbl_eqb_spec : forall a b, lbl_eqb a b = true <-> a = b.

  Theorem nested_scan_spec refuse md m0 (inner : list (Lbl2 * Row)) (rows : list (Lbl * Row)) :
    mode_ok md (length rows) -> NoDup (map fst rows) ->
    nested_scan M Row Lbl Lbl2 Sim Out apply_row work view lbl_eqb refuse true md m0 inner rows
    = Some (nested_spec M Row Lbl Lbl2 Sim Out apply_row work view m0 inner rows).
  Proof.
    intros Hok Hnd. unfold nested_scan, scan_dict_checked.
    rewrite (proj2 (has_dup_false_NoDup Lbl lbl_eqb lbl_eqb_spec _) Hnd), andb_false_r.
    f_equal.
    rewrite (scan_dict_equals_independent M Row Lbl _ _ apply_row _ _ lbl_eqb lbl_eqb_spec true md m0 rows (fun _ => eq_refl) Hok Hnd).
    unfold ScanGeneric.spec, nested_spec. apply map_ext. intros [l r]. cbn [fst snd]. f_equal.
    unfold ScanGeneric.independent at 1. unfold nested_work, nested_view. cbn [fst snd].
    exact (scan_seq_copies M Row Lbl2 Sim Out apply_row work view (apply_row r m0) inner).
  Qed.

  Theorem nested_scan_refuses md m0 (inner : list (Lbl2 * Row)) (rows : list (Lbl * Row)) :
    ~ NoDup (map fst rows) ->
    nested_scan M Row Lbl Lbl2 Sim Out apply_row work view lbl_eqb true true md m0 inner rows = None.
  Proof.
    intros Hnd. unfold nested_scan, scan_dict_checked. cbn [andb].
    destruct (has_dup Lbl lbl_eqb (map fst rows)) eqn:E; [reflexivity|].
    exfalso. apply Hnd. apply (has_dup_false_NoDup Lbl lbl_eqb lbl_eqb_spec). exact E.
  Qed.
End NestedProofs.

(** ---- every entry point ---- *)
Section EntryProofs.
  Variables (M Row Lbl Lbl2 Sim Out : Type).
  Variable apply_row : Row -> M -> M.
  Variable workers : wname -> M -> Sim * M.
  Variable view : Sim -> M -> Out * M.
  Variable lbl_eqb : Lbl -> Lbl -> bool.
  Hypothesis lbl_eqb_spec : forall a b, lbl_eqb a b = true <-> a = b.

  Theorem entry_point_spec (ep : entry_point) copies md m0 (inner : list (Lbl2 * Row)) (rows : list (Lbl * Row)) :
    (md = Seq -> copies = true) ->
    (ep_container ep = CDictOfScans -> copies = true) ->
    ep_mode_ok ep md (length rows) ->
    (ep_container ep = CList \/ NoDup (map fst rows)) ->
    entry_scan M Row Lbl Lbl2 Sim Out apply_row workers view lbl_eqb ep copies md m0 inner rows
    = entry_spec M Row Lbl Lbl2 Sim Out apply_row workers view ep m0 inner rows.
  Proof.
    intros Hc Hn [Hok _] Hd. unfold entry_scan, entry_spec. destruct (ep_container ep) eqn:E.
    - f_equal. apply scan_list_equals_independent; assumption.
    - destruct Hd as [Hd|Hd]; [discriminate|].
      unfold scan_dict_checked. rewrite (proj2 (has_dup_false_NoDup Lbl lbl_eqb lbl_eqb_spec _) Hd), andb_false_r.
      f_equal. apply scan_dict_equals_independent; assumption.
    - destruct Hd as [Hd|Hd]; [discriminate|]. rewrite (Hn eq_refl).
      rewrite (nested_scan_spec M Row Lbl Lbl2 Sim Out apply_row (workers WkSteadyState) view lbl_eqb lbl_eqb_spec _ md m0 inner rows Hok Hd).
      reflexivity.
  Qed.

  Theorem entry_point_refuses (ep : entry_point) copies md m0 (inner : list (Lbl2 * Row)) (rows : list (Lbl * Row)) :
    ep_container ep <> CList -> ep_checks_dups ep = true -> ~ NoDup (map fst rows) ->
    entry_scan M Row Lbl Lbl2 Sim Out apply_row workers view lbl_eqb ep copies md m0 inner rows = EpRefused.
  Proof.
    intros Hne Hch Hd. unfold entry_scan.
    assert (Hdup : has_dup Lbl lbl_eqb (map fst rows) = true).
    { destruct (has_dup Lbl lbl_eqb (map fst rows)) eqn:E; [reflexivity|].
      exfalso. apply Hd. apply (has_dup_false_NoDup Lbl lbl_eqb lbl_eqb_spec). exact E. }
    destruct (ep_container ep); [congruence| |].
    - unfold scan_dict_checked. rewrite Hch, Hdup. reflexivity.
    - unfold nested_scan, scan_dict_checked. rewrite Hch, Hdup. reflexivity.
  Qed.
End EntryProofs.

(** ---- protocol-time-course axes ---- *)
Local Open Scope Z_scope.
Section PtcProofs.
  Variable full : list Z.
  Hypothesis full_sorted : StronglySorted Z.le full.

  Fixpoint chain (t : Z) (ends : list Z) : Prop :=
    match ends with [] => True | e :: r => t <= e /\ chain e r end.

  Lemma last_nonempty_default : forall (l : list Z) x d e, last (x :: l) d = last (x :: l) e.
  Proof. induction l as [|y l IH]; intros x d e; [reflexivity|]. exact (IH y d e). Qed.

  Lemma last_cons_default (e : Z) r d : last (e :: r) d = last r e.
  Proof. destruct r as [|x r]; [reflexivity|]. exact (last_nonempty_default r x d e). Qed.

  Lemma chain_le_last : forall ends t, chain t ends -> t <= last ends t.
  Proof.
    induction ends as [|e r IH]; intros t Hc; [cbn; lia|].
    destruct Hc as [Hte Hc]. rewrite last_cons_default. specialize (IH e Hc). lia.
  Qed.

  Lemma filter_above_empty : forall (l : list Z) a b x,
    StronglySorted Z.le (x :: l) -> b < x -> filter (in_step a b) l = [].
  Proof.
    intros l a b x Hs Hbx. apply StronglySorted_inv in Hs. destruct Hs as [_ Hall].
    induction l as [|y t IH]; [reflexivity|]. inversion Hall as [|? ? Hxy Hall']; subst.
    cbn [filter]. unfold in_step at 1. assert (Z.leb y b = false) as -> by (apply Z.leb_gt; lia).
    rewrite andb_false_r. apply IH. exact Hall'.
  Qed.

  Lemma in_step_true a b x : in_step a b x = true -> a < x <= b.
  Proof. unfold in_step. intros H. apply andb_true_iff in H. destruct H as [H1 H2]. apply Z.ltb_lt in H1. apply Z.leb_le in H2. lia. Qed.
  Lemma in_step_false a b x : in_step a b x = false -> x <= a \/ b < x.
  Proof. unfold in_step. intros H. apply andb_false_iff in H. destruct H as [H|H]; [apply Z.ltb_ge in H | apply Z.leb_gt in H]; lia. Qed.

  Lemma filter_split : forall (l : list Z) a b c, StronglySorted Z.le l -> a <= b -> b <= c ->
    filter (in_step a c) l = filter (in_step a b) l ++ filter (in_step b c) l.
  Proof.
    induction l as [|x t IH]; intros a b c Hs Hab Hbc; [reflexivity|].
    pose proof (StronglySorted_inv Hs) as [Hs' _].
    cbn [filter]. rewrite (IH a b c Hs' Hab Hbc).
    destruct (in_step a c x) eqn:E1, (in_step a b x) eqn:E2, (in_step b c x) eqn:E3;
      try (apply in_step_true in E1); try (apply in_step_false in E1);
      try (apply in_step_true in E2); try (apply in_step_false in E2);
      try (apply in_step_true in E3); try (apply in_step_false in E3);
      try lia; try reflexivity.
    (* b < x <= c: nothing of the tail lies in (a, b] *)
    assert (Hbx : b < x) by lia.
    rewrite (filter_above_empty t a b x Hs Hbx). reflexivity.
  Qed.

  Lemma filter_empty_interval (l : list Z) a : filter (in_step a a) l = [].
  Proof.
    induction l as [|x t IH]; [reflexivity|]. cbn [filter]. unfold in_step at 1.
    destruct (Z.ltb a x) eqn:E1, (Z.leb x a) eqn:E2; cbn [andb]; try exact IH.
    apply Z.ltb_lt in E1. apply Z.leb_le in E2. lia.
  Qed.

  Lemma ptc_from_false : forall ends t0, chain t0 ends ->
    ptc_success_from full false t0 ends = filter (in_step t0 (last ends t0)) full.
  Proof.
    induction ends as [|e r IH]; intros t0 Hc.
    - cbn. symmetry. apply filter_empty_interval.
    - destruct Hc as [Hte Hc]. cbn [ptc_success_from tl]. rewrite (IH e Hc), last_cons_default.
      symmetry. apply filter_split; [exact full_sorted | exact Hte | apply chain_le_last; exact Hc].
  Qed.

  (** the repaired placeholder axis IS the axis of a successful protocol-time-course run *)
  Theorem ptc_placeholder_axis_ok (ends tps : list Z) :
    ends <> [] -> chain 0 ends ->
    ptc_placeholder_axis full PtcJoined ends tps = ptc_success_axis full ends.
  Proof.
    intros Hne Hc. destruct ends as [|e r]; [congruence|]. destruct Hc as [H0e Hc].
    unfold ptc_placeholder_axis, ptc_success_axis. cbn [ptc_success_from].
    rewrite (ptc_from_false r e Hc), last_cons_default. cbn [app]. f_equal.
    apply filter_split; [exact full_sorted | exact H0e | apply chain_le_last; exact Hc].
  Qed.
End PtcProofs.

(** the requested points as axis: protocol with steps ending at 2 and 4, requested points 1, 3, 5 --
    a successful run reports t = 0,1,2,3,4, the placeholder t = 1,3,5 *)
Lemma ptc_requested_axis_wrong :
  let full := [1; 2; 3; 4; 5] in
  ptc_success_axis full [2; 4] = [0; 1; 2; 3; 4] /\
  ptc_placeholder_axis full PtcRequested [2; 4] [1; 3; 5] = [1; 3; 5] /\
  ptc_placeholder_axis full PtcJoined [2; 4] [1; 3; 5] = [0; 1; 2; 3; 4].
Proof. cbv zeta. repeat split; vm_compute; reflexivity. Qed.

(** ---- regression witnesses on the concrete instance ---- *)
Definition scan_list_batched_c (copies : bool) (ax : tc_axis) (w : wkind) sched m0 batches :=
  scan_list_batched mdl row label sim out apply_row (work ax w) view copies sched m0 batches.

(** seeded change C09-1: rows dealt round-robin into 2 batches, batch results concatenated: the
    second and third row change places (fluxes 1,3,2 under the labels 0,2,1) *)
Lemma round_robin_misaligned :
  deal 2 stale_rows = [[(0, [(10%N, 1)]); (2, [(10%N, 3)])]; [(1, [(10%N, 2)])]] /\
  forall ax, map first_flux (scan_list_batched_c true ax (WTimeCourse [0; 1]) [(1, 0); (0, 1)]%nat stale_model (deal 2 stale_rows))
             = [Some (Num 1); Some (Num 3); Some (Num 2)].
Proof. split; [reflexivity|]. intros ax. vm_compute. reflexivity. Qed.

(** a batch runs in one process: without the per-task deep copy its rows share one model object,
    and the sharing survives the pickling of the batch result -- 3,3,3 in PARALLEL mode as well *)
Lemma batched_without_copy_stale :
  forall ax, map first_flux (scan_list_batched_c false ax (WTimeCourse [0; 1]) [(0, 0)]%nat stale_model [stale_rows])
             = [Some (Num 3); Some (Num 3); Some (Num 3)]
  /\ map first_flux (scan_list_batched_c true ax (WTimeCourse [0; 1]) [(0, 0)]%nat stale_model [stale_rows])
             = [Some (Num 1); Some (Num 2); Some (Num 3)].
Proof. intros ax. split; vm_compute; reflexivity. Qed.

(** the dict-keyed entry points at the regenerated facts *)
Theorem dict_checked_refusing f : sf_copies f = true -> sf_dups f = DupRefuse ->
  forall w md m0 rows, mode_ok md (length rows) ->
    (NoDup (map fst rows) -> scan_dict_checked_c f w md m0 rows = Some (spec_c (sf_tc_axis f) w m0 rows)) /\
    (~ NoDup (map fst rows) -> scan_dict_checked_c f w md m0 rows = None).
Proof.
  intros Hc Hd w md m0 rows Hok. unfold scan_dict_checked_c. rewrite Hd. cbn [refuses].
  exact (scan_dict_checked_total mdl row label sim out apply_row (work (sf_tc_axis f) w) view Z.eqb Z.eqb_eq
           (sf_copies f) md m0 rows (fun _ => Hc) Hok).
Qed.

Theorem dict_collapsing_loses_rows f : sf_copies f = true -> sf_dups f = DupCollapse ->
  exists w m0 rows, forall md, mode_ok md (length rows) ->
    exists t, scan_dict_checked_c f w md m0 rows = Some t /\ length t <> length rows.
Proof.
  intros Hc Hd. exists (WTimeCourse [0; 1]), stale_model, [(5, [(10%N, 1)]); (7, [(10%N, 2)]); (5, [(10%N, 3)])].
  intros md Hok. unfold scan_dict_checked_c, scan_dict_checked. rewrite Hd. cbn [refuses andb].
  eexists. split; [reflexivity|].
  change (length (scan_dict_c f (WTimeCourse [0; 1]) md stale_model [(5, [(10%N, 1)]); (7, [(10%N, 2)]); (5, [(10%N, 3)])]) <> 3%nat).
  rewrite (duplicate_labels_lose_rows f md (fun _ => Hc) Hok). discriminate.
Qed.
