(** C09 -- proofs, third part: the [y0] argument, the label-indexed list container, the result cache. *)
From Coq Require Import List Arith Lia Bool ZArith NArith.
From MxlBase Require Import ListX.
From Scan Require Import ScanGeneric ScanModel ScanNested ScanY0 ScanProofs ScanProofs2.
Import ListNotations.

(** ---- y0, generic ---- *)
Section Y0Proofs.
  Variables (M Row Lbl Sim Out Y0 : Type).
  Variable apply_row : Row -> M -> M.
  Variable apply_y0 : Y0 -> M -> M.
  Variable work : option Y0 -> M -> Sim * M.
  Variable view : Sim -> M -> Out * M.
  Variable lbl_eqb : Lbl -> Lbl -> bool.
  Hypothesis lbl_eqb_spec : forall a b, lbl_eqb a b = true <-> a = b.

  Notation spec_y0 := (spec_y0 M Row Lbl Sim Out Y0 apply_row apply_y0 work view).

  (** y0 written into the model before fanning out: every row is the separate run on a fresh copy of
      the model with y0 and then the row's values -- for every y0 (also none), list container *)
  Theorem scan_list_y0_into_model copies md m0 oy0 (rows : list (Lbl * Row)) :
    (md = Seq -> copies = true) -> mode_ok md (length rows) ->
    scan_list_y0 M Row Lbl Sim Out Y0 apply_row apply_y0 work view Y0IntoModel copies md m0 oy0 rows = spec_y0 m0 oy0 rows.
  Proof.
    intros Hc Hok. unfold scan_list_y0, ScanY0.spec_y0. apply scan_list_equals_independent; assumption.
  Qed.

  (** ... dict-keyed containers behind the index test: total *)
  Theorem scan_dict_y0_into_model_total copies md m0 oy0 (rows : list (Lbl * Row)) :
    (md = Seq -> copies = true) -> mode_ok md (length rows) ->
    (NoDup (map fst rows) ->
       scan_dict_y0 M Row Lbl Sim Out Y0 apply_row apply_y0 work view lbl_eqb Y0IntoModel true copies md m0 oy0 rows
       = Some (spec_y0 m0 oy0 rows)) /\
    (~ NoDup (map fst rows) ->
       scan_dict_y0 M Row Lbl Sim Out Y0 apply_row apply_y0 work view lbl_eqb Y0IntoModel true copies md m0 oy0 rows = None).
  Proof.
    intros Hc Hok. unfold scan_dict_y0, ScanY0.spec_y0.
    exact (scan_dict_checked_total M Row Lbl Sim Out apply_row (work None) view lbl_eqb lbl_eqb_spec copies md
             (with_y0 M Y0 apply_y0 oy0 m0) rows Hc Hok).
  Qed.

  (** y0 handed to the worker instead: what comes back is the run of the worker WITH y0 on the model
      WITHOUT y0 plus the row -- the specification only if that happens to be the same *)
  Theorem scan_list_y0_to_worker copies md m0 oy0 (rows : list (Lbl * Row)) :
    (md = Seq -> copies = true) -> mode_ok md (length rows) ->
    scan_list_y0 M Row Lbl Sim Out Y0 apply_row apply_y0 work view Y0ToWorker copies md m0 oy0 rows
    = spec M Row Lbl Sim Out apply_row (work oy0) view m0 rows.
  Proof. intros Hc Hok. unfold scan_list_y0. apply scan_list_equals_independent; assumption. Qed.

  (** without y0 both shapes are the plain scan *)
  Theorem scan_list_y0_none p copies md m0 (rows : list (Lbl * Row)) :
    scan_list_y0 M Row Lbl Sim Out Y0 apply_row apply_y0 work view p copies md m0 None rows
    = scan_list M Row Lbl Sim Out apply_row (work None) view copies md m0 rows.
  Proof. destruct p; reflexivity. Qed.

  (** ---- the list container filled by label ---- *)
  Notation entry := (entry Lbl Sim).
  Notation by_label := (by_label Lbl Sim lbl_eqb).

  Lemma find_app_none {A} (p : A -> bool) (pre l : list A) :
    (forall x, In x pre -> p x = false) -> find p (pre ++ l) = find p l.
  Proof.
    induction pre as [|x pre IH]; intros H; cbn; [reflexivity|].
    rewrite (H x (or_introl eq_refl)). apply IH. intros y Hy. apply H. right. exact Hy.
  Qed.

  Lemma by_label_self : forall (es pre : list entry),
    NoDup (map e_lbl (pre ++ es)) -> flat_map (by_label (pre ++ es)) (map e_lbl es) = es.
  Proof.
    induction es as [|e es IH]; intros pre Hnd; cbn [map flat_map]; [reflexivity|].
    assert (Hfind : by_label (pre ++ e :: es) (e_lbl e) = [e]).
    { unfold ScanY0.by_label. rewrite find_app_none.
      - cbn [find]. rewrite (proj2 (lbl_eqb_spec (e_lbl e) (e_lbl e)) eq_refl). reflexivity.
      - intros x Hx. destruct (lbl_eqb (e_lbl x) (e_lbl e)) eqn:E; [|reflexivity].
        apply lbl_eqb_spec in E. exfalso.
        rewrite map_app in Hnd. cbn [map] in Hnd. apply NoDup_remove_2 in Hnd. apply Hnd.
        apply in_or_app. left. rewrite <- E. apply in_map. exact Hx. }
    rewrite Hfind. cbn [app]. f_equal.
    replace (pre ++ e :: es) with ((pre ++ [e]) ++ es) by (rewrite <- app_assoc; reflexivity).
    apply IH. rewrite <- app_assoc. exact Hnd.
  Qed.

  (** for pairwise different labels the label-indexed list is the positional one *)
  Theorem scan_list_by_label_NoDup (work1 : M -> Sim * M) copies md m0 (rows : list (Lbl * Row)) :
    (md = Seq -> copies = true) -> mode_ok md (length rows) -> NoDup (map fst rows) ->
    scan_list_by_label M Row Lbl Sim Out apply_row view lbl_eqb work1 copies md m0 rows
    = spec M Row Lbl Sim Out apply_row work1 view m0 rows.
  Proof.
    intros Hc Hok Hnd. unfold scan_list_by_label.
    pose proof (run_labels M Row Lbl Sim apply_row work1 copies md m0 rows Hc Hok) as Hl.
    rewrite (dict_of_NoDup Lbl Sim lbl_eqb lbl_eqb_spec) by (rewrite Hl; exact Hnd).
    rewrite <- Hl.
    pose proof (by_label_self (snd (run M Row Lbl Sim apply_row work1 copies md m0 rows)) []) as Hs. cbn [app] in Hs.
    rewrite Hs by (rewrite Hl; exact Hnd).
    exact (scan_list_equals_independent M Row Lbl Sim Out apply_row work1 view copies md m0 rows Hc Hok).
  Qed.
End Y0Proofs.

(** ---- the result cache ---- *)
Section CacheProofs.
  Variables (K T R : Type).
  Variable keqb : K -> K -> bool.
  Hypothesis keqb_spec : forall a b, keqb a b = true <-> a = b.

  Notation slookup := (slookup K R keqb).
  Notation load_or_run := (load_or_run K T R keqb).
  Notation run_cached := (run_cached K T R keqb).
  Notation saved := (saved K T R).

  Lemma keqb_refl k : keqb k k = true.
  Proof. apply keqb_spec. reflexivity. Qed.

  Lemma keqb_neq a b : a <> b -> keqb a b = false.
  Proof. intros H. destruct (keqb a b) eqn:E; [|reflexivity]. apply keqb_spec in E. contradiction. Qed.

  Lemma slookup_app k (a b : list (K * R)) :
    slookup k (a ++ b) = match slookup k a with Some r => Some r | None => slookup k b end.
  Proof.
    induction a as [|[k' r] a IH]; cbn; [reflexivity|]. destruct (keqb k k'); [reflexivity | exact IH].
  Qed.

  Lemma slookup_in k (st : list (K * R)) r : slookup k st = Some r -> In (k, r) st.
  Proof.
    induction st as [|[k' r'] st IH]; cbn; [discriminate|].
    destruct (keqb k k') eqn:E.
    - intros H. inversion H; subst. apply keqb_spec in E. subst. left. reflexivity.
    - intros H. right. apply IH. exact H.
  Qed.

  Lemma slookup_notin k (st : list (K * R)) : ~ In k (map fst st) -> slookup k st = None.
  Proof.
    induction st as [|[k' r'] st IH]; cbn; [reflexivity|]. intros H.
    rewrite keqb_neq by (intro E; apply H; left; symmetry; exact E). apply IH. intro Hin. apply H. right. exact Hin.
  Qed.

  Lemma NoDup_fst_functional {A B} (l : list (A * B)) a b1 b2 :
    NoDup (map fst l) -> In (a, b1) l -> In (a, b2) l -> b1 = b2.
  Proof.
    induction l as [|[a' b'] l IH]; cbn; intros Hnd H1 H2; [contradiction|].
    inversion Hnd as [|? ? Hni Hnd']; subst.
    destruct H1 as [H1|H1], H2 as [H2|H2].
    - congruence.
    - inversion H1; subst. exfalso. apply Hni. change a with (fst (a, b2)). apply in_map. exact H2.
    - inversion H2; subst. exfalso. apply Hni. change a with (fst (a, b1)). apply in_map. exact H1.
    - apply IH; assumption.
  Qed.

  (** sequential run, pairwise different keys, none of them on disk: the cache is transparent *)
  Theorem cache_seq_transparent (f : T -> R) : forall (inputs : list (K * T)) (st : list (K * R)),
    NoDup (map fst inputs) -> (forall k, In k (map fst inputs) -> slookup k st = None) ->
    snd (run_cached f st inputs) = map (fun kt => (fst kt, f (snd kt))) inputs.
  Proof.
    induction inputs as [|[k t] rest IH]; intros st Hnd Hfresh; cbn [ScanY0.run_cached map snd fst]; [reflexivity|].
    unfold ScanY0.load_or_run at 1 2. cbn [fst snd]. rewrite (Hfresh k (or_introl eq_refl)). cbn [fst snd].
    f_equal. inversion Hnd as [|? ? Hni Hnd']; subst. apply IH; [exact Hnd'|].
    intros k' Hk'. rewrite slookup_app, (Hfresh k' (or_intror Hk')). cbn.
    rewrite keqb_neq; [reflexivity|]. intro E. subst k'. exact (Hni Hk').
  Qed.

  (** any interleaving of processes: whatever part [done] of the table's results is already on disk at
      the instant a row's call looks (rows worked off by other processes, by an earlier interrupted or
      complete run), a row of a table with pairwise different keys gets ITS result *)
  Theorem cache_any_interleaving (f : T -> R) (st0 : list (K * R)) (inputs done : list (K * T)) k t :
    NoDup (map fst inputs) -> (forall k, In k (map fst inputs) -> slookup k st0 = None) ->
    incl done inputs -> In (k, t) inputs ->
    snd (load_or_run f (st0 ++ saved f done) (k, t)) = (k, f t).
  Proof.
    intros Hnd Hfresh Hincl Hin. unfold ScanY0.load_or_run. cbn [fst snd].
    destruct (slookup k (st0 ++ saved f done)) as [r|] eqn:E; cbn [snd]; [|reflexivity].
    rewrite slookup_app in E.
    rewrite (Hfresh k) in E by (change k with (fst (k, t)); apply in_map; exact Hin).
    apply slookup_in in E. unfold ScanY0.saved in E. apply in_map_iff in E. destruct E as [[k' t'] [E Hd]].
    cbn [fst snd] in E. inversion E; subst k' r.
    rewrite (NoDup_fst_functional inputs k t' t Hnd (Hincl _ Hd) Hin). reflexivity.
  Qed.

  (** the characterisation for ANY table: from an empty cache directory every row gets the result of
      the FIRST row that carries its key *)
  Fixpoint first_with (k : K) (inputs : list (K * T)) : option T :=
    match inputs with
    | [] => None
    | (k', t) :: rest => if keqb k k' then Some t else first_with k rest
    end.

  Lemma first_with_app k (a b : list (K * T)) :
    first_with k (a ++ b) = match first_with k a with Some t => Some t | None => first_with k b end.
  Proof.
    induction a as [|[k' t] a IH]; cbn; [reflexivity|]. destruct (keqb k k'); [reflexivity | exact IH].
  Qed.

  Lemma cache_first_wins_gen (f : T -> R) : forall (rest pre : list (K * T)) (st : list (K * R)),
    (forall k, slookup k st = option_map f (first_with k pre)) ->
    snd (run_cached f st rest)
    = map (fun kt => (fst kt, match first_with (fst kt) (pre ++ rest) with Some t => f t | None => f (snd kt) end)) rest.
  Proof.
    induction rest as [|[k t] rest IH]; intros pre st Hinv; cbn [ScanY0.run_cached map snd fst]; [reflexivity|].
    replace (pre ++ (k, t) :: rest) with ((pre ++ [(k, t)]) ++ rest) by (rewrite <- app_assoc; reflexivity).
    unfold ScanY0.load_or_run at 1 2. cbn [fst snd]. rewrite (Hinv k).
    destruct (first_with k pre) as [t0|] eqn:E0; cbn [option_map fst snd].
    - f_equal.
      + rewrite !first_with_app, E0. reflexivity.
      + apply IH. intros k'. rewrite first_with_app, (Hinv k').
        destruct (first_with k' pre) as [t1|] eqn:E1; [reflexivity|]. cbn [first_with option_map].
        rewrite keqb_neq; [reflexivity|]. intro E. subst k'. congruence.
    - f_equal.
      + rewrite !first_with_app, E0. cbn [first_with]. rewrite keqb_refl. reflexivity.
      + apply IH. intros k'. rewrite slookup_app, first_with_app, (Hinv k').
        destruct (first_with k' pre) as [t1|]; [reflexivity|]. cbn [option_map first_with ScanY0.slookup].
        destruct (keqb k' k); reflexivity.
  Qed.

  Theorem cache_seq_first_wins (f : T -> R) (inputs : list (K * T)) :
    snd (run_cached f [] inputs)
    = map (fun kt => (fst kt, match first_with (fst kt) inputs with Some t => f t | None => f (snd kt) end)) inputs.
  Proof. exact (cache_first_wins_gen f inputs [] [] (fun _ => eq_refl)). Qed.

  (** two rows under one label: the second is answered with the first row's result *)
  Theorem cache_duplicate_key (f : T -> R) k t1 t2 :
    snd (run_cached f [] [(k, t1); (k, t2)]) = [(k, f t1); (k, f t1)].
  Proof. rewrite cache_seq_first_wins. cbn [map fst snd first_with]. rewrite keqb_refl. reflexivity. Qed.

  (** with the index test in front of a cached run: total *)
  Theorem cache_checked_total (f : T -> R) (st : list (K * R)) (inputs : list (K * T)) :
    (forall k, In k (map fst inputs) -> slookup k st = None) ->
    (NoDup (map fst inputs) ->
       run_cached_checked K T R keqb true f st inputs = Some (map (fun kt => (fst kt, f (snd kt))) inputs)) /\
    (~ NoDup (map fst inputs) -> run_cached_checked K T R keqb true f st inputs = None).
  Proof.
    intros Hfresh. unfold run_cached_checked. cbn [andb]. split; intros Hnd.
    - rewrite (proj2 (has_dup_false_NoDup K keqb keqb_spec _) Hnd).
      rewrite (cache_seq_transparent f inputs st Hnd Hfresh). reflexivity.
    - destruct (has_dup K keqb (map fst inputs)) eqn:E; [reflexivity|].
      exfalso. apply Hnd. apply (has_dup_false_NoDup K keqb keqb_spec). exact E.
  Qed.
End CacheProofs.

(** ------------------------------------------------------------------------------------------ *)
(** the concrete instance *)
Local Open Scope Z_scope.

(** model: x' = -(p * k) with p assigned from the initial value of x (stale_model, ScanProofs.v) *)
Definition dup_rows : list (label * row) := [(0, [(10%N, 1)]); (1, [(10%N, 2)]); (0, [(10%N, 3)])].

(** the positional list container does not care about equal labels ... *)
Lemma positional_list_ignores_labels (f : scan_facts) :
  sf_copies f = true ->
  map first_flux (scan_list_c f (WTimeCourse [0; 1]) Seq stale_model dup_rows) = [Some (Num 1); Some (Num 2); Some (Num 3)]
  /\ map first_flux (scan_list_c f (WTimeCourse [0; 1]) (Par 2 [(2, 1); (0, 0); (1, 1)])%nat stale_model dup_rows)
     = [Some (Num 1); Some (Num 2); Some (Num 3)]
  /\ map fst (scan_list_c f (WTimeCourse [0; 1]) Seq stale_model dup_rows) = [0; 1; 0].
Proof.
  intros Hf. unfold scan_list_c. rewrite Hf. repeat split; vm_compute; reflexivity.
Qed.

(** ... the label-indexed one reports the first row with the numbers of the third (right length,
    right labels, wrong numbers) -- seeded change C09-6 *)
Lemma by_label_misreports (f : scan_facts) :
  sf_copies f = true ->
  map first_flux (scan_list_by_label_c f (WTimeCourse [0; 1]) Seq stale_model dup_rows) = [Some (Num 3); Some (Num 2); Some (Num 3)]
  /\ map first_flux (scan_list_by_label_c f (WTimeCourse [0; 1]) (Par 2 [(2, 1); (0, 0); (1, 1)])%nat stale_model dup_rows)
     = [Some (Num 3); Some (Num 2); Some (Num 3)]
  /\ map fst (scan_list_by_label_c f (WTimeCourse [0; 1]) Seq stale_model dup_rows) = [0; 1; 0].
Proof.
  intros Hf. unfold scan_list_by_label_c. rewrite Hf. repeat split; vm_compute; reflexivity.
Qed.

Theorem by_label_NoDup_c f w md m0 rows :
  (md = Seq -> sf_copies f = true) -> mode_ok md (length rows) -> NoDup (map fst rows) ->
  scan_list_by_label_c f w md m0 rows = spec_c (sf_tc_axis f) w m0 rows.
Proof.
  intros Hc Hok Hnd. unfold scan_list_by_label_c, spec_c, independent_c.
  exact (scan_list_by_label_NoDup mdl row label sim out apply_row view Z.eqb Z.eqb_eq (work (sf_tc_axis f) w)
           (sf_copies f) md m0 rows Hc Hok Hnd).
Qed.

(** ---- y0 in the concrete model ---- *)
(** a model whose consumption capacity is assigned from the INITIAL amount:
    x (10) = 10, k (20) = 1, cap (21) := x ; flux v = cap * k, x' = -v *)
Definition y0_model : mdl :=
  mkM [(10%N, Plain 10)] [(20%N, Plain 1); (21%N, IA 0%N [10%N])] [] [mkR 40%N 3%N [21%N; 20%N] [(10%N, -1)]].
(** table with an initial-value column that y0 also names / a parameter-only table *)
Definition y0_rows_overlap : list (label * row) := [(0, [(10%N, 1)]); (1, [(10%N, 2)]); (2, [(10%N, 4)])].
Definition y0_rows_par : list (label * row) := [(0, [(20%N, 1)]); (1, [(20%N, 2)]); (2, [(20%N, 3)])].

Definition first_var (lo : label * out) : option val :=
  match snd lo with
  | OOk ((_, v :: _, _) :: _) => Some v
  | _ => None
  end.

(** y0 = {x: 5}.  Written into the model first (the tree): a row's own x wins (x(0) = 1, 2, 4; fluxes
    1, 2, 4), and with a parameter-only table the assignment sees y0 (x(0) = 5, fluxes 5, 10, 15).
    Handed to the worker (seeded change C09-4): every row starts at x = 5 whatever its own value,
    and the assignment is computed from the row's / the old value: fluxes 1, 2, 4 at x(0) = 5, and
    10, 20, 30 for the parameter-only table. *)
Lemma y0_policies_differ (f : scan_facts) :
  sf_copies f = true ->
  let w := WTimeCourse [0; 1] in
  let y := Some [(10%N, 5)] in
  (map first_var (scan_list_y0_c Y0IntoModel f w Seq y0_model y y0_rows_overlap) = [Some (Num 1); Some (Num 2); Some (Num 4)] /\
   map first_var (scan_list_y0_c Y0ToWorker f w Seq y0_model y y0_rows_overlap) = [Some (Num 5); Some (Num 5); Some (Num 5)] /\
   map first_var (spec_y0_c (sf_tc_axis f) w y0_model y y0_rows_overlap) = [Some (Num 1); Some (Num 2); Some (Num 4)]) /\
  (map first_flux (scan_list_y0_c Y0IntoModel f w Seq y0_model y y0_rows_par) = [Some (Num 5); Some (Num 10); Some (Num 15)] /\
   map first_flux (scan_list_y0_c Y0ToWorker f w Seq y0_model y y0_rows_par) = [Some (Num 10); Some (Num 20); Some (Num 30)] /\
   map first_flux (spec_y0_c (sf_tc_axis f) w y0_model y y0_rows_par) = [Some (Num 5); Some (Num 10); Some (Num 15)]).
Proof.
  intros Hf w y. unfold scan_list_y0_c, spec_y0_c. rewrite Hf. repeat split; vm_compute; reflexivity.
Qed.

(** the executable instance with y0, for any facts with the deep copy *)
Theorem list_scan_y0_c f w md m0 oy0 rows :
  sf_copies f = true -> mode_ok md (length rows) ->
  scan_list_y0_c Y0IntoModel f w md m0 oy0 rows = spec_y0_c (sf_tc_axis f) w m0 oy0 rows.
Proof.
  intros Hc Hok. unfold scan_list_y0_c, spec_y0_c.
  exact (scan_list_y0_into_model mdl row label sim out y0 apply_row apply_y0_c (work_y0 (sf_tc_axis f) w) view
           (sf_copies f) md m0 oy0 rows (fun _ => Hc) Hok).
Qed.

Theorem dict_scan_y0_c f w md m0 oy0 rows :
  sf_copies f = true -> sf_dups f = DupRefuse -> mode_ok md (length rows) ->
  (NoDup (map fst rows) -> scan_dict_y0_c Y0IntoModel f w md m0 oy0 rows = Some (spec_y0_c (sf_tc_axis f) w m0 oy0 rows)) /\
  (~ NoDup (map fst rows) -> scan_dict_y0_c Y0IntoModel f w md m0 oy0 rows = None).
Proof.
  intros Hc Hd Hok. unfold scan_dict_y0_c, spec_y0_c. rewrite Hd. cbn [refuses].
  exact (scan_dict_y0_into_model_total mdl row label sim out y0 apply_row apply_y0_c (work_y0 (sf_tc_axis f) w) view Z.eqb Z.eqb_eq
           (sf_copies f) md m0 oy0 rows (fun _ => Hc) Hok).
Qed.

(** ---- the order of the writes: y0 first, the row on top ---- *)
Fixpoint last_of (k : name) (r : list (name * Z)) : option Z :=
  match r with
  | [] => None
  | (k', v) :: t => match last_of k t with
                    | Some v' => Some v'
                    | None => if N.eqb k k' then Some v else None
                    end
  end.

Lemma lookup_set_plain_same l k v :
  lookup k (set_plain l k v) = match lookup k l with Some _ => Some (Plain v) | None => None end.
Proof.
  induction l as [|[k' x] l IH]; cbn [set_plain lookup]; [reflexivity|].
  destruct (N.eqb k k') eqn:E; cbn [lookup]; rewrite E; [reflexivity | exact IH].
Qed.

Lemma lookup_set_plain_other l k k' v : N.eqb k k' = false -> lookup k (set_plain l k' v) = lookup k l.
Proof.
  intros Hne. induction l as [|[k2 x] l IH]; cbn [set_plain lookup]; [reflexivity|].
  destruct (N.eqb k' k2) eqn:E; cbn [lookup].
  - apply N.eqb_eq in E. subst k2. rewrite Hne. reflexivity.
  - destruct (N.eqb k k2); [reflexivity | exact IH].
Qed.

Definition set_all (l : list (name * valia)) (p : list (name * Z)) : list (name * valia) :=
  fold_left (fun l kv => set_plain l (fst kv) (snd kv)) p l.

Lemma lookup_set_all k : forall p l,
  lookup k (set_all l p) = match lookup k l with
                           | None => None
                           | Some x => match last_of k p with Some v => Some (Plain v) | None => Some x end
                           end.
Proof.
  induction p as [|[k' v] p IH]; intros l; cbn [set_all fold_left last_of fst snd].
  - destruct (lookup k l); reflexivity.
  - fold (set_all (set_plain l k' v) p). rewrite IH.
    destruct (N.eqb k k') eqn:E.
    + apply N.eqb_eq in E. subst k'. rewrite lookup_set_plain_same.
      destruct (lookup k l); [|reflexivity]. destruct (last_of k p); reflexivity.
    + rewrite (lookup_set_plain_other l k k' v E). destruct (lookup k l); [|reflexivity].
      destruct (last_of k p); reflexivity.
Qed.

Lemma update_variables_vars : forall p m, m_vars (update_variables m p) = set_all (m_vars m) p /\ m_pars (update_variables m p) = m_pars m.
Proof.
  unfold update_variables, set_all. induction p as [|kv p IH]; intros m; cbn [fold_left]; [split; reflexivity|].
  destruct (IH (mkM (set_plain (m_vars m) (fst kv) (snd kv)) (m_pars m) (m_der m) (m_rxn m))) as [H1 H2].
  rewrite H1, H2. split; reflexivity.
Qed.

Lemma update_parameters_vars : forall p m, m_vars (update_parameters m p) = m_vars m.
Proof.
  unfold update_parameters. induction p as [|kv p IH]; intros m; cbn [fold_left]; [reflexivity|].
  rewrite IH. reflexivity.
Qed.

Lemma has_key_lookup {A} k (l : list (name * A)) : has_key k l = match lookup k l with Some _ => true | None => false end.
Proof.
  unfold has_key. induction l as [|[k' x] l IH]; cbn [existsb lookup fst]; [reflexivity|].
  destruct (N.eqb k k'); [reflexivity | exact IH].
Qed.

Lemma last_of_filter k (p : name -> bool) : p k = true -> forall r, last_of k (filter (fun kv => p (fst kv)) r) = last_of k r.
Proof.
  intros Hp. induction r as [|[k' v] r IH]; cbn [filter last_of fst]; [reflexivity|].
  destruct (p k') eqn:E; cbn [last_of]; rewrite IH; [reflexivity|].
  destruct (last_of k r); [reflexivity|]. destruct (N.eqb k k') eqn:E2; [|reflexivity].
  apply N.eqb_eq in E2. subst k'. congruence.
Qed.

(** what a task's model holds for variable [k] after [update_variables(y0)] on the caller's model and
    the row on the task's copy: the row's value if the row names [k], else y0's, else the model's own *)
Theorem y0_then_row (m : mdl) (y : y0) (r : row) (k : name) :
  lookup k (m_vars (apply_row r (apply_y0_c y m)))
  = match lookup k (m_vars m) with
    | None => None
    | Some x => match last_of k r with
                | Some v => Some (Plain v)
                | None => match last_of k y with Some v => Some (Plain v) | None => Some x end
                end
    end.
Proof.
  unfold apply_row, apply_y0_c. rewrite update_parameters_vars.
  destruct (update_variables_vars (filter (fun kv => has_key (fst kv) (m_vars (update_variables m y))) r) (update_variables m y)) as [H1 _].
  rewrite H1. destruct (update_variables_vars y m) as [H2 _]. rewrite H2.
  rewrite lookup_set_all. rewrite (lookup_set_all k y (m_vars m)).
  destruct (lookup k (m_vars m)) as [x|] eqn:E; [|reflexivity].
  assert (Hk : has_key k (set_all (m_vars m) y) = true).
  { rewrite has_key_lookup, lookup_set_all, E. destruct (last_of k y); reflexivity. }
  rewrite (last_of_filter k (fun k' => has_key k' (set_all (m_vars m) y)) Hk).
  destruct (last_of k y); destruct (last_of k r); reflexivity.
Qed.

(** ---- at the entry-point table of the tree ---- *)
From Scan Require Import ExpectedFacts.

Lemma expected_entry_points_y0 : Forall (fun ep => ep_y0 ep = Y0IntoModel) expected_entry_points.
Proof. unfold expected_entry_points. repeat constructor. Qed.

Theorem scan_with_y0_pinned (f : scan_facts) (eps : list entry_point) :
  sf_copies f = true -> eps = expected_entry_points ->
  forall ep, In ep eps ->
  forall w md m0 oy0 rows, mode_ok md (length rows) ->
    scan_list_y0_c (ep_y0 ep) f w md m0 oy0 rows = spec_y0_c (sf_tc_axis f) w m0 oy0 rows.
Proof.
  intros Hc -> ep Hin w md m0 oy0 rows Hok.
  rewrite (proj1 (Forall_forall _ _) expected_entry_points_y0 ep Hin).
  apply list_scan_y0_c; assumption.
Qed.
