(** C09 -- the nested Monte-Carlo scan [mc.scan_steady_state], as an instance of the generic scan.

    Outer level: one task per row of [mc_to_scan]; the task's worker ([_parameter_scan_worker]) is a
    whole SEQUENTIAL [scan.steady_state] over the inner table [to_scan] on the task's model, so a
    task's "simulation" is an entire inner scan result: the inner heap of model objects (each inner
    row's deep copy) and the inner entries.  It is pickled back as one message; the parent views it
    with [v.variables / v.fluxes] = one lazy view per inner result against ITS model object.
    The outer results are keyed by the outer label ([{k: v.variables.T for k, v in res}]). *)
From Coq Require Import List Arith Bool.
From Scan Require Import ScanGeneric ScanModel.
Import ListNotations.

Section Nested.
  Variables (M Row Lbl Lbl2 Sim Out : Type).
  Variable apply_row : Row -> M -> M.
  Variable work : M -> Sim * M.
  Variable view : Sim -> M -> Out * M.
  Variable lbl_eqb : Lbl -> Lbl -> bool.

  (** what travels back from an outer task: the task's model, the inner heap, the inner entries *)
  Definition nsim := (M * list M * list (entry Lbl2 Sim))%type.
  Definition nout := list (Lbl2 * Out).

  (** [_parameter_scan_worker(model)] = [scan.steady_state(model, to_scan=inner, parallel=False)]:
      the caller's object is cell 0 of the inner run's heap *)
  Definition nested_work (copies : bool) (inner : list (Lbl2 * Row)) (m : M) : nsim * M :=
    let hes := run_seq M Row Lbl2 Sim apply_row work copies m [m] 0 inner in
    ((m, fst hes, snd hes), hget M m (fst hes) 0).

  (** [v.variables], [v.fluxes] of the unpickled inner scan *)
  Definition nested_view (s : nsim) (m : M) : nout * M :=
    (snd (view_all M Lbl2 Sim Out view (fst (fst s)) (snd (fst s)) (snd s)), m).

  Definition nested_scan (refuse copies : bool) (md : mode) (m0 : M) (inner : list (Lbl2 * Row)) (rows : list (Lbl * Row))
    : option (list (Lbl * nout)) :=
    scan_dict_checked M Row Lbl nsim nout apply_row (nested_work copies inner) nested_view lbl_eqb refuse copies md m0 rows.

  (** the specification: for outer row [r] and inner row [r2], a separate run on a fresh copy of the
      model with the outer row's values and then the inner row's values applied *)
  Definition nested_spec (m0 : M) (inner : list (Lbl2 * Row)) (rows : list (Lbl * Row)) : list (Lbl * nout) :=
    map (fun lr => (fst lr,
           map (fun lr2 => (fst lr2, independent M Row Sim Out apply_row work view (apply_row (snd lr) m0) (snd lr2))) inner))
        rows.
End Nested.

(** ---- every entry point of scan.py / mc.py as an instance ----
    [workers] gives the semantics of each worker (its own simulation call and its own placeholder);
    the entry point picks its worker and its container from the regenerated table.  The inner scan
    of [mc.scan_steady_state] runs [scan.steady_state] with ITS default worker. *)
Section EntryPoints.
  Variables (M Row Lbl Lbl2 Sim Out : Type).
  Variable apply_row : Row -> M -> M.
  Variable workers : wname -> M -> Sim * M.
  Variable view : Sim -> M -> Out * M.
  Variable lbl_eqb : Lbl -> Lbl -> bool.

  Inductive ep_result :=
  | EpRefused                                          (* ValueError: duplicate index labels *)
  | EpTable (t : list (Lbl * Out))
  | EpNested (t : list (Lbl * list (Lbl2 * Out))).

  Definition entry_scan (ep : entry_point) (copies : bool) (md : mode) (m0 : M)
             (inner : list (Lbl2 * Row)) (rows : list (Lbl * Row)) : ep_result :=
    match ep_container ep with
    | CList => EpTable (scan_list M Row Lbl Sim Out apply_row (workers (ep_worker ep)) view copies md m0 rows)
    | CDict =>
        match scan_dict_checked M Row Lbl Sim Out apply_row (workers (ep_worker ep)) view lbl_eqb (ep_checks_dups ep) copies md m0 rows with
        | Some t => EpTable t
        | None => EpRefused
        end
    | CDictOfScans =>
        match nested_scan M Row Lbl Lbl2 Sim Out apply_row (workers WkSteadyState) view lbl_eqb (ep_checks_dups ep) copies md m0 inner rows with
        | Some t => EpNested t
        | None => EpRefused
        end
    end.

  Definition entry_spec (ep : entry_point) (m0 : M) (inner : list (Lbl2 * Row)) (rows : list (Lbl * Row)) : ep_result :=
    match ep_container ep with
    | CList | CDict => EpTable (spec M Row Lbl Sim Out apply_row (workers (ep_worker ep)) view m0 rows)
    | CDictOfScans => EpNested (nested_spec M Row Lbl Lbl2 Sim Out apply_row (workers WkSteadyState) view m0 inner rows)
    end.

  (** the execution modes an entry point can be asked for: mc.* has no [parallel] switch *)
  Definition ep_mode_ok (ep : entry_point) (md : mode) (n : nat) : Prop :=
    mode_ok md n /\ (ep_par ep = ParMaxWorkers -> md <> Seq).
End EntryPoints.
Arguments EpRefused {Lbl Lbl2 Out}.
Arguments EpTable {Lbl Lbl2 Out}.
Arguments EpNested {Lbl Lbl2 Out}.
