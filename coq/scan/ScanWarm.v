(** C09 -- third pass: the model OBJECT a scan is handed, with its [_cache].  Model only, no proofs.

    A [Model] object carries, next to its content, a [ModelCache] ([_cache]) that is built on demand
    ([if (cache := self._cache) is None: cache = self._create_cache()]) and dropped by every mutator
    that carries [@_invalidate_cache].  The cache holds everything that is computed ONCE from the
    content: the values of assignment-defined parameters and initial values, the static derived
    quantities, the initial conditions.  A model that has been simulated or inspected before it is
    handed to a scan ("warm") therefore arrives with a cache computed from the BASE content;
    [copy.deepcopy] (sequential mode) and pickling (the pool) copy it along.

    The tree writes a row through [model.update_variables(...)] / [model.update_parameters(...)]:
    loops over the items that call [update_variable] / [update_parameter], both [@_invalidate_cache]
    (fact [gen_row_update], read from model.py).  So any item of the row drops the copied cache, and
    a row that names nothing in the model leaves content AND cache alone.

    Seeded change C09-8 ([apply_row_keep]): when the row has no parameter column and the copy carries a
    cache, the new initial values are written into [_variables[...].initial_value] and into
    [cache.initial_conditions] directly and the cache is KEPT: everything else in it (assignment-
    defined parameters, assigned initial values of other variables, static derived quantities) still
    belongs to the base content. *)
From Coq Require Import List ZArith NArith Bool.
From MxlBase Require Import ListX.
From Scan Require Import ScanGeneric ScanModel ScanY0.
Import ListNotations.
Local Open Scope Z_scope.

(** a Model object: content and [_cache] *)
Definition cmdl := (mdl * option cache)%type.

(** [if (cache := self._cache) is None: cache = self._create_cache()] *)
Definition cache_of (mc : cmdl) : res cache :=
  match snd mc with Some c => Ok c | None => create_cache (fst mc) end.

(** the object after a successful look-up holds the cache; a raising [_create_cache] leaves it as it was *)
Definition ensure (mc : cmdl) : cmdl :=
  match cache_of mc with Ok c => (fst mc, Some c) | Err _ => mc end.

(** a fresh object, and one that has been simulated / inspected since its last modification
    ([get_initial_conditions()], [get_args()], [Simulator(model)], a simulation) *)
Definition cold (m : mdl) : cmdl := (m, None).
Definition warm (m : mdl) : cmdl := ensure (m, None).

(** the cache of an object belongs to its content *)
Definition cache_ok (mc : cmdl) : Prop :=
  match snd mc with None => True | Some c => create_cache (fst mc) = Ok c end.

(** what a batch mutator called with [items] does to [_cache] *)
Definition drop {A} (p : row_update) (items : list A) (oc : option cache) : option cache :=
  match p, items with
  | RowInvalidatesPerItem, [] => oc          (* the loop body never runs *)
  | RowInvalidatesPerItem, _ :: _ => None
  | RowInvalidatesAlways, _ => None
  | RowUnknown, _ => oc                      (* unrecognised source: worst case, pinned away *)
  end.

Definition update_variables_cc (p : row_update) (mc : cmdl) (items : list (name * Z)) : cmdl :=
  (update_variables (fst mc) items, drop p items (snd mc)).
Definition update_parameters_cc (p : row_update) (mc : cmdl) (items : list (name * Z)) : cmdl :=
  (update_parameters (fst mc) items, drop p items (snd mc)).

(** the two update calls of [_update_parameters_and_initial_conditions] on the task's copy *)
Definition apply_row_cc (p : row_update) (r : row) (mc : cmdl) : cmdl :=
  let mc1 := update_variables_cc p mc (filter (fun kv => has_key (fst kv) (m_vars (fst mc))) r) in
  update_parameters_cc p mc1 (filter (fun kv => has_key (fst kv) (m_pars (fst mc1))) r).

(** the worker's result once the cache is there (the body of [ScanModel.work]) *)
Definition work_body (ax : tc_axis) (w : wkind) (m : mdl) (c : cache) : sim :=
  let y0 := map snd (ca_ic c) in
  let placeholder idx := SOk (map (fun t => (t, map (fun _ => NaN) (m_vars m))) idx) (ca_base c) in
  match w with
  | WTimeCourse tps =>
      match integrate_tc m c y0 tps with
      | IOk tc => SOk tc (ca_base c)
      | IFail | IZeroDiv => placeholder (tc_placeholder_axis ax tps)
      | IOther => SCrash EKey
      end
  | WSteady =>
      match steady m c 0 y0 MAXS with
      | IOk tc => SOk tc (ca_base c)
      | IFail | IZeroDiv => placeholder [0]
      | IOther => SCrash EKey
      end
  end.

(** the worker on an object: [Simulator(model)] takes the cache the object HAS (or builds it) *)
Definition work_cc (ax : tc_axis) (w : wkind) (mc : cmdl) : sim * cmdl :=
  match cache_of mc with
  | Err e => (SCrash e, mc)
  | Ok c => (work_body ax w (fst mc) c, (fst mc, Some c))
  end.

(** [Simulation._compute_args] + selection on an object: [update_parameters(stored plain values)], read
    through the object's cache, then (ViewRestores) put the parameter values back; the column names
    ([get_arg_names]) build the cache of whatever content is left *)
Definition view_cc (p : row_update) (vp : view_policy) (s : sim) (mc : cmdl) : out * cmdl :=
  match s with
  | SCrash e => (OCrash e, mc)
  | SOk rv rp =>
      let mc1 := update_parameters_cc p mc rp in
      let o := match cache_of mc1 with
               | Err e => OCrash e
               | Ok c => match view_rows (fst mc1) c rv with Ok rows => OOk rows | Err e => OCrash e end
               end in
      (o, warm (match vp with ViewRestores => fst mc | ViewLeaves | ViewUnknown => fst mc1 end))
  end.

(** [model.update_variables(y0)] of the entry point, on the caller's object *)
Definition with_y0_cc (p : row_update) (oy0 : option y0) (mc : cmdl) : cmdl :=
  match oy0 with Some y => update_variables_cc p mc y | None => mc end.

(** ---- seeded change C09-8: the row written INTO a kept cache ---- *)
Fixpoint set_val {A} (l : list (name * A)) (k : name) (v : A) : list (name * A) :=   (* d[k] = v *)
  match l with
  | [] => [(k, v)]
  | (k', x) :: t => if N.eqb k k' then (k', v) :: t else (k', x) :: set_val t k v
  end.
Definition cache_set_ic (c : cache) (items : list (name * Z)) : cache :=
  mkCache (ca_base c) (ca_allpar c)
          (fold_left (fun ic kv => set_val ic (fst kv) (Num (snd kv))) items (ca_ic c))
          (ca_dyn c) (ca_dynder c).

Definition apply_row_keep (p : row_update) (r : row) (mc : cmdl) : cmdl :=
  let vs := filter (fun kv => has_key (fst kv) (m_vars (fst mc))) r in
  let ps := filter (fun kv => has_key (fst kv) (m_pars (fst mc))) r in
  match ps, snd mc with
  | [], Some c => (update_variables (fst mc) vs, Some (cache_set_ic c vs))   (* initial_value written directly, cache kept *)
  | _, _ => update_parameters_cc p (update_variables_cc p mc vs) ps
  end.

(** ---- the scans on objects ---- *)
Definition scan_list_cc (p : row_update) (vp : view_policy) (f : scan_facts) (w : wkind) md (mc0 : cmdl)
           (oy0 : option y0) (rows : list (label * row)) : list (label * out) :=
  scan_list cmdl row label sim out (apply_row_cc p) (work_cc (sf_tc_axis f) w) (view_cc p vp) (sf_copies f) md
            (with_y0_cc p oy0 mc0) rows.
Definition scan_dict_checked_cc (p : row_update) (vp : view_policy) (f : scan_facts) (w : wkind) md (mc0 : cmdl)
           (oy0 : option y0) (rows : list (label * row)) : option (list (label * out)) :=
  scan_dict_checked cmdl row label sim out (apply_row_cc p) (work_cc (sf_tc_axis f) w) (view_cc p vp) Z.eqb
                    (refuses (sf_dups f)) (sf_copies f) md (with_y0_cc p oy0 mc0) rows.
(** ... and with the row written into the kept cache *)
Definition scan_list_keep (p : row_update) (vp : view_policy) (f : scan_facts) (w : wkind) md (mc0 : cmdl)
           (rows : list (label * row)) : list (label * out) :=
  scan_list cmdl row label sim out (apply_row_keep p) (work_cc (sf_tc_axis f) w) (view_cc p vp) (sf_copies f) md mc0 rows.
