(** Hand-edited (together with a [fix:] commit in /repo only; tools/c09_switch.py rewrites the two
    marked lines and known_findings.d/C09.json consistently): which form of the placeholder axes and
    of the duplicate-label handling PropsC09.v expects the extractor to regenerate from the tree.

    [C09_tc_repaired]
      false  snapshot: the time-course / protocol-time-course workers build the NaN placeholder from the
             requested time points (recorded finding tc-placeholder-misses-t0; theorems
             C09_tc_placeholder_shape_partial / _refuted and C09_ptc_requested_axis_refuted apply to the tree)
      true   after fixes/C09-tc-placeholder-start-point.diff (theorems C09_tc_placeholder_shape and
             C09_ptc_placeholder_axis apply)
    [C09_dups_repaired]
      false  snapshot: no entry point tests the index (recorded finding duplicate-index-labels; theorems
             C09_dict_scan_equals_independent_any_worker_partial / C09_duplicate_labels_collapse_refuted apply)
      true   after fixes/C09-duplicate-labels-refused.diff: every dict-keyed entry point starts with
             [_require_unique_index(table)] (theorem C09_dict_scan_checked_total applies) *)
From Coq Require Import List.
From Scan Require Import ScanModel.
Import ListNotations.

Definition C09_tc_repaired : bool := true.    (* SWITCH tc *)
Definition C09_dups_repaired : bool := true.  (* SWITCH dups *)

Definition C09_expected_tc : tc_axis := if C09_tc_repaired then TcWithStart else TcRequested.
Definition C09_expected_ptc : ptc_axis := if C09_tc_repaired then PtcJoined else PtcRequested.
Definition C09_expected_dups : dup_policy := if C09_dups_repaired then DupRefuse else DupCollapse.

Definition expected_facts : scan_facts :=
  mkScanFacts true true true true true true PhStepGrid C09_expected_tc C09_expected_ptc C09_expected_dups.

(** the nine entry points: default worker, container, how the pool is chosen, index test *)
Definition expected_entry_points : list entry_point :=
  let d := refuses C09_expected_dups in
  [ mkEP ScanSteadyState        WkSteadyState        CList        ParByFlag     false;
    mkEP ScanTimeCourse         WkTimeCourse         CDict        ParByFlag     d;
    mkEP ScanProtocol           WkProtocol           CDict        ParByFlag     d;
    mkEP ScanProtocolTimeCourse WkProtocolTimeCourse CDict        ParByFlag     d;
    mkEP McSteadyState          WkSteadyState        CList        ParMaxWorkers false;
    mkEP McTimeCourse           WkTimeCourse         CDict        ParMaxWorkers d;
    mkEP McProtocol             WkProtocol           CDict        ParMaxWorkers d;
    mkEP McProtocolTimeCourse   WkProtocolTimeCourse CDict        ParMaxWorkers d;
    mkEP McScanSteadyState      WkParameterScan      CDictOfScans ParMaxWorkers d ].
