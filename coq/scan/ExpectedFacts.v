(** Hand-edited (together with a [fix:] commit in /repo only; tools/c09_switch.py rewrites the two
    marked lines and known_findings.d/C09.json consistently): which form of the placeholder axes and
    of the duplicate-label handling PropsC09.v expects the extractor to regenerate from the tree.

    [C09_tc_repaired]
      false  snapshot: the time-course / protocol-time-course workers build the NaN placeholder from the
             requested time points (recorded finding tc-placeholder-misses-t0; theorems
             C09_tc_placeholder_shape_partial / _refuted and C09_ptc_requested_axis_refuted apply to the tree)
      true   after fixes/C09-tc-placeholder-start-point.diff (theorems C09_tc_placeholder_shape and
             C09_ptc_placeholder_axis apply)
    [C09_dups_repaired]
      false  snapshot: no entry point tests the index (recorded finding duplicate-index-labels; theorems
             C09_dict_scan_equals_independent_any_worker_partial / C09_duplicate_labels_collapse_refuted apply)
      true   after fixes/C09-duplicate-labels-refused.diff: every dict-keyed entry point starts with
             [_require_unique_index(table)] (theorem C09_dict_scan_checked_total applies)
    [C09_cache_repaired]
      false  snapshot: scan.steady_state / mc.steady_state accept a table with equal index labels together
             with a result cache, whose files are named after the label (recorded finding
             cached-duplicate-labels; regression theorem C09_cached_duplicate_labels_refuted applies)
      true   after fixes/C09-cached-steady-state-unique-index.diff: both start with
             [if cache is not None: _require_unique_index(table)] (theorem C09_cache_checked_total applies) *)
From Coq Require Import List.
From Scan Require Import ScanModel.
Import ListNotations.

Definition C09_tc_repaired : bool := true.    (* SWITCH tc *)
Definition C09_dups_repaired : bool := true.  (* SWITCH dups *)
Definition C09_cache_repaired : bool := true. (* SWITCH cache *)

Definition C09_expected_tc : tc_axis := if C09_tc_repaired then TcWithStart else TcRequested.
Definition C09_expected_ptc : ptc_axis := if C09_tc_repaired then PtcJoined else PtcRequested.
Definition C09_expected_dups : dup_policy := if C09_dups_repaired then DupRefuse else DupCollapse.

Definition expected_facts : scan_facts :=
  mkScanFacts true true true true true true PhStepGrid C09_expected_tc C09_expected_ptc C09_expected_dups.

(** the nine entry points: default worker, container, how the pool is chosen, index test, what happens
    to [y0], index test in front of a cached run *)
Definition expected_entry_points : list entry_point :=
  let d := refuses C09_expected_dups in
  let c := C09_cache_repaired in
  [ mkEP ScanSteadyState        WkSteadyState        CList        ParByFlag     false Y0IntoModel c;
    mkEP ScanTimeCourse         WkTimeCourse         CDict        ParByFlag     d     Y0IntoModel false;
    mkEP ScanProtocol           WkProtocol           CDict        ParByFlag     d     Y0IntoModel false;
    mkEP ScanProtocolTimeCourse WkProtocolTimeCourse CDict        ParByFlag     d     Y0IntoModel false;
    mkEP McSteadyState          WkSteadyState        CList        ParMaxWorkers false Y0IntoModel c;
    mkEP McTimeCourse           WkTimeCourse         CDict        ParMaxWorkers d     Y0IntoModel false;
    mkEP McProtocol             WkProtocol           CDict        ParMaxWorkers d     Y0IntoModel false;
    mkEP McProtocolTimeCourse   WkProtocolTimeCourse CDict        ParMaxWorkers d     Y0IntoModel false;
    mkEP McScanSteadyState      WkParameterScan      CDictOfScans ParMaxWorkers d     Y0IntoModel false ].
