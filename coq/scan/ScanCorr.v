(** C09 -- canonical observations for the correspondence check (no proofs here). *)
From Coq Require Import List ZArith NArith Bool.
From MxlBase Require Import ListX.
From Scan Require Import ScanGeneric ScanModel ScanY0 ScanWarm.
Import ListNotations.
Local Open Scope Z_scope.

(** what the harness sees of a scan: it raises, or per label the (time, variables, fluxes) rows *)
Inductive observed :=
| ObsRaise                                   (* the scan raises (a row's model cannot be evaluated) *)
| ObsRefuse                                  (* the entry point refuses the table: duplicate index labels *)
| ObsOk (l : list (label * list (Z * list val * list val))).

Definition any_crash (l : list (label * out)) : bool :=
  existsb (fun lo => match snd lo with OCrash _ => true | OOk _ => false end) l.

Definition last_row (rows : list (Z * list val * list val)) : list (Z * list val * list val) :=
  match rev rows with
  | (_, v, f) :: _ => [(0, v, f)]     (* SteadyStateScan shows [.iloc[-1]] without its time *)
  | [] => []
  end.

Definition canon (ss : bool) (l : list (label * out)) : observed :=
  if any_crash l then ObsRaise
  else ObsOk (map (fun lo => (fst lo, match snd lo with
                                      | OOk rows => if ss then last_row rows else rows
                                      | OCrash _ => []
                                      end)) l).

Definition row_eqb (a b : Z * list val * list val) : bool :=
  Z.eqb (fst (fst a)) (fst (fst b)) && list_eqb val_eqb (snd (fst a)) (snd (fst b)) && list_eqb val_eqb (snd a) (snd b).
Definition obs_eqb (a b : observed) : bool :=
  match a, b with
  | ObsRaise, ObsRaise => true
  | ObsRefuse, ObsRefuse => true
  | ObsOk x, ObsOk y => list_eqb (fun p q => Z.eqb (fst p) (fst q) && list_eqb row_eqb (snd p) (snd q)) x y
  | _, _ => false
  end.

(** [k_ep]: which entry point ran (its [y0] policy is looked up in the regenerated table); [k_y0]: the
    [y0] argument of the call *)
Record case := mkCase { k_m : mdl; k_w : wkind; k_md : mode; k_rows : list (label * row); k_obs : observed;
                        k_ep : ep_name; k_y0 : option y0;
                        k_warm : bool (* the model object was inspected / simulated before the scan: it carries a cache *) }.

Definition run_case (f : scan_facts) (eps : list entry_point) (c : case) : observed :=
  let p := y0_policy_of eps (k_ep c) in
  match k_w c with
  | WSteady => canon true (scan_list_y0_c p f WSteady (k_md c) (k_m c) (k_y0 c) (k_rows c))
  | WTimeCourse tps =>
      match scan_dict_y0_c p f (WTimeCourse tps) (k_md c) (k_m c) (k_y0 c) (k_rows c) with
      | None => ObsRefuse
      | Some t => canon false t
      end
  end.

Definition mismatches (f : scan_facts) (eps : list entry_point) (cs : list case) : list nat :=
  filter_idx (fun c => negb (obs_eqb (run_case f eps c) (k_obs c))) cs.

(** third pass: the same case on the model OBJECT with its [_cache] (ScanWarm.v), cold or warm as the harness
    handed it to the real scan; row-update and view policy regenerated from the source.  A case is a mismatch
    when EITHER model disagrees with the implementation (for the tree's y0 policy; the object model has no
    hand-over shape). *)
Definition run_case_cc (p : row_update) (vp : view_policy) (f : scan_facts) (c : case) : observed :=
  let mc0 := if k_warm c then warm (k_m c) else cold (k_m c) in
  match k_w c with
  | WSteady => canon true (scan_list_cc p vp f WSteady (k_md c) mc0 (k_y0 c) (k_rows c))
  | WTimeCourse tps =>
      match scan_dict_checked_cc p vp f (WTimeCourse tps) (k_md c) mc0 (k_y0 c) (k_rows c) with
      | None => ObsRefuse
      | Some t => canon false t
      end
  end.

Definition mismatches3 (f : scan_facts) (eps : list entry_point) (p : row_update) (vp : view_policy) (cs : list case) : list nat :=
  filter_idx (fun c => negb (obs_eqb (run_case f eps c) (k_obs c))
                       || match y0_policy_of eps (k_ep c) with
                          | Y0IntoModel => negb (obs_eqb (run_case_cc p vp f c) (k_obs c))
                          | _ => false
                          end) cs.

(** the result cache: the real [parallelise(fn, inputs, cache=..., parallel=False)] with
    [fn = x -> x*x + 1] on integer keys / values against [run_cached] from an empty store *)
Definition cache_fn (x : Z) : Z := x * x + 1.
Definition zpair_eqb (a b : Z * Z) : bool := Z.eqb (fst a) (fst b) && Z.eqb (snd a) (snd b).
Definition cache_mismatches (cs : list (list (Z * Z) * list (Z * Z))) : list nat :=
  filter_idx (fun c => negb (list_eqb zpair_eqb (snd (run_cached Z Z Z Z.eqb cache_fn [] (fst c))) (snd c))) cs.

(** axis lengths of the protocol worker (success n*tpps+1 vs placeholder), on symbolic points *)
Definition sym_pt := (nat * nat * nat)%type.   (* not used for values: only lengths are compared *)
Definition axis_len_placeholder (f : scan_facts) (n tpps : nat) : nat :=
  length (placeholder_axis nat (fun a b _ k => a + k)%nat O (sf_protocol_axis f) (seq 1 n) tpps).
Definition axis_len_success (n tpps : nat) : nat :=
  length (success_axis nat (fun a b _ k => a + k)%nat O (seq 1 n) tpps).

(** time axes of the protocol-time-course worker: [full] = sorted join of step ends and requested points *)
Fixpoint insert_uniq (x : Z) (l : list Z) : list Z :=
  match l with
  | [] => [x]
  | y :: t => if Z.ltb x y then x :: l else if Z.eqb x y then l else y :: insert_uniq x t
  end.
Definition join_sorted (a b : list Z) : list Z := fold_right insert_uniq [] (a ++ b).
Definition ptc_axes (f : scan_facts) (ends tps : list Z) : list Z * list Z :=
  let full := join_sorted ends tps in
  (ptc_success_axis full ends, ptc_placeholder_axis full (sf_ptc_axis f) ends tps).
Definition zlist_eqb (a b : list Z) : bool := list_eqb Z.eqb a b.
