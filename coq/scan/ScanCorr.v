(** C09 -- canonical observations for the correspondence check (no proofs here). *)
From Coq Require Import List ZArith NArith Bool.
From MxlBase Require Import ListX.
From Scan Require Import ScanGeneric ScanModel.
Import ListNotations.
Local Open Scope Z_scope.

(** what the harness sees of a scan: it raises, or per label the (time, variables, fluxes) rows *)
Inductive observed :=
| ObsRaise                                   (* the scan raises (a row's model cannot be evaluated) *)
| ObsRefuse                                  (* the entry point refuses the table: duplicate index labels *)
| ObsOk (l : list (label * list (Z * list val * list val))).

Definition any_crash (l : list (label * out)) : bool :=
  existsb (fun lo => match snd lo with OCrash _ => true | OOk _ => false end) l.

Definition last_row (rows : list (Z * list val * list val)) : list (Z * list val * list val) :=
  match rev rows with
  | (_, v, f) :: _ => [(0, v, f)]     (* SteadyStateScan shows [.iloc[-1]] without its time *)
  | [] => []
  end.

Definition canon (ss : bool) (l : list (label * out)) : observed :=
  if any_crash l then ObsRaise
  else ObsOk (map (fun lo => (fst lo, match snd lo with
                                      | OOk rows => if ss then last_row rows else rows
                                      | OCrash _ => []
                                      end)) l).

Definition row_eqb (a b : Z * list val * list val) : bool :=
  Z.eqb (fst (fst a)) (fst (fst b)) && list_eqb val_eqb (snd (fst a)) (snd (fst b)) && list_eqb val_eqb (snd a) (snd b).
Definition obs_eqb (a b : observed) : bool :=
  match a, b with
  | ObsRaise, ObsRaise => true
  | ObsRefuse, ObsRefuse => true
  | ObsOk x, ObsOk y => list_eqb (fun p q => Z.eqb (fst p) (fst q) && list_eqb row_eqb (snd p) (snd q)) x y
  | _, _ => false
  end.

Record case := mkCase { k_m : mdl; k_w : wkind; k_md : mode; k_rows : list (label * row); k_obs : observed }.

Definition run_case (f : scan_facts) (c : case) : observed :=
  match k_w c with
  | WSteady => canon true (scan_list_c f WSteady (k_md c) (k_m c) (k_rows c))
  | WTimeCourse tps =>
      match scan_dict_checked_c f (WTimeCourse tps) (k_md c) (k_m c) (k_rows c) with
      | None => ObsRefuse
      | Some t => canon false t
      end
  end.

Definition mismatches (f : scan_facts) (cs : list case) : list nat :=
  filter_idx (fun c => negb (obs_eqb (run_case f c) (k_obs c))) cs.

(** axis lengths of the protocol worker (success n*tpps+1 vs placeholder), on symbolic points *)
Definition sym_pt := (nat * nat * nat)%type.   (* not used for values: only lengths are compared *)
Definition axis_len_placeholder (f : scan_facts) (n tpps : nat) : nat :=
  length (placeholder_axis nat (fun a b _ k => a + k)%nat O (sf_protocol_axis f) (seq 1 n) tpps).
Definition axis_len_success (n tpps : nat) : nat :=
  length (success_axis nat (fun a b _ k => a + k)%nat O (seq 1 n) tpps).

(** time axes of the protocol-time-course worker: [full] = sorted join of step ends and requested points *)
Fixpoint insert_uniq (x : Z) (l : list Z) : list Z :=
  match l with
  | [] => [x]
  | y :: t => if Z.ltb x y then x :: l else if Z.eqb x y then l else y :: insert_uniq x t
  end.
Definition join_sorted (a b : list Z) : list Z := fold_right insert_uniq [] (a ++ b).
Definition ptc_axes (f : scan_facts) (ends tps : list Z) : list Z * list Z :=
  let full := join_sorted ends tps in
  (ptc_success_axis full ends, ptc_placeholder_axis full (sf_ptc_axis f) ends tps).
Definition zlist_eqb (a b : list Z) : bool := list_eqb Z.eqb a b.
