(** C09 -- generic, executable model of the scan machinery (scan.py / mc.py / parallel.py /
    simulation.py), independent of what a model, a row, a worker or a view is.

    Objects and references.  A [Model] is a mutable Python object; a [Simulation] keeps a
    REFERENCE to the model it was produced with and evaluates [.variables]/[.fluxes] lazily
    ([Simulation._compute_args]: re-apply the stored plain parameters to THAT object, then
    read).  So the model has an explicit heap of model objects ([heap]), results are [entry]s
    holding an address, and every step says which cell it mutates.

      * [apply_row]  = the two update calls of [_update_parameters_and_initial_conditions]
      * [work]       = the worker ([Simulator(model)...get_result()] or [Simulation.default]);
                       returns the Simulation's own data and the (possibly mutated) model
      * [view]       = [_compute_args] + selection, against the referenced object (mutates it)

    [task] is one call of [_update_parameters_and_initial_conditions(pars, fn, model)];
    the fact [copies] (regenerated from the source) says whether it starts with
    [model = copy.deepcopy(model)].

    Sequential mode ([map(worker, inputs)]): all tasks run in the caller's process on the
    caller's heap.  Parallel mode ([pebble.ProcessPool.map], chunksize 1): every task is pickled
    with its own copy of the partial (hence of the model), runs in some worker process on a
    private heap, and its result (Simulation + the model it references) is pickled back; the pool
    stores each result in the slot of its task and hands the slots out in input order, whatever
    the completion order ([pool_run], [collect]). *)
From Coq Require Import List Arith Lia Bool.
Import ListNotations.

Section Generic.
  Variables (M Row Lbl Sim Out : Type).
  Variable apply_row : Row -> M -> M.
  Variable work : M -> Sim * M.
  Variable view : Sim -> M -> Out * M.

  Definition heap := list M.
  Definition hget (d : M) (h : heap) (a : nat) : M := nth a h d.
  Fixpoint hset (h : heap) (a : nat) (m : M) : heap :=
    match h, a with
    | [], _ => []
    | _ :: t, O => m :: t
    | x :: t, S a' => x :: hset t a' m
    end.

  Record entry := mkE { e_lbl : Lbl; e_sim : Sim; e_addr : nat }.

  (** one call of [_update_parameters_and_initial_conditions] on the model object at [a] *)
  Definition task (copies : bool) (d : M) (h : heap) (a : nat) (l : Lbl) (r : Row) : heap * entry :=
    let h1 := if copies then h ++ [hget d h a] else h in
    let a1 := if copies then length h else a in
    let m1 := apply_row r (hget d h1 a1) in
    (hset h1 a1 (snd (work m1)), mkE l (fst (work m1)) a1).

  (** [list(map(worker, inputs))] in the caller's process *)
  Fixpoint run_seq (copies : bool) (d : M) (h : heap) (a : nat) (rows : list (Lbl * Row)) : heap * list entry :=
    match rows with
    | [] => (h, [])
    | lr :: rs =>
        let he := task copies d h a (fst lr) (snd lr) in
        let hes := run_seq copies d (fst he) a rs in
        (fst hes, snd he :: snd hes)
    end.

  (** the container properties: one lazy view per result, in container order *)
  Fixpoint view_all (d : M) (h : heap) (es : list entry) : heap * list (Lbl * Out) :=
    match es with
    | [] => (h, [])
    | e :: es' =>
        let om := view (e_sim e) (hget d h (e_addr e)) in
        let hos := view_all d (hset h (e_addr e) (snd om)) es' in
        (fst hos, (e_lbl e, fst om) :: snd hos)
    end.

  (** parallel mode: what travels back from a worker process *)
  Definition msg := (Lbl * Sim * M)%type.
  Definition remote_task (copies : bool) (m0 : M) (lr : Lbl * Row) : msg :=
    let he := task copies m0 [m0] 0 (fst lr) (snd lr) in
    (e_lbl (snd he), e_sim (snd he), hget m0 (fst he) (e_addr (snd he))).

  Fixpoint set_slot {A} (sl : list (option A)) (i : nat) (x : A) : list (option A) :=
    match sl, i with
    | [], _ => []
    | _ :: t, O => Some x :: t
    | y :: t, S i' => y :: set_slot t i' x
    end.

  (** a schedule: the order in which tasks happen to complete, each with the worker that ran it *)
  Definition schedule := list (nat * nat).

  Definition pool_run {T R} (sched : schedule) (f : T -> R) (tasks : list T) : list (option R) :=
    fold_left
      (fun sl iw => match nth_error tasks (fst iw) with
                    | Some t => set_slot sl (fst iw) (f t)
                    | None => sl
                    end)
      sched (repeat None (length tasks)).

  (** results are consumed in slot order; a slot without result is skipped (as a time-out is) *)
  Fixpoint collect {R} (sl : list (option R)) : list R :=
    match sl with
    | [] => []
    | Some x :: t => x :: collect t
    | None :: t => collect t
    end.

  (** unpickling the results in the parent: every message brings its own model object *)
  Fixpoint import (h : heap) (ms : list msg) : heap * list entry :=
    match ms with
    | [] => (h, [])
    | lsm :: t =>
        let hes := import (h ++ [snd lsm]) t in
        (fst hes, mkE (fst (fst lsm)) (snd (fst lsm)) (length h) :: snd hes)
    end.

  Inductive mode := Seq | Par (max_workers : nat) (sched : schedule).

  (** every task completes at least once, on one of the workers of the pool *)
  Definition covers (sched : schedule) (max_workers n : nat) : Prop :=
    (forall i, i < n -> In i (map fst sched)) /\ (forall iw, In iw sched -> snd iw < max_workers).

  Definition mode_ok (md : mode) (n : nat) : Prop :=
    match md with Seq => True | Par w s => covers s w n end.

  (** result list [res] of [parallelise], as heap + entries *)
  Definition run (copies : bool) (md : mode) (m0 : M) (rows : list (Lbl * Row)) : heap * list entry :=
    match md with
    | Seq => run_seq copies m0 [m0] 0 rows
    | Par _ sched => import [m0] (collect (pool_run sched (remote_task copies m0) rows))
    end.

  (** list-based container (SteadyStateScan: [raw_results=[i[1] for i in res]]) *)
  Definition scan_list (copies : bool) (md : mode) (m0 : M) (rows : list (Lbl * Row)) : list (Lbl * Out) :=
    let hes := run copies md m0 rows in snd (view_all m0 (fst hes) (snd hes)).

  (** dict-based containers (TimeCourseScan / ProtocolScan: [raw_results=dict(res)]): a Python
      dict keeps the position of the first insertion of a key and the value of the last *)
  Variable lbl_eqb : Lbl -> Lbl -> bool.
  Fixpoint dict_set (d : list entry) (e : entry) : list entry :=
    match d with
    | [] => [e]
    | x :: t => if lbl_eqb (e_lbl x) (e_lbl e) then e :: t else x :: dict_set t e
    end.
  Definition dict_of (es : list entry) : list entry := fold_left dict_set es [].

  Definition scan_dict (copies : bool) (md : mode) (m0 : M) (rows : list (Lbl * Row)) : list (Lbl * Out) :=
    let hes := run copies md m0 rows in snd (view_all m0 (fst hes) (dict_of (snd hes))).

  (** the same containers behind an up-front test of the index ([_require_unique_index]): a table
      with equal labels is REFUSED (ValueError, [None]) when the entry point makes the test *)
  Fixpoint has_dup (ls : list Lbl) : bool :=
    match ls with
    | [] => false
    | l :: t => existsb (lbl_eqb l) t || has_dup t
    end.
  Definition scan_dict_checked (refuse : bool) (copies : bool) (md : mode) (m0 : M) (rows : list (Lbl * Row))
    : option (list (Lbl * Out)) :=
    if refuse && has_dup (map fst rows) then None else Some (scan_dict copies md m0 rows).

  (** ---- any partition of the rows into worker batches ----
      The pool is handed [batches] instead of single rows (pebble's [chunksize > 1], or a hand-made
      partition as in "one batch per worker process").  A batch runs in ONE worker process: its rows
      go one after the other through the SAME unpickled partial, i.e. sequentially on that process'
      private heap ([run_seq] from a fresh [m0]); the whole batch result travels back as ONE
      message, so objects shared inside a batch stay shared after unpickling.  The parent appends
      each message's heap to its own ([shift] relocates the addresses) and concatenates the batch
      results in the order the ordered map hands them out. *)
  Definition bmsg := (heap * list entry)%type.
  Definition remote_batch (copies : bool) (m0 : M) (b : list (Lbl * Row)) : bmsg := run_seq copies m0 [m0] 0 b.
  Definition shift (k : nat) (e : entry) : entry := mkE (e_lbl e) (e_sim e) (k + e_addr e).
  Fixpoint import_b (h : heap) (ms : list bmsg) : heap * list entry :=
    match ms with
    | [] => (h, [])
    | hes :: t =>
        let r := import_b (h ++ fst hes) t in
        (fst r, map (shift (length h)) (snd hes) ++ snd r)
    end.
  Definition run_batched (copies : bool) (sched : schedule) (m0 : M) (batches : list (list (Lbl * Row))) : heap * list entry :=
    import_b [m0] (collect (pool_run sched (remote_batch copies m0) batches)).
  Definition scan_list_batched (copies : bool) (sched : schedule) (m0 : M) (batches : list (list (Lbl * Row))) : list (Lbl * Out) :=
    let hes := run_batched copies sched m0 batches in snd (view_all m0 (fst hes) (snd hes)).

  (** dealing the rows round-robin into [n] batches ([inputs[i::n] for i in range(n)]) *)
  Fixpoint every_nth {A} (n k : nat) (l : list A) : list A :=   (* elements at positions = k, counting down from k, period S n *)
    match l with
    | [] => []
    | x :: t => match k with
                | O => x :: every_nth n n t
                | S k' => every_nth n k' t
                end
    end.
  Definition deal {A} (n : nat) (l : list A) : list (list A) :=
    map (fun i => every_nth (pred n) i l) (seq 0 n).

  (** THE SPECIFICATION: a separate run on a fresh copy of the model with exactly that row *)
  Definition independent (m0 : M) (r : Row) : Out :=
    let sm := work (apply_row r m0) in fst (view (fst sm) (snd sm)).
  Definition spec (m0 : M) (rows : list (Lbl * Row)) : list (Lbl * Out) :=
    map (fun lr => (fst lr, independent m0 (snd lr))) rows.
End Generic.

Arguments mkE {Lbl Sim}.
Arguments e_lbl {Lbl Sim}.
Arguments e_sim {Lbl Sim}.
Arguments e_addr {Lbl Sim}.


