(* REGENERATED from src/mxlpy/{scan,mc,parallel,simulation}.py by harness/c09.py; do not edit.
   An unrecognised shape yields false / *Unknown, which breaks C09_facts_pinned / C09_entry_points_pinned. *)
From Coq Require Import List.
From Scan Require Import ScanModel.
Import ListNotations.
Definition gen_scan_facts : scan_facts := mkScanFacts true true true true true true PhStepGrid TcWithStart PtcJoined DupRefuse.
Definition gen_entry_points : list entry_point :=
  [ mkEP ScanSteadyState WkSteadyState CList ParByFlag false;
    mkEP ScanTimeCourse WkTimeCourse CDict ParByFlag true;
    mkEP ScanProtocol WkProtocol CDict ParByFlag true;
    mkEP ScanProtocolTimeCourse WkProtocolTimeCourse CDict ParByFlag true;
    mkEP McSteadyState WkSteadyState CList ParMaxWorkers false;
    mkEP McTimeCourse WkTimeCourse CDict ParMaxWorkers true;
    mkEP McProtocol WkProtocol CDict ParMaxWorkers true;
    mkEP McProtocolTimeCourse WkProtocolTimeCourse CDict ParMaxWorkers true;
    mkEP McScanSteadyState WkParameterScan CDictOfScans ParMaxWorkers true ].
