From Scan Require Import ScanModel.
Definition gen_scan_facts : scan_facts := mkScanFacts true true true true true true PhStepGrid.
