(* REGENERATED from src/mxlpy/{scan,mc,parallel,simulation}.py by harness/c09.py; do not edit.
   An unrecognised shape yields false / PhUnknown, which breaks C09_facts_pinned. *)
From Scan Require Import ScanModel.
Definition gen_scan_facts : scan_facts := mkScanFacts true true true true true true PhStepGrid.
