(* REGENERATED from src/mxlpy/{scan,mc,parallel,simulation}.py by harness/c09.py; do not edit.
   An unrecognised shape yields false / *Unknown, which breaks C09_facts_pinned / C09_entry_points_pinned. *)
From Coq Require Import List.
From Scan Require Import ScanModel.
Import ListNotations.
Definition gen_scan_facts : scan_facts := mkScanFacts true true true true true true PhStepGrid TcWithStart PtcJoined DupRefuse.
Definition gen_entry_points : list entry_point :=
  [ mkEP ScanSteadyState WkSteadyState CList ParByFlag false Y0IntoModel true;
    mkEP ScanTimeCourse WkTimeCourse CDict ParByFlag true Y0IntoModel false;
    mkEP ScanProtocol WkProtocol CDict ParByFlag true Y0IntoModel false;
    mkEP ScanProtocolTimeCourse WkProtocolTimeCourse CDict ParByFlag true Y0IntoModel false;
    mkEP McSteadyState WkSteadyState CList ParMaxWorkers false Y0IntoModel true;
    mkEP McTimeCourse WkTimeCourse CDict ParMaxWorkers true Y0IntoModel false;
    mkEP McProtocol WkProtocol CDict ParMaxWorkers true Y0IntoModel false;
    mkEP McProtocolTimeCourse WkProtocolTimeCourse CDict ParMaxWorkers true Y0IntoModel false;
    mkEP McScanSteadyState WkParameterScan CDictOfScans ParMaxWorkers true Y0IntoModel false ].
Definition gen_view_policy : view_policy := ViewRestores.
Definition gen_row_update : row_update := RowInvalidatesPerItem.
