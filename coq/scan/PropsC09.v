(** C09 -- Scans equal independent runs, row-aligned, under any scheduling.

    ONLY theorem statements (written out in full), each closed by [exact <lemma>] and followed by
    [Print Assumptions].  [gen_scan_facts] is REGENERATED from /repo/src/mxlpy/{scan,mc,parallel,
    simulation}.py on every run; [C09_facts_pinned] is the obligation that breaks when
    [_update_parameters_and_initial_conditions] stops working on its own deep copy of the model,
    when the pool / sequential map, the result containers, [Simulation.default] /
    [_compute_args] or the workers' placeholder axes are edited.

    Reading guide.  [scan_list] / [scan_dict] (ScanGeneric.v) are the executable heap semantics of
    a scan: model objects live in a heap, results keep an ADDRESS and are viewed lazily against
    the object at that address; [Seq] runs all tasks on the caller's heap, [Par w sched] pickles
    each task, lets the pool complete them in the order [sched] on workers [< w] and unpickles
    the results.  [spec] / [independent] is the specification: a separate run on a fresh copy of
    the model with exactly that row's values, listed in input order under the input labels. *)
From Coq Require Import List ZArith NArith.
From Scan Require Import ScanGeneric ScanModel GenScanFacts ScanProofs.
Import ListNotations.

Theorem C09_facts_pinned : gen_scan_facts = mkScanFacts true true true true true true PhStepGrid.
Proof. vm_compute. reflexivity. Qed.
Print Assumptions C09_facts_pinned.

(** the pool: whatever the completion order and the worker that ran each task, the results are
    handed out in input order, one per task (any number of tasks, any schedule that completes
    every task) *)
Theorem C09_pool_schedule_independent :
  forall (T R : Type) (f : T -> R) (tasks : list T) (sched : list (nat * nat)),
    (forall i, i < length tasks -> In i (map fst sched)) ->
    collect (pool_run sched f tasks) = map f tasks.
Proof. exact pool_schedule_independent. Qed.
Print Assumptions C09_pool_schedule_independent.

(** ANY worker and ANY lazy view (steady-state, time-course, protocol, protocol-time-course, the
    Monte-Carlo variants, user-supplied workers), any model, any table, sequential or parallel
    with any number of workers, any completion order, more or fewer rows than workers:
    the list-based container shows, for the i-th row, exactly what a separate run on a fresh copy
    of the model with that row gives, under that row's label.  In sequential mode this needs the
    task to work on its own deep copy ([copies = true], pinned above); in parallel mode it holds
    either way. *)
Theorem C09_scan_equals_independent_any_worker :
  forall (M Row Lbl Sim Out : Type) (apply_row : Row -> M -> M) (work : M -> Sim * M)
         (view : Sim -> M -> Out * M) (copies : bool) (md : mode) (m0 : M) (rows : list (Lbl * Row)),
    (md = Seq -> copies = true) ->
    mode_ok md (length rows) ->
    scan_list M Row Lbl Sim Out apply_row work view copies md m0 rows
    = map (fun lr => (fst lr, independent M Row Sim Out apply_row work view m0 (snd lr))) rows.
Proof. exact scan_list_equals_independent. Qed.
Print Assumptions C09_scan_equals_independent_any_worker.

(** the dict-keyed containers (time-course / protocol scans): the same, for tables whose index
    labels are pairwise different.
    FULL STATEMENT (false, see C09_duplicate_labels_refuted): the same without [NoDup]. *)
Theorem C09_dict_scan_equals_independent_any_worker_partial :
  forall (M Row Lbl Sim Out : Type) (apply_row : Row -> M -> M) (work : M -> Sim * M)
         (view : Sim -> M -> Out * M) (lbl_eqb : Lbl -> Lbl -> bool),
    (forall a b, lbl_eqb a b = true <-> a = b) ->
    forall (copies : bool) (md : mode) (m0 : M) (rows : list (Lbl * Row)),
    (md = Seq -> copies = true) ->
    mode_ok md (length rows) ->
    NoDup (map fst rows) ->
    scan_dict M Row Lbl Sim Out apply_row work view lbl_eqb copies md m0 rows
    = map (fun lr => (fst lr, independent M Row Sim Out apply_row work view m0 (snd lr))) rows.
Proof. exact scan_dict_equals_independent. Qed.
Print Assumptions C09_dict_scan_equals_independent_any_worker_partial.

(** the executable instance the correspondence check runs against the real code, at the facts of
    the current source: steady-state scans (list container) ... *)
Theorem C09_steady_state_scan_equals_independent :
  forall (w : wkind) (md : mode) (m0 : mdl) (rows : list (label * row)),
    mode_ok md (length rows) ->
    scan_list_c gen_scan_facts w md m0 rows
    = map (fun lr => (fst lr, independent_c w m0 (snd lr))) rows.
Proof. exact (list_scan_pinned gen_scan_facts C09_facts_pinned). Qed.
Print Assumptions C09_steady_state_scan_equals_independent.

(** ... and time-course scans (dict container) *)
Theorem C09_time_course_scan_equals_independent_partial :
  forall (w : wkind) (md : mode) (m0 : mdl) (rows : list (label * row)),
    mode_ok md (length rows) ->
    NoDup (map fst rows) ->
    scan_dict_c gen_scan_facts w md m0 rows
    = map (fun lr => (fst lr, independent_c w m0 (snd lr))) rows.
Proof. exact (dict_scan_pinned gen_scan_facts C09_facts_pinned). Qed.
Print Assumptions C09_time_course_scan_equals_independent_partial.

(** duplicate index labels in the table: rows are lost, in every mode (known finding) *)
Theorem C09_duplicate_labels_refuted :
  exists (w : wkind) (m0 : mdl) (rows : list (label * row)),
    forall md, mode_ok md (length rows) ->
      length (scan_dict_c gen_scan_facts w md m0 rows) <> length rows.
Proof. exact (duplicate_labels_pinned gen_scan_facts C09_facts_pinned). Qed.
Print Assumptions C09_duplicate_labels_refuted.

(** why the deep copy matters (the defect repaired by fixes/C09-sequential-shared-model.diff):
    with one shared model object, a parameter defined by an initial assignment on a scanned
    initial value is read from the LAST row by every lazily evaluated result:
    fluxes 3,3,3 instead of 1,2,3 *)
Theorem C09_sequential_shared_model_refuted :
  forall f : scan_facts, sf_copies f = false ->
    map first_flux (scan_dict_c f (WTimeCourse [0; 1]%Z) Seq stale_model stale_rows)
      = [Some (Num 3); Some (Num 3); Some (Num 3)]
    /\ map first_flux (map (fun lr => (fst lr, independent_c (WTimeCourse [0; 1]%Z) stale_model (snd lr))) stale_rows)
      = [Some (Num 1); Some (Num 2); Some (Num 3)].
Proof. exact shared_model_stale. Qed.
Print Assumptions C09_sequential_shared_model_refuted.

(** a row that fails (integration failure, or ZeroDivisionError during the run) in a model that
    can be evaluated at t = 0: the worker returns a NaN placeholder over the requested time points
    with one NaN per variable -- by the theorems above at the row's own position and label *)
Theorem C09_tc_failed_row_is_nan_placeholder :
  forall (m : mdl) (c : cache) (tps : list Z),
    create_cache m = Ok c ->
    (integ_of (WTimeCourse tps) m c = IFail \/ integ_of (WTimeCourse tps) m c = IZeroDiv) ->
    exists rv rp, work (WTimeCourse tps) m = (SOk rv rp, m) /\ map fst rv = tps /\
      Forall (fun tv => length (snd tv) = length (m_vars m) /\ Forall (fun v => v = NaN) (snd tv)) rv.
Proof. exact tc_placeholder. Qed.
Print Assumptions C09_tc_failed_row_is_nan_placeholder.

(** ... of the right shape: the placeholder has the time axis of a successful row when the
    requested time points start at 0.
    FULL STATEMENT (false, see C09_tc_placeholder_shape_refuted): the same without [starts_at_zero]. *)
Theorem C09_tc_placeholder_shape_partial :
  forall (tps : list Z) (m : mdl) (c : cache) (tc : list (Z * list val)) (m' : mdl) (c' : cache),
    starts_at_zero tps = true ->
    create_cache m = Ok c -> integ_of (WTimeCourse tps) m c = IOk tc ->
    create_cache m' = Ok c' ->
    (integ_of (WTimeCourse tps) m' c' = IFail \/ integ_of (WTimeCourse tps) m' c' = IZeroDiv) ->
    exists rv rp rv' rp',
      work (WTimeCourse tps) m = (SOk rv rp, m) /\ work (WTimeCourse tps) m' = (SOk rv' rp', m') /\
      map fst rv' = map fst rv /\
      Forall (fun tv => length (snd tv) = length (m_vars m') /\ Forall (fun v => v = NaN) (snd tv)) rv'.
Proof. exact tc_placeholder_shape. Qed.
Print Assumptions C09_tc_placeholder_shape_partial.

(** time points 1,2: a successful row has rows for t = 0,1,2 (the integrator inserts its start
    point), the placeholder only for 1,2 (known finding) *)
Theorem C09_tc_placeholder_shape_refuted :
  exists rv rp rv' rp',
    work (WTimeCourse [1; 2]%Z) (sq_model 0) = (SOk rv rp, sq_model 0) /\
    work (WTimeCourse [1; 2]%Z) (sq_model 100) = (SOk rv' rp', sq_model 100) /\
    map fst rv = [0; 1; 2]%Z /\ map fst rv' = [1; 2]%Z /\ rv' = nan_rows (sq_model 100) [1; 2]%Z.
Proof. exact tc_placeholder_misses_t0. Qed.
Print Assumptions C09_tc_placeholder_shape_refuted.

(** steady-state scans: a failing row is one NaN row, like the one row of a successful search *)
Theorem C09_ss_placeholder_shape :
  forall (m : mdl) (c : cache) (tc : list (Z * list val)) (m' : mdl) (c' : cache),
    create_cache m = Ok c -> integ_of WSteady m c = IOk tc ->
    create_cache m' = Ok c' -> (integ_of WSteady m' c' = IFail \/ integ_of WSteady m' c' = IZeroDiv) ->
    exists rv rp rv' rp',
      work WSteady m = (SOk rv rp, m) /\ work WSteady m' = (SOk rv' rp', m') /\
      length rv' = length rv /\
      Forall (fun tv => length (snd tv) = length (m_vars m') /\ Forall (fun v => v = NaN) (snd tv)) rv'.
Proof. exact ss_placeholder_shape. Qed.
Print Assumptions C09_ss_placeholder_shape.

(** outside the guard [create_cache m = Ok c]: a row for which the model cannot even be evaluated
    at t = 0 (division by zero) makes the worker call -- hence the whole scan -- raise instead of
    yielding a placeholder; a separate run raises as well (known finding) *)
Theorem C09_unevaluable_row_refuted :
  fst (work (WTimeCourse [0; 1]%Z) (apply_row [(10%N, 0%Z)] (guard_model 2))) = SCrash EZeroDiv
  /\ independent_c (WTimeCourse [0; 1]%Z) (guard_model 2) [(10%N, 0%Z)] = OCrash EZeroDiv.
Proof. exact unevaluable_row_raises. Qed.
Print Assumptions C09_unevaluable_row_refuted.

(** protocol scans: the placeholder's time axis IS the axis of a successful run (t = 0, then
    [time_points_per_step] points per step), for every protocol and every number of points, for
    every way of computing np.linspace whose first point is its start *)
Theorem C09_protocol_placeholder_axis :
  forall (T : Type) (lin : T -> T -> nat -> nat -> T) (zero : T),
    (forall a b n, lin a b n 0 = a) ->
    forall (tends : list T) (tpps : nat), tends <> [] ->
      placeholder_axis T lin zero (sf_protocol_axis gen_scan_facts) tends tpps
      = success_axis T lin zero tends tpps.
Proof. exact (protocol_axis_pinned gen_scan_facts C09_facts_pinned). Qed.
Print Assumptions C09_protocol_placeholder_axis.

(** the axis repaired by fixes/C09-protocol-placeholder-axis.diff was one row short, always *)
Theorem C09_protocol_unfixed_axis_refuted :
  forall (T : Type) (lin : T -> T -> nat -> nat -> T) (zero : T),
    (forall a b n, lin a b n 0 = a) ->
    forall (tends : list T) (tpps : nat), tends <> [] ->
      S (length (placeholder_axis T lin zero PhLinspaceNT tends tpps))
      = length (success_axis T lin zero tends tpps).
Proof. exact protocol_unfixed_axis_short. Qed.
Print Assumptions C09_protocol_unfixed_axis_refuted.

(** non-vacuity: three rows, two workers, tasks completing in the order 2, 0, 1; the model whose
    parameter is assigned from the scanned initial value *)
Example C09_nonvacuous :
  let md := Par 2 [(2, 1); (0, 0); (1, 1)] in
  mode_ok md (length stale_rows) /\ NoDup (map fst stale_rows) /\
  map first_flux (scan_dict_c expected_facts (WTimeCourse [0; 1]%Z) md stale_model stale_rows)
    = [Some (Num 1); Some (Num 2); Some (Num 3)] /\
  map first_flux (scan_dict_c expected_facts (WTimeCourse [0; 1]%Z) Seq stale_model stale_rows)
    = [Some (Num 1); Some (Num 2); Some (Num 3)].
Proof. exact nonvacuous_schedule. Qed.
Print Assumptions C09_nonvacuous.
