From Scan Require Import ScanGeneric ScanModel GenScanFacts.
Theorem C09_facts_pinned : gen_scan_facts = mkScanFacts true true true true true true PhStepGrid.
Proof. vm_compute. reflexivity. Qed.
Print Assumptions C09_facts_pinned.
