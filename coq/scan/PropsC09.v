(** C09 -- Scans equal independent runs, row-aligned, under any scheduling.

    ONLY theorem statements (written out in full), each closed by [exact <lemma>] and followed by
    [Print Assumptions].  [gen_scan_facts] is REGENERATED from /repo/src/mxlpy/{scan,mc,parallel,
    simulation}.py on every run; [C09_facts_pinned] is the obligation that breaks when
    [_update_parameters_and_initial_conditions] stops working on its own deep copy of the model,
    when the pool / sequential map, the result containers, [Simulation.default] /
    [_compute_args] or the workers' placeholder axes are edited.

    Reading guide.  [scan_list] / [scan_dict] (ScanGeneric.v) are the executable heap semantics of
    a scan: model objects live in a heap, results keep an ADDRESS and are viewed lazily against
    the object at that address; [Seq] runs all tasks on the caller's heap, [Par w sched] pickles
    each task, lets the pool complete them in the order [sched] on workers [< w] and unpickles
    the results.  [spec] / [independent] is the specification: a separate run on a fresh copy of
    the model with exactly that row's values, listed in input order under the input labels. *)
From Coq Require Import List ZArith NArith Sorting.Sorted.
From Scan Require Import ScanGeneric ScanModel ScanNested ScanY0 ExpectedFacts GenScanFacts ScanWarm ScanProofs ScanProofs2 ScanProofs3 ScanProofs4.
Import ListNotations.

(** [C09_expected_tc / _ptc / _dups] (ExpectedFacts.v) say which form of the two proposed repairs the
    tree is expected to have: the snapshot forms (TcRequested, PtcRequested, DupCollapse -- recorded
    findings) until fixes/C09-tc-placeholder-start-point.diff and fixes/C09-duplicate-labels-refused.diff
    are applied, the repaired forms afterwards (tools/c09_switch.py). *)
Theorem C09_facts_pinned :
  gen_scan_facts = mkScanFacts true true true true true true PhStepGrid C09_expected_tc C09_expected_ptc C09_expected_dups.
Proof. vm_compute. reflexivity. Qed.
Print Assumptions C09_facts_pinned.

(** the nine entry points of scan.py / mc.py, each with its default worker, its result container,
    the way it picks the pool and whether it tests the index first -- regenerated from the source *)
Theorem C09_entry_points_pinned : gen_entry_points = expected_entry_points.
Proof. vm_compute. reflexivity. Qed.
Print Assumptions C09_entry_points_pinned.

(** the pool: whatever the completion order and the worker that ran each task, the results are
    handed out in input order, one per task (any number of tasks, any schedule that completes
    every task) *)
Theorem C09_pool_schedule_independent :
  forall (T R : Type) (f : T -> R) (tasks : list T) (sched : list (nat * nat)),
    (forall i, i < length tasks -> In i (map fst sched)) ->
    collect (pool_run sched f tasks) = map f tasks.
Proof. exact pool_schedule_independent. Qed.
Print Assumptions C09_pool_schedule_independent.

(** ANY worker and ANY lazy view (steady-state, time-course, protocol, protocol-time-course, the
    Monte-Carlo variants, user-supplied workers), any model, any table, sequential or parallel
    with any number of workers, any completion order, more or fewer rows than workers:
    the list-based container shows, for the i-th row, exactly what a separate run on a fresh copy
    of the model with that row gives, under that row's label.  In sequential mode this needs the
    task to work on its own deep copy ([copies = true], pinned above); in parallel mode it holds
    either way. *)
Theorem C09_scan_equals_independent_any_worker :
  forall (M Row Lbl Sim Out : Type) (apply_row : Row -> M -> M) (work : M -> Sim * M)
         (view : Sim -> M -> Out * M) (copies : bool) (md : mode) (m0 : M) (rows : list (Lbl * Row)),
    (md = Seq -> copies = true) ->
    mode_ok md (length rows) ->
    scan_list M Row Lbl Sim Out apply_row work view copies md m0 rows
    = map (fun lr => (fst lr, independent M Row Sim Out apply_row work view m0 (snd lr))) rows.
Proof. exact scan_list_equals_independent. Qed.
Print Assumptions C09_scan_equals_independent_any_worker.

(** the dict-keyed containers (time-course / protocol scans): the same, for tables whose index
    labels are pairwise different.
    FULL STATEMENT (false, see C09_duplicate_labels_refuted): the same without [NoDup]. *)
Theorem C09_dict_scan_equals_independent_any_worker_partial :
  forall (M Row Lbl Sim Out : Type) (apply_row : Row -> M -> M) (work : M -> Sim * M)
         (view : Sim -> M -> Out * M) (lbl_eqb : Lbl -> Lbl -> bool),
    (forall a b, lbl_eqb a b = true <-> a = b) ->
    forall (copies : bool) (md : mode) (m0 : M) (rows : list (Lbl * Row)),
    (md = Seq -> copies = true) ->
    mode_ok md (length rows) ->
    NoDup (map fst rows) ->
    scan_dict M Row Lbl Sim Out apply_row work view lbl_eqb copies md m0 rows
    = map (fun lr => (fst lr, independent M Row Sim Out apply_row work view m0 (snd lr))) rows.
Proof. exact scan_dict_equals_independent. Qed.
Print Assumptions C09_dict_scan_equals_independent_any_worker_partial.

(** the executable instance the correspondence check runs against the real code, at the facts of
    the current source: steady-state scans (list container) ... *)
Theorem C09_steady_state_scan_equals_independent :
  forall (w : wkind) (md : mode) (m0 : mdl) (rows : list (label * row)),
    mode_ok md (length rows) ->
    scan_list_c gen_scan_facts w md m0 rows
    = map (fun lr => (fst lr, independent_c (sf_tc_axis gen_scan_facts) w m0 (snd lr))) rows.
Proof. exact (list_scan_pinned gen_scan_facts (f_equal sf_copies C09_facts_pinned)). Qed.
Print Assumptions C09_steady_state_scan_equals_independent.

(** ... and time-course scans (dict container) *)
Theorem C09_time_course_scan_equals_independent_partial :
  forall (w : wkind) (md : mode) (m0 : mdl) (rows : list (label * row)),
    mode_ok md (length rows) ->
    NoDup (map fst rows) ->
    scan_dict_c gen_scan_facts w md m0 rows
    = map (fun lr => (fst lr, independent_c (sf_tc_axis gen_scan_facts) w m0 (snd lr))) rows.
Proof. exact (dict_scan_pinned gen_scan_facts (f_equal sf_copies C09_facts_pinned)). Qed.
Print Assumptions C09_time_course_scan_equals_independent_partial.

(** duplicate index labels in the table: the dict-keyed CONTAINER loses rows, in every mode (this is
    why the entry points must test the index first, see C09_dict_scan_checked_total below) *)
Theorem C09_duplicate_labels_refuted :
  exists (w : wkind) (m0 : mdl) (rows : list (label * row)),
    forall md, mode_ok md (length rows) ->
      length (scan_dict_c gen_scan_facts w md m0 rows) <> length rows.
Proof. exact (duplicate_labels_pinned gen_scan_facts (f_equal sf_copies C09_facts_pinned)). Qed.
Print Assumptions C09_duplicate_labels_refuted.

(** why the deep copy matters (the defect repaired by fixes/C09-sequential-shared-model.diff):
    with one shared model object, a parameter defined by an initial assignment on a scanned
    initial value is read from the LAST row by every lazily evaluated result:
    fluxes 3,3,3 instead of 1,2,3 *)
Theorem C09_sequential_shared_model_refuted :
  forall f : scan_facts, sf_copies f = false ->
    map first_flux (scan_dict_c f (WTimeCourse [0; 1]%Z) Seq stale_model stale_rows)
      = [Some (Num 3); Some (Num 3); Some (Num 3)]
    /\ map first_flux (map (fun lr => (fst lr, independent_c (sf_tc_axis f) (WTimeCourse [0; 1]%Z) stale_model (snd lr))) stale_rows)
      = [Some (Num 1); Some (Num 2); Some (Num 3)].
Proof. exact shared_model_stale. Qed.
Print Assumptions C09_sequential_shared_model_refuted.

(** a row that fails (integration failure, or ZeroDivisionError during the run) in a model that
    can be evaluated at t = 0: the worker returns a NaN placeholder with one NaN per variable over
    the placeholder axis of the worker ([tc_placeholder_axis]: the requested points, with the start
    point in front once the worker does what the integrators do) -- by the theorems above at the
    row's own position and label.  (Statement generalised over the regenerated axis fact [ax].) *)
Theorem C09_tc_failed_row_is_nan_placeholder :
  forall (ax : tc_axis) (m : mdl) (c : cache) (tps : list Z),
    create_cache m = Ok c ->
    (integ_of (WTimeCourse tps) m c = IFail \/ integ_of (WTimeCourse tps) m c = IZeroDiv) ->
    exists rv rp, work ax (WTimeCourse tps) m = (SOk rv rp, m) /\ map fst rv = tc_placeholder_axis ax tps /\
      Forall (fun tv => length (snd tv) = length (m_vars m) /\ Forall (fun v => v = NaN) (snd tv)) rv.
Proof. exact tc_placeholder. Qed.
Print Assumptions C09_tc_failed_row_is_nan_placeholder.

(** ... of the right shape, FULL STATEMENT: with the start point put in front as the integrators do
    ([TcWithStart], fixes/C09-tc-placeholder-start-point.diff) the placeholder has the time axis of a
    successful row for EVERY list of requested time points *)
Theorem C09_tc_placeholder_shape :
  forall (tps : list Z) (m : mdl) (c : cache) (tc : list (Z * list val)) (m' : mdl) (c' : cache),
    create_cache m = Ok c -> integ_of (WTimeCourse tps) m c = IOk tc ->
    create_cache m' = Ok c' ->
    (integ_of (WTimeCourse tps) m' c' = IFail \/ integ_of (WTimeCourse tps) m' c' = IZeroDiv) ->
    exists rv rp rv' rp',
      work TcWithStart (WTimeCourse tps) m = (SOk rv rp, m) /\ work TcWithStart (WTimeCourse tps) m' = (SOk rv' rp', m') /\
      map fst rv' = map fst rv /\
      Forall (fun tv => length (snd tv) = length (m_vars m') /\ Forall (fun v => v = NaN) (snd tv)) rv'.
Proof. exact tc_placeholder_shape. Qed.
Print Assumptions C09_tc_placeholder_shape.

(** whatever the worker's axis fact: the same axis when the requested time points start at 0
    (what holds of the snapshot tree; FULL STATEMENT without [starts_at_zero]: above, for TcWithStart;
    false for TcRequested, see C09_tc_placeholder_shape_refuted) *)
Theorem C09_tc_placeholder_shape_partial :
  forall (ax : tc_axis) (tps : list Z) (m : mdl) (c : cache) (tc : list (Z * list val)) (m' : mdl) (c' : cache),
    starts_at_zero tps = true ->
    create_cache m = Ok c -> integ_of (WTimeCourse tps) m c = IOk tc ->
    create_cache m' = Ok c' ->
    (integ_of (WTimeCourse tps) m' c' = IFail \/ integ_of (WTimeCourse tps) m' c' = IZeroDiv) ->
    exists rv rp rv' rp',
      work ax (WTimeCourse tps) m = (SOk rv rp, m) /\ work ax (WTimeCourse tps) m' = (SOk rv' rp', m') /\
      map fst rv' = map fst rv /\
      Forall (fun tv => length (snd tv) = length (m_vars m') /\ Forall (fun v => v = NaN) (snd tv)) rv'.
Proof. exact tc_placeholder_shape_partial. Qed.
Print Assumptions C09_tc_placeholder_shape_partial.

(** regression: with the requested points as placeholder axis ([TcRequested], the tree before the
    repair) and time points 1,2: a successful row has rows for t = 0,1,2 (the integrator inserts its
    start point), the placeholder only for 1,2 *)
Theorem C09_tc_placeholder_shape_refuted :
  exists rv rp rv' rp',
    work TcRequested (WTimeCourse [1; 2]%Z) (sq_model 0) = (SOk rv rp, sq_model 0) /\
    work TcRequested (WTimeCourse [1; 2]%Z) (sq_model 100) = (SOk rv' rp', sq_model 100) /\
    map fst rv = [0; 1; 2]%Z /\ map fst rv' = [1; 2]%Z /\ rv' = nan_rows (sq_model 100) [1; 2]%Z.
Proof. exact tc_placeholder_misses_t0. Qed.
Print Assumptions C09_tc_placeholder_shape_refuted.

(** steady-state scans: a failing row is one NaN row, like the one row of a successful search *)
Theorem C09_ss_placeholder_shape :
  forall (ax : tc_axis) (m : mdl) (c : cache) (tc : list (Z * list val)) (m' : mdl) (c' : cache),
    create_cache m = Ok c -> integ_of WSteady m c = IOk tc ->
    create_cache m' = Ok c' -> (integ_of WSteady m' c' = IFail \/ integ_of WSteady m' c' = IZeroDiv) ->
    exists rv rp rv' rp',
      work ax WSteady m = (SOk rv rp, m) /\ work ax WSteady m' = (SOk rv' rp', m') /\
      length rv' = length rv /\
      Forall (fun tv => length (snd tv) = length (m_vars m') /\ Forall (fun v => v = NaN) (snd tv)) rv'.
Proof. exact ss_placeholder_shape. Qed.
Print Assumptions C09_ss_placeholder_shape.

(** outside the guard [create_cache m = Ok c]: a row for which the model cannot even be evaluated
    at t = 0 (division by zero) makes the worker call -- hence the whole scan -- raise instead of
    yielding a placeholder; a separate run raises as well (known finding) *)
Theorem C09_unevaluable_row_refuted :
  forall ax : tc_axis,
  fst (work ax (WTimeCourse [0; 1]%Z) (apply_row [(10%N, 0%Z)] (guard_model 2))) = SCrash EZeroDiv
  /\ independent_c ax (WTimeCourse [0; 1]%Z) (guard_model 2) [(10%N, 0%Z)] = OCrash EZeroDiv.
Proof. exact unevaluable_row_raises. Qed.
Print Assumptions C09_unevaluable_row_refuted.

(** ... and why a placeholder built WITHOUT evaluating the model would not repair it: whatever data
    a result carries, every view of it against that row's model raises ([_compute_args] ->
    [Model.get_args_time_course], and even the column names, [get_arg_names] ->
    [get_derived_variables], go through [_create_cache], which evaluates the model at t = 0) *)
Theorem C09_unevaluable_row_any_placeholder_view_refuted :
  forall (rv : list (Z * list val)),
    let m := apply_row [(10%N, 0%Z)] (guard_model 2) in
    fst (view (SOk rv (plain_of (m_pars m))) m) = OCrash EZeroDiv.
Proof. exact unevaluable_row_any_placeholder_view_raises. Qed.
Print Assumptions C09_unevaluable_row_any_placeholder_view_refuted.

(** protocol scans: the placeholder's time axis IS the axis of a successful run (t = 0, then
    [time_points_per_step] points per step), for every protocol and every number of points, for
    every way of computing np.linspace whose first point is its start *)
Theorem C09_protocol_placeholder_axis :
  forall (T : Type) (lin : T -> T -> nat -> nat -> T) (zero : T),
    (forall a b n, lin a b n 0 = a) ->
    forall (tends : list T) (tpps : nat), tends <> [] ->
      placeholder_axis T lin zero (sf_protocol_axis gen_scan_facts) tends tpps
      = success_axis T lin zero tends tpps.
Proof. exact (protocol_axis_pinned gen_scan_facts (f_equal sf_protocol_axis C09_facts_pinned)). Qed.
Print Assumptions C09_protocol_placeholder_axis.

(** the axis repaired by fixes/C09-protocol-placeholder-axis.diff was one row short, always *)
Theorem C09_protocol_unfixed_axis_refuted :
  forall (T : Type) (lin : T -> T -> nat -> nat -> T) (zero : T),
    (forall a b n, lin a b n 0 = a) ->
    forall (tends : list T) (tpps : nat), tends <> [] ->
      S (length (placeholder_axis T lin zero PhLinspaceNT tends tpps))
      = length (success_axis T lin zero tends tpps).
Proof. exact protocol_unfixed_axis_short. Qed.
Print Assumptions C09_protocol_unfixed_axis_refuted.

(** ---- the index test of the dict-keyed entry points ([_require_unique_index]) ----
    FULL STATEMENT for the dict-keyed containers: with the test in front, for EVERY table: pairwise
    different labels give exactly the independent runs in input order, anything else is refused
    (ValueError) -- never a table with rows missing *)
Theorem C09_dict_scan_checked_total :
  forall (M Row Lbl Sim Out : Type) (apply_row : Row -> M -> M) (work : M -> Sim * M)
         (view : Sim -> M -> Out * M) (lbl_eqb : Lbl -> Lbl -> bool),
    (forall a b, lbl_eqb a b = true <-> a = b) ->
    forall (copies : bool) (md : mode) (m0 : M) (rows : list (Lbl * Row)),
    (md = Seq -> copies = true) ->
    mode_ok md (length rows) ->
    (NoDup (map fst rows) ->
       scan_dict_checked M Row Lbl Sim Out apply_row work view lbl_eqb true copies md m0 rows
       = Some (map (fun lr => (fst lr, independent M Row Sim Out apply_row work view m0 (snd lr))) rows)) /\
    (~ NoDup (map fst rows) ->
       scan_dict_checked M Row Lbl Sim Out apply_row work view lbl_eqb true copies md m0 rows = None).
Proof. exact scan_dict_checked_total. Qed.
Print Assumptions C09_dict_scan_checked_total.

(** the executable instance, for any facts with the deep copy and the index test (the tree after
    fixes/C09-duplicate-labels-refused.diff) *)
Theorem C09_time_course_scan_checked_total :
  forall f : scan_facts, sf_copies f = true -> sf_dups f = DupRefuse ->
  forall (w : wkind) (md : mode) (m0 : mdl) (rows : list (label * row)),
    mode_ok md (length rows) ->
    (NoDup (map fst rows) ->
       scan_dict_checked_c f w md m0 rows
       = Some (map (fun lr => (fst lr, independent_c (sf_tc_axis f) w m0 (snd lr))) rows)) /\
    (~ NoDup (map fst rows) -> scan_dict_checked_c f w md m0 rows = None).
Proof. exact dict_checked_refusing. Qed.
Print Assumptions C09_time_course_scan_checked_total.

(** regression: without the test ([DupCollapse], the tree before the repair) a table with equal
    labels is ACCEPTED and comes back with fewer blocks than rows, in every mode *)
Theorem C09_duplicate_labels_collapse_refuted :
  forall f : scan_facts, sf_copies f = true -> sf_dups f = DupCollapse ->
  exists (w : wkind) (m0 : mdl) (rows : list (label * row)),
    forall md, mode_ok md (length rows) ->
      exists t, scan_dict_checked_c f w md m0 rows = Some t /\ length t <> length rows.
Proof. exact dict_collapsing_loses_rows. Qed.
Print Assumptions C09_duplicate_labels_collapse_refuted.

(** ---- every entry point, explicitly ----
    For each of the nine entry points of the pinned table (scan.steady_state / time_course / protocol /
    protocol_time_course, mc.steady_state / time_course / protocol / protocol_time_course /
    scan_steady_state): ANY semantics of the five workers (each with its own simulation call and its
    own placeholder), any lazy view, any model, any table, any admissible mode (mc.* always uses the
    pool), any number of workers and completion order: the entry point's result is the table of
    independent runs -- for the list container always, for the dict-keyed ones when the labels are
    pairwise different, for the nested Monte-Carlo scan per outer row the inner table of independent
    runs on the model with the outer row applied first (its inner scan is sequential, so it needs the
    deep copy in every mode). *)
Theorem C09_every_entry_point_equals_independent :
  forall (M Row Lbl Lbl2 Sim Out : Type) (apply_row : Row -> M -> M) (workers : wname -> M -> Sim * M)
         (view : Sim -> M -> Out * M) (lbl_eqb : Lbl -> Lbl -> bool),
    (forall a b, lbl_eqb a b = true <-> a = b) ->
    forall (ep : entry_point) (copies : bool) (md : mode) (m0 : M) (inner : list (Lbl2 * Row)) (rows : list (Lbl * Row)),
    (md = Seq -> copies = true) ->
    (ep_container ep = CDictOfScans -> copies = true) ->
    ep_mode_ok ep md (length rows) ->
    (ep_container ep = CList \/ NoDup (map fst rows)) ->
    entry_scan M Row Lbl Lbl2 Sim Out apply_row workers view lbl_eqb ep copies md m0 inner rows
    = match ep_container ep with
      | CList | CDict =>
          EpTable (map (fun lr => (fst lr, independent M Row Sim Out apply_row (workers (ep_worker ep)) view m0 (snd lr))) rows)
      | CDictOfScans =>
          EpNested (map (fun lr => (fst lr,
                      map (fun lr2 => (fst lr2, independent M Row Sim Out apply_row (workers WkSteadyState) view
                                                  (apply_row (snd lr) m0) (snd lr2))) inner)) rows)
      end.
Proof. exact entry_point_spec. Qed.
Print Assumptions C09_every_entry_point_equals_independent.

(** ... and an entry point that tests the index refuses every table with equal labels *)
Theorem C09_every_checking_entry_point_refuses_duplicates :
  forall (M Row Lbl Lbl2 Sim Out : Type) (apply_row : Row -> M -> M) (workers : wname -> M -> Sim * M)
         (view : Sim -> M -> Out * M) (lbl_eqb : Lbl -> Lbl -> bool),
    (forall a b, lbl_eqb a b = true <-> a = b) ->
    forall (ep : entry_point) (copies : bool) (md : mode) (m0 : M) (inner : list (Lbl2 * Row)) (rows : list (Lbl * Row)),
    ep_container ep <> CList -> ep_checks_dups ep = true -> ~ NoDup (map fst rows) ->
    entry_scan M Row Lbl Lbl2 Sim Out apply_row workers view lbl_eqb ep copies md m0 inner rows = EpRefused.
Proof. exact entry_point_refuses. Qed.
Print Assumptions C09_every_checking_entry_point_refuses_duplicates.

(** the nested Monte-Carlo scan on its own (mc.scan_steady_state): outer level in the pool or
    sequential, inner level always sequential; whatever the index test *)
Theorem C09_nested_mc_scan_equals_independent :
  forall (M Row Lbl Lbl2 Sim Out : Type) (apply_row : Row -> M -> M) (work : M -> Sim * M)
         (view : Sim -> M -> Out * M) (lbl_eqb : Lbl -> Lbl -> bool),
    (forall a b, lbl_eqb a b = true <-> a = b) ->
    forall (refuse : bool) (md : mode) (m0 : M) (inner : list (Lbl2 * Row)) (rows : list (Lbl * Row)),
    mode_ok md (length rows) -> NoDup (map fst rows) ->
    nested_scan M Row Lbl Lbl2 Sim Out apply_row work view lbl_eqb refuse true md m0 inner rows
    = Some (map (fun lr => (fst lr,
              map (fun lr2 => (fst lr2, independent M Row Sim Out apply_row work view (apply_row (snd lr) m0) (snd lr2))) inner))
            rows).
Proof. exact nested_scan_spec. Qed.
Print Assumptions C09_nested_mc_scan_equals_independent.

(** ---- the number of rows relative to workers: ANY partition of the rows into batches ----
    The ordered map is handed [batches] of tasks instead of single tasks (pebble's chunksize, or any
    hand-made partition); each batch is worked off in order by one worker, the batches complete in ANY
    order on any workers ([sched]), the ordered map hands the batch results out in batch order and
    they are concatenated.  The flattened result is [map f] of the tasks in the order in which the
    batches list them ... *)
Theorem C09_any_batching_any_order :
  forall (T R : Type) (f : T -> R) (batches : list (list T)) (sched : list (nat * nat)),
    (forall i, i < length batches -> In i (map fst sched)) ->
    concat (collect (pool_run sched (map f) batches)) = map f (concat batches).
Proof. exact pool_batches_flat. Qed.
Print Assumptions C09_any_batching_any_order.

(** ... hence aligned with the input rows for every worker function EXACTLY when the partition keeps
    the input order (contiguous chunks of any sizes; one row per batch is what the tree does) *)
Theorem C09_batching_aligned_iff_order_preserving :
  forall (T : Type) (tasks : list T) (batches : list (list T)) (sched : list (nat * nat)),
    (forall i, i < length batches -> In i (map fst sched)) ->
    ((forall (R : Type) (f : T -> R), concat (collect (pool_run sched (map f) batches)) = map f tasks)
     <-> concat batches = tasks).
Proof. exact batching_aligned_iff. Qed.
Print Assumptions C09_batching_aligned_iff_order_preserving.

(** the whole scan over batches, heap semantics included (a batch runs sequentially in ONE process on
    that process' private heap and travels back as ONE message, so sharing inside a batch survives
    the pickling): with one deep copy per task, for any partition and any completion order, the
    container shows the independent runs of the rows in the order in which the batches list them *)
Theorem C09_batched_scan_equals_independent :
  forall (M Row Lbl Sim Out : Type) (apply_row : Row -> M -> M) (work : M -> Sim * M)
         (view : Sim -> M -> Out * M) (sched : list (nat * nat)) (m0 : M) (rows : list (Lbl * Row))
         (batches : list (list (Lbl * Row))),
    concat batches = rows ->
    (forall i, i < length batches -> In i (map fst sched)) ->
    scan_list_batched M Row Lbl Sim Out apply_row work view true sched m0 batches
    = map (fun lr => (fst lr, independent M Row Sim Out apply_row work view m0 (snd lr))) rows.
Proof. exact scan_list_batched_order_preserving. Qed.
Print Assumptions C09_batched_scan_equals_independent.

(** regression (seeded change C09-1): rows dealt round-robin into two batches and the batch results
    concatenated -- three rows come back in the order 0, 2, 1 *)
Theorem C09_round_robin_batches_refuted :
  deal 2 stale_rows = [[(0, [(10%N, 1)]); (2, [(10%N, 3)])]; [(1, [(10%N, 2)])]]%Z /\
  forall ax, map first_flux (scan_list_batched_c true ax (WTimeCourse [0; 1]%Z) [(1, 0); (0, 1)] stale_model (deal 2 stale_rows))
             = [Some (Num 1); Some (Num 3); Some (Num 2)].
Proof. exact round_robin_misaligned. Qed.
Print Assumptions C09_round_robin_batches_refuted.

(** regression: with batches the deep copy matters in PARALLEL mode too -- one batch of three rows
    without it shows 3,3,3, with it 1,2,3 *)
Theorem C09_batched_without_copy_refuted :
  forall ax, map first_flux (scan_list_batched_c false ax (WTimeCourse [0; 1]%Z) [(0, 0)] stale_model [stale_rows])
             = [Some (Num 3); Some (Num 3); Some (Num 3)]
  /\ map first_flux (scan_list_batched_c true ax (WTimeCourse [0; 1]%Z) [(0, 0)] stale_model [stale_rows])
             = [Some (Num 1); Some (Num 2); Some (Num 3)].
Proof. exact batched_without_copy_stale. Qed.
Print Assumptions C09_batched_without_copy_refuted.

(** ---- protocol-time-course scans: the placeholder's axis ----
    [full] is the sorted join of the protocol's step ends and the requested points (pandas / numpy:
    external, only its sortedness is used).  With the repaired worker ([PtcJoined]) the placeholder's
    axis IS the axis a successful [simulate_protocol_time_course] run reports (t = 0, then per step
    the points of [full] in (t_start, t_end]), for every protocol with non-decreasing step ends and
    every list of requested points *)
Theorem C09_ptc_placeholder_axis :
  forall (full : list Z), StronglySorted Z.le full ->
  forall (ends tps : list Z), ends <> [] -> chain 0%Z ends ->
    ptc_placeholder_axis full PtcJoined ends tps = ptc_success_axis full ends.
Proof. exact ptc_placeholder_axis_ok. Qed.
Print Assumptions C09_ptc_placeholder_axis.

(** regression: the requested points as axis ([PtcRequested], the tree before the repair): steps
    ending at 2 and 4, requested points 1, 3, 5 -- success t = 0,1,2,3,4, placeholder t = 1,3,5 *)
Theorem C09_ptc_requested_axis_refuted :
  let full := [1; 2; 3; 4; 5]%Z in
  ptc_success_axis full [2; 4]%Z = [0; 1; 2; 3; 4]%Z /\
  ptc_placeholder_axis full PtcRequested [2; 4]%Z [1; 3; 5]%Z = [1; 3; 5]%Z /\
  ptc_placeholder_axis full PtcJoined [2; 4]%Z [1; 3; 5]%Z = [0; 1; 2; 3; 4]%Z.
Proof. exact ptc_requested_axis_wrong. Qed.
Print Assumptions C09_ptc_requested_axis_refuted.

(** ---- the [y0] argument: initial values for the whole scan ----
    An entry point with policy [Y0IntoModel] writes y0 into the model before fanning out
    ([if y0 is not None: model.update_variables(y0)]) and calls the worker without y0.  For ANY worker,
    view, model, table, y0 (or none), mode and completion order: every row is the separate run on a fresh
    copy of the model that carries y0 and then exactly that row's values (list container) ... *)
Theorem C09_y0_written_first_equals_independent :
  forall (M Row Lbl Sim Out Y0 : Type) (apply_row : Row -> M -> M) (apply_y0 : Y0 -> M -> M)
         (work : option Y0 -> M -> Sim * M) (view : Sim -> M -> Out * M)
         (copies : bool) (md : mode) (m0 : M) (oy0 : option Y0) (rows : list (Lbl * Row)),
    (md = Seq -> copies = true) -> mode_ok md (length rows) ->
    scan_list_y0 M Row Lbl Sim Out Y0 apply_row apply_y0 work view Y0IntoModel copies md m0 oy0 rows
    = map (fun lr => (fst lr, independent M Row Sim Out apply_row (work None) view
                                (match oy0 with Some y => apply_y0 y m0 | None => m0 end) (snd lr))) rows.
Proof. exact scan_list_y0_into_model. Qed.
Print Assumptions C09_y0_written_first_equals_independent.

(** ... and the dict-keyed containers behind the index test: that table, or a refusal *)
Theorem C09_y0_dict_scan_total :
  forall (M Row Lbl Sim Out Y0 : Type) (apply_row : Row -> M -> M) (apply_y0 : Y0 -> M -> M)
         (work : option Y0 -> M -> Sim * M) (view : Sim -> M -> Out * M) (lbl_eqb : Lbl -> Lbl -> bool),
    (forall a b, lbl_eqb a b = true <-> a = b) ->
    forall (copies : bool) (md : mode) (m0 : M) (oy0 : option Y0) (rows : list (Lbl * Row)),
    (md = Seq -> copies = true) -> mode_ok md (length rows) ->
    (NoDup (map fst rows) ->
       scan_dict_y0 M Row Lbl Sim Out Y0 apply_row apply_y0 work view lbl_eqb Y0IntoModel true copies md m0 oy0 rows
       = Some (map (fun lr => (fst lr, independent M Row Sim Out apply_row (work None) view
                                         (match oy0 with Some y => apply_y0 y m0 | None => m0 end) (snd lr))) rows)) /\
    (~ NoDup (map fst rows) ->
       scan_dict_y0 M Row Lbl Sim Out Y0 apply_row apply_y0 work view lbl_eqb Y0IntoModel true copies md m0 oy0 rows = None).
Proof. exact scan_dict_y0_into_model_total. Qed.
Print Assumptions C09_y0_dict_scan_total.

(** the other shape (seeded change C09-4: nothing written, [y0=y0] handed to the worker): what comes
    back is the run of the worker WITH y0 on the model WITHOUT y0 plus the row *)
Theorem C09_y0_handed_to_worker_is_another_run :
  forall (M Row Lbl Sim Out Y0 : Type) (apply_row : Row -> M -> M) (apply_y0 : Y0 -> M -> M)
         (work : option Y0 -> M -> Sim * M) (view : Sim -> M -> Out * M)
         (copies : bool) (md : mode) (m0 : M) (oy0 : option Y0) (rows : list (Lbl * Row)),
    (md = Seq -> copies = true) -> mode_ok md (length rows) ->
    scan_list_y0 M Row Lbl Sim Out Y0 apply_row apply_y0 work view Y0ToWorker copies md m0 oy0 rows
    = map (fun lr => (fst lr, independent M Row Sim Out apply_row (work oy0) view m0 (snd lr))) rows.
Proof. exact scan_list_y0_to_worker. Qed.
Print Assumptions C09_y0_handed_to_worker_is_another_run.

(** the executable instance at the tree's facts: for EVERY entry point of the regenerated table (its
    y0 policy is read from the source), steady-state and time-course workers, any model, y0, table *)
Theorem C09_scan_with_y0_equals_independent :
  forall ep : entry_point, In ep gen_entry_points ->
  forall (w : wkind) (md : mode) (m0 : mdl) (oy0 : option y0) (rows : list (label * row)),
    mode_ok md (length rows) ->
    scan_list_y0_c (ep_y0 ep) gen_scan_facts w md m0 oy0 rows
    = map (fun lr => (fst lr, independent_c (sf_tc_axis gen_scan_facts) w
                                (match oy0 with Some y => update_variables m0 y | None => m0 end) (snd lr))) rows.
Proof. exact (scan_with_y0_pinned gen_scan_facts gen_entry_points (f_equal sf_copies C09_facts_pinned) C09_entry_points_pinned). Qed.
Print Assumptions C09_scan_with_y0_equals_independent.

(** the order of the two writes, for every model, y0, row and variable [k]: the task's model holds the
    row's value if the row names [k], else y0's value, else the model's own initial value -- a row's own
    initial value beats y0 (and initial assignments are evaluated from this content) *)
Theorem C09_y0_then_row :
  forall (m : mdl) (y : y0) (r : row) (k : name),
    lookup k (m_vars (apply_row r (update_variables m y)))
    = match lookup k (m_vars m) with
      | None => None
      | Some x => match last_of k r with
                  | Some v => Some (Plain v)
                  | None => match last_of k y with Some v => Some (Plain v) | None => Some x end
                  end
      end.
Proof. exact y0_then_row. Qed.
Print Assumptions C09_y0_then_row.

(** regression (seeded change C09-4), model x(10) = 10, cap := x, flux = cap * k, y0 = {x: 5}:
    table over x = 1, 2, 4: the tree's policy starts the rows at 1, 2, 4, the worker policy at 5, 5, 5;
    table over k = 1, 2, 3: the assignment sees y0 (fluxes 5, 10, 15) vs the old value (10, 20, 30) *)
Theorem C09_y0_handed_to_worker_refuted :
  forall f : scan_facts, sf_copies f = true ->
  let w := WTimeCourse [0; 1]%Z in
  let y := Some [(10%N, 5%Z)] in
  (map first_var (scan_list_y0_c Y0IntoModel f w Seq y0_model y y0_rows_overlap) = [Some (Num 1); Some (Num 2); Some (Num 4)] /\
   map first_var (scan_list_y0_c Y0ToWorker f w Seq y0_model y y0_rows_overlap) = [Some (Num 5); Some (Num 5); Some (Num 5)] /\
   map first_var (spec_y0_c (sf_tc_axis f) w y0_model y y0_rows_overlap) = [Some (Num 1); Some (Num 2); Some (Num 4)]) /\
  (map first_flux (scan_list_y0_c Y0IntoModel f w Seq y0_model y y0_rows_par) = [Some (Num 5); Some (Num 10); Some (Num 15)] /\
   map first_flux (scan_list_y0_c Y0ToWorker f w Seq y0_model y y0_rows_par) = [Some (Num 10); Some (Num 20); Some (Num 30)] /\
   map first_flux (spec_y0_c (sf_tc_axis f) w y0_model y y0_rows_par) = [Some (Num 5); Some (Num 10); Some (Num 15)]).
Proof. exact y0_policies_differ. Qed.
Print Assumptions C09_y0_handed_to_worker_refuted.

(** ---- steady-state scans and equal index labels ----
    The list container is positional: C09_scan_equals_independent_any_worker has NO hypothesis on the
    labels.  Concretely, rows labelled 0, 1, 0 (two tables glued with pd.concat): fluxes 1, 2, 3 in
    sequential mode and with two workers completing in the order 2, 0, 1, under the labels 0, 1, 0 *)
Theorem C09_list_container_ignores_labels :
  forall f : scan_facts, sf_copies f = true ->
  map first_flux (scan_list_c f (WTimeCourse [0; 1]%Z) Seq stale_model dup_rows) = [Some (Num 1); Some (Num 2); Some (Num 3)]
  /\ map first_flux (scan_list_c f (WTimeCourse [0; 1]%Z) (Par 2 [(2, 1); (0, 0); (1, 1)]) stale_model dup_rows)
     = [Some (Num 1); Some (Num 2); Some (Num 3)]
  /\ map fst (scan_list_c f (WTimeCourse [0; 1]%Z) Seq stale_model dup_rows) = [0; 1; 0]%Z.
Proof. exact positional_list_ignores_labels. Qed.
Print Assumptions C09_list_container_ignores_labels.

(** the list filled BY LABEL ([by_label = dict(res); [by_label[k] for k in index]], seeded change C09-6)
    is the positional one only for pairwise different labels.
    FULL STATEMENT (false, see C09_by_label_container_refuted): the same without [NoDup]. *)
Theorem C09_by_label_container_partial :
  forall (M Row Lbl Sim Out : Type) (apply_row : Row -> M -> M) (view : Sim -> M -> Out * M) (lbl_eqb : Lbl -> Lbl -> bool),
    (forall a b, lbl_eqb a b = true <-> a = b) ->
    forall (work : M -> Sim * M) (copies : bool) (md : mode) (m0 : M) (rows : list (Lbl * Row)),
    (md = Seq -> copies = true) -> mode_ok md (length rows) -> NoDup (map fst rows) ->
    scan_list_by_label M Row Lbl Sim Out apply_row view lbl_eqb work copies md m0 rows
    = map (fun lr => (fst lr, independent M Row Sim Out apply_row work view m0 (snd lr))) rows.
Proof. exact scan_list_by_label_NoDup. Qed.
Print Assumptions C09_by_label_container_partial.

(** regression: rows labelled 0, 1, 0 -- right length, right labels, but the first row is reported with
    the numbers of the third (fluxes 3, 2, 3), sequentially and in the pool *)
Theorem C09_by_label_container_refuted :
  forall f : scan_facts, sf_copies f = true ->
  map first_flux (scan_list_by_label_c f (WTimeCourse [0; 1]%Z) Seq stale_model dup_rows) = [Some (Num 3); Some (Num 2); Some (Num 3)]
  /\ map first_flux (scan_list_by_label_c f (WTimeCourse [0; 1]%Z) (Par 2 [(2, 1); (0, 0); (1, 1)]) stale_model dup_rows)
     = [Some (Num 3); Some (Num 2); Some (Num 3)]
  /\ map fst (scan_list_by_label_c f (WTimeCourse [0; 1]%Z) Seq stale_model dup_rows) = [0; 1; 0]%Z.
Proof. exact by_label_misreports. Qed.
Print Assumptions C09_by_label_container_refuted.

(** ---- the result cache ([cache=]): one file per row LABEL ([_load_or_run]) ----
    Sequential run over a table with pairwise different labels, none of them on disk: the cached run
    returns exactly what the uncached run returns ... *)
Theorem C09_cache_transparent_unique_labels :
  forall (K T R : Type) (keqb : K -> K -> bool), (forall a b, keqb a b = true <-> a = b) ->
  forall (f : T -> R) (inputs : list (K * T)) (st : list (K * R)),
    NoDup (map fst inputs) -> (forall k, In k (map fst inputs) -> slookup K R keqb k st = None) ->
    snd (run_cached K T R keqb f st inputs) = map (fun kt => (fst kt, f (snd kt))) inputs.
Proof. exact cache_seq_transparent. Qed.
Print Assumptions C09_cache_transparent_unique_labels.

(** ... and under ANY interleaving of worker processes: whatever part [done] of the table's results is
    already on disk at the instant a row's call looks, the row gets its own result *)
Theorem C09_cache_any_interleaving :
  forall (K T R : Type) (keqb : K -> K -> bool), (forall a b, keqb a b = true <-> a = b) ->
  forall (f : T -> R) (st0 : list (K * R)) (inputs done : list (K * T)) (k : K) (t : T),
    NoDup (map fst inputs) -> (forall k, In k (map fst inputs) -> slookup K R keqb k st0 = None) ->
    incl done inputs -> In (k, t) inputs ->
    snd (load_or_run K T R keqb f (st0 ++ saved K T R f done) (k, t)) = (k, f t).
Proof. exact cache_any_interleaving. Qed.
Print Assumptions C09_cache_any_interleaving.

(** ANY table, empty cache directory, sequential: every row is answered with the result of the FIRST
    row that carries its label -- so a row whose label occurred before gets that earlier row's numbers *)
Theorem C09_cache_first_row_with_label_wins :
  forall (K T R : Type) (keqb : K -> K -> bool), (forall a b, keqb a b = true <-> a = b) ->
  forall (f : T -> R) (inputs : list (K * T)),
    snd (run_cached K T R keqb f [] inputs)
    = map (fun kt => (fst kt, match first_with K T keqb (fst kt) inputs with Some t => f t | None => f (snd kt) end)) inputs.
Proof. exact cache_seq_first_wins. Qed.
Print Assumptions C09_cache_first_row_with_label_wins.

(** regression / recorded finding cached-duplicate-labels: two rows under one label, the second is
    answered with the first row's result (steady-state scans accept such tables: their container is
    positional) *)
Theorem C09_cached_duplicate_labels_refuted :
  forall (K T R : Type) (keqb : K -> K -> bool), (forall a b, keqb a b = true <-> a = b) ->
  forall (f : T -> R) (k : K) (t1 t2 : T),
    snd (run_cached K T R keqb f [] [(k, t1); (k, t2)]) = [(k, f t1); (k, f t1)].
Proof. exact cache_duplicate_key. Qed.
Print Assumptions C09_cached_duplicate_labels_refuted.

(** with the index test in front of a cached run ([if cache is not None: _require_unique_index(table)],
    column [ep_cache_check] of the pinned entry-point table; the dict-keyed entry points make the test
    anyway): the cached run is the uncached one, or a visible refusal *)
Theorem C09_cache_checked_total :
  forall (K T R : Type) (keqb : K -> K -> bool), (forall a b, keqb a b = true <-> a = b) ->
  forall (f : T -> R) (st : list (K * R)) (inputs : list (K * T)),
    (forall k, In k (map fst inputs) -> slookup K R keqb k st = None) ->
    (NoDup (map fst inputs) ->
       run_cached_checked K T R keqb true f st inputs = Some (map (fun kt => (fst kt, f (snd kt))) inputs)) /\
    (~ NoDup (map fst inputs) -> run_cached_checked K T R keqb true f st inputs = None).
Proof. exact cache_checked_total. Qed.
Print Assumptions C09_cache_checked_total.

(** ---- third pass: the model OBJECT handed to a scan, with its cache (ScanWarm.v) ----
    Two more facts read from the source: what [Simulation._compute_args] leaves behind in the object it reads
    through (since 4167248 it puts the parameter values back), and what the two update calls of a scan task do
    to the object's [_cache] ([update_variables] / [update_parameters] loop over the items and call the
    single-item mutators, which carry [@_invalidate_cache]; read structurally from model.py).  The pins demand a
    RECOGNISED form (the theorems below hold for each of them), so a sibling's repair that moves between the
    recognised forms does not alarm; anything unrecognised does. *)
Theorem C09_view_policy_pinned : gen_view_policy <> ViewUnknown.
Proof. vm_compute. discriminate. Qed.
Print Assumptions C09_view_policy_pinned.

Theorem C09_row_update_pinned : gen_row_update <> RowUnknown.
Proof. vm_compute. discriminate. Qed.
Print Assumptions C09_row_update_pinned.

(** A model object [(m0, oc)] is content plus [_cache]; [cache_ok] says the cache (if any) is the one
    [_create_cache] computes from the content -- a fresh model ([oc = None]) as well as one that was
    simulated / inspected since its last modification.  At the tree's facts, for the steady-state and
    time-course workers, ANY such object, y0 (or none), table, mode and completion order: every row is the
    separate run on the CONTENT with y0 and then the row's values -- whatever cache the object arrived with
    (deep copy and pickling copy it along; any item of the row drops it; a row that names nothing in the model
    keeps content and cache). *)
Theorem C09_warm_model_scan_equals_independent :
  forall (w : wkind) (md : mode) (m0 : mdl) (oc : option cache) (oy0 : option y0) (rows : list (label * row)),
    cache_ok (m0, oc) -> mode_ok md (length rows) ->
    scan_list_cc gen_row_update gen_view_policy gen_scan_facts w md (m0, oc) oy0 rows
    = map (fun lr => (fst lr, independent_c (sf_tc_axis gen_scan_facts) w
                                (match oy0 with Some y => update_variables m0 y | None => m0 end) (snd lr))) rows.
Proof. exact (warm_scan_pinned gen_scan_facts gen_row_update gen_view_policy (f_equal sf_copies C09_facts_pinned) C09_row_update_pinned). Qed.
Print Assumptions C09_warm_model_scan_equals_independent.

(** ... and the dict-keyed containers behind the index test, for any facts with the deep copy and the test *)
Theorem C09_warm_model_dict_scan_total :
  forall (f : scan_facts) (vp : view_policy), sf_copies f = true -> sf_dups f = DupRefuse ->
  forall (w : wkind) (md : mode) (m0 : mdl) (oc : option cache) (oy0 : option y0) (rows : list (label * row)),
    cache_ok (m0, oc) -> mode_ok md (length rows) ->
    (NoDup (map fst rows) ->
       scan_dict_checked_cc gen_row_update vp f w md (m0, oc) oy0 rows
       = Some (map (fun lr => (fst lr, independent_c (sf_tc_axis f) w
                                         (match oy0 with Some y => update_variables m0 y | None => m0 end) (snd lr))) rows)) /\
    (~ NoDup (map fst rows) -> scan_dict_checked_cc gen_row_update vp f w md (m0, oc) oy0 rows = None).
Proof. exact (fun f vp Hc Hd => warm_dict_scan_pinned f gen_row_update vp Hc Hd C09_row_update_pinned). Qed.
Print Assumptions C09_warm_model_dict_scan_total.

(** the same for BOTH recognised forms of the mutators (per item / always) and every view policy, and: what a
    view leaves behind in the object never shows in a scan whose tasks work on their own copies (so the
    correspondence is valid before and after 4167248) *)
Theorem C09_warm_scan_any_recognised_source :
  forall (p : row_update) (vp vp' : view_policy) (f : scan_facts) (w : wkind) (md : mode) (mc0 : cmdl) (oy0 : option y0)
         (rows : list (label * row)),
    p <> RowUnknown -> sf_copies f = true -> cache_ok mc0 -> mode_ok md (length rows) ->
    scan_list_cc p vp f w md mc0 oy0 rows
    = map (fun lr => (fst lr, independent_c (sf_tc_axis f) w
                                (match oy0 with Some y => update_variables (fst mc0) y | None => fst mc0 end) (snd lr))) rows
    /\ scan_list_cc p vp f w md mc0 oy0 rows = scan_list_cc p vp' f w md mc0 oy0 rows.
Proof.
  exact (fun p vp vp' f w md mc0 oy0 rows Hp Hc Hok Hmd =>
           conj (warm_list_scan p vp f w md mc0 oy0 rows Hp Hc Hok Hmd) (view_policy_irrelevant p vp vp' f w md mc0 oy0 rows Hp Hc Hok Hmd)).
Qed.
Print Assumptions C09_warm_scan_any_recognised_source.

(** seeded change C09-8 ([apply_row_keep]: a row without parameter column is written into the initial values and
    into [cache.initial_conditions] of the copied cache, which is kept).  It is right for an object WITHOUT cache
    and for tables whose every row has a parameter column ...
    FULL STATEMENT (false, see C09_kept_cache_refuted): the same without the last hypothesis. *)
Theorem C09_kept_cache_partial :
  forall (p : row_update) (vp : view_policy) (f : scan_facts) (w : wkind) (md : mode) (mc0 : cmdl) (rows : list (label * row)),
    p <> RowUnknown -> sf_copies f = true -> cache_ok mc0 -> mode_ok md (length rows) ->
    snd mc0 = None \/ Forall (fun lr => filter (fun kv => has_key (fst kv) (m_pars (fst mc0))) (snd lr) <> []) rows ->
    scan_list_keep p vp f w md mc0 rows
    = map (fun lr => (fst lr, independent_c (sf_tc_axis f) w (fst mc0) (snd lr))) rows.
Proof. exact kept_cache_cold_or_parameter_rows. Qed.
Print Assumptions C09_kept_cache_partial.

(** ... and wrong for a warm object, a table over initial values and a model with something computed from them.
    x' = -(p * k), p assigned from x(0): table x(0) = 1, 2, 3, one step: separate runs end at 0, 0, 0 (tree: warm or
    not); with the row written into the kept cache p stays 1: 0, 1, 2, sequentially and with 2 workers finishing
    2, 0, 1; a cold object is handled correctly.  x' = p - x, p assigned from x(0), steady states: 1, 2, 3 vs 7, 7, 7. *)
Theorem C09_kept_cache_refuted :
  forall (f : scan_facts) (vp : view_policy), sf_copies f = true ->
  let p := RowInvalidatesPerItem in
  let w := WTimeCourse [0; 1]%Z in
  let par := Par 2 [(2, 0); (0, 1); (1, 0)]%nat in
  (map last_var (scan_list_keep p vp f w Seq (warm stale_model) stale_rows) = [Some (Num 0); Some (Num 1); Some (Num 2)] /\
   map last_var (scan_list_keep p vp f w par (warm stale_model) stale_rows) = [Some (Num 0); Some (Num 1); Some (Num 2)] /\
   map last_var (scan_list_cc p vp f w Seq (warm stale_model) None stale_rows) = [Some (Num 0); Some (Num 0); Some (Num 0)] /\
   map last_var (map (fun lr => (fst lr, independent_c (sf_tc_axis f) w stale_model (snd lr))) stale_rows)
     = [Some (Num 0); Some (Num 0); Some (Num 0)] /\
   map last_var (scan_list_keep p vp f w Seq (cold stale_model) stale_rows) = [Some (Num 0); Some (Num 0); Some (Num 0)]) /\
  (map last_var (scan_list_keep p vp f WSteady Seq (warm follow_model) stale_rows) = [Some (Num 7); Some (Num 7); Some (Num 7)] /\
   map last_var (scan_list_cc p vp f WSteady Seq (warm follow_model) None stale_rows) = [Some (Num 1); Some (Num 2); Some (Num 3)] /\
   map last_var (map (fun lr => (fst lr, independent_c (sf_tc_axis f) WSteady follow_model (snd lr))) stale_rows)
     = [Some (Num 1); Some (Num 2); Some (Num 3)]).
Proof. exact kept_cache_stale. Qed.
Print Assumptions C09_kept_cache_refuted.

(** the defect repaired by b189941 (no deep copy: one object shared by all rows of a sequential scan), on the object
    model and under EITHER view policy: that a view puts the parameter values back (4167248) does not make the
    deep copy dispensable -- the stale quantity is computed from the last row's initial values: fluxes 3, 3, 3 *)
Theorem C09_sequential_shared_object_any_view_refuted :
  forall (f : scan_facts) (vp : view_policy), sf_copies f = false ->
    map first_flux (scan_list_cc RowInvalidatesPerItem vp f (WTimeCourse [0; 1]%Z) Seq (cold stale_model) None stale_rows)
    = [Some (Num 3); Some (Num 3); Some (Num 3)].
Proof. exact shared_object_stale. Qed.
Print Assumptions C09_sequential_shared_object_any_view_refuted.

(** the cache hypothesis is not vacuous: a warm object carries a cache, and it belongs to its content *)
Example C09_warm_nonvacuous :
  (exists c, warm stale_model = (stale_model, Some c)) /\ cache_ok (warm stale_model) /\ RowInvalidatesPerItem <> RowUnknown.
Proof. exact warm_nonvacuous. Qed.
Print Assumptions C09_warm_nonvacuous.


(** non-vacuity: three rows, two workers, tasks completing in the order 2, 0, 1; the model whose
    parameter is assigned from the scanned initial value *)
Example C09_nonvacuous :
  let md := Par 2 [(2, 1); (0, 0); (1, 1)] in
  mode_ok md (length stale_rows) /\ NoDup (map fst stale_rows) /\
  map first_flux (scan_dict_c nonvac_facts (WTimeCourse [0; 1]%Z) md stale_model stale_rows)
    = [Some (Num 1); Some (Num 2); Some (Num 3)] /\
  map first_flux (scan_dict_c nonvac_facts (WTimeCourse [0; 1]%Z) Seq stale_model stale_rows)
    = [Some (Num 1); Some (Num 2); Some (Num 3)].
Proof. exact nonvacuous_schedule. Qed.
Print Assumptions C09_nonvacuous.
