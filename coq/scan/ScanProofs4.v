(** C09 -- third pass, proofs: a scan of a model OBJECT that arrives with a cache (ScanWarm.v). *)
From Coq Require Import List ZArith NArith Bool Lia.
From MxlBase Require Import ListX.
From Scan Require Import ScanGeneric ScanModel ScanY0 ScanWarm ScanProofs ScanProofs2 ScanProofs3.
Import ListNotations.
Local Open Scope Z_scope.

(** ---- the cache invariant ---- *)
Lemma cache_of_ok mc : cache_ok mc -> cache_of mc = create_cache (fst mc).
Proof.
  destruct mc as [m [c|]]; unfold cache_ok, cache_of; cbn [fst snd]; intros H; [symmetry; exact H | reflexivity].
Qed.

Lemma cache_ok_cold m : cache_ok (cold m).
Proof. exact I. Qed.

Lemma cache_ok_warm m : cache_ok (warm m).
Proof.
  unfold warm, ensure, cache_of. cbn [fst snd].
  destruct (create_cache m) as [c|e] eqn:E; unfold cache_ok; cbn [fst snd]; [exact E | exact I].
Qed.

Lemma fst_warm m : fst (warm m) = m.
Proof. unfold warm, ensure, cache_of. cbn [fst snd]. destruct (create_cache m); reflexivity. Qed.

Lemma drop_ok {A} p (items : list A) m m' oc :
  p <> RowUnknown -> cache_ok (m, oc) -> (items = [] -> m' = m) -> cache_ok (m', drop p items oc).
Proof.
  intros Hp Hok Hm. destruct p; [| |congruence]; destruct items as [|x t]; cbn [drop]; try exact I.
  rewrite (Hm eq_refl). exact Hok.
Qed.

Lemma update_variables_cc_ok p mc items : p <> RowUnknown -> cache_ok mc -> cache_ok (update_variables_cc p mc items).
Proof.
  intros Hp Hok. destruct mc as [m oc]. unfold update_variables_cc. cbn [fst snd].
  apply (drop_ok p items m); [exact Hp | exact Hok | intros ->; reflexivity].
Qed.

Lemma update_parameters_cc_ok p mc items : p <> RowUnknown -> cache_ok mc -> cache_ok (update_parameters_cc p mc items).
Proof.
  intros Hp Hok. destruct mc as [m oc]. unfold update_parameters_cc. cbn [fst snd].
  apply (drop_ok p items m); [exact Hp | exact Hok | intros ->; reflexivity].
Qed.

Lemma with_y0_cc_ok p oy0 mc : p <> RowUnknown -> cache_ok mc -> cache_ok (with_y0_cc p oy0 mc).
Proof. intros Hp Hok. destruct oy0 as [y|]; cbn [with_y0_cc]; [apply update_variables_cc_ok; assumption | exact Hok]. Qed.

Lemma fst_with_y0_cc p oy0 mc :
  fst (with_y0_cc p oy0 mc) = match oy0 with Some y => update_variables (fst mc) y | None => fst mc end.
Proof. destruct oy0; reflexivity. Qed.

(** the task's two update calls: the content is what [apply_row] gives, the cache still belongs to it *)
Lemma apply_row_cc_spec p r mc : p <> RowUnknown -> cache_ok mc ->
  fst (apply_row_cc p r mc) = apply_row r (fst mc) /\ cache_ok (apply_row_cc p r mc).
Proof.
  intros Hp Hok. split; [reflexivity|].
  unfold apply_row_cc. apply update_parameters_cc_ok; [exact Hp|]. apply update_variables_cc_ok; assumption.
Qed.

(** the worker *)
Lemma work_unfold ax w m :
  work ax w m = match create_cache m with Err e => (SCrash e, m) | Ok c => (work_body ax w m c, m) end.
Proof.
  unfold work, work_body. destruct (create_cache m) as [c|e]; [|reflexivity].
  destruct w as [tps|].
  - destruct (integrate_tc m c (map snd (ca_ic c)) tps); reflexivity.
  - destruct (steady m c 0 (map snd (ca_ic c)) MAXS); reflexivity.
Qed.

Lemma work_snd ax w m : snd (work ax w m) = m.
Proof. rewrite work_unfold. destruct (create_cache m); reflexivity. Qed.

Lemma work_cc_spec ax w mc : cache_ok mc ->
  fst (work_cc ax w mc) = fst (work ax w (fst mc)) /\ fst (snd (work_cc ax w mc)) = fst mc /\ cache_ok (snd (work_cc ax w mc)).
Proof.
  intros Hok. unfold work_cc. rewrite work_unfold, (cache_of_ok mc Hok).
  destruct (create_cache (fst mc)) as [c|e] eqn:E; cbn [fst snd]; repeat split; try exact Hok.
  unfold cache_ok. cbn [fst snd]. exact E.
Qed.

(** the lazy view shows the same whatever it leaves behind *)
Lemma view_cc_spec p vp s mc : p <> RowUnknown -> cache_ok mc -> fst (view_cc p vp s mc) = fst (view s (fst mc)).
Proof.
  intros Hp Hok. destruct s as [rv rp|e]; [|reflexivity].
  unfold view_cc, view. cbn [fst].
  rewrite (cache_of_ok _ (update_parameters_cc_ok p mc rp Hp Hok)).
  unfold update_parameters_cc. cbn [fst snd].
  destruct (create_cache (update_parameters (fst mc) rp)) as [c|e]; [|reflexivity].
  destruct (view_rows (update_parameters (fst mc) rp) c rv); reflexivity.
Qed.

(** a separate run on an object whose cache belongs to its content = the separate run on the content *)
Lemma independent_cc_eq p vp ax w mc r : p <> RowUnknown -> cache_ok mc ->
  independent cmdl row sim out (apply_row_cc p) (work_cc ax w) (view_cc p vp) mc r = independent_c ax w (fst mc) r.
Proof.
  intros Hp Hok. unfold independent_c, independent.
  destruct (apply_row_cc_spec p r mc Hp Hok) as [E1 K1].
  destruct (work_cc_spec ax w (apply_row_cc p r mc) K1) as (E2 & E3 & K2).
  rewrite (view_cc_spec p vp _ _ Hp K2), E2, E3, E1, work_snd. reflexivity.
Qed.

(** ---- the scans ---- *)
Theorem warm_list_scan p vp f w md mc0 oy0 rows :
  p <> RowUnknown -> sf_copies f = true -> cache_ok mc0 -> mode_ok md (length rows) ->
  scan_list_cc p vp f w md mc0 oy0 rows
  = spec_c (sf_tc_axis f) w (match oy0 with Some y => update_variables (fst mc0) y | None => fst mc0 end) rows.
Proof.
  intros Hp Hc Hok Hmd. unfold scan_list_cc.
  rewrite (scan_list_equals_independent cmdl row label sim out (apply_row_cc p) (work_cc (sf_tc_axis f) w) (view_cc p vp)
             (sf_copies f) md (with_y0_cc p oy0 mc0) rows (fun _ => Hc) Hmd).
  unfold spec, spec_c. apply map_ext. intros lr. f_equal.
  rewrite (independent_cc_eq p vp _ _ _ _ Hp (with_y0_cc_ok p oy0 mc0 Hp Hok)), fst_with_y0_cc. reflexivity.
Qed.

Theorem warm_dict_scan p vp f w md mc0 oy0 rows :
  p <> RowUnknown -> sf_copies f = true -> sf_dups f = DupRefuse -> cache_ok mc0 -> mode_ok md (length rows) ->
  (NoDup (map fst rows) ->
     scan_dict_checked_cc p vp f w md mc0 oy0 rows
     = Some (spec_c (sf_tc_axis f) w (match oy0 with Some y => update_variables (fst mc0) y | None => fst mc0 end) rows)) /\
  (~ NoDup (map fst rows) -> scan_dict_checked_cc p vp f w md mc0 oy0 rows = None).
Proof.
  intros Hp Hc Hd Hok Hmd. unfold scan_dict_checked_cc. rewrite Hd. cbn [refuses].
  destruct (scan_dict_checked_total cmdl row label sim out (apply_row_cc p) (work_cc (sf_tc_axis f) w) (view_cc p vp) Z.eqb Z.eqb_eq
              (sf_copies f) md (with_y0_cc p oy0 mc0) rows (fun _ => Hc) Hmd) as [H1 H2].
  split; [|exact H2]. intros Hnd. rewrite (H1 Hnd). f_equal.
  unfold spec, spec_c. apply map_ext. intros lr. f_equal.
  rewrite (independent_cc_eq p vp _ _ _ _ Hp (with_y0_cc_ok p oy0 mc0 Hp Hok)), fst_with_y0_cc. reflexivity.
Qed.

(** what a view leaves behind in the object does not show in a scan whose tasks work on their own copies *)
Theorem view_policy_irrelevant p vp vp' f w md mc0 oy0 rows :
  p <> RowUnknown -> sf_copies f = true -> cache_ok mc0 -> mode_ok md (length rows) ->
  scan_list_cc p vp f w md mc0 oy0 rows = scan_list_cc p vp' f w md mc0 oy0 rows.
Proof. intros Hp Hc Hok Hmd. rewrite !warm_list_scan by assumption. reflexivity. Qed.

(** ---- the row written into a kept cache (seeded change C09-8) ---- *)
Lemma update_variables_pars : forall items m, m_pars (update_variables m items) = m_pars m.
Proof.
  unfold update_variables. induction items as [|kv t IH]; intros m; cbn [fold_left]; [reflexivity|].
  rewrite IH. reflexivity.
Qed.

(** it is the tree's update for an object without cache and for a row with a parameter column *)
Lemma apply_row_keep_same p r mc :
  snd mc = None \/ filter (fun kv => has_key (fst kv) (m_pars (fst mc))) r <> [] ->
  apply_row_keep p r mc = apply_row_cc p r mc.
Proof.
  intros H. unfold apply_row_keep, apply_row_cc.
  assert (E : m_pars (fst (update_variables_cc p mc (filter (fun kv => has_key (fst kv) (m_vars (fst mc))) r))) = m_pars (fst mc))
    by (unfold update_variables_cc; cbn [fst]; apply update_variables_pars).
  rewrite E.
  destruct (filter (fun kv => has_key (fst kv) (m_pars (fst mc))) r) as [|x t] eqn:Ef.
  - destruct H as [H|H]; [|congruence]. rewrite H. reflexivity.
  - reflexivity.
Qed.

Theorem kept_cache_cold_or_parameter_rows p vp f w md mc0 rows :
  p <> RowUnknown -> sf_copies f = true -> cache_ok mc0 -> mode_ok md (length rows) ->
  snd mc0 = None \/ Forall (fun lr => filter (fun kv => has_key (fst kv) (m_pars (fst mc0))) (snd lr) <> []) rows ->
  scan_list_keep p vp f w md mc0 rows = spec_c (sf_tc_axis f) w (fst mc0) rows.
Proof.
  intros Hp Hc Hok Hmd H. unfold scan_list_keep.
  rewrite (scan_list_equals_independent cmdl row label sim out (apply_row_keep p) (work_cc (sf_tc_axis f) w) (view_cc p vp)
             (sf_copies f) md mc0 rows (fun _ => Hc) Hmd).
  unfold spec, spec_c. apply map_ext_in. intros lr Hin. f_equal.
  rewrite <- (independent_cc_eq p vp _ _ _ _ Hp Hok). unfold independent.
  rewrite apply_row_keep_same; [reflexivity|].
  destruct H as [H|H]; [left; exact H | right; exact (proj1 (Forall_forall _ _) H lr Hin)].
Qed.

(** the value of the first variable at the LAST reported time point *)
Definition last_var (lo : label * out) : option val :=
  match snd lo with
  | OOk rows => match rev rows with (_, v :: _, _) :: _ => Some v | _ => None end
  | OCrash _ => None
  end.

(** x' = p - x, p assigned from the initial value of x: every start value is its own steady state *)
Definition follow_model : mdl :=
  mkM [(10%N, Plain 7)] [(20%N, Plain 1); (21%N, IA 0%N [10%N])] [] [mkR 40%N 2%N [21%N; 10%N] [(10%N, 1)]].

(** [stale_model] (x' = -(p * k), p assigned from x(0), x(0) = 1), table over x(0) = 1, 2, 3, one step to t = 1:
    separate runs end at 0, 0, 0; with the row written into the kept cache of a warm object p stays 1: 0, 1, 2 --
    sequentially and in the pool alike.  [follow_model], steady states over x(0) = 1, 2, 3: 1, 2, 3 vs 7, 7, 7.
    A cold object is handled correctly. *)
Lemma kept_cache_stale (f : scan_facts) (vp : view_policy) :
  sf_copies f = true ->
  let p := RowInvalidatesPerItem in
  let w := WTimeCourse [0; 1] in
  let par := Par 2 [(2, 0); (0, 1); (1, 0)]%nat in
  (map last_var (scan_list_keep p vp f w Seq (warm stale_model) stale_rows) = [Some (Num 0); Some (Num 1); Some (Num 2)] /\
   map last_var (scan_list_keep p vp f w par (warm stale_model) stale_rows) = [Some (Num 0); Some (Num 1); Some (Num 2)] /\
   map last_var (scan_list_cc p vp f w Seq (warm stale_model) None stale_rows) = [Some (Num 0); Some (Num 0); Some (Num 0)] /\
   map last_var (spec_c (sf_tc_axis f) w stale_model stale_rows) = [Some (Num 0); Some (Num 0); Some (Num 0)] /\
   map last_var (scan_list_keep p vp f w Seq (cold stale_model) stale_rows) = [Some (Num 0); Some (Num 0); Some (Num 0)]) /\
  (map last_var (scan_list_keep p vp f WSteady Seq (warm follow_model) stale_rows) = [Some (Num 7); Some (Num 7); Some (Num 7)] /\
   map last_var (scan_list_cc p vp f WSteady Seq (warm follow_model) None stale_rows) = [Some (Num 1); Some (Num 2); Some (Num 3)] /\
   map last_var (spec_c (sf_tc_axis f) WSteady follow_model stale_rows) = [Some (Num 1); Some (Num 2); Some (Num 3)]).
Proof.
  intros Hf p w par. unfold scan_list_keep, scan_list_cc. rewrite Hf.
  destruct vp; repeat split; vm_compute; reflexivity.
Qed.

(** the repaired defect (one model object shared by all rows of a sequential scan) with the object model and
    EITHER view policy: putting the parameter values back does not help, the stale quantity comes from the
    initial values of the last row: fluxes 3, 3, 3 *)
Lemma shared_object_stale (f : scan_facts) (vp : view_policy) :
  sf_copies f = false ->
  map first_flux (scan_list_cc RowInvalidatesPerItem vp f (WTimeCourse [0; 1]) Seq (cold stale_model) None stale_rows)
  = [Some (Num 3); Some (Num 3); Some (Num 3)].
Proof. intros Hf. unfold scan_list_cc. rewrite Hf. destruct vp; vm_compute; reflexivity. Qed.

(** non-vacuity of the cache hypothesis: a warm object really carries a cache, and it belongs to its content *)
Lemma warm_nonvacuous :
  (exists c, warm stale_model = (stale_model, Some c)) /\ cache_ok (warm stale_model) /\ RowInvalidatesPerItem <> RowUnknown.
Proof. split; [eexists; vm_compute; reflexivity|]. split; [apply cache_ok_warm | discriminate]. Qed.

(** ---- at the facts of the tree: any RECOGNISED form of the mutators ---- *)
Theorem warm_scan_pinned (f : scan_facts) (p : row_update) (vp : view_policy) :
  sf_copies f = true -> p <> RowUnknown ->
  forall w md m0 oc oy0 rows, cache_ok (m0, oc) -> mode_ok md (length rows) ->
    scan_list_cc p vp f w md (m0, oc) oy0 rows
    = spec_c (sf_tc_axis f) w (match oy0 with Some y => update_variables m0 y | None => m0 end) rows.
Proof.
  intros Hc Hp w md m0 oc oy0 rows Hok Hmd.
  exact (warm_list_scan p vp f w md (m0, oc) oy0 rows Hp Hc Hok Hmd).
Qed.

Theorem warm_dict_scan_pinned (f : scan_facts) (p : row_update) (vp : view_policy) :
  sf_copies f = true -> sf_dups f = DupRefuse -> p <> RowUnknown ->
  forall w md m0 oc oy0 rows, cache_ok (m0, oc) -> mode_ok md (length rows) ->
    (NoDup (map fst rows) ->
       scan_dict_checked_cc p vp f w md (m0, oc) oy0 rows
       = Some (spec_c (sf_tc_axis f) w (match oy0 with Some y => update_variables m0 y | None => m0 end) rows)) /\
    (~ NoDup (map fst rows) -> scan_dict_checked_cc p vp f w md (m0, oc) oy0 rows = None).
Proof.
  intros Hc Hd Hp w md m0 oc oy0 rows Hok Hmd.
  exact (warm_dict_scan p vp f w md (m0, oc) oy0 rows Hp Hc Hd Hok Hmd).
Qed.
