(** C09 -- concrete executable instance of the generic scan model: a small core of [Model]
    (plain / assignment-defined parameters and initial values, derived quantities, reactions with
    constant stoichiometry), the harness' exact integrator (explicit Euler on integers, one step
    per requested interval; harness/c09_integ.py), the time-course and steady-state workers with
    their NaN placeholders, and the lazy view [Simulation._compute_args].

    Everything is integer valued (Z): the harness generates integer tables, integer time points
    and polynomial rate functions, so the implementation's binary64 results are exact and are
    compared with this model with [=].

    Simplification that the correspondence relies on (checked by the harness for every case,
    cases violating it are discarded and counted): components are declared in an order that is
    already a valid evaluation order, so [_sort_dependencies] returns the declaration order
    [initial assignments of variables | of parameters | derived | reactions]. *)
From Coq Require Import List ZArith NArith Bool.
From MxlBase Require Import ListX.
From Scan Require Import ScanGeneric.
Import ListNotations.
Local Open Scope Z_scope.

Definition name := N.
Definition TIME : name := 0%N.

(** values as the views see them: placeholders carry NaN *)
Inductive val := Num (z : Z) | NaN.
Definition val_eqb (a b : val) : bool :=
  match a, b with Num x, Num y => Z.eqb x y | NaN, NaN => true | _, _ => false end.

Inductive err := EZeroDiv | EKey | EArity.
Inductive res (A : Type) := Ok (a : A) | Err (e : err).
Arguments Ok {A}. Arguments Err {A}.
Definition bind {A B} (x : res A) (f : A -> res B) : res B :=
  match x with Ok a => f a | Err e => Err e end.

(** the function library harness/c09_fns.py, on Python floats incl. NaN.
    id 7 is [a * (b / b)]: ZeroDivisionError iff b == 0 (b is evaluated first) *)
Definition lift1 (f : Z -> Z) (a : val) : val := match a with Num x => Num (f x) | NaN => NaN end.
Definition lift2 (f : Z -> Z -> Z) (a b : val) : val :=
  match a, b with Num x, Num y => Num (f x y) | _, _ => NaN end.
Definition lift3 (f : Z -> Z -> Z -> Z) (a b c : val) : val :=
  match a, b, c with Num x, Num y, Num z => Num (f x y z) | _, _, _ => NaN end.

Definition fsem (f : N) (args : list val) : res val :=
  match f, args with
  | 0%N, [a] => Ok a
  | 1%N, [a; b] => Ok (lift2 Z.add a b)
  | 2%N, [a; b] => Ok (lift2 Z.sub a b)
  | 3%N, [a; b] => Ok (lift2 Z.mul a b)
  | 4%N, [a; b; c] => Ok (lift3 (fun x y z => x * y + z) a b c)
  | 5%N, [a] => Ok (lift1 (fun x => x * x) a)
  | 6%N, [] => Ok (Num 2)
  | 7%N, [a; b] => match b with
                  | Num 0 => Err EZeroDiv
                  | Num _ => Ok a
                  | NaN => Ok NaN
                  end
  | 8%N, [a; b; c] => Ok (lift3 (fun x y z => z * x * y) a b c)
  | 9%N, [a] => Ok (lift1 Z.opp a)
  | _, _ => Err EArity
  end.

(** model content *)
Inductive valia := Plain (v : Z) | IA (f : N) (args : list name).
Record comp := mkC { c_name : name; c_fn : N; c_args : list name }.
Record rxn := mkR { r_name : name; r_fn : N; r_args : list name; r_st : list (name * Z) }.
Record mdl := mkM { m_vars : list (name * valia); m_pars : list (name * valia);
                    m_der : list comp; m_rxn : list rxn }.

Definition env := list (name * val).
Fixpoint lookup {A} (k : name) (e : list (name * A)) : option A :=
  match e with
  | [] => None
  | (k', v) :: t => if N.eqb k k' then Some v else lookup k t
  end.

Fixpoint lookup_all (e : env) (ks : list name) : res (list val) :=
  match ks with
  | [] => Ok []
  | k :: t => match lookup k e with
              | Some v => bind (lookup_all e t) (fun vs => Ok (v :: vs))
              | None => Err EKey
              end
  end.

(** [calculate_inpl]: args[name] = fn applied to the values of self.args *)
Definition calc (e : env) (c : comp) : res env :=
  bind (lookup_all e (c_args c)) (fun vs => bind (fsem (c_fn c) vs) (fun v => Ok ((c_name c, v) :: e))).
Fixpoint calc_all (e : env) (cs : list comp) : res env :=
  match cs with
  | [] => Ok e
  | c :: t => bind (calc e c) (fun e' => calc_all e' t)
  end.

Definition plain_of (l : list (name * valia)) : list (name * Z) :=
  flat_map (fun kv => match snd kv with Plain v => [(fst kv, v)] | IA _ _ => [] end) l.
Definition ias_of (l : list (name * valia)) : list comp :=
  flat_map (fun kv => match snd kv with Plain _ => [] | IA f a => [mkC (fst kv) f a] end) l.
Definition rxn_comp (r : rxn) : comp := mkC (r_name r) (r_fn r) (r_args r).

Record cache := mkCache {
  ca_base : list (name * Z);        (* base_parameter_values = get_parameter_values() *)
  ca_allpar : list (name * val);    (* all_parameter_values *)
  ca_ic : list (name * val);        (* initial_conditions *)
  ca_dyn : list comp;               (* dyn_order: dynamic derived and reactions *)
  ca_dynder : list name             (* derived variables, in declaration order *)
}.

(** split of the derived quantities: static iff all arguments are (derived) parameters *)
Fixpoint split_derived (allpn : list name) (ds : list comp) : list comp * list comp :=
  match ds with
  | [] => ([], [])
  | d :: t =>
      if forallb (fun a => memN a allpn) (c_args d)
      then let st := split_derived (c_name d :: allpn) t in (d :: fst st, snd st)
      else let st := split_derived allpn t in (fst st, d :: snd st)
  end.

Definition nums (l : list (name * Z)) : env := map (fun kv => (fst kv, Num (snd kv))) l.

Definition create_cache (m : mdl) : res cache :=
  let base_p := plain_of (m_pars m) in
  let base_v := plain_of (m_vars m) in
  let ia_v := ias_of (m_vars m) in
  let ia_p := ias_of (m_pars m) in
  let dep0 : env := (TIME, Num 0) :: nums base_v ++ nums base_p in
  bind (calc_all dep0 (ia_v ++ ia_p ++ m_der m ++ map rxn_comp (m_rxn m))) (fun dep =>
  let sd := split_derived (map fst (m_pars m)) (m_der m) in
  let static_names := map c_name ia_p ++ map c_name (fst sd) in
  bind (lookup_all dep (map fst (m_vars m))) (fun ics =>
  bind (lookup_all dep static_names) (fun svals =>
  Ok (mkCache base_p (nums base_p ++ combine static_names svals)
              (combine (map fst (m_vars m)) ics)
              (snd sd ++ map rxn_comp (m_rxn m))
              (map c_name (snd sd)))))).

(** [_get_args]: all_parameter_values | variables | time, then the dynamic components *)
Definition get_args (c : cache) (vars : env) (t : Z) : res env :=
  calc_all ((TIME, Num t) :: vars ++ ca_allpar c) (ca_dyn c).

Definition vmul (n : Z) (v : val) : val := lift1 (Z.mul n) v.
Definition vadd (a b : val) : val := lift2 Z.add a b.

(** [Model.__call__]: dxdt[k] = sum over reactions of n * flux *)
Definition rhs (m : mdl) (c : cache) (y : list val) (t : Z) : res (list val) :=
  let vn := map fst (m_vars m) in
  bind (get_args c (combine vn y) t) (fun e =>
  Ok (map (fun k =>
             fold_left (fun acc r =>
                          match lookup k (r_st r), lookup (r_name r) e with
                          | Some n, Some fl => vadd acc (vmul n fl)
                          | _, _ => acc
                          end) (m_rxn m) (Num 0)) vn)).

(** the harness' integrator (harness/c09_integ.py): explicit Euler, one step per interval,
    IntegrationFailure as soon as a component leaves [-LIMIT, LIMIT] *)
Definition LIMIT : Z := 4096.
Definition in_limit (y : list val) : bool :=
  forallb (fun v => match v with Num z => Z.leb (Z.abs z) LIMIT | NaN => false end) y.

Inductive ires := IOk (tc : list (Z * list val)) | IFail | IZeroDiv | IOther.

Fixpoint euler (m : mdl) (c : cache) (t : Z) (y : list val) (tps : list Z) : ires :=
  match tps with
  | [] => IOk []
  | t1 :: rest =>
      match rhs m c y t with
      | Err EZeroDiv => IZeroDiv
      | Err _ => IOther
      | Ok dy =>
          let y1 := map (fun ab => vadd (fst ab) (vmul (t1 - t) (snd ab))) (combine y dy) in
          if in_limit y1 then
            match euler m c t1 y1 rest with
            | IOk tc => IOk ((t1, y1) :: tc)
            | r => r
            end
          else IFail
      end
  end.

(** [integrate_time_course]: the start point is inserted when the first requested point is not t0 *)
Definition integrate_tc (m : mdl) (c : cache) (y0 : list val) (tps : list Z) : ires :=
  let tps' := match tps with t :: rest => if Z.eqb t 0 then rest else tps | [] => [] end in
  match euler m c 0 y0 tps' with
  | IOk tc => IOk ((0, y0) :: tc)
  | r => r
  end.

(** [integrate_to_steady_state]: unit steps until an exact fixed point, at most [fuel] steps *)
Fixpoint steady (m : mdl) (c : cache) (t : Z) (y : list val) (fuel : nat) : ires :=
  match fuel with
  | O => IFail                      (* NoSteadyState *)
  | S f =>
      match rhs m c y t with
      | Err EZeroDiv => IZeroDiv
      | Err _ => IOther
      | Ok dy =>
          let y1 := map (fun ab => vadd (fst ab) (snd ab)) (combine y dy) in
          if in_limit y1 then
            if list_eqb val_eqb y1 y then IOk [(t + 1, y1)] else steady m c (t + 1) y1 f
          else IFail
      end
  end.
Definition MAXS : nat := 12.

(** which worker *)
Inductive wkind := WTimeCourse (tps : list Z) | WSteady.

(** a [Simulation] without its model reference; [SCrash] = the worker call itself raises *)
Inductive sim :=
| SOk (raw_vars : list (Z * list val)) (raw_pars : list (name * Z))
| SCrash (e : err).

(** the time axis of the time-course worker's NaN placeholder (fact regenerated from the source):
    [TcRequested] = the requested points as they are; [TcWithStart] = the start point t0 = 0 put in
    front when the first requested point is later, exactly as [integrate_time_course] does
    (fixes/C09-tc-placeholder-start-point.diff) *)
Inductive tc_axis := TcWithStart | TcRequested | TcUnknown.
Definition starts_at_zero (tps : list Z) : bool :=
  match tps with t :: _ => Z.eqb t 0 | [] => false end.
Definition tc_placeholder_axis (ax : tc_axis) (tps : list Z) : list Z :=
  match ax with
  | TcWithStart => if starts_at_zero tps then tps else 0 :: tps
  | TcRequested | TcUnknown => tps
  end.

(** the worker: [Simulator(model)...get_result()], [except ZeroDivisionError], [res.default(...)] *)
Definition work (ax : tc_axis) (w : wkind) (m : mdl) : sim * mdl :=
  match create_cache m with
  | Err e => (SCrash e, m)    (* Simulator() raises; if it is a ZeroDivisionError it is caught, but
                                 Simulation.default -> get_parameter_values() raises it again *)
  | Ok c =>
      let y0 := map snd (ca_ic c) in
      let placeholder idx := SOk (map (fun t => (t, map (fun _ => NaN) (m_vars m))) idx) (ca_base c) in
      match w with
      | WTimeCourse tps =>
          match integrate_tc m c y0 tps with
          | IOk tc => (SOk tc (ca_base c), m)
          | IFail | IZeroDiv => (placeholder (tc_placeholder_axis ax tps), m)
          | IOther => (SCrash EKey, m)
          end
      | WSteady =>
          match steady m c 0 y0 MAXS with
          | IOk tc => (SOk tc (ca_base c), m)
          | IFail | IZeroDiv => (placeholder [0], m)
          | IOther => (SCrash EKey, m)
          end
      end
  end.

(** [model.update_parameters(p)] with plain values *)
Fixpoint set_plain (l : list (name * valia)) (k : name) (v : Z) : list (name * valia) :=
  match l with
  | [] => []
  | (k', x) :: t => if N.eqb k k' then (k', Plain v) :: t else (k', x) :: set_plain t k v
  end.
Definition has_key {A} (k : name) (l : list (name * A)) : bool := existsb (fun kv => N.eqb k (fst kv)) l.

Definition update_parameters (m : mdl) (p : list (name * Z)) : mdl :=
  fold_left (fun m kv => mkM (m_vars m) (set_plain (m_pars m) (fst kv) (snd kv)) (m_der m) (m_rxn m)) p m.
Definition update_variables (m : mdl) (p : list (name * Z)) : mdl :=
  fold_left (fun m kv => mkM (set_plain (m_vars m) (fst kv) (snd kv)) (m_pars m) (m_der m) (m_rxn m)) p m.

(** one row of the scan table: column name -> value *)
Definition row := list (name * Z).
Definition apply_row (r : row) (m : mdl) : mdl :=
  let m1 := update_variables m (filter (fun kv => has_key (fst kv) (m_vars m)) r) in
  update_parameters m1 (filter (fun kv => has_key (fst kv) (m_pars m1)) r).

(** what [.variables] and [.fluxes] of one result show: per time point the variables followed by
    the derived variables, and the reaction fluxes *)
Inductive out :=
| OOk (rows : list (Z * list val * list val))
| OCrash (e : err).

Fixpoint view_rows (m : mdl) (c : cache) (rv : list (Z * list val)) : res (list (Z * list val * list val)) :=
  match rv with
  | [] => Ok []
  | (t, y) :: rest =>
      bind (get_args c (combine (map fst (m_vars m)) y) t) (fun e =>
      bind (lookup_all e (map fst (m_vars m) ++ ca_dynder c)) (fun vs =>
      bind (lookup_all e (map r_name (m_rxn m))) (fun fs =>
      bind (view_rows m c rest) (fun more => Ok ((t, vs, fs) :: more)))))
  end.

(** [Simulation._compute_args]: re-apply the stored plain parameters to the referenced model, read *)
Definition view (s : sim) (m : mdl) : out * mdl :=
  match s with
  | SCrash e => (OCrash e, m)
  | SOk rv rp =>
      let m' := update_parameters m rp in
      match create_cache m' with
      | Err e => (OCrash e, m')
      | Ok c => match view_rows m' c rv with
                | Ok rows => (OOk rows, m')
                | Err e => (OCrash e, m')
                end
      end
  end.

(** facts regenerated from the source (GenScanFacts.v) *)
Inductive ph_axis := PhStepGrid | PhLinspaceNT | PhUnknown.
(** protocol-time-course worker: [PtcRequested] = the requested points as they are; [PtcJoined] = t = 0,
    then the sorted union of the requested points and the ends of the protocol steps, up to the end of
    the protocol (fixes/C09-tc-placeholder-start-point.diff) *)
Inductive ptc_axis := PtcJoined | PtcRequested | PtcUnknown.
(** [DupRefuse]: every dict-keyed entry point starts with [_require_unique_index(table)]
    (fixes/C09-duplicate-labels-refused.diff); [DupCollapse]: none does (rows with equal labels collapse) *)
Inductive dup_policy := DupRefuse | DupCollapse | DupUnknown.
Definition refuses (d : dup_policy) : bool := match d with DupRefuse => true | _ => false end.
Record scan_facts := mkScanFacts {
  sf_copies : bool;          (* _update_parameters_and_initial_conditions starts with model = copy.deepcopy(model) *)
  sf_update_shape : bool;    (* ... and then updates variables, then parameters, by column membership *)
  sf_pool_shape : bool;      (* parallelise: ordered pool.map, chunksize 1, sequential map(worker, inputs); _load_or_run *)
  sf_containers : bool;      (* steady-state: list + raw_index from the table; others: dict(res); no timeout passed *)
  sf_sim_shape : bool;       (* Simulation.default / _compute_args shapes *)
  sf_workers_shape : bool;   (* workers: except ZeroDivisionError -> default; placeholder axes of ss / tc / ptc *)
  sf_protocol_axis : ph_axis; (* placeholder time axis of the protocol worker *)
  sf_tc_axis : tc_axis;      (* placeholder time axis of the time-course worker *)
  sf_ptc_axis : ptc_axis;    (* placeholder time axis of the protocol-time-course worker *)
  sf_dups : dup_policy       (* what the dict-keyed entry points do with equal index labels *)
}.

Definition label := Z.
Definition scan_list_c (f : scan_facts) (w : wkind) md m0 rows :=
  scan_list mdl row label sim out apply_row (work (sf_tc_axis f) w) view (sf_copies f) md m0 rows.
Definition scan_dict_c (f : scan_facts) (w : wkind) md m0 rows :=
  scan_dict mdl row label sim out apply_row (work (sf_tc_axis f) w) view Z.eqb (sf_copies f) md m0 rows.
(** ... behind the entry point's test of the index: [None] = the table is refused (ValueError) *)
Definition scan_dict_checked_c (f : scan_facts) (w : wkind) md m0 rows :=
  scan_dict_checked mdl row label sim out apply_row (work (sf_tc_axis f) w) view Z.eqb (refuses (sf_dups f)) (sf_copies f) md m0 rows.
(** a separate run on a fresh copy; [ax] only matters for the shape of a failing run's placeholder *)
Definition independent_c (ax : tc_axis) (w : wkind) m0 r := independent mdl row sim out apply_row (work ax w) view m0 r.

(** ---- the entry points of scan.py / mc.py (table regenerated from the source) ---- *)
Inductive ep_name := ScanSteadyState | ScanTimeCourse | ScanProtocol | ScanProtocolTimeCourse
                   | McSteadyState | McTimeCourse | McProtocol | McProtocolTimeCourse | McScanSteadyState.
Inductive wname := WkSteadyState | WkTimeCourse | WkProtocol | WkProtocolTimeCourse | WkParameterScan.
Inductive container := CList    (* raw_results=[i[1] for i in res], raw_index from the table's values *)
                     | CDict    (* raw_results=dict(res) *)
                     | CDictOfScans. (* {k: v.variables.T for k, v in res}: dict of inner scans *)
Inductive par_arg := ParByFlag      (* scan.*: parallel=parallel, pool size = cpu_count *)
                   | ParMaxWorkers. (* mc.*: always the pool, max_workers=max_workers *)
(** what an entry point does with its [y0] argument (initial values for the whole scan):
    [Y0IntoModel] = [if y0 is not None: model.update_variables(y0)] before fanning out, the worker gets
    [y0=None] (the row's own initial values, written afterwards into the task's copy, win; initial
    assignments see y0); [Y0ToWorker] = nothing is written, the worker is handed [y0=y0] and starts
    the integration from it (the shape of seeded change C09-4) *)
Inductive y0_policy := Y0IntoModel | Y0ToWorker | Y0Unknown.
Record entry_point := mkEP {
  ep_id : ep_name;
  ep_worker : wname;          (* default of the [worker] argument *)
  ep_container : container;
  ep_par : par_arg;
  ep_checks_dups : bool;      (* starts with [_require_unique_index(<table>)] *)
  ep_y0 : y0_policy;          (* how [y0] reaches the rows *)
  ep_cache_check : bool       (* has [if cache is not None: _require_unique_index(<table>)] in front *)
}.
(** a cached run keys the result files by the row label: safe iff the index is tested before *)
Definition ep_cache_safe (ep : entry_point) : bool := ep_checks_dups ep || ep_cache_check ep.
Definition ep_name_eqb (a b : ep_name) : bool :=
  match a, b with
  | ScanSteadyState, ScanSteadyState | ScanTimeCourse, ScanTimeCourse | ScanProtocol, ScanProtocol
  | ScanProtocolTimeCourse, ScanProtocolTimeCourse | McSteadyState, McSteadyState | McTimeCourse, McTimeCourse
  | McProtocol, McProtocol | McProtocolTimeCourse, McProtocolTimeCourse | McScanSteadyState, McScanSteadyState => true
  | _, _ => false
  end.
Definition y0_policy_of (eps : list entry_point) (id : ep_name) : y0_policy :=
  match find (fun ep => ep_name_eqb (ep_id ep) id) eps with
  | Some ep => ep_y0 ep
  | None => Y0Unknown
  end.

(** ---- third pass: two more facts read from the source (GenScanFacts.v: [gen_view_policy], [gen_row_update]) ----
    [view_policy]: what [Simulation._compute_args] leaves behind in the model object it reads through:
      [ViewLeaves]   the model keeps the stored plain parameters of the last segment (the tree before 4167248);
      [ViewRestores] the parameter values found before the view are put back
                     ([in_force = self._parameters_in_force()] ... [finally: self.model.update_parameters(in_force)]).
    [row_update]: what the two update calls of a scan task do to the model object's [_cache]:
      [RowInvalidatesPerItem] [update_variables] / [update_parameters] are plain loops over the items that call the
                     single-item mutators, which carry [@_invalidate_cache]: an EMPTY dict leaves the cache alone,
                     any item drops it (the tree);
      [RowInvalidatesAlways] the batch mutators carry the decorator themselves. *)
Inductive view_policy := ViewRestores | ViewLeaves | ViewUnknown.
Inductive row_update := RowInvalidatesPerItem | RowInvalidatesAlways | RowUnknown.

(** ---- time axes of the protocol worker (lengths only need the number of steps) ---- *)
Section Axes.
  Variable T : Type.          (* a time value *)
  Variable lin : T -> T -> nat -> nat -> T.   (* np.linspace(a, b, n + 1)[k] *)
  Variable zero : T.
  Hypothesis lin_start : forall a b n, lin a b n 0 = a.

  (** np.linspace(a, b, n + 1) *)
  Definition linspace (a b : T) (n : nat) : list T := map (lin a b n) (seq 0 (S n)).

  (** successful [simulate_protocol]: the first step keeps all points, later steps drop their first *)
  Fixpoint success_axis_from (first : bool) (t0 : T) (tends : list T) (tpps : nat) : list T :=
    match tends with
    | [] => []
    | t1 :: rest =>
        (if first then linspace t0 t1 tpps else tl (linspace t0 t1 tpps))
          ++ success_axis_from false t1 rest tpps
    end.
  Definition success_axis (tends : list T) (tpps : nat) := success_axis_from true zero tends tpps.

  (** the placeholder's axis *)
  Fixpoint step_grid (t0 : T) (tends : list T) (tpps : nat) : list T :=
    match tends with
    | [] => []
    | t1 :: rest => tl (linspace t0 t1 tpps) ++ step_grid t1 rest tpps
    end.
  Definition placeholder_axis (a : ph_axis) (tends : list T) (tpps : nat) : list T :=
    match a with
    | PhStepGrid => zero :: step_grid zero tends tpps
    | PhLinspaceNT =>   (* np.linspace(0, protocol.index[-1], len(protocol) * time_points_per_step) *)
        match (length tends * tpps)%nat with
        | O => []
        | S n => linspace zero (last tends zero) n
        end
    | PhUnknown => []
    end.
End Axes.

(** ---- time axes of the protocol-time-course worker, exact in the time values ----
    [simulate_protocol_time_course]: [full] = the sorted join of the protocol's step ends and the
    requested points (pandas [Index.join(how="outer")] in the Simulator, [np.union1d] in the worker:
    external, a Section variable); every step integrates over the points of [full] in
    (t_start, t_end]: the integrator puts its start point in front ([integrate_time_course]), the
    Simulator drops that first row for every step but the first ([skipfirst]). *)
Section PtcAxes.
  Variable full : list Z.

  Definition in_step (a b p : Z) : bool := Z.ltb a p && Z.leb p b.
  Fixpoint ptc_success_from (first : bool) (t_start : Z) (ends : list Z) : list Z :=
    match ends with
    | [] => []
    | t_end :: rest =>
        let pts := filter (in_step t_start t_end) full in
        let reported := t_start :: pts in          (* t0 inserted: pts never starts at t_start *)
        (if first then reported else tl reported) ++ ptc_success_from false t_end rest
    end.
  Definition ptc_success_axis (ends : list Z) : list Z := ptc_success_from true 0 ends.

  Definition ptc_placeholder_axis (a : ptc_axis) (ends tps : list Z) : list Z :=
    match a with
    | PtcJoined => 0 :: filter (in_step 0 (last ends 0)) full
    | PtcRequested | PtcUnknown => tps
    end.
End PtcAxes.
