(** Hand-edited (together with a [fix:] commit in /repo only): which form of the two repairable
    places of _generate_model_code PropsC07.v expects the extractor to regenerate from the tree.

    [C07_expected_ia]
      IaDropped  only model.get_parameter_values() is emitted: a parameter defined by an initial
                 assignment never gets a line (recorded finding assigned-parameter-not-emitted;
                 theorem C07_assigned_parameter_refuted describes the tree)
      IaFrozen   after fixes/C07-assigned-parameter-value.diff: every parameter name missing from
                 that dict is added with the value the model holds for it (theorem
                 C07_assigned_parameter_emitted describes the tree, the guard NoAssignedParams of
                 C07_equiv_partial is void)
    [C07_expected_untouched]
      UtDropped  a variable no reaction acts on is dropped from the returned list (recorded finding
                 variable-without-reaction; theorem C07_variable_without_reaction_refuted)
      UtZero     after fixes/C07-untouched-variable-zero.diff: it gets the line d<x>dt = 0.0 whenever
                 diff_eqs is not empty (theorem C07_untouched_variable_zero; the guard
                 EveryVariableHasReaction of C07_equiv_partial becomes "some reaction acts on
                 something")
    [C07_expected_bind]  (the argument binding of source_tools.py::fn_to_sympy, CallArity.v)
      BkStrictNonEmpty   `if model_args is not None and len(model_args):` zip(..., strict=True) -- a call
                 that passes NO argument skips the binding, so a function all of whose parameters
                 have defaults is "translated" with its parameters left behind as bare symbols
                 (recorded finding defaulted-parameters-no-arguments; theorem
                 C07_empty_call_leaks_refuted describes the tree)
      BkStrict   after fixes/C07-empty-argument-list-strict.diff: `if model_args is not None:` --
                 the guards "the argument list is not empty" of C07_call_* are void
    tools/c07_switch.py rewrites these three lines and known_findings.d/C07.json consistently. *)
From Codegen Require Import Codegen CallArity.

Definition C07_expected_ia : ia_kind := IaFrozen.
Definition C07_expected_untouched : ut_kind := UtZero.
Definition C07_expected_bind : bind_kind := BkStrict.

(** the facts of the tree with b1ee1b9, 24c6733, 3b18255 applied, as a function of the two
    switchable ones *)
Definition C07_facts (ia : ia_kind) (ut : ut_kind) : facts :=
  mkFacts (mkLF AsgName DsList RetBracket false) (mkLF AsgName DsList RetBracket false)
          (mkLF AsgName DsList RetBracket true) (mkLF AsgLitK DsSplat RetBare true)
          OrdDep true true true true ia ut.
