(** C07 -- the general theorems of CodegenProofs.v instantiated at the facts of the tree
    ([C07_facts ia ut], for EVERY value of the two switchable facts -- PropsC07.v pins the
    regenerated facts to [C07_facts C07_expected_ia C07_expected_untouched], ExpectedFacts.v), and
    machine-checked witnesses (vm_compute, rational instance of CgInst.v):
      - for every recorded finding (behaviour the current code still has): [..._refuted];
      - for every repaired defect, with the facts of the snapshot ([snapshot_facts]): the old
        fact value makes the property fail -- kept as regression witnesses. *)
From Coq Require Import List NArith ZArith QArith Bool Lia.
From MxlBase Require Import ListX.
From Codegen Require Import Codegen CodegenSpec ExpectedFacts CgInst CodegenProofs.
Import ListNotations.

(** what the extractor read from the snapshot (before fixes/C07-*.diff) *)
Definition snapshot_facts : facts :=
  mkFacts (mkLF AsgName DsBare RetBare false) (mkLF AsgName DsList RetBracket false)
          (mkLF AsgName DsList RetBracket true) (mkLF AsgLitK DsSplat RetBare true)
          OrdDecl false true true true IaDropped UtDropped.

Lemma expected_ia_ok : C07_expected_ia <> IaUnknown.
Proof. discriminate. Qed.
Lemma expected_ut_ok : C07_expected_untouched <> UtUnknown.
Proof. discriminate. Qed.

(** ---- the general theorems at the pinned facts --------------------------------------- *)
Lemma equiv_pinned (ia : ia_kind) (ut : ut_kind) (F : facts) : F = C07_facts ia ut ->
  forall (V : Type) (vzero : V) (vadd vmul : V -> V -> V)
         (isem : lang -> fnid -> list V -> option V) (translates : fnid -> bool)
         (fsem : fnid -> list V -> option V),
    (forall L f vs v, translates f = true -> fsem f vs = Some v -> isem L f vs = Some v) ->
  forall (L : lang) (m : cmodel V) (order free : list name) (p : program V)
         (t : V) (y fv : list V) (e : env V),
    L <> Jl ->
    generate V translates F L m order free = GOk p ->
    NoDup (map fst (m_par m)) ->
    NoAssignedParams V m \/ ia = IaFrozen ->
    EveryVariableHasReaction V m \/ (ut = UtZero /\ HasEquation V m) ->
    m_var m <> [] ->
    CoefArgsKnown V m -> ValidOrder V m order ->
    Resolved V fsem m free fv t y e ->
    exists ds, map_opt (dxdt V vzero vadd vmul fsem m e) (m_var m) = Some ds
               /\ exec V vzero vadd vmul isem F L p t y fv = ROk ds.
Proof.
  intros -> V vzero vadd vmul isem translates fsem C06 L m order free p t y fv e HL Hgen ND NoIA EVR Hne CAK VO R.
  eapply (equiv_generic V vzero vadd vmul isem translates fsem C06 (C07_facts ia ut) L); try eassumption;
    try (destruct L; try reflexivity; contradiction).
  unfold ret_ok. destruct L; try contradiction; cbn; destruct (m_var m); try congruence; cbn; lia.
Qed.

Lemma generates_pinned (ia : ia_kind) (ut : ut_kind) (F : facts) :
  ia <> IaUnknown -> ut <> UtUnknown -> F = C07_facts ia ut ->
  forall (V : Type) (translates : fnid -> bool) (L : lang) (m : cmodel V) (order free : list name),
    NoDup (map fst (m_par m)) -> NoDup free -> incl free (map fst (base_params V m)) ->
    (forall n f a, In (n, (f, a)) (m_der m) -> translates f = true) ->
    (forall n f a st, In (n, (f, a, st)) (m_rxn m) ->
       translates f = true /\ forall x g ga, In (x, CDyn g ga) st -> translates g = true) ->
    exists p, generate V translates F L m order free = GOk p.
Proof.
  intros Hia Hut -> V translates L m order free.
  apply generates_generic; destruct ia, ut, L; try reflexivity; congruence.
Qed.

Lemma untranslatable_pinned (ia : ia_kind) (ut : ut_kind) (F : facts) : F = C07_facts ia ut ->
  forall (V : Type) (translates : fnid -> bool) (L : lang) (m : cmodel V) (order free : list name),
    NoDup (map fst (m_der m) ++ map fst (m_rxn m)) ->
    incl (map fst (m_der m) ++ map fst (m_rxn m)) order ->
    (exists n f a, In (n, (f, a)) (m_der m) /\ translates f = false)
    \/ (exists n f a st, In (n, (f, a, st)) (m_rxn m) /\ translates f = false)
    \/ (exists n f a st x g ga, In (n, (f, a, st)) (m_rxn m) /\ In (x, CDyn g ga) st /\ translates g = false) ->
    forall p, generate V translates F L m order free <> GOk p.
Proof.
  intros -> V translates L m order free ND Hc Hbad p Hgen.
  destruct (untranslatable_generic V translates (C07_facts ia ut) L m order free p eq_refl Hgen ND Hc) as [Hd Hr].
  destruct Hbad as [(n & f & a & H & Hf)|[(n & f & a & st & H & Hf)|(n & f & a & st & x & g & ga & H & Hx & Hf)]].
  - rewrite (Hd n f a H) in Hf. discriminate.
  - rewrite (proj1 (Hr n f a st H)) in Hf. discriminate.
  - rewrite (proj2 (Hr n f a st H) x g ga Hx) in Hf. discriminate.
Qed.

Lemma again_pinned (ia : ia_kind) (ut : ut_kind) (F : facts) : F = C07_facts ia ut ->
  forall (V : Type) (translates : fnid -> bool) (L : lang) (m : cmodel V) (order free : list name),
    cache_after V F m free = base_params V m
    /\ generate_again V translates F L m order free = generate V translates F L m order free.
Proof. intros -> V translates L m order free. now apply again_generic. Qed.

Lemma jl_illformed_pinned (ia : ia_kind) (ut : ut_kind) (F : facts) : F = C07_facts ia ut ->
  forall (V : Type) (vzero : V) (vadd vmul : V -> V -> V)
         (isem : lang -> fnid -> list V -> option V) (translates : fnid -> bool)
         (m : cmodel V) (order free : list name) (p : program V) (t : V) (y fv : list V),
    generate V translates F Jl m order free = GOk p -> m_var m <> [] ->
    exec V vzero vadd vmul isem F Jl p t y fv = RIllFormed.
Proof.
  intros -> V vzero vadd vmul isem translates m order free p t y fv. now apply splat_illformed.
Qed.

(** a computed coefficient is emitted as the EXPRESSION over its argument names -- never as the
    number it has at the stored parameter values -- whatever its arguments are *)
Lemma coef_expression_pinned (F : facts) :
  forall (V : Type) (translates : fnid -> bool) (L : lang) (m : cmodel V) (order free : list name)
         (p : program V) n f a st x g ga,
    generate V translates F L m order free = GOk p ->
    In (n, (f, a, st)) (m_rxn m) -> In (x, CDyn g ga) st ->
    exists ts, In (lhs_of (lf_of F L) (PD x), RSum ts) (g_body p) /\ In (n, CDyn g ga) ts.
Proof. intros V translates L m order free p n f a st x g ga. apply coef_expression_generic. Qed.

(** ---- witnesses ------------------------------------------------------------------------ *)
Open Scope Q_scope.

(** out-of-order derived quantities, a derived quantity reading a rate, a computed coefficient:
    par n11 = 2; vars n12 n13; n15 = sq(n14); n14 = n12 + n11; n18 = n16 * time;
    rxn n17 = n18 * n11 {n13: 1}; rxn n16 = n15 * n13 {n12: -1, n13: n11 + n12} *)
Definition w_model : cmodel Q :=
  mkCM [(11%N, (false, 2))] [12%N; 13%N]
       [(15%N, (6%N, [14%N])); (14%N, (2%N, [12%N; 11%N])); (18%N, (4%N, [16%N; 0%N]))]
       [(17%N, (4%N, [18%N; 11%N], [(13%N, CStat 1)]));
        (16%N, (4%N, [15%N; 13%N], [(12%N, CStat (-1)); (13%N, CDyn 2%N [11%N; 12%N])]))].
Definition w_order : list name := [14%N; 15%N; 16%N; 18%N; 17%N].
Definition w_env : env Q := fun n =>
  match n with
  | 0%N => 1 | 11%N => 3 | 12%N => 1 | 13%N => 2 | 14%N => 4 | 15%N => 16 | 16%N => 32
  | 18%N => 32 | 17%N => 96 | _ => 0
  end.

Lemma isemQ_C06 : forall L f vs v, translatesQ f = true -> fsemQ f vs = Some v -> isemQ L f vs = Some v.
Proof. intros L f vs v Ht Hv. unfold isemQ. now rewrite Ht. Qed.

Lemma nonvacuous (ia : ia_kind) (ut : ut_kind) (F : facts) :
  ia <> IaUnknown -> ut <> UtUnknown -> F = C07_facts ia ut ->
  NoDup (map fst (m_par w_model)) /\ NoAssignedParams Q w_model
  /\ EveryVariableHasReaction Q w_model /\ m_var w_model <> []
  /\ CoefArgsKnown Q w_model /\ ValidOrder Q w_model w_order
  /\ Resolved Q fsemQ w_model [11%N] [3] 1 [1; 2] w_env
  /\ (forall L, L <> Jl -> exists p,
        generateQ F L w_model w_order [11%N] = GOk p
        /\ outcome_eqb (execQ F L p 1 [1; 2] [3]) (ROk [-32; 224]) = true).
Proof.
  intros Hia Hut ->. split; [repeat constructor; cbn; tauto|].
  split; [intros n ia' v H; cbn in H; destruct H as [H|[]]; now injection H as _ <- _|].
  split; [intros x H; cbn in H; destruct H as [<-|[<-|[]]]; vm_compute; discriminate|].
  split; [discriminate|].
  split.
  { intros n f a st x g ga H Hx. cbn in H. destruct H as [H|[H|[]]]; injection H as <- <- <- <-;
      cbn in Hx.
    - destruct Hx as [Hx|[]]. discriminate.
    - destruct Hx as [Hx|[Hx|[]]]; [discriminate|]. injection Hx as <- <- <-.
      intros z Hz. cbn in Hz. destruct Hz as [<-|[<-|[]]]; vm_compute; tauto. }
  split.
  { split; [|intros z Hz; cbn in Hz; vm_compute; tauto].
    vm_compute. repeat split; intros z Hz; cbn in Hz; tauto. }
  split.
  { constructor; try reflexivity.
    - intros n ia' v H Hn. cbn in H. destruct H as [H|[]]. injection H as <- _ _. exfalso. apply Hn. now left.
    - intros n f a H. cbn in H. destruct H as [H|[H|[H|[]]]]; injection H as <- <- <-; vm_compute; reflexivity.
    - intros n f a st H. cbn in H. destruct H as [H|[H|[]]]; injection H as <- <- <- <-; vm_compute; reflexivity.
    - intros n f a st x g ga H Hx. cbn in H. destruct H as [H|[H|[]]]; injection H as <- <- <- <-; cbn in Hx.
      + destruct Hx as [Hx|[]]. discriminate.
      + destruct Hx as [Hx|[Hx|[]]]; [discriminate|]. injection Hx as <- <- <-. eexists. vm_compute. reflexivity. }
  intros L HL. destruct ia, ut; try congruence;
    destruct L; try contradiction; eexists; (split; [vm_compute; reflexivity|vm_compute; reflexivity]).
Qed.

(** -- recorded findings / their repairs: the behaviour under each value of the switchable facts -- *)

(** a variable without any reaction is dropped from the returned list *)
Definition w_uncovered : cmodel Q :=
  mkCM [(11%N, (false, 2))] [12%N; 13%N] []
       [(14%N, (4%N, [11%N; 12%N], [(12%N, CStat (-1))]))].

Lemma uncovered_refuted (ia : ia_kind) : ia <> IaUnknown ->
  exists p, generateQ (C07_facts ia UtDropped) Ts w_uncovered [14%N] [] = GOk p
            /\ optlist_eqb (spec_rhs w_uncovered [14%N] [] [] 0 [3; 5]) (Some [-6; 0]) = true
            /\ outcome_eqb (execQ (C07_facts ia UtDropped) Ts p 0 [3; 5] []) (ROk [-6]) = true.
Proof. intros H. destruct ia; try congruence; eexists; repeat split; vm_compute; reflexivity. Qed.

(** ... and gets the explicit zero once the generator writes it: one derivative per variable *)
Lemma untouched_zero (ia : ia_kind) : ia <> IaUnknown ->
  forall L, L <> Jl ->
  exists p, generateQ (C07_facts ia UtZero) L w_uncovered [14%N] [] = GOk p
            /\ optlist_eqb (spec_rhs w_uncovered [14%N] [] [] 0 [3; 5]) (Some [-6; 0]) = true
            /\ outcome_eqb (execQ (C07_facts ia UtZero) L p 0 [3; 5] []) (ROk [-6; 0]) = true.
Proof.
  intros H L HL. destruct ia; try congruence; destruct L; try contradiction;
    eexists; repeat split; vm_compute; reflexivity.
Qed.

(** variables, but no reaction acts on anything: diff_eqs is empty and the return list is the unit
    `()` wrapped by the template -- under every value of the switchable facts *)
Definition w_noeq : cmodel Q := mkCM [(11%N, (false, 2))] [12%N] [(13%N, (4%N, [11%N; 12%N]))] [].

Lemma noeq_refuted (ia : ia_kind) (ut : ut_kind) (F : facts) :
  ia <> IaUnknown -> ut <> UtUnknown -> F = C07_facts ia ut ->
  exists p, generateQ F Ts w_noeq [13%N] [] = GOk p
            /\ optlist_eqb (spec_rhs w_noeq [13%N] [] [] 0 [3]) (Some [0]) = true
            /\ execQ F Ts p 0 [3] [] = RIllFormed
            /\ exists p', generateQ F Py w_noeq [13%N] [] = GOk p' /\ execQ F Py p' 0 [3] [] = RJunk.
Proof.
  intros Hia Hut ->. destruct ia, ut; try congruence;
    (eexists; repeat split; try (vm_compute; reflexivity); eexists; split; vm_compute; reflexivity).
Qed.

(** a parameter defined by an initial assignment is never emitted: its readers are unbound *)
Definition w_assigned : cmodel Q :=
  mkCM [(11%N, (false, 2)); (12%N, (true, 4))] [13%N] []
       [(14%N, (4%N, [12%N; 13%N], [(13%N, CStat (-1))]))].

Lemma assigned_refuted (ut : ut_kind) : ut <> UtUnknown ->
  exists p, generateQ (C07_facts IaDropped ut) Py w_assigned [12%N; 14%N] [] = GOk p
            /\ optlist_eqb (spec_rhs w_assigned [12%N; 14%N] [] [] 0 [3]) (Some [-12]) = true
            /\ execQ (C07_facts IaDropped ut) Py p 0 [3] [] = RErrUnbound.
Proof. intros H. destruct ut; try congruence; eexists; repeat split; vm_compute; reflexivity. Qed.

(** ... and is emitted with the value the model holds once the generator adds the missing names *)
Lemma assigned_emitted (ut : ut_kind) : ut <> UtUnknown ->
  forall L, L <> Jl ->
  exists p, generateQ (C07_facts IaFrozen ut) L w_assigned [12%N; 14%N] [] = GOk p
            /\ optlist_eqb (spec_rhs w_assigned [12%N; 14%N] [] [] 0 [3]) (Some [-12]) = true
            /\ outcome_eqb (execQ (C07_facts IaFrozen ut) L p 0 [3] []) (ROk [-12]) = true.
Proof.
  intros H L HL. destruct ut; try congruence; destruct L; try contradiction;
    eexists; repeat split; vm_compute; reflexivity.
Qed.

(** a model without variables: the unit `()` wrapped by the return template is `[()]` *)
Definition w_novars : cmodel Q := mkCM [(11%N, (false, 2))] [] [(12%N, (0%N, [11%N]))] [].

Lemma novars_refuted (ia : ia_kind) (ut : ut_kind) (F : facts) :
  ia <> IaUnknown -> ut <> UtUnknown -> F = C07_facts ia ut ->
  exists p, generateQ F Ts w_novars [12%N] [] = GOk p
            /\ optlist_eqb (spec_rhs w_novars [12%N] [] [] 0 []) (Some []) = true
            /\ execQ F Ts p 0 [] [] = RIllFormed
            /\ exists p', generateQ F Py w_novars [12%N] [] = GOk p' /\ execQ F Py p' 0 [] [] = RJunk.
Proof.
  intros Hia Hut ->. destruct ia, ut; try congruence;
    (eexists; repeat split; try (vm_compute; reflexivity); eexists; split; vm_compute; reflexivity).
Qed.

(** -- the widened guards are not vacuous: an assignment-defined parameter AND a variable no
       reaction acts on, under the repaired facts ------------------------------------------------ *)
(** par n11 = 2; par n12 := (assignment) 4; vars n13 n14; rxn n15 = n12 * n13 {n13: -1} *)
Definition w_both : cmodel Q :=
  mkCM [(11%N, (false, 2)); (12%N, (true, 4))] [13%N; 14%N] []
       [(15%N, (4%N, [12%N; 13%N], [(13%N, CStat (-1))]))].
Definition w_both_env : env Q := fun n =>
  match n with 0%N => 0 | 11%N => 2 | 12%N => 4 | 13%N => 3 | 14%N => 5 | 15%N => 12 | _ => 0 end.

Lemma nonvacuous_repaired :
  NoDup (map fst (m_par w_both)) /\ ~ NoAssignedParams Q w_both
  /\ ~ EveryVariableHasReaction Q w_both /\ HasEquation Q w_both /\ m_var w_both <> []
  /\ CoefArgsKnown Q w_both /\ ValidOrder Q w_both [12%N; 15%N]
  /\ Resolved Q fsemQ w_both [] [] 0 [3; 5] w_both_env
  /\ (forall L, L <> Jl -> exists p,
        generateQ (C07_facts IaFrozen UtZero) L w_both [12%N; 15%N] [] = GOk p
        /\ outcome_eqb (execQ (C07_facts IaFrozen UtZero) L p 0 [3; 5] []) (ROk [-12; 0]) = true).
Proof.
  split; [repeat constructor; cbn; intuition discriminate|].
  split; [intros H; specialize (H 12%N true 4 (or_intror (or_introl eq_refl))); discriminate|].
  split; [intros H; apply (H 14%N); [cbn; tauto|vm_compute; reflexivity]|].
  split; [exists 15%N, 4%N, [12%N; 13%N], [(13%N, CStat (-1))], 13%N, (CStat (-1)); cbn; tauto|].
  split; [discriminate|].
  split.
  { intros n f a st x g ga H Hx. cbn in H. destruct H as [H|[]]. injection H as <- <- <- <-.
    cbn in Hx. destruct Hx as [Hx|[]]. discriminate. }
  split.
  { split; [|intros z Hz; cbn in Hz; vm_compute; tauto].
    vm_compute. repeat split; intros z Hz; cbn in Hz; tauto. }
  split.
  { constructor; try reflexivity.
    - intros n ia v H Hn. cbn in H. destruct H as [H|[H|[]]]; injection H as <- _ <-; reflexivity.
    - intros n f a [].
    - intros n f a st H. cbn in H. destruct H as [H|[]]. injection H as <- <- <- <-. vm_compute. reflexivity.
    - intros n f a st x g ga H Hx. cbn in H. destruct H as [H|[]]. injection H as <- <- <- <-.
      cbn in Hx. destruct Hx as [Hx|[]]. discriminate. }
  intros L HL. destruct L; try contradiction; eexists; (split; [vm_compute; reflexivity|vm_compute; reflexivity]).
Qed.

(** -- free parameters reach the right-hand side THROUGH computed coefficients -------------- *)
(** par n11 = 2; par n12 = 3; var n13; rxn n14 = n13 {n13: n11 * n12}, n11 requested free *)
Definition w_freecoef : cmodel Q :=
  mkCM [(11%N, (false, 2)); (12%N, (false, 3))] [13%N] []
       [(14%N, (0%N, [13%N], [(13%N, CDyn 4%N [11%N; 12%N])]))].

(** for EVERY input q of the free parameter, state y0 and time: the generated function returns
    (q * 3) * y0 -- the coefficient at the INPUT q, not at the stored value 2 *)
Lemma free_coef_all_inputs (ia : ia_kind) (ut : ut_kind) (F : facts) :
  ia <> IaUnknown -> ut <> UtUnknown -> F = C07_facts ia ut ->
  forall L, L <> Jl -> forall (q y0 t : Q),
  exists p, generateQ F L w_freecoef [14%N] [11%N] = GOk p
            /\ execQ F L p t [y0] [q] = ROk [0 + (q * 3) * y0].
Proof.
  intros Hia Hut -> L HL q y0 t. destruct ia, ut; try congruence; destruct L; try contradiction;
    (eexists; split; [vm_compute; reflexivity|reflexivity]).
Qed.

(** regression witness (seeded change C07-1): a generator that takes the stoichiometries from the
    model's cache emits the coefficient as the number 6 = 2 * 3; called with n11 = 5 it returns
    6 * y0 where the model returns 15 * y0 *)
Lemma cache_evaluated_coefficient_refuted (ia : ia_kind) (ut : ut_kind) (F : facts) :
  ia <> IaUnknown -> ut <> UtUnknown -> F = C07_facts ia ut ->
  exists p, generateQ F Py (freeze_par_coefs w_freecoef) [14%N] [11%N] = GOk p
            /\ optlist_eqb (spec_rhs w_freecoef [14%N] [11%N] [5] 0 [1]) (Some [15]) = true
            /\ outcome_eqb (execQ F Py p 0 [1] [5]) (ROk [6]) = true.
Proof.
  intros Hia Hut ->. destruct ia, ut; try congruence; eexists; repeat split; vm_compute; reflexivity.
Qed.

(** -- repaired defects: with the facts of the snapshot the property fails ----------------- *)

(** declaration order: n15 = sq(n14) is emitted before n14 *)
Lemma snapshot_declaration_order_refuted :
  exists p, generateQ snapshot_facts Ts w_model w_order [11%N] = GOk p
            /\ optlist_eqb (spec_rhs w_model w_order [11%N] [3] 1 [1; 2]) (Some [-32; 224]) = true
            /\ execQ snapshot_facts Ts p 1 [1; 2] [3] = RErrUnbound.
Proof. eexists. repeat split; vm_compute; reflexivity. Qed.

(** the free parameters were popped from the model's cached dict: the same request again
    raises KeyError *)
Definition w_inorder : cmodel Q :=
  mkCM [(11%N, (false, 2))] [12%N; 13%N] [(14%N, (2%N, [12%N; 11%N]))]
       [(15%N, (4%N, [14%N; 13%N], [(12%N, CStat (-1)); (13%N, CStat 1)]))].

Lemma snapshot_cached_dict_refuted :
  (exists p, generateQ snapshot_facts Ts w_inorder [14%N; 15%N] [11%N] = GOk p)
  /\ cache_afterQ snapshot_facts w_inorder [11%N] = []
  /\ generate_againQ snapshot_facts Ts w_inorder [14%N; 15%N] [11%N] = GErrKey.
Proof. split; [eexists; vm_compute; reflexivity|]. split; vm_compute; reflexivity. Qed.

(** Python: `x = variables` binds the whole vector to the only variable; a single derivative is
    returned as a bare number *)
Definition w_onevar : cmodel Q :=
  mkCM [(11%N, (false, 2))] [12%N] [] [(13%N, (4%N, [11%N; 12%N], [(12%N, CStat (-1))]))].
Definition w_twovars_one_eq : cmodel Q :=
  mkCM [(11%N, (false, 2))] [12%N; 13%N] [] [(14%N, (4%N, [11%N; 12%N], [(12%N, CStat (-1))]))].

Lemma snapshot_py_templates_refuted :
  (exists p, generateQ snapshot_facts Py w_onevar [13%N] [] = GOk p
             /\ optlist_eqb (spec_rhs w_onevar [13%N] [] [] 0 [3]) (Some [-6]) = true
             /\ execQ snapshot_facts Py p 0 [3] [] = RErrVec)
  /\ (exists p, generateQ snapshot_facts Py w_twovars_one_eq [14%N] [] = GOk p
                /\ outcome_eqb (execQ snapshot_facts Py p 0 [3; 5] []) (RScalar (-6)) = true).
Proof. split; eexists; repeat split; vm_compute; reflexivity. Qed.
