(** C07 -- the general theorems of CodegenProofs.v instantiated at the facts of the tree
    ([C07_facts ia ut], for EVERY value of the two switchable facts -- PropsC07.v pins the
    regenerated facts to [C07_facts C07_expected_ia C07_expected_untouched], ExpectedFacts.v), and
    machine-checked witnesses (vm_compute, rational instance of CgInst.v):
      - for every recorded finding (behaviour the current code still has): [..._refuted];
      - for every repaired defect, with the facts of the snapshot ([snapshot_facts]): the old
        fact value makes the property fail -- kept as regression witnesses. *)
From Coq Require Import List NArith ZArith QArith Bool Lia.
From MxlBase Require Import ListX.
From Codegen Require Import Codegen CodegenSpec CallArity NameScope RustLit ExpectedFacts CgInst CodegenProofs CallArityProofs NameScopeProofs RustLitProofs.
Import ListNotations.

(** what the extractor read from the snapshot (before fixes/C07-*.diff) *)
Definition snapshot_facts : facts :=
  mkFacts (mkLF AsgName DsBare RetBare false) (mkLF AsgName DsList RetBracket false)
          (mkLF AsgName DsList RetBracket true) (mkLF AsgLitK DsSplat RetBare true)
          OrdDecl false true true true IaDropped UtDropped.

Lemma expected_ia_ok : C07_expected_ia <> IaUnknown.
Proof. discriminate. Qed.
Lemma expected_ut_ok : C07_expected_untouched <> UtUnknown.
Proof. discriminate. Qed.

(** ---- the general theorems at the pinned facts --------------------------------------- *)
Lemma equiv_pinned (ia : ia_kind) (ut : ut_kind) (F : facts) : F = C07_facts ia ut ->
  forall (V : Type) (vzero : V) (vadd vmul : V -> V -> V)
         (isem : lang -> fnid -> list V -> option V) (translates : fnid -> bool)
         (fsem : fnid -> list V -> option V),
    (forall L f vs v, translates f = true -> fsem f vs = Some v -> isem L f vs = Some v) ->
  forall (L : lang) (m : cmodel V) (order free : list name) (p : program V)
         (t : V) (y fv : list V) (e : env V),
    L <> Jl ->
    generate V translates F L m order free = GOk p ->
    NoDup (map fst (m_par m)) ->
    NoAssignedParams V m \/ ia = IaFrozen ->
    EveryVariableHasReaction V m \/ (ut = UtZero /\ HasEquation V m) ->
    m_var m <> [] ->
    CoefArgsKnown V m -> ValidOrder V m order ->
    Resolved V fsem m free fv t y e ->
    exists ds, map_opt (dxdt V vzero vadd vmul fsem m e) (m_var m) = Some ds
               /\ exec V vzero vadd vmul isem F L p t y fv = ROk ds.
Proof.
  intros -> V vzero vadd vmul isem translates fsem C06 L m order free p t y fv e HL Hgen ND NoIA EVR Hne CAK VO R.
  eapply (equiv_generic V vzero vadd vmul isem translates fsem C06 (C07_facts ia ut) L); try eassumption;
    try (destruct L; try reflexivity; contradiction).
  unfold ret_ok. destruct L; try contradiction; cbn; destruct (m_var m); try congruence; cbn; lia.
Qed.

Lemma generates_pinned (ia : ia_kind) (ut : ut_kind) (F : facts) :
  ia <> IaUnknown -> ut <> UtUnknown -> F = C07_facts ia ut ->
  forall (V : Type) (translates : fnid -> bool) (L : lang) (m : cmodel V) (order free : list name),
    NoDup (map fst (m_par m)) -> NoDup free -> incl free (map fst (base_params V m)) ->
    (forall n f a, In (n, (f, a)) (m_der m) -> translates f = true) ->
    (forall n f a st, In (n, (f, a, st)) (m_rxn m) ->
       translates f = true /\ forall x g ga, In (x, CDyn g ga) st -> translates g = true) ->
    exists p, generate V translates F L m order free = GOk p.
Proof.
  intros Hia Hut -> V translates L m order free.
  apply generates_generic; destruct ia, ut, L; try reflexivity; congruence.
Qed.

Lemma untranslatable_pinned (ia : ia_kind) (ut : ut_kind) (F : facts) : F = C07_facts ia ut ->
  forall (V : Type) (translates : fnid -> bool) (L : lang) (m : cmodel V) (order free : list name),
    NoDup (map fst (m_der m) ++ map fst (m_rxn m)) ->
    incl (map fst (m_der m) ++ map fst (m_rxn m)) order ->
    (exists n f a, In (n, (f, a)) (m_der m) /\ translates f = false)
    \/ (exists n f a st, In (n, (f, a, st)) (m_rxn m) /\ translates f = false)
    \/ (exists n f a st x g ga, In (n, (f, a, st)) (m_rxn m) /\ In (x, CDyn g ga) st /\ translates g = false) ->
    forall p, generate V translates F L m order free <> GOk p.
Proof.
  intros -> V translates L m order free ND Hc Hbad p Hgen.
  destruct (untranslatable_generic V translates (C07_facts ia ut) L m order free p eq_refl Hgen ND Hc) as [Hd Hr].
  destruct Hbad as [(n & f & a & H & Hf)|[(n & f & a & st & H & Hf)|(n & f & a & st & x & g & ga & H & Hx & Hf)]].
  - rewrite (Hd n f a H) in Hf. discriminate.
  - rewrite (proj1 (Hr n f a st H)) in Hf. discriminate.
  - rewrite (proj2 (Hr n f a st H) x g ga Hx) in Hf. discriminate.
Qed.

Lemma again_pinned (ia : ia_kind) (ut : ut_kind) (F : facts) : F = C07_facts ia ut ->
  forall (V : Type) (translates : fnid -> bool) (L : lang) (m : cmodel V) (order free : list name),
    cache_after V F m free = base_params V m
    /\ generate_again V translates F L m order free = generate V translates F L m order free.
Proof. intros -> V translates L m order free. now apply again_generic. Qed.

Lemma jl_illformed_pinned (ia : ia_kind) (ut : ut_kind) (F : facts) : F = C07_facts ia ut ->
  forall (V : Type) (vzero : V) (vadd vmul : V -> V -> V)
         (isem : lang -> fnid -> list V -> option V) (translates : fnid -> bool)
         (m : cmodel V) (order free : list name) (p : program V) (t : V) (y fv : list V),
    generate V translates F Jl m order free = GOk p -> m_var m <> [] ->
    exec V vzero vadd vmul isem F Jl p t y fv = RIllFormed.
Proof.
  intros -> V vzero vadd vmul isem translates m order free p t y fv. now apply splat_illformed.
Qed.

(** a computed coefficient is emitted as the EXPRESSION over its argument names -- never as the
    number it has at the stored parameter values -- whatever its arguments are *)
Lemma coef_expression_pinned (F : facts) :
  forall (V : Type) (translates : fnid -> bool) (L : lang) (m : cmodel V) (order free : list name)
         (p : program V) n f a st x g ga,
    generate V translates F L m order free = GOk p ->
    In (n, (f, a, st)) (m_rxn m) -> In (x, CDyn g ga) st ->
    exists ts, In (lhs_of (lf_of F L) (PD x), RSum ts) (g_body p) /\ In (n, CDyn g ga) ts.
Proof. intros V translates L m order free p n f a st x g ga. apply coef_expression_generic. Qed.

(** ---- witnesses ------------------------------------------------------------------------ *)
Open Scope Q_scope.

(** out-of-order derived quantities, a derived quantity reading a rate, a computed coefficient:
    par n11 = 2; vars n12 n13; n15 = sq(n14); n14 = n12 + n11; n18 = n16 * time;
    rxn n17 = n18 * n11 {n13: 1}; rxn n16 = n15 * n13 {n12: -1, n13: n11 + n12} *)
Definition w_model : cmodel Q :=
  mkCM [(11%N, (false, 2))] [12%N; 13%N]
       [(15%N, (6%N, [14%N])); (14%N, (2%N, [12%N; 11%N])); (18%N, (4%N, [16%N; 0%N]))]
       [(17%N, (4%N, [18%N; 11%N], [(13%N, CStat 1)]));
        (16%N, (4%N, [15%N; 13%N], [(12%N, CStat (-1)); (13%N, CDyn 2%N [11%N; 12%N])]))].
Definition w_order : list name := [14%N; 15%N; 16%N; 18%N; 17%N].
Definition w_env : env Q := fun n =>
  match n with
  | 0%N => 1 | 11%N => 3 | 12%N => 1 | 13%N => 2 | 14%N => 4 | 15%N => 16 | 16%N => 32
  | 18%N => 32 | 17%N => 96 | _ => 0
  end.

Lemma isemQ_C06 : forall L f vs v, translatesQ f = true -> fsemQ f vs = Some v -> isemQ L f vs = Some v.
Proof. intros L f vs v Ht Hv. unfold isemQ. now rewrite Ht. Qed.

Lemma nonvacuous (ia : ia_kind) (ut : ut_kind) (F : facts) :
  ia <> IaUnknown -> ut <> UtUnknown -> F = C07_facts ia ut ->
  NoDup (map fst (m_par w_model)) /\ NoAssignedParams Q w_model
  /\ EveryVariableHasReaction Q w_model /\ m_var w_model <> []
  /\ CoefArgsKnown Q w_model /\ ValidOrder Q w_model w_order
  /\ Resolved Q fsemQ w_model [11%N] [3] 1 [1; 2] w_env
  /\ (forall L, L <> Jl -> exists p,
        generateQ F L w_model w_order [11%N] = GOk p
        /\ outcome_eqb (execQ F L p 1 [1; 2] [3]) (ROk [-32; 224]) = true).
Proof.
  intros Hia Hut ->. split; [repeat constructor; cbn; tauto|].
  split; [intros n ia' v H; cbn in H; destruct H as [H|[]]; now injection H as _ <- _|].
  split; [intros x H; cbn in H; destruct H as [<-|[<-|[]]]; vm_compute; discriminate|].
  split; [discriminate|].
  split.
  { intros n f a st x g ga H Hx. cbn in H. destruct H as [H|[H|[]]]; injection H as <- <- <- <-;
      cbn in Hx.
    - destruct Hx as [Hx|[]]. discriminate.
    - destruct Hx as [Hx|[Hx|[]]]; [discriminate|]. injection Hx as <- <- <-.
      intros z Hz. cbn in Hz. destruct Hz as [<-|[<-|[]]]; vm_compute; tauto. }
  split.
  { split; [|intros z Hz; cbn in Hz; vm_compute; tauto].
    vm_compute. repeat split; intros z Hz; cbn in Hz; tauto. }
  split.
  { constructor; try reflexivity.
    - intros n ia' v H Hn. cbn in H. destruct H as [H|[]]. injection H as <- _ _. exfalso. apply Hn. now left.
    - intros n f a H. cbn in H. destruct H as [H|[H|[H|[]]]]; injection H as <- <- <-; vm_compute; reflexivity.
    - intros n f a st H. cbn in H. destruct H as [H|[H|[]]]; injection H as <- <- <- <-; vm_compute; reflexivity.
    - intros n f a st x g ga H Hx. cbn in H. destruct H as [H|[H|[]]]; injection H as <- <- <- <-; cbn in Hx.
      + destruct Hx as [Hx|[]]. discriminate.
      + destruct Hx as [Hx|[Hx|[]]]; [discriminate|]. injection Hx as <- <- <-. eexists. vm_compute. reflexivity. }
  intros L HL. destruct ia, ut; try congruence;
    destruct L; try contradiction; eexists; (split; [vm_compute; reflexivity|vm_compute; reflexivity]).
Qed.

(** -- recorded findings / their repairs: the behaviour under each value of the switchable facts -- *)

(** a variable without any reaction is dropped from the returned list *)
Definition w_uncovered : cmodel Q :=
  mkCM [(11%N, (false, 2))] [12%N; 13%N] []
       [(14%N, (4%N, [11%N; 12%N], [(12%N, CStat (-1))]))].

Lemma uncovered_refuted (ia : ia_kind) : ia <> IaUnknown ->
  exists p, generateQ (C07_facts ia UtDropped) Ts w_uncovered [14%N] [] = GOk p
            /\ optlist_eqb (spec_rhs w_uncovered [14%N] [] [] 0 [3; 5]) (Some [-6; 0]) = true
            /\ outcome_eqb (execQ (C07_facts ia UtDropped) Ts p 0 [3; 5] []) (ROk [-6]) = true.
Proof. intros H. destruct ia; try congruence; eexists; repeat split; vm_compute; reflexivity. Qed.

(** ... and gets the explicit zero once the generator writes it: one derivative per variable *)
Lemma untouched_zero (ia : ia_kind) : ia <> IaUnknown ->
  forall L, L <> Jl ->
  exists p, generateQ (C07_facts ia UtZero) L w_uncovered [14%N] [] = GOk p
            /\ optlist_eqb (spec_rhs w_uncovered [14%N] [] [] 0 [3; 5]) (Some [-6; 0]) = true
            /\ outcome_eqb (execQ (C07_facts ia UtZero) L p 0 [3; 5] []) (ROk [-6; 0]) = true.
Proof.
  intros H L HL. destruct ia; try congruence; destruct L; try contradiction;
    eexists; repeat split; vm_compute; reflexivity.
Qed.

(** variables, but no reaction acts on anything: diff_eqs is empty and the return list is the unit
    `()` wrapped by the template -- under every value of the switchable facts *)
Definition w_noeq : cmodel Q := mkCM [(11%N, (false, 2))] [12%N] [(13%N, (4%N, [11%N; 12%N]))] [].

Lemma noeq_refuted (ia : ia_kind) (ut : ut_kind) (F : facts) :
  ia <> IaUnknown -> ut <> UtUnknown -> F = C07_facts ia ut ->
  exists p, generateQ F Ts w_noeq [13%N] [] = GOk p
            /\ optlist_eqb (spec_rhs w_noeq [13%N] [] [] 0 [3]) (Some [0]) = true
            /\ execQ F Ts p 0 [3] [] = RIllFormed
            /\ exists p', generateQ F Py w_noeq [13%N] [] = GOk p' /\ execQ F Py p' 0 [3] [] = RJunk.
Proof.
  intros Hia Hut ->. destruct ia, ut; try congruence;
    (eexists; repeat split; try (vm_compute; reflexivity); eexists; split; vm_compute; reflexivity).
Qed.

(** a parameter defined by an initial assignment is never emitted: its readers are unbound *)
Definition w_assigned : cmodel Q :=
  mkCM [(11%N, (false, 2)); (12%N, (true, 4))] [13%N] []
       [(14%N, (4%N, [12%N; 13%N], [(13%N, CStat (-1))]))].

Lemma assigned_refuted (ut : ut_kind) : ut <> UtUnknown ->
  exists p, generateQ (C07_facts IaDropped ut) Py w_assigned [12%N; 14%N] [] = GOk p
            /\ optlist_eqb (spec_rhs w_assigned [12%N; 14%N] [] [] 0 [3]) (Some [-12]) = true
            /\ execQ (C07_facts IaDropped ut) Py p 0 [3] [] = RErrUnbound.
Proof. intros H. destruct ut; try congruence; eexists; repeat split; vm_compute; reflexivity. Qed.

(** ... and is emitted with the value the model holds once the generator adds the missing names *)
Lemma assigned_emitted (ut : ut_kind) : ut <> UtUnknown ->
  forall L, L <> Jl ->
  exists p, generateQ (C07_facts IaFrozen ut) L w_assigned [12%N; 14%N] [] = GOk p
            /\ optlist_eqb (spec_rhs w_assigned [12%N; 14%N] [] [] 0 [3]) (Some [-12]) = true
            /\ outcome_eqb (execQ (C07_facts IaFrozen ut) L p 0 [3] []) (ROk [-12]) = true.
Proof.
  intros H L HL. destruct ut; try congruence; destruct L; try contradiction;
    eexists; repeat split; vm_compute; reflexivity.
Qed.

(** a model without variables: the unit `()` wrapped by the return template is `[()]` *)
Definition w_novars : cmodel Q := mkCM [(11%N, (false, 2))] [] [(12%N, (0%N, [11%N]))] [].

Lemma novars_refuted (ia : ia_kind) (ut : ut_kind) (F : facts) :
  ia <> IaUnknown -> ut <> UtUnknown -> F = C07_facts ia ut ->
  exists p, generateQ F Ts w_novars [12%N] [] = GOk p
            /\ optlist_eqb (spec_rhs w_novars [12%N] [] [] 0 []) (Some []) = true
            /\ execQ F Ts p 0 [] [] = RIllFormed
            /\ exists p', generateQ F Py w_novars [12%N] [] = GOk p' /\ execQ F Py p' 0 [] [] = RJunk.
Proof.
  intros Hia Hut ->. destruct ia, ut; try congruence;
    (eexists; repeat split; try (vm_compute; reflexivity); eexists; split; vm_compute; reflexivity).
Qed.

(** -- the widened guards are not vacuous: an assignment-defined parameter AND a variable no
       reaction acts on, under the repaired facts ------------------------------------------------ *)
(** par n11 = 2; par n12 := (assignment) 4; vars n13 n14; rxn n15 = n12 * n13 {n13: -1} *)
Definition w_both : cmodel Q :=
  mkCM [(11%N, (false, 2)); (12%N, (true, 4))] [13%N; 14%N] []
       [(15%N, (4%N, [12%N; 13%N], [(13%N, CStat (-1))]))].
Definition w_both_env : env Q := fun n =>
  match n with 0%N => 0 | 11%N => 2 | 12%N => 4 | 13%N => 3 | 14%N => 5 | 15%N => 12 | _ => 0 end.

Lemma nonvacuous_repaired :
  NoDup (map fst (m_par w_both)) /\ ~ NoAssignedParams Q w_both
  /\ ~ EveryVariableHasReaction Q w_both /\ HasEquation Q w_both /\ m_var w_both <> []
  /\ CoefArgsKnown Q w_both /\ ValidOrder Q w_both [12%N; 15%N]
  /\ Resolved Q fsemQ w_both [] [] 0 [3; 5] w_both_env
  /\ (forall L, L <> Jl -> exists p,
        generateQ (C07_facts IaFrozen UtZero) L w_both [12%N; 15%N] [] = GOk p
        /\ outcome_eqb (execQ (C07_facts IaFrozen UtZero) L p 0 [3; 5] []) (ROk [-12; 0]) = true).
Proof.
  split; [repeat constructor; cbn; intuition discriminate|].
  split; [intros H; specialize (H 12%N true 4 (or_intror (or_introl eq_refl))); discriminate|].
  split; [intros H; apply (H 14%N); [cbn; tauto|vm_compute; reflexivity]|].
  split; [exists 15%N, 4%N, [12%N; 13%N], [(13%N, CStat (-1))], 13%N, (CStat (-1)); cbn; tauto|].
  split; [discriminate|].
  split.
  { intros n f a st x g ga H Hx. cbn in H. destruct H as [H|[]]. injection H as <- <- <- <-.
    cbn in Hx. destruct Hx as [Hx|[]]. discriminate. }
  split.
  { split; [|intros z Hz; cbn in Hz; vm_compute; tauto].
    vm_compute. repeat split; intros z Hz; cbn in Hz; tauto. }
  split.
  { constructor; try reflexivity.
    - intros n ia v H Hn. cbn in H. destruct H as [H|[H|[]]]; injection H as <- _ <-; reflexivity.
    - intros n f a [].
    - intros n f a st H. cbn in H. destruct H as [H|[]]. injection H as <- <- <- <-. vm_compute. reflexivity.
    - intros n f a st x g ga H Hx. cbn in H. destruct H as [H|[]]. injection H as <- <- <- <-.
      cbn in Hx. destruct Hx as [Hx|[]]. discriminate. }
  intros L HL. destruct L; try contradiction; eexists; (split; [vm_compute; reflexivity|vm_compute; reflexivity]).
Qed.

(** -- free parameters reach the right-hand side THROUGH computed coefficients -------------- *)
(** par n11 = 2; par n12 = 3; var n13; rxn n14 = n13 {n13: n11 * n12}, n11 requested free *)
Definition w_freecoef : cmodel Q :=
  mkCM [(11%N, (false, 2)); (12%N, (false, 3))] [13%N] []
       [(14%N, (0%N, [13%N], [(13%N, CDyn 4%N [11%N; 12%N])]))].

(** for EVERY input q of the free parameter, state y0 and time: the generated function returns
    (q * 3) * y0 -- the coefficient at the INPUT q, not at the stored value 2 *)
Lemma free_coef_all_inputs (ia : ia_kind) (ut : ut_kind) (F : facts) :
  ia <> IaUnknown -> ut <> UtUnknown -> F = C07_facts ia ut ->
  forall L, L <> Jl -> forall (q y0 t : Q),
  exists p, generateQ F L w_freecoef [14%N] [11%N] = GOk p
            /\ execQ F L p t [y0] [q] = ROk [0 + (q * 3) * y0].
Proof.
  intros Hia Hut -> L HL q y0 t. destruct ia, ut; try congruence; destruct L; try contradiction;
    (eexists; split; [vm_compute; reflexivity|reflexivity]).
Qed.

(** regression witness (seeded change C07-1): a generator that takes the stoichiometries from the
    model's cache emits the coefficient as the number 6 = 2 * 3; called with n11 = 5 it returns
    6 * y0 where the model returns 15 * y0 *)
Lemma cache_evaluated_coefficient_refuted (ia : ia_kind) (ut : ut_kind) (F : facts) :
  ia <> IaUnknown -> ut <> UtUnknown -> F = C07_facts ia ut ->
  exists p, generateQ F Py (freeze_par_coefs w_freecoef) [14%N] [11%N] = GOk p
            /\ optlist_eqb (spec_rhs w_freecoef [14%N] [11%N] [5] 0 [1]) (Some [15]) = true
            /\ outcome_eqb (execQ F Py p 0 [1] [5]) (ROk [6]) = true.
Proof.
  intros Hia Hut ->. destruct ia, ut; try congruence; eexists; repeat split; vm_compute; reflexivity.
Qed.

(** -- repaired defects: with the facts of the snapshot the property fails ----------------- *)

(** declaration order: n15 = sq(n14) is emitted before n14 *)
Lemma snapshot_declaration_order_refuted :
  exists p, generateQ snapshot_facts Ts w_model w_order [11%N] = GOk p
            /\ optlist_eqb (spec_rhs w_model w_order [11%N] [3] 1 [1; 2]) (Some [-32; 224]) = true
            /\ execQ snapshot_facts Ts p 1 [1; 2] [3] = RErrUnbound.
Proof. eexists. repeat split; vm_compute; reflexivity. Qed.

(** the free parameters were popped from the model's cached dict: the same request again
    raises KeyError *)
Definition w_inorder : cmodel Q :=
  mkCM [(11%N, (false, 2))] [12%N; 13%N] [(14%N, (2%N, [12%N; 11%N]))]
       [(15%N, (4%N, [14%N; 13%N], [(12%N, CStat (-1)); (13%N, CStat 1)]))].

Lemma snapshot_cached_dict_refuted :
  (exists p, generateQ snapshot_facts Ts w_inorder [14%N; 15%N] [11%N] = GOk p)
  /\ cache_afterQ snapshot_facts w_inorder [11%N] = []
  /\ generate_againQ snapshot_facts Ts w_inorder [14%N; 15%N] [11%N] = GErrKey.
Proof. split; [eexists; vm_compute; reflexivity|]. split; vm_compute; reflexivity. Qed.

(** Python: `x = variables` binds the whole vector to the only variable; a single derivative is
    returned as a bare number *)
Definition w_onevar : cmodel Q :=
  mkCM [(11%N, (false, 2))] [12%N] [] [(13%N, (4%N, [11%N; 12%N], [(12%N, CStat (-1))]))].
Definition w_twovars_one_eq : cmodel Q :=
  mkCM [(11%N, (false, 2))] [12%N; 13%N] [] [(14%N, (4%N, [11%N; 12%N], [(12%N, CStat (-1))]))].

Lemma snapshot_py_templates_refuted :
  (exists p, generateQ snapshot_facts Py w_onevar [13%N] [] = GOk p
             /\ optlist_eqb (spec_rhs w_onevar [13%N] [] [] 0 [3]) (Some [-6]) = true
             /\ execQ snapshot_facts Py p 0 [3] [] = RErrVec)
  /\ (exists p, generateQ snapshot_facts Py w_twovars_one_eq [14%N] [] = GOk p
                /\ outcome_eqb (execQ snapshot_facts Py p 0 [3; 5] []) (RScalar (-6)) = true).
Proof. split; eexists; repeat split; vm_compute; reflexivity. Qed.

(** ======================================================================================
    the argument binding of fn_to_sympy (CallArity.v): the general theorems at the form the tree
    has ([bk] = C07_expected_bind, pinned by C07_bind_fact_pinned), witnesses for the other forms *)
Lemma expected_bind_not_lax : C07_expected_bind <> BkLaxNonEmpty.
Proof. discriminate. Qed.
Lemma expected_bind_not_unknown : C07_expected_bind <> BkUnknown.
Proof. discriminate. Qed.

Lemma bind_guard (bk : bind_kind) (A : Type) (acts : list A) :
  bk <> BkLaxNonEmpty -> bk <> BkUnknown -> acts <> [] \/ bk = BkStrict ->
  bk = BkStrict \/ (bk = BkStrictNonEmpty /\ acts <> []).
Proof. intros H1 H2 [H | H]; destruct bk; try congruence; auto. Qed.

Lemma call_closed_pinned (bk B : bind_kind) : bk <> BkLaxNonEmpty -> bk <> BkUnknown -> B = bk ->
  forall (V : Type) (f : pyfn V) (acts : list (texp V)) (r : texp V),
    acts <> [] \/ bk = BkStrict ->
    translate_call V B f acts = Some r ->
    forall n, In n (syms V r) -> exists a, In a acts /\ In n (syms V a).
Proof. intros H1 H2 -> V f acts r G. apply call_closed. apply bind_guard; assumption. Qed.

Lemma call_sound_pinned (bk B : bind_kind) : bk <> BkLaxNonEmpty -> bk <> BkUnknown -> B = bk ->
  forall (V : Type) (vadd vsub vmul : V -> V -> V) (f : pyfn V) (acts : list (texp V)) (r : texp V)
         (env : name -> option V) (vs : list V),
    acts <> [] \/ bk = BkStrict ->
    translate_call V B f acts = Some r ->
    map_opt (teval V vadd vsub vmul env) acts = Some vs ->
    teval V vadd vsub vmul env r = py_call V vadd vsub vmul f vs.
Proof. intros H1 H2 -> V vadd vsub vmul f acts r env vs G. apply call_sound. apply bind_guard; assumption. Qed.

Lemma call_refused_pinned (bk B : bind_kind) : bk <> BkLaxNonEmpty -> bk <> BkUnknown -> B = bk ->
  forall (V : Type) (f : pyfn V) (acts : list (texp V)),
    acts <> [] \/ bk = BkStrict ->
    length acts <> length (fn_args V f) ->
    translate_call V B f acts = None.
Proof. intros H1 H2 -> V f acts G. apply call_refused. apply bind_guard; assumption. Qed.

Lemma entry_closed_pinned (bk B : bind_kind) : bk <> BkLaxNonEmpty -> bk <> BkUnknown -> B = bk ->
  forall (V : Type) (e : entry V) (r : texp V),
    (en_nargs V e <> [] /\ forall k acts, en_call V e = Some (k, acts) -> acts <> []) \/ bk = BkStrict ->
    translate_entry V B e = Some r ->
    forall n, In n (syms V r) -> In n (en_nargs V e).
Proof.
  intros H1 H2 -> V e r G. apply entry_closed.
  destruct G as [[Ha Hb] | ->]; [| left; reflexivity].
  destruct bk; try congruence; [left; reflexivity | right; auto].
Qed.

(** the functions of the table that rely on a default value, a keyword-only parameter or *args
    (ids 28..35) are refused under either strict form of the binding ... *)
Definition by_arity_refused : list fnid := [28%N; 29%N; 30%N; 31%N; 32%N; 33%N; 34%N; 35%N].

Lemma by_arity_not_translated (bk : bind_kind) : bk = BkStrict \/ bk = BkStrictNonEmpty ->
  forall f, In f by_arity_refused -> translatesQ_at bk f = false.
Proof.
  intros [-> | ->] f Hf; cbn in Hf;
    repeat (destruct Hf as [<- | Hf]; [vm_compute; reflexivity |]); destruct Hf.
Qed.

(** ... so a model that uses one of them -- as the function of a derived quantity, of a reaction or
    of a computed coefficient -- makes generation raise in all four languages *)
Lemma default_reliant_raises_pinned (ia : ia_kind) (ut : ut_kind) (F : facts) (bk B : bind_kind) :
  F = C07_facts ia ut -> bk <> BkLaxNonEmpty -> bk <> BkUnknown -> B = bk ->
  forall (L : lang) (m : cmodel Q) (order free : list name),
    NoDup (map fst (m_der m) ++ map fst (m_rxn m)) ->
    incl (map fst (m_der m) ++ map fst (m_rxn m)) order ->
    (exists n f a, In (n, (f, a)) (m_der m) /\ In f by_arity_refused)
    \/ (exists n f a st, In (n, (f, a, st)) (m_rxn m) /\ In f by_arity_refused)
    \/ (exists n f a st x g ga, In (n, (f, a, st)) (m_rxn m) /\ In (x, CDyn g ga) st /\ In g by_arity_refused) ->
    forall p, generateQ_at B F L m order free <> GOk p.
Proof.
  intros HF H1 H2 -> L m order free ND Hinc Hbad.
  assert (Hbk : bk = BkStrict \/ bk = BkStrictNonEmpty) by (destruct bk; try congruence; auto).
  apply (untranslatable_pinned ia ut F HF Q (translatesQ_at bk) L m order free ND Hinc).
  destruct Hbad as [(n & f & a & H & Hf)|[(n & f & a & st & H & Hf)|(n & f & a & st & x & g & ga & H & Hx & Hf)]].
  - left. exists n, f, a. split; [exact H | apply by_arity_not_translated; assumption].
  - right. left. exists n, f, a, st. split; [exact H | apply by_arity_not_translated; assumption].
  - right. right. exists n, f, a, st, x, g, ga. repeat split; try assumption. apply by_arity_not_translated; assumption.
Qed.

(** witnesses *)
Definition e_default_helper : entry Q := mkEntry (mkPyFn [id_a] [] [] false (TSym hole)) (Some (k_scale, [TSym id_a])) (margs 1).
Definition e_default_inner : entry Q :=
  mkEntry (mkPyFn [id_a; id_g] [] [] false (TSub (TSym hole) (TSym id_g))) (Some (k_gain, [TSym id_a])) (margs 2).
Definition e_empty_helper : entry Q := mkEntry (mkPyFn [id_a] [] [] false (TMul (TSym id_a) (TSym hole))) (Some (k_two, [])) (margs 1).
Definition e_empty_top : entry Q := mkEntry (mkPyFn [] [(n11, 2)] [] false (TMul (TSym n11) (TNum 3))) None (margs 0).

Lemma witness_entries_are_table_entries :
  arity_entry 28%N = Some e_default_helper /\ arity_entry 29%N = Some e_default_inner
  /\ arity_entry 36%N = Some e_empty_helper /\ arity_entry 37%N = Some e_empty_top.
Proof. repeat split. Qed.

(** par n11 = 4; rxn n20 = u_empty_helper(n12) {n12: -1, n13: 1} -- the model returns 18 * ... *)
Definition w_empty_call : cmodel Q :=
  mkCM [(11%N, (false, 4))] [12%N; 13%N] []
       [(20%N, (36%N, [12%N], [(12%N, CStat (-1)); (13%N, CStat 1)]))].
(** ... rxn n20 = n12 {n12: -1, n13: u_empty_top()} *)
Definition w_empty_coef : cmodel Q :=
  mkCM [(11%N, (false, 4))] [12%N; 13%N] []
       [(20%N, (0%N, [12%N], [(12%N, CStat (-1)); (13%N, CDyn 37%N [])]))].
Definition w_default_call : cmodel Q :=
  mkCM [(11%N, (false, 4))] [12%N; 13%N] []
       [(20%N, (28%N, [12%N], [(12%N, CStat (-1)); (13%N, CStat 1)]))].

Definition env1 (a : Q) (n : option Q) : name -> option Q :=
  fun k => if N.eqb k 9001%N then Some a else if N.eqb k 11%N then n else None.

(** the tree's form [BkStrictNonEmpty]: a call that passes NO argument skips the binding.
    u_empty_helper(a) = a * k_two() with k_two(n0011=2.0) = n0011 * 3.0: CPython computes 6a; the
    "translation" is a * (n0011 * 3) with the helper's parameter left behind: it reads the model
    component n0011 (4: 12a) or is undefined when there is none -- and generation does NOT raise *)
Lemma empty_call_leaks_refuted (ia : ia_kind) (ut : ut_kind) : ia <> IaUnknown -> ut <> UtUnknown ->
  exists r, translate_entryQ BkStrictNonEmpty e_empty_helper = Some r
            /\ In 11%N (syms Q r) /\ ~ In 11%N (en_nargs Q e_empty_helper)
            /\ optQ_eqb (py_entryQ e_empty_helper [3]) (Some 18) = true
            /\ optQ_eqb (tevalQ (env1 3 (Some 4)) r) (Some 36) = true
            /\ tevalQ (env1 3 None) r = None
            /\ (exists r', translate_entryQ BkStrictNonEmpty e_empty_top = Some r' /\ In 11%N (syms Q r'))
            /\ (forall L, exists p, generateQ_at BkStrictNonEmpty (C07_facts ia ut) L w_empty_call [20%N] [] = GOk p)
            /\ (forall L, exists p, generateQ_at BkStrictNonEmpty (C07_facts ia ut) L w_empty_coef [20%N] [] = GOk p).
Proof.
  intros Hia Hut. eexists. split; [vm_compute; reflexivity |].
  split; [vm_compute; auto |]. split; [vm_compute; intuition discriminate |].
  split; [vm_compute; reflexivity |]. split; [vm_compute; reflexivity |]. split; [vm_compute; reflexivity |].
  split; [eexists; split; [vm_compute; reflexivity | vm_compute; auto] |].
  split; intros L; destruct ia, ut, L; try congruence; eexists; vm_compute; reflexivity.
Qed.

(** the repaired form [BkStrict]: both are refused and generation raises in every language *)
Lemma empty_call_raises (ia : ia_kind) (ut : ut_kind) :
  translate_entryQ BkStrict e_empty_helper = None /\ translate_entryQ BkStrict e_empty_top = None
  /\ forall L p, generateQ_at BkStrict (C07_facts ia ut) L w_empty_call [20%N] [] <> GOk p
                 /\ generateQ_at BkStrict (C07_facts ia ut) L w_empty_coef [20%N] [] <> GOk p.
Proof.
  split; [vm_compute; reflexivity |]. split; [vm_compute; reflexivity |].
  intros L p. split.
  - apply (untranslatable_pinned ia ut _ eq_refl Q (translatesQ_at BkStrict) L w_empty_call [20%N] []).
    + vm_compute. repeat constructor; intuition discriminate.
    + vm_compute. intros x [<- | []]. left. reflexivity.
    + right. left. exists 20%N, 36%N, [12%N], [(12%N, CStat (-1)); (13%N, CStat 1)]. split; [left; reflexivity | vm_compute; reflexivity].
  - apply (untranslatable_pinned ia ut _ eq_refl Q (translatesQ_at BkStrict) L w_empty_coef [20%N] []).
    + vm_compute. repeat constructor; intuition discriminate.
    + vm_compute. intros x [<- | []]. left. reflexivity.
    + right. right. exists 20%N, 0%N, [12%N], [(12%N, CStat (-1)); (13%N, CDyn 37%N [])], 13%N, 37%N, [].
      split; [left; reflexivity |]. split; [right; left; reflexivity | vm_compute; reflexivity].
Qed.

(** regression witness (seeded change C07-6: zip without strict=True, [BkLaxNonEmpty]).
    u_default_helper(a) = k_scale(a) with k_scale(s, n0011=2.0) = s * n0011: CPython computes 2a, the
    translation a * n0011 reads the model component (4: 4a) or nothing; u_default_inner(a, g) =
    k_gain(a) - g with k_gain(s, g=2.0): the helper's leftover g is then replaced by the CALLER's
    second argument (2a - g becomes a*g - g); generation does not raise *)
Lemma lax_binding_refuted (ia : ia_kind) (ut : ut_kind) : ia <> IaUnknown -> ut <> UtUnknown ->
  exists r, translate_entryQ BkLaxNonEmpty e_default_helper = Some r
            /\ In 11%N (syms Q r)
            /\ optQ_eqb (py_entryQ e_default_helper [3]) (Some 6) = true
            /\ optQ_eqb (tevalQ (env1 3 (Some 4)) r) (Some 12) = true
            /\ tevalQ (env1 3 None) r = None
            /\ (exists r', translate_entryQ BkLaxNonEmpty e_default_inner = Some r'
                           /\ optQ_eqb (py_entryQ e_default_inner [3; 5]) (Some 1) = true
                           /\ optQ_eqb (tevalQ (fun k => if N.eqb k 9001%N then Some 3 else if N.eqb k 9002%N then Some 5 else None) r')
                                       (Some 10) = true)
            /\ (forall L, exists p, generateQ_at BkLaxNonEmpty (C07_facts ia ut) L w_default_call [20%N] [] = GOk p)
            /\ (forall bk, bk = BkStrict \/ bk = BkStrictNonEmpty ->
                           translate_entryQ bk e_default_helper = None /\ translate_entryQ bk e_default_inner = None).
Proof.
  intros Hia Hut. eexists. split; [vm_compute; reflexivity |].
  split; [vm_compute; auto |]. split; [vm_compute; reflexivity |]. split; [vm_compute; reflexivity |].
  split; [vm_compute; reflexivity |].
  split; [eexists; split; [vm_compute; reflexivity |]; split; vm_compute; reflexivity |].
  split.
  - intros L; destruct ia, ut, L; try congruence; eexists; vm_compute; reflexivity.
  - intros bk [-> | ->]; split; vm_compute; reflexivity.
Qed.

(** non-vacuity: a call that supplies every positional parameter IS translated, closed and with
    CPython's value (k_scale(a, 3) = a * 3); CPython itself is content with the refused ones *)
Lemma arity_nonvacuous :
  (forall bk, bk = BkStrict \/ bk = BkStrictNonEmpty ->
     exists r, translate_call Q bk k_scale [TSym 9001%N; TNum 3] = Some r
               /\ syms Q r = [9001%N]
               /\ optQ_eqb (tevalQ (env1 5 None) r) (Some 15) = true
               /\ optQ_eqb (py_call Q Qplus Qminus Qmult k_scale [5; 3]) (Some 15) = true)
  /\ optQ_eqb (py_call Q Qplus Qminus Qmult k_scale [5]) (Some 10) = true
  /\ length [TSym (V:=Q) 9001%N] <> length (fn_args Q k_scale)
  /\ optQ_eqb (py_call Q Qplus Qminus Qmult k_star [5; 7; 9]) (Some 10) = true
  /\ optQ_eqb (py_call Q Qplus Qminus Qmult k_kw [5]) (Some 10) = true
  /\ py_call Q Qplus Qminus Qmult k_scale [] = None.
Proof.
  split.
  - intros bk [-> | ->]; eexists; (split; [vm_compute; reflexivity |]); repeat split; vm_compute; reflexivity.
  - repeat split; try (vm_compute; reflexivity). vm_compute. discriminate.
Qed.

(** ---- name resolution (NameScope.v) at the pinned facts ------------------------------------ *)
Lemma scope_sound_pinned (bk B : bind_kind) (N : name_kind) :
  bk <> BkLaxNonEmpty -> bk <> BkUnknown -> B = bk -> N = NkLocalFirst ->
  forall (V : Type) (vadd vsub vmul : V -> V -> V) (G : globals V) (f : sfn V) (acts : list (texp V)) (r : texp V)
         (env : name -> option V) (vs : list V) (v : V),
    acts <> [] \/ bk = BkStrict ->
    translate_for V N B G f acts = Some r ->
    map_opt (teval V vadd vsub vmul env) acts = Some vs ->
    py_run V vadd vsub vmul G f vs = Some v ->
    teval V vadd vsub vmul env r = Some v.
Proof.
  intros H1 H2 -> -> V vadd vsub vmul G f acts r env vs v Hg. apply scope_sound_bound_bk. apply bind_guard; assumption.
Qed.

(** seeded change C07-8 (the module's float constants consulted before the symbol table), on the
    table's own functions and constants: m_param(a, c_half) and m_local(a, b) are still "translated"
    -- generation does not raise -- but to expressions that read the CONSTANT where CPython reads
    the parameter / the local: 11/2 instead of 19, -5/2 instead of 20 at (3, 5); the tree's order
    gives 19 and 20 *)
Definition env35 : name -> option Q := fun n => assoc n [(9001%N, 3); (9002%N, 5)].
Lemma constants_first_refuted :
  (exists e r, scope_entry 39%N = Some e
     /\ translate_forQ NkGlobalFirst BkStrict fn_globals e (map TSym (margs 2)) = Some r
     /\ optQ_eqb (tevalQ env35 r) (Some (11 # 2)) = true
     /\ optQ_eqb (py_runQ fn_globals e [3; 5]) (Some 19) = true
     /\ no_clash Q fn_globals e = false)
  /\ (exists e r, scope_entry 40%N = Some e
     /\ translate_forQ NkGlobalFirst BkStrict fn_globals e (map TSym (margs 2)) = Some r
     /\ optQ_eqb (tevalQ env35 r) (Some (-5 # 2)) = true
     /\ optQ_eqb (py_runQ fn_globals e [3; 5]) (Some 20) = true
     /\ no_clash Q fn_globals e = false)
  /\ (forall f, f = 39%N \/ f = 40%N \/ f = 41%N -> exists e r,
         scope_entry f = Some e
         /\ translate_forQ NkLocalFirst BkStrict fn_globals e (map TSym (margs 2)) = Some r
         /\ optQ_eqb (tevalQ env35 r) (py_runQ fn_globals e [3; 5]) = true
         /\ optQ_eqb (fsemQ f [3; 5]) (py_runQ fn_globals e [3; 5]) = true).
Proof.
  split; [| split].
  - eexists; eexists. split; [reflexivity |]. split; [vm_compute; reflexivity |]. repeat split; vm_compute; reflexivity.
  - eexists; eexists. split; [reflexivity |]. split; [vm_compute; reflexivity |]. repeat split; vm_compute; reflexivity.
  - intros f [-> | [-> | ->]]; eexists; eexists; (split; [reflexivity |]); (split; [vm_compute; reflexivity |]); split; vm_compute; reflexivity.
Qed.

(** non-vacuity of [scope_sound]: m_rebind has a parameter called like a module constant, rebinds it
    and reads the OTHER constant; it is translated, closed over the model's two arguments, and has
    CPython's value 31 at (3, 5); it is outside the guard of [global_first_same] *)
Lemma scope_nonvacuous :
  exists e r, scope_entry 41%N = Some e
    /\ translate_forQ NkLocalFirst BkStrict fn_globals e (map TSym (margs 2)) = Some r
    /\ sort_names (syms Q r) = [9001%N; 9002%N]
    /\ map_opt (tevalQ env35) (map TSym (margs 2)) = Some [3; 5]
    /\ optQ_eqb (py_runQ fn_globals e [3; 5]) (Some 31) = true
    /\ optQ_eqb (tevalQ env35 r) (Some 31) = true
    /\ no_clash Q fn_globals e = false.
Proof.
  eexists; eexists. split; [reflexivity |]. split; [vm_compute; reflexivity |]. repeat split; vm_compute; reflexivity.
Qed.

(** ---- the explicit zero line (RustLit.v) at the pinned facts --------------------------------- *)
Definition zero_lit_of (ut : ut_kind) : zero_lit :=
  match ut with UtZero => ZlFloat | UtDropped => ZlAbsent | UtUnknown => ZlUnknown end.
Lemma explicit_zero_pinned (z : zero_lit) (ut : ut_kind) (F : facts) : z = zero_lit_of ut -> ut = UtZero ->
  forall (V : Type) (L : lang) (m : cmodel V), zero_lines_ok V z L F m = true.
Proof. intros -> -> V L m. apply zero_lines_float_ok. Qed.

(** the witness model of the repaired untouched-variable defect ([w_both]: an equation and a
    variable no reaction acts on): the printed zero is ill typed in Rust only *)
Lemma printed_zero_witness :
  zero_lines_ok Q ZlPrinted Rs (C07_facts IaFrozen UtZero) w_both = false
  /\ zero_lines_ok Q ZlPrinted Py (C07_facts IaFrozen UtZero) w_both = true
  /\ zero_lines_ok Q ZlPrinted Ts (C07_facts IaFrozen UtZero) w_both = true
  /\ zero_lines_ok Q ZlFloat Rs (C07_facts IaFrozen UtZero) w_both = true
  /\ zero_vars Q (C07_facts IaFrozen UtZero) w_both (build_diff Q (entries Q w_both)) <> [].
Proof. repeat split; try (vm_compute; reflexivity). vm_compute. discriminate. Qed.
