(* REGENERATED from src/mxlpy/meta/codegen_model.py and sympy_tools.py by harness/c07.py; do not edit.
   An unrecognised shape yields a *Unknown constructor / false, which breaks C07_facts_pinned. *)
From Codegen Require Import Codegen.
Definition gen_codegen_facts : facts :=
  mkFacts (mkLF AsgName DsList RetBracket false) (mkLF AsgName DsList RetBracket false)
          (mkLF AsgName DsList RetBracket true) (mkLF AsgLitK DsSplat RetBare true)
          OrdDep true true true true IaFrozen UtZero.
