(* REGENERATED from src/mxlpy/meta/codegen_model.py, sympy_tools.py and source_tools.py by harness/c07.py; do not edit.
   An unrecognised shape yields a *Unknown constructor / false, which breaks C07_facts_pinned. *)
From Codegen Require Import Codegen CallArity NameScope RustLit.
Definition gen_codegen_facts : facts :=
  mkFacts (mkLF AsgName DsList RetBracket false) (mkLF AsgName DsList RetBracket false)
          (mkLF AsgName DsList RetBracket true) (mkLF AsgLitK DsSplat RetBare true)
          OrdDep true true true true IaFrozen UtZero.
(* the argument binding of src/mxlpy/meta/source_tools.py::fn_to_sympy *)
Definition gen_bind_fact : bind_kind := BkStrict.
(* which table src/mxlpy/meta/source_tools.py::_handle_name consults first *)
Definition gen_name_fact : name_kind := NkLocalFirst.
(* the text of the explicit zero of a variable no reaction acts on (_generate_model_code) *)
Definition gen_zero_lit : zero_lit := ZlFloat.
