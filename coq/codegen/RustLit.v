(** C07 -- "every generated function is well-formed in its language": the ONE number the generator
    writes itself, the explicit derivative of a variable no reaction acts on
    (_generate_model_code, block `if len(diff_eqs) > 0: for variable in variables: if variable not in
    diff_eqs: ...`).  No proofs in this file.

    Everywhere else numbers reach the text through Python's repr of a float (parameter values) or
    through SymPy's printers (recorded finding rs-integer-literal: SymPy Integers inside translated
    expressions).  Here the tree writes the literal "0.0".  How the line gets its right-hand side is
    the regenerated fact [zero_lit] (GenCodegenFacts.v, harness/c07.py::extract_facts):

      ZlFloat     v="0.0"                                                     (the tree)
      ZlPrinted   v=sympy_inline_fn(stoichiometries_to_sympy(origin=variable, stoichs={}))
                  -- the empty sum is sympy.Integer(0), which every printer renders as `0`
                  (seeded change C07-9)
      ZlAbsent    no such block (the tree before d8f9047: f_untouched = UtDropped)

    [let_ok L tok]: is `<lhs of the assignment template> = <tok>` well typed in language L.  Python,
    TypeScript and Julia have one numeric literal class as far as an assignment is concerned; Rust
    binds an `f64` and rejects an integer literal (E0308 mismatched types). *)
From Coq Require Import List NArith Bool.
From MxlBase Require Import ListX.
From Codegen Require Import Codegen CodegenSpec.
Import ListNotations.

Inductive zero_lit := ZlFloat | ZlPrinted | ZlAbsent | ZlUnknown.
(** the lexical class of a numeric literal *)
Inductive numtok := TokFloat | TokInt.

Definition zero_token (z : zero_lit) : option numtok :=
  match z with
  | ZlFloat => Some TokFloat
  | ZlPrinted => Some TokInt
  | ZlAbsent | ZlUnknown => None
  end.

Definition let_ok (L : lang) (t : numtok) : bool :=
  match L, t with
  | Rs, TokInt => false        (* let d<x>dt: f64 = 0;   -- expected `f64`, found integer *)
  | _, _ => true
  end.

Definition zero_line_ok (z : zero_lit) (L : lang) : bool :=
  match zero_token z with Some t => let_ok L t | None => false end.

Section ZeroLines.
  Variable V : Type.
  (** every explicit-zero line of the text generated for [m] is well typed in [L] *)
  Definition zero_lines_ok (z : zero_lit) (L : lang) (F : facts) (m : cmodel V) : bool :=
    forallb (fun _ : name => zero_line_ok z L) (zero_vars V F m (build_diff V (entries V m))).
End ZeroLines.
