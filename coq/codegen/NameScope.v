(** C07 -- which binding a NAME of a translated function body reads: executable model of
    src/mxlpy/meta/source_tools.py::_handle_name together with the local assignments of
    _handle_fn_body (straight-line bodies; no proofs in this file).

      def _handle_name(node, ctx):
          value = ctx.symbols.get(node.id)                  # parameters and locals of the function
          if value is None:
              global_variables = dict(inspect.getmembers(ctx.parent_module, isinstance float))
              value = sympy.Float(global_variables[node.id])   # KeyError: not a float constant either
          return value

    The symbol table starts as {parameter: Symbol(parameter)}; an assignment `x = e` stores the
    TRANSLATION of e under x.  A name that is no key of the table is looked up among the FLOAT
    constants of the module that defines the function and inlined with its value.  That is Python's
    scoping seen from inside the function: a parameter or local called like a module constant
    shadows it.  Which of the two tables is consulted first is the regenerated fact [name_kind]
    (GenCodegenFacts.v, harness/c07.py::extract_name_fact):

      NkLocalFirst    the tree
      NkGlobalFirst   the module constants first, the symbol table only for names that are no
                      constant (seeded change C07-8): a constant shadows the parameter / local

    Python's own meaning of the function is [py_run]: locals first; a name the function assigns
    anywhere (or a parameter) is local THROUGHOUT the body -- read before its assignment it is an
    UnboundLocalError, not the global. *)
From Coq Require Import List NArith Bool.
From MxlBase Require Import ListX.
From Codegen Require Import Codegen CodegenSpec CallArity.
Import ListNotations.

Inductive name_kind := NkLocalFirst | NkGlobalFirst | NkUnknown.

Section Scope.
  Variable V : Type.
  Variables vadd vsub vmul : V -> V -> V.

  (** a Python function: positional parameters, local assignments `x = e` in order, `return e`;
      expressions are [texp] read as PYTHON source (a [TSym] is a Python name) *)
  Record sfn := mkSFn {
    sf_params : list name;
    sf_body : list (name * texp V);
    sf_ret : texp V
  }.

  (** the float constants of the defining module *)
  Definition globals := list (name * V).
  (** ctx.symbols *)
  Definition symtab := list (name * texp V).

  (** _handle_name; [None] = KeyError (fn_to_sympy does not catch it: generation raises) *)
  Definition resolve (nk : name_kind) (G : globals) (st : symtab) (n : name) : option (texp V) :=
    match nk with
    | NkLocalFirst =>
      match tlookup V n st with
      | Some e => Some e
      | None => match assoc n G with Some v => Some (TNum v) | None => None end
      end
    | NkGlobalFirst =>
      match assoc n G with
      | Some v => Some (TNum v)
      | None => tlookup V n st
      end
    | NkUnknown => None
    end.

  (** _handle_expr over names, numbers, + - * *)
  Fixpoint tr (nk : name_kind) (G : globals) (st : symtab) (e : texp V) : option (texp V) :=
    match e with
    | TSym n => resolve nk G st n
    | TNum v => Some (TNum v)
    | TAdd a b => match tr nk G st a, tr nk G st b with Some x, Some y => Some (TAdd x y) | _, _ => None end
    | TSub a b => match tr nk G st a, tr nk G st b with Some x, Some y => Some (TSub x y) | _, _ => None end
    | TMul a b => match tr nk G st a, tr nk G st b with Some x, Some y => Some (TMul x y) | _, _ => None end
    end.

  (** _handle_fn_body over assignments: ctx.symbols[x] = <translation of e> *)
  Fixpoint tr_body (nk : name_kind) (G : globals) (st : symtab) (b : list (name * texp V)) : option symtab :=
    match b with
    | [] => Some st
    | (x, e) :: r => match tr nk G st e with
                     | None => None
                     | Some e' => tr_body nk G ((x, e') :: st) r
                     end
    end.

  Definition init_tab (ps : list name) : symtab := map (fun p => (p, TSym p)) ps.

  (** the expression fn_to_sympy holds BEFORE the binding statement: over the function's own parameters *)
  Definition translate_fn (nk : name_kind) (G : globals) (f : sfn) : option (texp V) :=
    match tr_body nk G (init_tab (sf_params f)) (sf_body f) with
    | None => None
    | Some st => tr nk G st (sf_ret f)
    end.

  (** fn_to_sympy(f, model_args = acts), the binding statement in its form [bk] (CallArity.v) *)
  Definition translate_for (nk : name_kind) (bk : bind_kind) (G : globals) (f : sfn) (acts : list (texp V))
    : option (texp V) :=
    match translate_fn nk G f with
    | None => None
    | Some e => bind V bk (sf_params f) e (Some acts)
    end.

  (** ---- CPython ------------------------------------------------------------------------- *)
  (** the names that are local to the function: parameters and every assignment target *)
  Definition local_names (f : sfn) : list name := sf_params f ++ map fst (sf_body f).

  (** reading a name: the local binding; a local that is not bound yet is an UnboundLocalError; any
      other name is a module global (only the float constants are of interest; [None] otherwise) *)
  Definition py_name (G : globals) (locs : list name) (L : list (name * V)) (n : name) : option V :=
    match assoc n L with
    | Some v => Some v
    | None => if existsb (N.eqb n) locs then None else assoc n G
    end.

  Definition py_eval (G : globals) (locs : list name) (L : list (name * V)) (e : texp V) : option V :=
    teval V vadd vsub vmul (py_name G locs L) e.

  Fixpoint py_body (G : globals) (locs : list name) (L : list (name * V)) (b : list (name * texp V))
    : option (list (name * V)) :=
    match b with
    | [] => Some L
    | (x, e) :: r => match py_eval G locs L e with
                     | None => None
                     | Some v => py_body G locs ((x, v) :: L) r
                     end
    end.

  (** the call f( *vs ) -- all parameters positional and required *)
  Definition py_run (G : globals) (f : sfn) (vs : list V) : option V :=
    if negb (Nat.eqb (length vs) (length (sf_params f))) then None else
    match py_body G (local_names f) (combine (sf_params f) vs) (sf_body f) with
    | None => None
    | Some L => py_eval G (local_names f) L (sf_ret f)
    end.

  (** no parameter / local of [f] is called like a float constant of its module *)
  Definition no_clash (G : globals) (f : sfn) : bool :=
    forallb (fun n => match assoc n G with Some _ => false | None => true end) (local_names f).
End Scope.

Arguments mkSFn {V} _ _ _.
