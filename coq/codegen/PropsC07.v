(** C07 -- Generated Python/TypeScript/Rust/Julia right-hand sides equal the model.

    ONLY theorem statements (written out in full), each closed by [exact <lemma>] and followed by
    [Print Assumptions].  All statements are about [gen_codegen_facts], the facts REGENERATED from
    /repo/src/mxlpy/meta/codegen_model.py and sympy_tools.py on every run (templates of the four
    languages, emission order, copy of the cached parameter dict, "every other statement is the
    modelled one"); [C07_facts_pinned] is the obligation that breaks when any of them is edited.

    Vocabulary (Codegen.v / CodegenSpec.v):  [generate F L m order free] is the model of
    generate_model_code_<L>(m, free_parameters=free) ([order] = the dependency order held by the
    model's cache, property C02); [exec F L p t y fv] is what running the emitted text in language
    L does (a vector, or one of the failure classes the text can really produce);
    [Resolved fsem m free fv t y e] says that [e] gives time, the state, the free parameters
    their inputs, every other parameter the model's value, and satisfies the equation of every
    derived quantity and reaction under the PYTHON meaning [fsem] of the functions;
    [dxdt m e x] is the sum over the reactions (declaration order) of coefficient * rate.
    [isem] is the meaning of the inlined target-language expression of a translated function;
    hypothesis [C06] is property C06 (translation soundness).

    FULL statement of the property (false of the code, see the [_refuted] theorems):
      for every language L, model m, request free, state: generate = GOk p and
      exec p t y fv = ROk [dxdt of every variable, declaration order].
    Proved: [C07_equiv_partial] -- the same for every L <> Jl and every model with at least one
    variable, every variable acted on by a reaction, no assignment-defined parameter (the
    complement is exactly the recorded findings, each with a machine-checked witness below).

    Two of those guards belong to defects with a proposed repair that is not yet in /repo
    (fixes/C07-assigned-parameter-value.diff, fixes/C07-untouched-variable-zero.diff).  Which form
    the tree has is the pair [C07_expected_ia], [C07_expected_untouched] of ExpectedFacts.v (hand
    edited with the fix: commit, tools/c07_switch.py); [C07_facts ia ut] is the fact record as a
    function of the two.  The guards of [C07_equiv_partial] are DISJUNCTIONS that the repaired
    value makes void, so the statement is the strongest true one under either value; theorems
    about ONE form of the code name its fact value explicitly ([C07_facts IaDropped ut], ...):
    the [_refuted] ones describe the unrepaired form (and stay as regression theorems
    afterwards), [C07_assigned_parameter_emitted] / [C07_untouched_variable_zero] the repaired. *)
From Coq Require Import List NArith QArith.
From Codegen Require Import Codegen CodegenSpec CallArity NameScope RustLit ExpectedFacts GenCodegenFacts CgInst CodegenProofs CallArityProofs NameScopeProofs RustLitProofs CgInstProofs.
Import ListNotations.

Theorem C07_facts_pinned :
  gen_codegen_facts =
  mkFacts (mkLF AsgName DsList RetBracket false) (mkLF AsgName DsList RetBracket false)
          (mkLF AsgName DsList RetBracket true) (mkLF AsgLitK DsSplat RetBare true)
          OrdDep true true true true C07_expected_ia C07_expected_untouched.
Proof. vm_compute. reflexivity. Qed.
Print Assumptions C07_facts_pinned.

(** the generated Python / TypeScript / Rust function takes the variables in declaration order
    and returns one derivative per variable in that order, equal to the model's right-hand side
    WITH THE FREE PARAMETERS SET TO THE INPUTS [fv] ([Resolved ... free fv ... e]: [map e free = fv],
    and [dxdt] evaluates every computed coefficient in that same [e], so a free parameter that
    only occurs in a computed coefficient is honoured), for every state, time and inputs.
    Guards: a model with an assignment-defined parameter is covered iff the tree emits those
    parameters; a model with a variable no reaction acts on is covered iff the tree writes the
    explicit zero and some reaction acts on something *)
Theorem C07_equiv_partial :
  forall (V : Type) (vzero : V) (vadd vmul : V -> V -> V)
         (isem : lang -> fnid -> list V -> option V) (translates : fnid -> bool)
         (fsem : fnid -> list V -> option V),
    (forall L f vs v, translates f = true -> fsem f vs = Some v -> isem L f vs = Some v) ->
  forall (L : lang) (m : cmodel V) (order free : list name) (p : program V)
         (t : V) (y fv : list V) (e : env V),
    L <> Jl ->
    generate V translates gen_codegen_facts L m order free = GOk p ->
    NoDup (map fst (m_par m)) ->
    NoAssignedParams V m \/ C07_expected_ia = IaFrozen ->
    EveryVariableHasReaction V m \/ (C07_expected_untouched = UtZero /\ HasEquation V m) ->
    m_var m <> [] ->
    CoefArgsKnown V m -> ValidOrder V m order ->
    Resolved V fsem m free fv t y e ->
    exists ds, map_opt (dxdt V vzero vadd vmul fsem m e) (m_var m) = Some ds
               /\ exec V vzero vadd vmul isem gen_codegen_facts L p t y fv = ROk ds.
Proof. exact (equiv_pinned C07_expected_ia C07_expected_untouched gen_codegen_facts C07_facts_pinned). Qed.
Print Assumptions C07_equiv_partial.

(** generation succeeds (in all four languages) whenever every function translates and the free
    names are distinct plain parameters *)
Theorem C07_generates :
  forall (V : Type) (translates : fnid -> bool) (L : lang) (m : cmodel V) (order free : list name),
    NoDup (map fst (m_par m)) -> NoDup free -> incl free (map fst (base_params V m)) ->
    (forall n f a, In (n, (f, a)) (m_der m) -> translates f = true) ->
    (forall n f a st, In (n, (f, a, st)) (m_rxn m) ->
       translates f = true /\ forall x g ga, In (x, CDyn g ga) st -> translates g = true) ->
    exists p, generate V translates gen_codegen_facts L m order free = GOk p.
Proof. exact (generates_pinned C07_expected_ia C07_expected_untouched gen_codegen_facts expected_ia_ok expected_ut_ok C07_facts_pinned). Qed.
Print Assumptions C07_generates.

(** a function that cannot be translated -- of a derived quantity, of a reaction or of a computed
    coefficient -- makes generation raise: no program is returned *)
Theorem C07_untranslatable_raises :
  forall (V : Type) (translates : fnid -> bool) (L : lang) (m : cmodel V) (order free : list name),
    NoDup (map fst (m_der m) ++ map fst (m_rxn m)) ->
    incl (map fst (m_der m) ++ map fst (m_rxn m)) order ->
    (exists n f a, In (n, (f, a)) (m_der m) /\ translates f = false)
    \/ (exists n f a st, In (n, (f, a, st)) (m_rxn m) /\ translates f = false)
    \/ (exists n f a st x g ga, In (n, (f, a, st)) (m_rxn m) /\ In (x, CDyn g ga) st /\ translates g = false) ->
    forall p, generate V translates gen_codegen_facts L m order free <> GOk p.
Proof. exact (untranslatable_pinned C07_expected_ia C07_expected_untouched gen_codegen_facts C07_facts_pinned). Qed.
Print Assumptions C07_untranslatable_raises.

(** generation leaves the model's cached parameter dict alone: the same request a second time on
    the same model gives the same answer *)
Theorem C07_second_request_same :
  forall (V : Type) (translates : fnid -> bool) (L : lang) (m : cmodel V) (order free : list name),
    cache_after V gen_codegen_facts m free = base_params V m
    /\ generate_again V translates gen_codegen_facts L m order free
       = generate V translates gen_codegen_facts L m order free.
Proof. exact (again_pinned C07_expected_ia C07_expected_untouched gen_codegen_facts C07_facts_pinned). Qed.
Print Assumptions C07_second_request_same.

(** a computed stoichiometric coefficient is emitted as the EXPRESSION over its argument names:
    the line of the variable it acts on is a sum whose term for that reaction carries [CDyn g ga],
    whatever the arguments are -- in particular when all of them are parameters, which the model's
    cache stores as an evaluated NUMBER -- so a free parameter among them is read from the input *)
Theorem C07_computed_coefficient_emitted_as_expression :
  forall (V : Type) (translates : fnid -> bool) (L : lang) (m : cmodel V) (order free : list name)
         (p : program V) (n : name) (f : fnid) (a : list name) (st : list (name * coef V))
         (x : name) (g : fnid) (ga : list name),
    generate V translates gen_codegen_facts L m order free = GOk p ->
    In (n, (f, a, st)) (m_rxn m) -> In (x, CDyn g ga) st ->
    exists ts, In (lhs_of (lf_of gen_codegen_facts L) (PD x), RSum ts) (g_body p)
               /\ In (n, CDyn g ga) ts.
Proof. exact (coef_expression_pinned gen_codegen_facts). Qed.
Print Assumptions C07_computed_coefficient_emitted_as_expression.

(** ... and the value follows: par n11 = 2, n12 = 3, rxn n14 = n13 {n13: n11 * n12}, n11 free.  For
    EVERY input q, state y0 and time the Python / TypeScript / Rust function returns
    (q * 3) * y0 -- the coefficient at the input, not 6 = its value at the stored n11 *)
Theorem C07_free_parameter_reaches_computed_coefficient :
  forall L, L <> Jl -> forall (q y0 t : Q),
  exists p, generateQ gen_codegen_facts L w_freecoef [14%N] [11%N] = GOk p
            /\ execQ gen_codegen_facts L p t [y0] [q] = ROk [0 + (q * 3) * y0].
Proof. exact (free_coef_all_inputs C07_expected_ia C07_expected_untouched gen_codegen_facts expected_ia_ok expected_ut_ok C07_facts_pinned). Qed.
Print Assumptions C07_free_parameter_reaches_computed_coefficient.

(** regression witness (seeded change C07-1): reading the stoichiometries from the model's cache
    ([freeze_par_coefs]: parameter-only coefficients as numbers) emits 6; called with n11 = 5 the
    function returns 6 where the model returns 15 *)
Theorem C07_cache_evaluated_coefficient_refuted :
  exists p, generateQ gen_codegen_facts Py (freeze_par_coefs w_freecoef) [14%N] [11%N] = GOk p
            /\ optlist_eqb (spec_rhs w_freecoef [14%N] [11%N] [5] 0 [1]) (Some [15]) = true
            /\ outcome_eqb (execQ gen_codegen_facts Py p 0 [1] [5]) (ROk [6]) = true.
Proof. exact (cache_evaluated_coefficient_refuted C07_expected_ia C07_expected_untouched gen_codegen_facts expected_ia_ok expected_ut_ok C07_facts_pinned). Qed.
Print Assumptions C07_cache_evaluated_coefficient_refuted.

(** ---- "a function that cannot be translated makes generation raise instead of emitting code that
         computes something else": the ARGUMENT BINDING of fn_to_sympy (CallArity.v) --------------

    fn_to_sympy replaces the callee's positional parameter names by the call's argument expressions
    (for a model component: the symbols of its argument names; for a nested call: the translated
    arguments) and knows nothing about default values, keyword-only parameters or *args.
    [translate_call bk f acts] is fn_to_sympy(f, model_args=acts) under the form [bk] of the binding
    statement, [py_call f vs] what CPython computes for the call (defaults filled in, *args taking
    the surplus).  [gen_bind_fact] is REGENERATED from source_tools.py; ExpectedFacts.v says which
    form the tree has: [BkStrictNonEmpty] (a call passing NO argument skips the binding -- recorded
    finding defaulted-parameters-no-arguments) or, after fixes/C07-empty-argument-list-strict.diff,
    [BkStrict].  The guard "acts <> [] \/ C07_expected_bind = BkStrict" is void once repaired. *)
Theorem C07_bind_fact_pinned : gen_bind_fact = C07_expected_bind.
Proof. vm_compute. reflexivity. Qed.
Print Assumptions C07_bind_fact_pinned.

(** NO PARAMETER IS LEFT BEHIND: for every function and every argument list, every name in the
    translation of a call is a name of its argument expressions *)
Theorem C07_call_no_parameter_left_behind :
  forall (V : Type) (f : pyfn V) (acts : list (texp V)) (r : texp V),
    acts <> [] \/ C07_expected_bind = BkStrict ->
    translate_call V gen_bind_fact f acts = Some r ->
    forall n, In n (syms V r) -> exists a, In a acts /\ In n (syms V a).
Proof. exact (call_closed_pinned C07_expected_bind gen_bind_fact expected_bind_not_lax expected_bind_not_unknown C07_bind_fact_pinned). Qed.
Print Assumptions C07_call_no_parameter_left_behind.

(** ... and it has the value CPython computes for the call, in every environment *)
Theorem C07_call_value :
  forall (V : Type) (vadd vsub vmul : V -> V -> V) (f : pyfn V) (acts : list (texp V)) (r : texp V)
         (env : name -> option V) (vs : list V),
    acts <> [] \/ C07_expected_bind = BkStrict ->
    translate_call V gen_bind_fact f acts = Some r ->
    map_opt (teval V vadd vsub vmul env) acts = Some vs ->
    teval V vadd vsub vmul env r = py_call V vadd vsub vmul f vs.
Proof. exact (call_sound_pinned C07_expected_bind gen_bind_fact expected_bind_not_lax expected_bind_not_unknown C07_bind_fact_pinned). Qed.
Print Assumptions C07_call_value.

(** a call whose number of arguments is not the number of positional parameters -- one that relies
    on a default value, one whose surplus *args would take -- is refused *)
Theorem C07_call_relying_on_default_refused :
  forall (V : Type) (f : pyfn V) (acts : list (texp V)),
    acts <> [] \/ C07_expected_bind = BkStrict ->
    length acts <> length (fn_args V f) ->
    translate_call V gen_bind_fact f acts = None.
Proof. exact (call_refused_pinned C07_expected_bind gen_bind_fact expected_bind_not_lax expected_bind_not_unknown C07_bind_fact_pinned). Qed.
Print Assumptions C07_call_relying_on_default_refused.

(** a body that reads a keyword-only parameter is refused (under every form of the binding) *)
Theorem C07_keyword_only_parameter_refused :
  forall (V : Type) (f : pyfn V) (acts : list (texp V)) (n : name),
    In n (syms V (pf_body V f)) -> ~ In n (fn_args V f) -> translate_call V gen_bind_fact f acts = None.
Proof. exact (fun V => kwonly_refused V gen_bind_fact). Qed.
Print Assumptions C07_keyword_only_parameter_refused.

(** a model function that calls one helper: every name of its translation is one of the argument
    names the MODEL passes -- no parameter of the helper or of the function itself reaches the
    emitted code, where it would read a model component of the same name *)
Theorem C07_translation_reads_model_arguments_only :
  forall (V : Type) (e : entry V) (r : texp V),
    (en_nargs V e <> [] /\ forall k acts, en_call V e = Some (k, acts) -> acts <> [])
    \/ C07_expected_bind = BkStrict ->
    translate_entry V gen_bind_fact e = Some r ->
    forall n, In n (syms V r) -> In n (en_nargs V e).
Proof. exact (entry_closed_pinned C07_expected_bind gen_bind_fact expected_bind_not_lax expected_bind_not_unknown C07_bind_fact_pinned). Qed.
Print Assumptions C07_translation_reads_model_arguments_only.

(** the table's functions that rely on a default value (helper called short, two defaults with one
    supplied, a defaulted parameter of the model function itself), on a keyword-only parameter or on
    *args ([by_arity_refused] = ids 28..35 of harness/c07_fns.py; their translatability is COMPUTED by
    the binding model from their signatures, [translatesQ_at]): a model using one of them as the
    function of a derived quantity, of a reaction or of a computed coefficient makes generation
    raise in all four languages *)
Theorem C07_default_reliant_function_raises :
  forall (L : lang) (m : cmodel Q) (order free : list name),
    NoDup (map fst (m_der m) ++ map fst (m_rxn m)) ->
    incl (map fst (m_der m) ++ map fst (m_rxn m)) order ->
    (exists n f a, In (n, (f, a)) (m_der m) /\ In f by_arity_refused)
    \/ (exists n f a st, In (n, (f, a, st)) (m_rxn m) /\ In f by_arity_refused)
    \/ (exists n f a st x g ga, In (n, (f, a, st)) (m_rxn m) /\ In (x, CDyn g ga) st /\ In g by_arity_refused) ->
    forall p, generateQ_at gen_bind_fact gen_codegen_facts L m order free <> GOk p.
Proof. exact (default_reliant_raises_pinned C07_expected_ia C07_expected_untouched gen_codegen_facts C07_expected_bind gen_bind_fact C07_facts_pinned expected_bind_not_lax expected_bind_not_unknown C07_bind_fact_pinned). Qed.
Print Assumptions C07_default_reliant_function_raises.

(** the form [BkStrictNonEmpty] (the tree while C07_expected_bind says so, a regression theorem
    afterwards): u_empty_helper(a) = a * k_two() with k_two(n0011=2.0) = n0011 * 3.0 -- CPython
    computes 18 at a = 3; the "translation" keeps the helper's parameter as a bare symbol: 36 when the
    model has a component n0011 = 4, undefined when it has none; likewise the coefficient function
    u_empty_top(n0011=2.0) over no argument; generation does NOT raise, in any language *)
Theorem C07_empty_call_leaks_refuted :
  forall ia ut, ia <> IaUnknown -> ut <> UtUnknown ->
  exists r, translate_entryQ BkStrictNonEmpty e_empty_helper = Some r
            /\ In 11%N (syms Q r) /\ ~ In 11%N (en_nargs Q e_empty_helper)
            /\ optQ_eqb (py_entryQ e_empty_helper [3]) (Some 18) = true
            /\ optQ_eqb (tevalQ (env1 3 (Some 4)) r) (Some 36) = true
            /\ tevalQ (env1 3 None) r = None
            /\ (exists r', translate_entryQ BkStrictNonEmpty e_empty_top = Some r' /\ In 11%N (syms Q r'))
            /\ (forall L, exists p, generateQ_at BkStrictNonEmpty (C07_facts ia ut) L w_empty_call [20%N] [] = GOk p)
            /\ (forall L, exists p, generateQ_at BkStrictNonEmpty (C07_facts ia ut) L w_empty_coef [20%N] [] = GOk p).
Proof. exact empty_call_leaks_refuted. Qed.
Print Assumptions C07_empty_call_leaks_refuted.

(** ... with the binding also applied to an empty argument list ([BkStrict],
    fixes/C07-empty-argument-list-strict.diff) both are refused and generation raises *)
Theorem C07_empty_call_raises :
  forall ia ut,
  translate_entryQ BkStrict e_empty_helper = None /\ translate_entryQ BkStrict e_empty_top = None
  /\ forall L p, generateQ_at BkStrict (C07_facts ia ut) L w_empty_call [20%N] [] <> GOk p
                 /\ generateQ_at BkStrict (C07_facts ia ut) L w_empty_coef [20%N] [] <> GOk p.
Proof. exact empty_call_raises. Qed.
Print Assumptions C07_empty_call_raises.

(** regression witness (seeded change C07-6, zip without strict=True, [BkLaxNonEmpty]):
    u_default_helper(a) = k_scale(a), k_scale(s, n0011=2.0) = s * n0011 -- CPython 6 at a = 3, the
    translation 12 with a model component n0011 = 4, undefined without; u_default_inner(a, g) =
    k_gain(a) - g, k_gain(s, g=2.0): the leftover g is replaced by the CALLER's own argument (1
    becomes 10 at a = 3, g = 5); generation does not raise; both strict forms refuse *)
Theorem C07_lax_binding_refuted :
  forall ia ut, ia <> IaUnknown -> ut <> UtUnknown ->
  exists r, translate_entryQ BkLaxNonEmpty e_default_helper = Some r
            /\ In 11%N (syms Q r)
            /\ optQ_eqb (py_entryQ e_default_helper [3]) (Some 6) = true
            /\ optQ_eqb (tevalQ (env1 3 (Some 4)) r) (Some 12) = true
            /\ tevalQ (env1 3 None) r = None
            /\ (exists r', translate_entryQ BkLaxNonEmpty e_default_inner = Some r'
                           /\ optQ_eqb (py_entryQ e_default_inner [3; 5]) (Some 1) = true
                           /\ optQ_eqb (tevalQ (fun k => if N.eqb k 9001%N then Some 3 else if N.eqb k 9002%N then Some 5 else None) r')
                                       (Some 10) = true)
            /\ (forall L, exists p, generateQ_at BkLaxNonEmpty (C07_facts ia ut) L w_default_call [20%N] [] = GOk p)
            /\ (forall bk, bk = BkStrict \/ bk = BkStrictNonEmpty ->
                           translate_entryQ bk e_default_helper = None /\ translate_entryQ bk e_default_inner = None).
Proof. exact lax_binding_refuted. Qed.
Print Assumptions C07_lax_binding_refuted.

(** non-vacuity of the binding theorems: a call that supplies every positional parameter is
    translated (k_scale(a, 3) = a * 3, one name, CPython's value 15 at a = 5); CPython itself
    accepts the refused calls (default used: 10; *args: 10; keyword-only default: 10) and rejects a
    call without the required argument *)
Example C07_arity_nonvacuous :
  (forall bk, bk = BkStrict \/ bk = BkStrictNonEmpty ->
     exists r, translate_call Q bk k_scale [TSym 9001%N; TNum 3] = Some r
               /\ syms Q r = [9001%N]
               /\ optQ_eqb (tevalQ (env1 5 None) r) (Some 15) = true
               /\ optQ_eqb (py_call Q Qplus Qminus Qmult k_scale [5; 3]) (Some 15) = true)
  /\ optQ_eqb (py_call Q Qplus Qminus Qmult k_scale [5]) (Some 10) = true
  /\ length [TSym (V:=Q) 9001%N] <> length (fn_args Q k_scale)
  /\ optQ_eqb (py_call Q Qplus Qminus Qmult k_star [5; 7; 9]) (Some 10) = true
  /\ optQ_eqb (py_call Q Qplus Qminus Qmult k_kw [5]) (Some 10) = true
  /\ py_call Q Qplus Qminus Qmult k_scale [] = None.
Proof. exact arity_nonvacuous. Qed.
Print Assumptions C07_arity_nonvacuous.

(** ---- recorded findings (the code still behaves like this; known_findings.d/C07.json) ---- *)

(** Julia: the template assigns every value to the name `k` and destructures with `*variables`:
    for EVERY model with a variable the text is not a Julia program *)
Theorem C07_jl_template_refuted :
  forall (V : Type) (vzero : V) (vadd vmul : V -> V -> V)
         (isem : lang -> fnid -> list V -> option V) (translates : fnid -> bool)
         (m : cmodel V) (order free : list name) (p : program V) (t : V) (y fv : list V),
    generate V translates gen_codegen_facts Jl m order free = GOk p -> m_var m <> [] ->
    exec V vzero vadd vmul isem gen_codegen_facts Jl p t y fv = RIllFormed.
Proof. exact (jl_illformed_pinned C07_expected_ia C07_expected_untouched gen_codegen_facts C07_facts_pinned). Qed.
Print Assumptions C07_jl_template_refuted.

(** a variable without a reaction is dropped from the returned list: 1 value for 2 variables
    (the generator WITHOUT the explicit zero, [UtDropped]: the tree while
    [C07_expected_untouched = UtDropped], a regression theorem afterwards) *)
Theorem C07_variable_without_reaction_refuted :
  forall ia, ia <> IaUnknown ->
  exists p, generateQ (C07_facts ia UtDropped) Ts w_uncovered [14%N] [] = GOk p
            /\ optlist_eqb (spec_rhs w_uncovered [14%N] [] [] 0 [3; 5]) (Some [-6; 0]) = true
            /\ outcome_eqb (execQ (C07_facts ia UtDropped) Ts p 0 [3; 5] []) (ROk [-6]) = true.
Proof. exact uncovered_refuted. Qed.
Print Assumptions C07_variable_without_reaction_refuted.

(** ... with the explicit zero ([UtZero], fixes/C07-untouched-variable-zero.diff) the same model
    gives one derivative per variable, (-6, 0), in Python, TypeScript and Rust *)
Theorem C07_untouched_variable_zero :
  forall ia, ia <> IaUnknown -> forall L, L <> Jl ->
  exists p, generateQ (C07_facts ia UtZero) L w_uncovered [14%N] [] = GOk p
            /\ optlist_eqb (spec_rhs w_uncovered [14%N] [] [] 0 [3; 5]) (Some [-6; 0]) = true
            /\ outcome_eqb (execQ (C07_facts ia UtZero) L p 0 [3; 5] []) (ROk [-6; 0]) = true.
Proof. exact untouched_zero. Qed.
Print Assumptions C07_untouched_variable_zero.

(** variables but no reaction acting on anything: `[()]` -- not TypeScript; a list holding a tuple in
    Python (under either value of the switchable facts: the goldens pin this text) *)
Theorem C07_no_equation_refuted :
  exists p, generateQ gen_codegen_facts Ts w_noeq [13%N] [] = GOk p
            /\ optlist_eqb (spec_rhs w_noeq [13%N] [] [] 0 [3]) (Some [0]) = true
            /\ execQ gen_codegen_facts Ts p 0 [3] [] = RIllFormed
            /\ exists p', generateQ gen_codegen_facts Py w_noeq [13%N] [] = GOk p'
                          /\ execQ gen_codegen_facts Py p' 0 [3] [] = RJunk.
Proof. exact (noeq_refuted C07_expected_ia C07_expected_untouched gen_codegen_facts expected_ia_ok expected_ut_ok C07_facts_pinned). Qed.
Print Assumptions C07_no_equation_refuted.

(** a parameter defined by an initial assignment is not emitted: the program reads an unbound name
    (the generator that emits get_parameter_values() only, [IaDropped]: the tree while
    [C07_expected_ia = IaDropped], a regression theorem afterwards) *)
Theorem C07_assigned_parameter_refuted :
  forall ut, ut <> UtUnknown ->
  exists p, generateQ (C07_facts IaDropped ut) Py w_assigned [12%N; 14%N] [] = GOk p
            /\ optlist_eqb (spec_rhs w_assigned [12%N; 14%N] [] [] 0 [3]) (Some [-12]) = true
            /\ execQ (C07_facts IaDropped ut) Py p 0 [3] [] = RErrUnbound.
Proof. exact assigned_refuted. Qed.
Print Assumptions C07_assigned_parameter_refuted.

(** ... emitted with the value the model holds ([IaFrozen], fixes/C07-assigned-parameter-value.diff)
    the same model gives the model's right-hand side in Python, TypeScript and Rust *)
Theorem C07_assigned_parameter_emitted :
  forall ut, ut <> UtUnknown -> forall L, L <> Jl ->
  exists p, generateQ (C07_facts IaFrozen ut) L w_assigned [12%N; 14%N] [] = GOk p
            /\ optlist_eqb (spec_rhs w_assigned [12%N; 14%N] [] [] 0 [3]) (Some [-12]) = true
            /\ outcome_eqb (execQ (C07_facts IaFrozen ut) L p 0 [3] []) (ROk [-12]) = true.
Proof. exact assigned_emitted. Qed.
Print Assumptions C07_assigned_parameter_emitted.

(** a model without variables returns `[()]`: not TypeScript; a list holding a tuple in Python *)
Theorem C07_no_variables_refuted :
  exists p, generateQ gen_codegen_facts Ts w_novars [12%N] [] = GOk p
            /\ optlist_eqb (spec_rhs w_novars [12%N] [] [] 0 []) (Some []) = true
            /\ execQ gen_codegen_facts Ts p 0 [] [] = RIllFormed
            /\ exists p', generateQ gen_codegen_facts Py w_novars [12%N] [] = GOk p'
                          /\ execQ gen_codegen_facts Py p' 0 [] [] = RJunk.
Proof. exact (novars_refuted C07_expected_ia C07_expected_untouched gen_codegen_facts expected_ia_ok expected_ut_ok C07_facts_pinned). Qed.
Print Assumptions C07_no_variables_refuted.

(** ---- regression witnesses: with the facts of the snapshot (before fixes/C07-*.diff) the
         property fails; the stored witnesses are replayed when a fact flips back ------------- *)

(** derived quantities emitted in declaration order: a name is read before it is assigned *)
Theorem C07_snapshot_declaration_order_refuted :
  exists p, generateQ
              (mkFacts (mkLF AsgName DsBare RetBare false) (mkLF AsgName DsList RetBracket false)
                       (mkLF AsgName DsList RetBracket true) (mkLF AsgLitK DsSplat RetBare true)
                       OrdDecl false true true true IaDropped UtDropped) Ts w_model w_order [11%N] = GOk p
            /\ optlist_eqb (spec_rhs w_model w_order [11%N] [3] 1 [1; 2]) (Some [-32; 224]) = true
            /\ execQ
                 (mkFacts (mkLF AsgName DsBare RetBare false) (mkLF AsgName DsList RetBracket false)
                          (mkLF AsgName DsList RetBracket true) (mkLF AsgLitK DsSplat RetBare true)
                          OrdDecl false true true true IaDropped UtDropped) Ts p 1 [1; 2] [3] = RErrUnbound.
Proof. exact snapshot_declaration_order_refuted. Qed.
Print Assumptions C07_snapshot_declaration_order_refuted.

(** free parameters popped from the model's cached dict: the second identical request raises *)
Theorem C07_snapshot_cached_dict_refuted :
  (exists p, generateQ
               (mkFacts (mkLF AsgName DsBare RetBare false) (mkLF AsgName DsList RetBracket false)
                        (mkLF AsgName DsList RetBracket true) (mkLF AsgLitK DsSplat RetBare true)
                        OrdDecl false true true true IaDropped UtDropped) Ts w_inorder [14%N; 15%N] [11%N] = GOk p)
  /\ cache_afterQ
       (mkFacts (mkLF AsgName DsBare RetBare false) (mkLF AsgName DsList RetBracket false)
                (mkLF AsgName DsList RetBracket true) (mkLF AsgLitK DsSplat RetBare true)
                OrdDecl false true true true IaDropped UtDropped) w_inorder [11%N] = []
  /\ generate_againQ
       (mkFacts (mkLF AsgName DsBare RetBare false) (mkLF AsgName DsList RetBracket false)
                (mkLF AsgName DsList RetBracket true) (mkLF AsgLitK DsSplat RetBare true)
                OrdDecl false true true true IaDropped UtDropped) Ts w_inorder [14%N; 15%N] [11%N] = GErrKey.
Proof. exact snapshot_cached_dict_refuted. Qed.
Print Assumptions C07_snapshot_cached_dict_refuted.

(** Python templates of the snapshot: `x = variables` binds the whole vector (TypeError on the
    first use); a single derivative is returned as a bare number *)
Theorem C07_snapshot_py_templates_refuted :
  (exists p, generateQ
               (mkFacts (mkLF AsgName DsBare RetBare false) (mkLF AsgName DsList RetBracket false)
                        (mkLF AsgName DsList RetBracket true) (mkLF AsgLitK DsSplat RetBare true)
                        OrdDecl false true true true IaDropped UtDropped) Py w_onevar [13%N] [] = GOk p
             /\ optlist_eqb (spec_rhs w_onevar [13%N] [] [] 0 [3]) (Some [-6]) = true
             /\ execQ
                  (mkFacts (mkLF AsgName DsBare RetBare false) (mkLF AsgName DsList RetBracket false)
                           (mkLF AsgName DsList RetBracket true) (mkLF AsgLitK DsSplat RetBare true)
                           OrdDecl false true true true IaDropped UtDropped) Py p 0 [3] [] = RErrVec)
  /\ (exists p, generateQ
                  (mkFacts (mkLF AsgName DsBare RetBare false) (mkLF AsgName DsList RetBracket false)
                           (mkLF AsgName DsList RetBracket true) (mkLF AsgLitK DsSplat RetBare true)
                           OrdDecl false true true true IaDropped UtDropped) Py w_twovars_one_eq [14%N] [] = GOk p
                /\ outcome_eqb
                     (execQ
                        (mkFacts (mkLF AsgName DsBare RetBare false) (mkLF AsgName DsList RetBracket false)
                                 (mkLF AsgName DsList RetBracket true) (mkLF AsgLitK DsSplat RetBare true)
                                 OrdDecl false true true true IaDropped UtDropped) Py p 0 [3; 5] [])
                     (RScalar (-6)) = true).
Proof. exact snapshot_py_templates_refuted. Qed.
Print Assumptions C07_snapshot_py_templates_refuted.

(** non-vacuity: a model with out-of-order derived quantities, a derived quantity reading a rate,
    a computed coefficient and a free parameter meets every hypothesis of [C07_equiv_partial]
    (rational instance; [isemQ] satisfies hypothesis C06 by [isemQ_C06]), and the three programs
    return (-32, 224) at time 1, state (1, 2), free parameter 3 *)
Example C07_nonvacuous :
  NoDup (map fst (m_par w_model)) /\ NoAssignedParams Q w_model
  /\ EveryVariableHasReaction Q w_model /\ m_var w_model <> []
  /\ CoefArgsKnown Q w_model /\ ValidOrder Q w_model w_order
  /\ Resolved Q fsemQ w_model [11%N] [3] 1 [1; 2] w_env
  /\ (forall L, L <> Jl -> exists p,
        generateQ gen_codegen_facts L w_model w_order [11%N] = GOk p
        /\ outcome_eqb (execQ gen_codegen_facts L p 1 [1; 2] [3]) (ROk [-32; 224]) = true).
Proof. exact (nonvacuous C07_expected_ia C07_expected_untouched gen_codegen_facts expected_ia_ok expected_ut_ok C07_facts_pinned). Qed.
Print Assumptions C07_nonvacuous.

(** non-vacuity of the right-hand disjuncts of the two guards: a model WITH an assignment-defined
    parameter AND a variable no reaction acts on meets every other hypothesis, and under the
    repaired facts the three programs return (-12, 0) *)
Example C07_nonvacuous_repaired :
  NoDup (map fst (m_par w_both)) /\ ~ NoAssignedParams Q w_both
  /\ ~ EveryVariableHasReaction Q w_both /\ HasEquation Q w_both /\ m_var w_both <> []
  /\ CoefArgsKnown Q w_both /\ ValidOrder Q w_both [12%N; 15%N]
  /\ Resolved Q fsemQ w_both [] [] 0 [3; 5] w_both_env
  /\ (forall L, L <> Jl -> exists p,
        generateQ (C07_facts IaFrozen UtZero) L w_both [12%N; 15%N] [] = GOk p
        /\ outcome_eqb (execQ (C07_facts IaFrozen UtZero) L p 0 [3; 5] []) (ROk [-12; 0]) = true).
Proof. exact nonvacuous_repaired. Qed.
Print Assumptions C07_nonvacuous_repaired.

(** ======================================================================================
    NAME RESOLUTION inside a translated function (closing pass 3; model NameScope.v): which binding
    a name of the body reads.  fn_to_sympy keeps a symbol table (parameters, then every local
    assignment's translation) and inlines the FLOAT constants of the defining module; _handle_name
    consults the symbol table first -- Python's own scoping: a parameter / local called like a module
    constant shadows it.  [gen_name_fact] is REGENERATED from _handle_name (NkLocalFirst = the tree,
    NkGlobalFirst = the constants first: seeded change C07-8).
    ====================================================================================== *)
Theorem C07_name_fact_pinned : gen_name_fact = NkLocalFirst.
Proof. vm_compute. reflexivity. Qed.
Print Assumptions C07_name_fact_pinned.

(** for EVERY value type, module (its float constants [G]), function (parameters, local assignments
    in order, return expression), argument expressions and environment: whenever CPython computes a
    value for the call -- locals first, a not-yet-assigned local being an UnboundLocalError, other
    names module constants -- the expression of the model component has exactly that value *)
Theorem C07_name_resolution_sound :
  forall (V : Type) (vadd vsub vmul : V -> V -> V) (G : globals V) (f : sfn V) (acts : list (texp V)) (r : texp V)
         (env : name -> option V) (vs : list V) (v : V),
    acts <> [] \/ C07_expected_bind = BkStrict ->
    translate_for V gen_name_fact gen_bind_fact G f acts = Some r ->
    map_opt (teval V vadd vsub vmul env) acts = Some vs ->
    py_run V vadd vsub vmul G f vs = Some v ->
    teval V vadd vsub vmul env r = Some v.
Proof. exact (scope_sound_pinned C07_expected_bind gen_bind_fact gen_name_fact expected_bind_not_lax expected_bind_not_unknown C07_bind_fact_pinned C07_name_fact_pinned). Qed.
Print Assumptions C07_name_resolution_sound.

(** neither a local nor a module constant survives as a symbol: the expression fn_to_sympy holds
    before the binding statement mentions the function's own parameters only (either lookup order) *)
Theorem C07_translation_mentions_parameters_only :
  forall (V : Type) (nk : name_kind) (G : globals V) (f : sfn V) (e : texp V) (s : name),
    translate_fn V nk G f = Some e -> In s (syms V e) -> In s (sf_params V f).
Proof. exact scope_closed. Qed.
Print Assumptions C07_translation_mentions_parameters_only.

(** the constants-first order gives the SAME translation for every function none of whose
    parameters / locals is called like a float constant of its module: exactly the functions without
    a name clash "translate as before" *)
Theorem C07_constants_first_same_without_clash :
  forall (V : Type) (G : globals V) (f : sfn V),
    no_clash V G f = true ->
    translate_fn V NkGlobalFirst G f = translate_fn V NkLocalFirst G f.
Proof. exact global_first_same. Qed.
Print Assumptions C07_constants_first_same_without_clash.

(** ... and is WRONG with a clash (regression witness for seeded change C07-8, on the table's own
    functions and constants c_half = 1/2, c_gain = 4): m_param(a, c_half) and m_local(a, b) are still
    translated -- generation does not raise -- to expressions that give 11/2 and -5/2 at (3, 5) where
    CPython gives 19 and 20; the tree's order gives CPython's values for all three clashing functions *)
Theorem C07_constants_first_refuted :
  (exists e r, scope_entry 39%N = Some e
     /\ translate_forQ NkGlobalFirst BkStrict fn_globals e (map TSym (margs 2)) = Some r
     /\ optQ_eqb (tevalQ env35 r) (Some (11 # 2)) = true
     /\ optQ_eqb (py_runQ fn_globals e [3; 5]) (Some 19) = true
     /\ no_clash Q fn_globals e = false)
  /\ (exists e r, scope_entry 40%N = Some e
     /\ translate_forQ NkGlobalFirst BkStrict fn_globals e (map TSym (margs 2)) = Some r
     /\ optQ_eqb (tevalQ env35 r) (Some (-5 # 2)) = true
     /\ optQ_eqb (py_runQ fn_globals e [3; 5]) (Some 20) = true
     /\ no_clash Q fn_globals e = false)
  /\ (forall f, f = 39%N \/ f = 40%N \/ f = 41%N -> exists e r,
         scope_entry f = Some e
         /\ translate_forQ NkLocalFirst BkStrict fn_globals e (map TSym (margs 2)) = Some r
         /\ optQ_eqb (tevalQ env35 r) (py_runQ fn_globals e [3; 5]) = true
         /\ optQ_eqb (fsemQ f [3; 5]) (py_runQ fn_globals e [3; 5]) = true).
Proof. exact constants_first_refuted. Qed.
Print Assumptions C07_constants_first_refuted.

(** non-vacuity of [C07_name_resolution_sound]: m_rebind(a, c_gain) -- a parameter called like a module
    constant, rebound from the other constant -- meets every hypothesis at (3, 5): translated, closed
    over the model's two arguments, CPython's value 31 *)
Example C07_scope_nonvacuous :
  exists e r, scope_entry 41%N = Some e
    /\ translate_forQ NkLocalFirst BkStrict fn_globals e (map TSym (margs 2)) = Some r
    /\ sort_names (syms Q r) = [9001%N; 9002%N]
    /\ map_opt (tevalQ env35) (map TSym (margs 2)) = Some [3; 5]
    /\ optQ_eqb (py_runQ fn_globals e [3; 5]) (Some 31) = true
    /\ optQ_eqb (tevalQ env35 r) (Some 31) = true
    /\ no_clash Q fn_globals e = false.
Proof. exact scope_nonvacuous. Qed.
Print Assumptions C07_scope_nonvacuous.

(** ======================================================================================
    THE EXPLICIT ZERO of a variable no reaction acts on (closing pass 3; model RustLit.v): the one
    number _generate_model_code writes itself.  [gen_zero_lit] is REGENERATED: ZlFloat = the literal
    "0.0" (the tree), ZlPrinted = the empty sum through the language printer, `0` (seeded change
    C07-9), ZlAbsent = no such block (the tree before d8f9047).
    ====================================================================================== *)
Theorem C07_zero_literal_pinned :
  gen_zero_lit = match C07_expected_untouched with UtZero => ZlFloat | UtDropped => ZlAbsent | UtUnknown => ZlUnknown end.
Proof. vm_compute. reflexivity. Qed.
Print Assumptions C07_zero_literal_pinned.

(** every explicit-zero line of every generated text is well typed, in every language, for every model *)
Theorem C07_explicit_zero_well_typed :
  C07_expected_untouched = UtZero ->
  forall (V : Type) (L : lang) (m : cmodel V), zero_lines_ok V gen_zero_lit L gen_codegen_facts m = true.
Proof. exact (explicit_zero_pinned gen_zero_lit C07_expected_untouched gen_codegen_facts C07_zero_literal_pinned). Qed.
Print Assumptions C07_explicit_zero_well_typed.

(** regression theorem for seeded change C07-9: with the zero sent through the printer, EVERY model
    that has an equation and a variable no reaction acts on gets a Rust text with an ill-typed line
    (`let d<x>dt: f64 = 0;`), while its Python and TypeScript lines stay well typed -- executing those
    two cannot show it *)
Theorem C07_printed_zero_refuted :
  forall (V : Type) (F : facts) (m : cmodel V) (x : name),
    f_untouched F = UtZero -> HasEquation V m -> In x (m_var m) -> stoich_terms V m x = [] ->
    zero_lines_ok V ZlPrinted Rs F m = false
    /\ zero_lines_ok V ZlPrinted Py F m = true /\ zero_lines_ok V ZlPrinted Ts F m = true.
Proof. exact printed_zero_rust_refuted. Qed.
Print Assumptions C07_printed_zero_refuted.

(** ... and models in which every variable is acted on by a reaction get the same text as before *)
Theorem C07_printed_zero_invisible_when_every_variable_has_a_reaction :
  forall (V : Type) (L : lang) (F : facts) (m : cmodel V),
    (forall x, In x (m_var m) -> stoich_terms V m x <> []) ->
    zero_lines_ok V ZlPrinted L F m = true.
Proof. exact printed_zero_invisible. Qed.
Print Assumptions C07_printed_zero_invisible_when_every_variable_has_a_reaction.

(** non-vacuity: the witness model of the repaired untouched-variable defect has such a line *)
Example C07_zero_line_nonvacuous :
  zero_lines_ok Q ZlPrinted Rs (C07_facts IaFrozen UtZero) w_both = false
  /\ zero_lines_ok Q ZlPrinted Py (C07_facts IaFrozen UtZero) w_both = true
  /\ zero_lines_ok Q ZlPrinted Ts (C07_facts IaFrozen UtZero) w_both = true
  /\ zero_lines_ok Q ZlFloat Rs (C07_facts IaFrozen UtZero) w_both = true
  /\ zero_vars Q (C07_facts IaFrozen UtZero) w_both (build_diff Q (entries Q w_both)) <> [].
Proof. exact printed_zero_witness. Qed.
Print Assumptions C07_zero_line_nonvacuous.
