From Codegen Require Import Codegen GenCodegenFacts.
Theorem C07_facts_pinned :
  gen_codegen_facts =
  mkFacts (mkLF AsgName DsList RetBare false) (mkLF AsgName DsList RetBracket false)
          (mkLF AsgName DsList RetBracket true) (mkLF AsgLitK DsSplat RetBare true)
          OrdDep true true true true.
Proof. vm_compute. reflexivity. Qed.
Print Assumptions C07_facts_pinned.
