(** C07 -- the SPECIFICATION the generated programs are measured against (no proofs here).

    "What the model itself returns": an environment [e : name -> V] is [Resolved] for model [m]
    at (time t, state y, free-parameter values fv) when it gives time, every variable, every
    parameter its value and satisfies the equation of every derived quantity and reaction
    ([e n = f(e args)] with the PYTHON meaning [fsem] of the function).  The derivative of a
    variable is the sum, over the reactions in declaration order, of coefficient x rate.  This
    is what property C01 proves of Model.__call__ (up to the order of summation). *)
From Coq Require Import List NArith Bool.
From MxlBase Require Import ListX.
From Codegen Require Import Codegen.
Import ListNotations.

Fixpoint map_opt {A B} (f : A -> option B) (l : list A) : option (list B) :=
  match l with
  | [] => Some []
  | x :: r => match f x with
              | None => None
              | Some v => match map_opt f r with Some vs => Some (v :: vs) | None => None end
              end
  end.

Section Spec.
  Variable V : Type.
  Variable vzero : V.
  Variables vadd vmul : V -> V -> V.
  (** what CPython computes for function [f] ([None]: it raises, e.g. wrong arity) *)
  Variable fsem : fnid -> list V -> option V.

  Definition env := name -> V.

  Definition coefval (e : env) (c : coef V) : option V :=
    match c with CStat q => Some q | CDyn f args => fsem f (map e args) end.

  (** the (reaction, coefficient) pairs acting on variable [x], reactions in declaration order *)
  Definition stoich_terms (m : cmodel V) (x : name) : list (name * coef V) :=
    flat_map (fun e : name * (fnid * list name * list (name * coef V)) =>
                map (fun vc => (fst e, snd vc)) (filter (fun vc => N.eqb (fst vc) x) (snd (snd e))))
             (m_rxn m).

  Fixpoint sum_terms (e : env) (acc : V) (ts : list (name * coef V)) : option V :=
    match ts with
    | [] => Some acc
    | (r, c) :: rest =>
      match coefval e c with
      | None => None
      | Some cv => sum_terms e (vadd acc (vmul cv (e r))) rest
      end
    end.

  Definition dxdt (m : cmodel V) (e : env) (x : name) : option V :=
    sum_terms e vzero (stoich_terms m x).

  (** value of each parameter: the given input for a free one, the model's value otherwise *)
  Record Resolved (m : cmodel V) (free : list name) (fv : list V) (t : V) (y : list V) (e : env) : Prop := {
    res_time : e tname = t;
    res_vars : map e (m_var m) = y;
    res_free : map e free = fv;
    res_pars : forall n ia v, In (n, (ia, v)) (m_par m) -> ~ In n free -> e n = v;
    res_der : forall n f a, In (n, (f, a)) (m_der m) -> fsem f (map e a) = Some (e n);
    res_rxn : forall n f a st, In (n, (f, a, st)) (m_rxn m) -> fsem f (map e a) = Some (e n);
    res_coef : forall n f a st x g ga, In (n, (f, a, st)) (m_rxn m) -> In (x, CDyn g ga) st ->
                                       exists v, fsem g (map e ga) = Some v
  }.

  (** ---- guards of the theorem (the complement is the recorded findings) ------ *)
  Definition NoAssignedParams (m : cmodel V) : Prop :=
    forall n ia v, In (n, (ia, v)) (m_par m) -> ia = false.
  Definition EveryVariableHasReaction (m : cmodel V) : Prop :=
    forall x, In x (m_var m) -> stoich_terms m x <> [].
  (** some reaction acts on something: diff_eqs is not empty *)
  Definition HasEquation (m : cmodel V) : Prop :=
    exists n f a st x c, In (n, (f, a, st)) (m_rxn m) /\ In (x, c) st.
  (** stoichiometries act on variables; computed coefficients read known names *)
  Definition known_names (m : cmodel V) : list name :=
    tname :: map fst (m_par m) ++ m_var m ++ map fst (m_der m) ++ map fst (m_rxn m).
  Definition CoefArgsKnown (m : cmodel V) : Prop :=
    forall n f a st x g ga, In (n, (f, a, st)) (m_rxn m) -> In (x, CDyn g ga) st -> incl ga (known_names m).

  (** [cs] can be evaluated one after the other given the names in [avail] *)
  Fixpoint topo (avail : list name) (cs : list (name * (fnid * list name))) : Prop :=
    match cs with
    | [] => True
    | (n, (_, a)) :: r => incl a avail /\ topo (n :: avail) r
    end.

  (** what C02 proves of the order computed by the model's sorter, restricted to the derived
      quantities and reactions: it lists all of them, each after what it reads *)
  Definition ValidOrder (m : cmodel V) (order : list name) : Prop :=
    topo (tname :: map fst (m_par m) ++ m_var m) (comps_of_order V m order)
    /\ incl (map fst (m_der m) ++ map fst (m_rxn m)) order.

  (** ---- boolean form of Resolved's equations, for the executable specification --------- *)
  Variable veqb : V -> V -> bool.
  Definition resolved_b (m : cmodel V) (e : env) : bool :=
    forallb (fun d : name * (fnid * list name) =>
               match fsem (fst (snd d)) (map e (snd (snd d))) with
               | Some v => veqb v (e (fst d)) | None => false end) (m_der m)
    && forallb (fun r : name * (fnid * list name * list (name * coef V)) =>
                  match fsem (fst (fst (snd r))) (map e (snd (fst (snd r)))) with
                  | Some v => veqb v (e (fst r)) | None => false end) (m_rxn m).
End Spec.
