(** C07 -- proofs about the executable model of the code generator (Codegen.v) against the
    specification (CodegenSpec.v).  Everything is generic in the value type and in the meaning
    of the functions; the only hypothesis about the per-function translation is [C06]
    (property C06: where the Python function has a value, the inlined target expression of a
    translated function has the same value). *)
From Coq Require Import List NArith Bool Lia.
From MxlBase Require Import ListX.
From Codegen Require Import Codegen CodegenSpec.
Import ListNotations.

(** ---- association lists -------------------------------------------------------------- *)
Lemma assoc_In {A} (k : name) (l : list (name * A)) v : assoc k l = Some v -> In (k, v) l.
Proof.
  induction l as [|[k' v'] r IH]; cbn; [discriminate|].
  destruct (N.eqb k k') eqn:E.
  - apply N.eqb_eq in E. intros H. injection H as <-. left. now subst.
  - intros H. right. now apply IH.
Qed.

Lemma In_assoc {A} (k : name) (l : list (name * A)) v :
  NoDup (map fst l) -> In (k, v) l -> assoc k l = Some v.
Proof.
  induction l as [|[k' v'] r IH]; cbn; [tauto|].
  intros ND [H|H].
  - injection H as -> ->. now rewrite N.eqb_refl.
  - inversion ND as [|? ? Hn ND']; subst.
    destruct (N.eqb k k') eqn:E.
    + apply N.eqb_eq in E. subst. exfalso. apply Hn. apply in_map_iff. now exists (k', v).
    + now apply IH.
Qed.

Lemma In_key_assoc {A} (k : name) (l : list (name * A)) :
  In k (map fst l) -> exists v, assoc k l = Some v.
Proof.
  induction l as [|[k' v'] r IH]; cbn; [tauto|].
  intros H. destruct (N.eqb k k') eqn:E; [eauto|].
  destruct H as [H|H]; [subst; now rewrite N.eqb_refl in E|]. now apply IH.
Qed.

Lemma remove_key_In {A} (k : name) (l : list (name * A)) k' v :
  NoDup (map fst l) ->
  (In (k', v) (remove_key k l) <-> In (k', v) l /\ k' <> k).
Proof.
  induction l as [|[k0 v0] r IH]; cbn; [tauto|].
  intros ND. inversion ND as [|? ? Hn ND']; subst.
  destruct (N.eqb k k0) eqn:E.
  - apply N.eqb_eq in E. subst k0. split.
    + intros H. split; [now right|]. intros ->. apply Hn. apply in_map_iff. now exists (k, v).
    + intros [[H|H] Hne]; [injection H as -> ->; congruence|exact H].
  - apply N.eqb_neq in E. cbn. rewrite IH by exact ND'. split.
    + intros [H|[H Hne]]; [injection H as -> ->; split; [now left|congruence]|split; [now right|exact Hne]].
    + intros [[H|H] Hne]; [now left|right; now split].
Qed.

Lemma remove_key_keys {A} (k : name) (l : list (name * A)) :
  NoDup (map fst l) -> NoDup (map fst (remove_key k l)).
Proof.
  induction l as [|[k0 v0] r IH]; cbn; [tauto|].
  intros ND. inversion ND as [|? ? Hn ND']; subst.
  destruct (N.eqb k k0); [exact ND'|]. cbn. constructor; [|now apply IH].
  intros H. apply Hn. apply in_map_iff in H. destruct H as [[k1 v1] [E H]]. cbn in E. subst k1.
  apply remove_key_In in H; [|exact ND']. apply in_map_iff. exists (k0, v1). now split.
Qed.

Lemma filter_all {A} (p : A -> bool) (l : list A) :
  (forall x, In x l -> p x = true) -> filter p l = l.
Proof.
  induction l as [|x r IH]; cbn; [reflexivity|]. intros H.
  rewrite (H x) by now left. f_equal. apply IH. intros; apply H; now right.
Qed.

Lemma nodup_app_inv {A} (a b : list A) :
  NoDup (a ++ b) -> NoDup a /\ NoDup b /\ forall x, In x a -> In x b -> False.
Proof.
  induction a as [|z a IH]; cbn; intros ND.
  - split; [constructor|]. split; [exact ND|]. intros x [].
  - inversion ND as [|? ? Hn ND']; subst. destruct (IH ND') as (Ha & Hb & Hd).
    split; [constructor; [|exact Ha]; intros H; apply Hn, in_app_iff; now left|].
    split; [exact Hb|]. intros x [->|Hx] Hxb; [apply Hn, in_app_iff; now right|eapply Hd; eassumption].
Qed.

Section Dict.
  Variable V : Type.

  Notation pop_all := (pop_all V).
  Notation base_params := (base_params V).

  (** ---- parameters.pop(key) for key in free_parameters ------------------------------ *)
  Lemma pop_all_spec free : forall d d',
    NoDup (map fst d) -> pop_all free d = (true, d') ->
    forall k v, In (k, v) d' <-> In (k, v) d /\ ~ In k free.
  Proof.
    induction free as [|k0 r IH]; cbn; intros d d' ND H k v.
    - injection H as <-. tauto.
    - destruct (assoc k0 d) eqn:E; [|discriminate].
      rewrite (IH _ _ (remove_key_keys k0 d ND) H k v). rewrite remove_key_In by exact ND.
      split; [intros [[H1 H2] H3]; split; [exact H1|intros [->|H4]; tauto]|].
      intros [H1 H2]. split; [split; [exact H1|]|]; intros H3; apply H2; [left; now subst|now right].
  Qed.

  Lemma pop_all_ok free : forall d,
    NoDup (map fst d) -> NoDup free -> incl free (map fst d) ->
    exists d', pop_all free d = (true, d').
  Proof.
    induction free as [|k0 r IH]; cbn; intros d ND NF Hin; [eauto|].
    destruct (In_key_assoc k0 d (Hin k0 (or_introl eq_refl))) as [v E]. rewrite E.
    inversion NF as [|? ? Hn NF']; subst.
    apply IH; [now apply remove_key_keys|exact NF'|].
    intros k Hk. assert (Hd : In k (map fst d)) by (apply Hin; now right).
    apply in_map_iff in Hd. destruct Hd as [[k1 v1] [E1 H1]]. cbn in E1. subst k1.
    apply in_map_iff. exists (k, v1). split; [reflexivity|].
    apply remove_key_In; [exact ND|]. split; [exact H1|]. intros ->. contradiction.
  Qed.

  Lemma base_params_In (m : cmodel V) k v : In (k, v) (base_params m) <-> In (k, (false, v)) (m_par m).
  Proof.
    unfold base_params, Codegen.base_params. rewrite in_flat_map. split.
    - intros [[k' [ia v']] [H1 H2]]. cbn in H2. destruct ia; cbn in H2; [tauto|].
      destruct H2 as [H2|[]]. injection H2 as -> ->. exact H1.
    - intros H. exists (k, (false, v)). split; [exact H|]. cbn. now left.
  Qed.

  Lemma base_params_keys (m : cmodel V) :
    NoDup (map fst (m_par m)) -> NoDup (map fst (base_params m)).
  Proof.
    unfold base_params, Codegen.base_params. induction (m_par m) as [|[k [ia v]] r IH]; cbn; [constructor|].
    intros ND. inversion ND as [|? ? Hn ND']; subst.
    destruct ia; cbn; [now apply IH|]. constructor; [|now apply IH].
    intros H. apply Hn. apply in_map_iff in H. destruct H as [[k1 v1] [E H]]. cbn in E. subst k1.
    apply in_flat_map in H. destruct H as [[k2 [ia2 v2]] [H1 H2]]. cbn in H2.
    destruct ia2; cbn in H2; [tauto|]. destruct H2 as [H2|[]]. injection H2 as -> ->.
    apply in_map_iff. now exists (k, (false, v1)).
  Qed.

  (** ---- parameters[name] = all_parameter_values[name] for the names not yet in the dict ---- *)
  Lemma missing_params_In (m : cmodel V) d k v :
    In (k, v) (missing_params V m d) <-> (exists ia, In (k, (ia, v)) (m_par m)) /\ ~ In k (map fst d).
  Proof.
    unfold missing_params. rewrite in_flat_map. split.
    - intros [[k' [ia v']] [H1 H2]]. cbn [fst snd] in H2.
      destruct (existsb (N.eqb k') (map fst d)) eqn:E; [destruct H2|].
      destruct H2 as [H2|[]]. injection H2 as -> ->. split; [now exists ia|].
      intros Hin. assert (Ht : existsb (N.eqb k) (map fst d) = true).
      { apply existsb_exists. exists k. split; [exact Hin|apply N.eqb_refl]. }
      congruence.
    - intros [[ia H1] H2]. exists (k, (ia, v)). split; [exact H1|]. cbn [fst snd].
      destruct (existsb (N.eqb k) (map fst d)) eqn:E; [|now left].
      apply existsb_exists in E. destruct E as [z [Hz E]]. apply N.eqb_eq in E. subst z. contradiction.
  Qed.

  Lemma missing_params_keys (m : cmodel V) d :
    NoDup (map fst (m_par m)) -> NoDup (map fst (missing_params V m d)).
  Proof.
    unfold missing_params. induction (m_par m) as [|[k [ia v]] r IH]; cbn [flat_map map fst snd]; [constructor|].
    intros ND. inversion ND as [|? ? Hn ND']; subst.
    destruct (existsb (N.eqb k) (map fst d)); cbn [app map fst]; [now apply IH|].
    constructor; [|now apply IH]. intros H. apply Hn.
    apply in_map_iff in H. destruct H as [[k1 v1] [E H]]. cbn in E. subst k1.
    apply in_flat_map in H. destruct H as [[k2 [ia2 v2]] [H1 H2]]. cbn [fst snd] in H2.
    destruct (existsb (N.eqb k2) (map fst d)); [destruct H2|]. destruct H2 as [H2|[]].
    injection H2 as -> ->. apply in_map_iff. now exists (k, (ia2, v1)).
  Qed.

  Lemma nodup_app_intro {A} (a b : list A) :
    NoDup a -> NoDup b -> (forall x, In x a -> In x b -> False) -> NoDup (a ++ b).
  Proof.
    induction a as [|z a IH]; cbn; intros Ha Hb Hd; [exact Hb|].
    inversion Ha as [|? ? Hn Ha']; subst. constructor.
    - rewrite in_app_iff. intros [H|H]; [contradiction|]. eapply Hd; [now left|exact H].
    - apply IH; [exact Ha'|exact Hb|]. intros x Hx. apply Hd. now right.
  Qed.

  Lemma emitted_params_keys F (m : cmodel V) :
    NoDup (map fst (m_par m)) -> NoDup (map fst (emitted_params V F m (base_params m))).
  Proof.
    intros ND. unfold emitted_params. destruct (f_ia F); try now apply base_params_keys.
    rewrite map_app. apply nodup_app_intro; [now apply base_params_keys|now apply missing_params_keys|].
    intros x Hx Hy. apply in_map_iff in Hy. destruct Hy as [[k v] [E Hy]]. cbn in E. subst k.
    apply missing_params_In in Hy. now destruct Hy.
  Qed.

  Lemma emitted_params_In F (m : cmodel V) k v :
    In (k, v) (emitted_params V F m (base_params m)) -> exists ia, In (k, (ia, v)) (m_par m).
  Proof.
    unfold emitted_params. intros H.
    assert (Hb : In (k, v) (base_params m) -> exists ia, In (k, (ia, v)) (m_par m)).
    { intros Hb. exists false. now apply base_params_In. }
    destruct (f_ia F); try now apply Hb.
    apply in_app_iff in H. destruct H as [H|H]; [now apply Hb|]. apply missing_params_In in H. now destruct H.
  Qed.

  Lemma base_in_emitted F (m : cmodel V) : incl (base_params m) (emitted_params V F m (base_params m)).
  Proof. unfold emitted_params. destruct (f_ia F); intros x Hx; try exact Hx. apply in_app_iff. now left. Qed.

  (** every parameter of the model is emitted (or popped): plain ones always, assignment-defined
      ones when the generator adds them *)
  Lemma emitted_params_all F (m : cmodel V) k ia v :
    NoDup (map fst (m_par m)) -> In (k, (ia, v)) (m_par m) -> ia = false \/ f_ia F = IaFrozen ->
    In (k, v) (emitted_params V F m (base_params m)).
  Proof.
    intros ND Hin Hc. destruct ia.
    - destruct Hc as [Hc|Hc]; [discriminate|]. unfold emitted_params. rewrite Hc.
      apply in_app_iff. right. apply missing_params_In. split; [now exists true|].
      intros Hk. apply in_map_iff in Hk. destruct Hk as [[k1 v1] [E Hk]]. cbn in E. subst k1.
      apply base_params_In in Hk.
      assert (E1 := In_assoc k _ _ ND Hin). assert (E2 := In_assoc k _ _ ND Hk). congruence.
    - apply base_in_emitted. now apply base_params_In.
  Qed.

  (** ---- diff_eqs[variable] = {} for the variables no reaction acts on -------------------- *)
  Lemma zero_vars_In F (m : cmodel V) de x :
    In x (zero_vars V F m de) -> In x (m_var m) /\ ~ In x (map fst de).
  Proof.
    unfold zero_vars. destruct (f_untouched F); try (intros []). destruct de as [|d0 dr]; [intros []|].
    intros H. apply filter_In in H. destruct H as [H1 H2]. split; [exact H1|].
    intros Hin. apply negb_true_iff in H2.
    assert (Ht : existsb (N.eqb x) (map fst (d0 :: dr)) = true).
    { apply existsb_exists. exists x. split; [exact Hin|apply N.eqb_refl]. }
    congruence.
  Qed.

  Lemma zero_vars_all F (m : cmodel V) de x :
    f_untouched F = UtZero -> de <> [] -> In x (m_var m) -> ~ In x (map fst de) ->
    In x (zero_vars V F m de).
  Proof.
    intros HF Hne Hx Hn. unfold zero_vars. rewrite HF. destruct de as [|d0 dr]; [congruence|].
    apply filter_In. split; [exact Hx|]. apply negb_true_iff.
    destruct (existsb (N.eqb x) (map fst (d0 :: dr))) eqn:E; [|reflexivity].
    apply existsb_exists in E. destruct E as [z [Hz E]]. apply N.eqb_eq in E. subst z. contradiction.
  Qed.

  (** ---- diff_eqs.setdefault(var, {})[rxn] = factor ------------------------------------ *)
  Definition dl (de : list (name * list (name * coef V))) (x : name) : list (name * coef V) :=
    match assoc x de with Some ts => ts | None => [] end.

  Definition terms (es : list (name * (name * coef V))) (x : name) : list (name * coef V) :=
    map snd (filter (fun e => N.eqb (fst e) x) es).

  Lemma dl_add_term de x t y :
    dl (add_term V de x t) y = if N.eqb y x then dl de x ++ [t] else dl de y.
  Proof.
    unfold dl. induction de as [|[z ts] r IH]; cbn.
    - destruct (N.eqb y x) eqn:E; reflexivity.
    - destruct (N.eqb x z) eqn:Exz; cbn.
      + apply N.eqb_eq in Exz. subst z. destruct (N.eqb y x) eqn:E; reflexivity.
      + destruct (N.eqb y z) eqn:Eyz.
        * apply N.eqb_eq in Eyz. subst z. rewrite N.eqb_sym in Exz. now rewrite Exz.
        * exact IH.
  Qed.

  Lemma keys_add_term de x t y :
    In y (map fst (add_term V de x t)) <-> y = x \/ In y (map fst de).
  Proof.
    induction de as [|[z ts] r IH]; cbn; [intuition|].
    destruct (N.eqb x z) eqn:E; cbn.
    - apply N.eqb_eq in E. subst. intuition.
    - rewrite IH. intuition.
  Qed.

  Lemma nodup_add_term de x t : NoDup (map fst de) -> NoDup (map fst (add_term V de x t)).
  Proof.
    induction de as [|[z ts] r IH]; cbn; intros ND.
    - constructor; [tauto|constructor].
    - inversion ND as [|? ? Hn ND']; subst. destruct (N.eqb x z) eqn:E; cbn.
      + now constructor.
      + constructor; [|now apply IH]. rewrite keys_add_term. intros [->|H]; [|tauto].
        now rewrite N.eqb_refl in E.
  Qed.

  Lemma terms_app es1 es2 x : terms (es1 ++ es2) x = terms es1 x ++ terms es2 x.
  Proof. unfold terms. now rewrite filter_app, map_app. Qed.

  Lemma build_diff_inv es : forall de done,
    NoDup (map fst de) -> (forall y, dl de y = terms done y) ->
    NoDup (map fst (fold_left (fun de e => add_term V de (fst e) (snd e)) es de))
    /\ forall y, dl (fold_left (fun de e => add_term V de (fst e) (snd e)) es de) y = terms (done ++ es) y.
  Proof.
    induction es as [|[x t] r IH]; cbn; intros de done ND H.
    - rewrite app_nil_r. now split.
    - replace (done ++ (x, t) :: r) with ((done ++ [(x, t)]) ++ r) by now rewrite <- app_assoc.
      apply IH; [now apply nodup_add_term|].
      intros y. rewrite dl_add_term, terms_app.
      assert (Ht : terms [(x, t)] y = if N.eqb y x then [t] else []).
      { unfold terms. cbn. rewrite (N.eqb_sym x y). now destruct (N.eqb y x). }
      rewrite Ht. cbn. destruct (N.eqb y x) eqn:E.
      + apply N.eqb_eq in E. subst. now rewrite H.
      + now rewrite app_nil_r, H.
  Qed.

  Lemma build_diff_spec es :
    NoDup (map fst (build_diff V es))
    /\ (forall x ts, In (x, ts) (build_diff V es) -> ts = terms es x)
    /\ (forall x, terms es x <> [] -> In (x, terms es x) (build_diff V es)).
  Proof.
    destruct (build_diff_inv es [] [] (NoDup_nil _) (fun _ => eq_refl)) as [ND H].
    cbn [app] in H. fold (build_diff V es) in ND, H. split; [exact ND|]. split.
    - intros x ts Hin. rewrite <- H. unfold dl. now rewrite (In_assoc x _ ts ND Hin).
    - intros x Hne. rewrite <- H in *. unfold dl in *.
      destruct (assoc x (build_diff V es)) eqn:E; [now apply assoc_In|congruence].
  Qed.

  Lemma terms_entries (m : cmodel V) x : terms (entries V m) x = stoich_terms V m x.
  Proof.
    unfold entries, stoich_terms. induction (m_rxn m) as [|[r [[f a] st]] rest IH]; [reflexivity|].
    cbn [flat_map]. rewrite terms_app, IH. f_equal. cbn [fst snd].
    clear. unfold terms. induction st as [|[v c] st IH]; cbn; [reflexivity|].
    destruct (N.eqb v x); cbn; now rewrite IH.
  Qed.

  Lemma In_entries (m : cmodel V) x r c :
    In (x, (r, c)) (entries V m) <-> exists f a st, In (r, (f, a, st)) (m_rxn m) /\ In (x, c) st.
  Proof.
    unfold entries. rewrite in_flat_map. split.
    - intros [[r' [[f a] st]] [H1 H2]]. apply in_map_iff in H2. destruct H2 as [[v c'] [E H2]].
      cbn in E. injection E as -> -> ->. now exists f, a, st.
    - intros (f & a & st & H1 & H2). exists (r, (f, a, st)). split; [exact H1|].
      apply in_map_iff. now exists (x, c).
  Qed.

  Lemma In_terms es x r c : In (r, c) (terms es x) <-> In (x, (r, c)) es.
  Proof.
    unfold terms. rewrite in_map_iff. split.
    - intros [[x' rc] [E H]]. cbn in E. subst rc. apply filter_In in H. destruct H as [H E].
      cbn in E. apply N.eqb_eq in E. now subst.
    - intros H. exists (x, (r, c)). split; [reflexivity|]. apply filter_In. split; [exact H|].
      cbn. apply N.eqb_refl.
  Qed.

End Dict.

Section Emit.
  Variable V : Type.
  Variable translates : fnid -> bool.

  (** ---- the emission loops ------------------------------------------------------------- *)
  Lemma emit_comps_some lf cs : forall b,
    emit_comps V translates lf cs = Some b ->
    b = map (fun c => (lhs_of lf (PN (fst c)), RInl (fst (snd c)) (snd (snd c)))) cs
    /\ forall n f a, In (n, (f, a)) cs -> translates f = true.
  Proof.
    induction cs as [|[n [f a]] r IH]; cbn; intros b H.
    - injection H as <-. split; [reflexivity|intros ? ? ? []].
    - destruct (translates f) eqn:Ef; [|discriminate].
      destruct (emit_comps V translates lf r) as [l|] eqn:Er; [|discriminate].
      injection H as <-. destruct (IH l eq_refl) as [-> H2]. split; [reflexivity|].
      intros n' f' a' [H|H]; [injection H as <- <- <-; exact Ef|eapply H2; exact H].
  Qed.

  Lemma emit_comps_all lf cs :
    (forall n f a, In (n, (f, a)) cs -> translates f = true) ->
    exists b, emit_comps V translates lf cs = Some b.
  Proof.
    induction cs as [|[n [f a]] r IH]; cbn; intros H; [eauto|].
    rewrite (H n f a (or_introl eq_refl)).
    destruct IH as [b Hb]; [intros; eapply H; right; eassumption|]. rewrite Hb. eauto.
  Qed.

  Lemma emit_comps_none lf cs n f a :
    In (n, (f, a)) cs -> translates f = false -> emit_comps V translates lf cs = None.
  Proof.
    intros Hin Hf. destruct (emit_comps V translates lf cs) as [b|] eqn:E; [|reflexivity].
    destruct (emit_comps_some lf cs b E) as [_ H]. rewrite (H n f a Hin) in Hf. discriminate.
  Qed.

  Lemma comps_of_order_In (m : cmodel V) order n f a :
    In (n, (f, a)) (comps_of_order V m order) ->
    In (n, (f, a)) (m_der m) \/ exists st, In (n, (f, a, st)) (m_rxn m).
  Proof.
    unfold comps_of_order. rewrite in_flat_map. intros [k [Hk H]].
    destruct (assoc k (m_der m)) as [fa|] eqn:E.
    - destruct H as [H|[]]. injection H as -> ->. left. now apply assoc_In.
    - unfold rxn_comp in H. destruct (assoc k (m_rxn m)) as [[[f' a'] st]|] eqn:E2; [|destruct H].
      destruct H as [H|[]]. injection H as -> -> ->. right. exists st. now apply assoc_In.
  Qed.

  Lemma comps_of_order_names (m : cmodel V) order n :
    In n order -> In n (map fst (m_der m)) \/ In n (map fst (m_rxn m)) ->
    In n (map fst (comps_of_order V m order)).
  Proof.
    intros Ho H. apply in_map_iff. unfold comps_of_order.
    destruct (assoc n (m_der m)) as [fa|] eqn:E.
    - exists (n, fa). split; [reflexivity|]. apply in_flat_map. exists n. split; [exact Ho|].
      rewrite E. now left.
    - destruct H as [H|H]; apply In_key_assoc in H.
      + destruct H as [v Hv]. congruence.
      + destruct H as [[[f a] st] Hv]. exists (n, (f, a)). split; [reflexivity|].
        apply in_flat_map. exists n. split; [exact Ho|]. rewrite E. unfold rxn_comp. rewrite Hv. now left.
  Qed.

  (** with unique names the ordered list has every declared component *)
  Lemma comps_of_order_complete (m : cmodel V) order :
    NoDup (map fst (m_der m) ++ map fst (m_rxn m)) ->
    incl (map fst (m_der m) ++ map fst (m_rxn m)) order ->
    (forall n f a, In (n, (f, a)) (m_der m) -> In (n, (f, a)) (comps_of_order V m order))
    /\ (forall n f a st, In (n, (f, a, st)) (m_rxn m) -> In (n, (f, a)) (comps_of_order V m order)).
  Proof.
    intros ND Hincl.
    destruct (nodup_app_inv _ _ ND) as (NDd & NDr & Hdisj).
    split.
    - intros n f a H. unfold comps_of_order. apply in_flat_map. exists n. split.
      + apply Hincl, in_app_iff. left. apply in_map_iff. now exists (n, (f, a)).
      + rewrite (In_assoc n _ _ NDd H). now left.
    - intros n f a st H. unfold comps_of_order. apply in_flat_map. exists n. split.
      + apply Hincl, in_app_iff. right. apply in_map_iff. now exists (n, (f, a, st)).
      + destruct (assoc n (m_der m)) as [fa|] eqn:E.
        * exfalso. apply assoc_In in E.
          assert (H1 : In n (map fst (m_der m))) by (apply in_map_iff; now exists (n, fa)).
          assert (H2 : In n (map fst (m_rxn m))) by (apply in_map_iff; now exists (n, (f, a, st))).
          exact (Hdisj n H1 H2).
        * unfold rxn_comp. rewrite (In_assoc n _ _ NDr H). now left.
  Qed.

End Emit.

Section Proofs.
  Variable V : Type.
  Variable vzero : V.
  Variables vadd vmul : V -> V -> V.
  Variable isem : lang -> fnid -> list V -> option V.
  Variable translates : fnid -> bool.
  Variable fsem : fnid -> list V -> option V.

  (** property C06, used as a hypothesis: a function that translates is inlined as an
      expression with the value of the Python function wherever that has one *)
  Hypothesis C06 : forall L f vs v, translates f = true -> fsem f vs = Some v -> isem L f vs = Some v.

  Notation pop_all := (pop_all V).
  Notation base_params := (base_params V).
  Notation terms := (terms V).
  Notation pop_all_spec := (pop_all_spec V).
  Notation pop_all_ok := (pop_all_ok V).
  Notation base_params_In := (base_params_In V).
  Notation base_params_keys := (base_params_keys V).
  Notation build_diff_spec := (build_diff_spec V).
  Notation terms_entries := (terms_entries V).
  Notation In_entries := (In_entries V).
  Notation In_terms := (In_terms V).
  Notation emit_comps_some := (emit_comps_some V translates).
  Notation emit_comps_all := (emit_comps_all V translates).
  Notation comps_of_order_In := (comps_of_order_In V).
  Notation comps_of_order_names := (comps_of_order_names V).
  Notation comps_of_order_complete := (comps_of_order_complete V).

  (** ---- execution of the emitted program against a resolved environment --------------- *)
  Section WithEnv.
    Variable e : env V.

    Definition Good (pe : penv V) (S : list name) : Prop :=
      forall n, In n S -> plookup V (PN n) pe = Some (SVal (e n)).

    Lemma good_ext pe S k : Good pe S -> Good ((PN k, SVal (e k)) :: pe) (k :: S).
    Proof.
      intros H n Hn. cbn. destruct (N.eqb n k) eqn:E.
      - apply N.eqb_eq in E. now subst.
      - destruct Hn as [<-|Hn]; [now rewrite N.eqb_refl in E|]. now apply H.
    Qed.

    Lemma good_extD pe S k s : Good pe S -> Good ((PD k, s) :: pe) S.
    Proof. intros H n Hn. cbn. now apply H. Qed.

    Lemma good_incl pe S S' : Good pe S -> incl S' S -> Good pe S'.
    Proof. intros H Hi n Hn. apply H, Hi, Hn. Qed.

    Lemma looks_good pe S a : Good pe S -> incl a S -> looks V pe (map PN a) = inl (map e a).
    Proof.
      intros HG. induction a as [|x r IH]; cbn; intros Hi; [reflexivity|].
      unfold look. rewrite (HG x) by (apply Hi; now left).
      rewrite IH by (intros z Hz; apply Hi; now right). reflexivity.
    Qed.

    Lemma eval_inl_good L pe S f a v :
      Good pe S -> incl a S -> translates f = true -> fsem f (map e a) = Some v ->
      eval_inl V isem L pe f a = inl v.
    Proof.
      intros HG Hi Hf Hv. unfold eval_inl. rewrite (looks_good pe S a HG Hi).
      now rewrite (C06 L f _ v Hf Hv).
    Qed.

    Definition TermsOK (S : list name) (ts : list (name * coef V)) : Prop :=
      forall r c, In (r, c) ts ->
        In r S /\ match c with
                  | CStat _ => True
                  | CDyn g ga => translates g = true /\ incl ga S /\ exists v, fsem g (map e ga) = Some v
                  end.

    Lemma eval_sum_good L pe S ts :
      Good pe S -> TermsOK S ts ->
      forall acc, exists d, sum_terms V vadd vmul fsem e acc ts = Some d
                            /\ eval_sum V vadd vmul isem L pe acc ts = inl d.
    Proof.
      intros HG. induction ts as [|[r c] rest IH]; intros HT acc.
      - exists acc. now split.
      - destruct (HT r c (or_introl eq_refl)) as [Hr Hc].
        assert (HT' : TermsOK S rest) by (intros r' c' H'; apply HT; now right).
        cbn [sum_terms eval_sum]. destruct c as [q|g ga]; cbn [coefval eval_coef].
        + unfold look. rewrite (HG r Hr). apply IH, HT'.
        + destruct Hc as (Hg & Hga & v & Hv). rewrite Hv.
          rewrite (eval_inl_good L pe S g ga v HG Hga Hg Hv).
          unfold look. rewrite (HG r Hr). apply IH, HT'.
    Qed.

    Lemma run_body_app L pe b1 b2 :
      run_body V vzero vadd vmul isem L pe (b1 ++ b2)
      = match run_body V vzero vadd vmul isem L pe b1 with
        | inl pe' => run_body V vzero vadd vmul isem L pe' b2
        | inr x => inr x
        end.
    Proof.
      revert pe. induction b1 as [|[k r] b1 IH]; intros pe; cbn [app run_body]; [reflexivity|].
      destruct (eval_rhs V vzero vadd vmul isem L pe r); [apply IH|reflexivity].
    Qed.

    Lemma bind_all_good ks : forall pe S,
      Good pe S -> exists pe', bind_all V ks (map e ks) pe = Some pe' /\ Good pe' (ks ++ S).
    Proof.
      induction ks as [|k r IH]; intros pe S HG; cbn [map bind_all app]; [eauto|].
      destruct (IH ((PN k, SVal (e k)) :: pe) (k :: S) (good_ext _ _ _ HG)) as [pe' [H1 H2]].
      exists pe'. split; [exact H1|]. eapply good_incl; [exact H2|].
      intros z Hz. apply in_app_iff. destruct Hz as [<-|Hz]; [right; now left|].
      apply in_app_iff in Hz. destruct Hz; [now left|right; now right].
    Qed.

    Lemma run_params L pars : forall pe S,
      Good pe S -> (forall k v, In (k, v) pars -> e k = v) ->
      exists pe', run_body V vzero vadd vmul isem L pe
                    (map (fun x : name * V => (PN (fst x), RConst (snd x))) pars) = inl pe'
                  /\ Good pe' (map fst pars ++ S).
    Proof.
      induction pars as [|[k v] r IH]; intros pe S HG Hv; cbn [map fst snd run_body eval_rhs app]; [eauto|].
      assert (Hk := Hv k v (or_introl eq_refl)). subst v.
      destruct (IH ((PN k, SVal (e k)) :: pe) (k :: S) (good_ext _ _ _ HG)) as [pe' [H1 H2]];
        [intros; apply Hv; now right|].
      exists pe'. split; [exact H1|]. eapply good_incl; [exact H2|].
      intros z Hz. apply in_app_iff. destruct Hz as [<-|Hz]; [right; now left|].
      apply in_app_iff in Hz. destruct Hz; [now left|right; now right].
    Qed.

    Lemma run_comps L cs : forall pe S,
      Good pe S -> topo S cs ->
      (forall n f a, In (n, (f, a)) cs -> translates f = true /\ fsem f (map e a) = Some (e n)) ->
      exists pe', run_body V vzero vadd vmul isem L pe
                    (map (fun c : name * (fnid * list name) => (PN (fst c), RInl (fst (snd c)) (snd (snd c)))) cs) = inl pe'
                  /\ Good pe' (map fst cs ++ S).
    Proof.
      induction cs as [|[n [f a]] r IH]; intros pe S HG HT HC; cbn [map fst snd run_body eval_rhs app]; [eauto|].
      destruct HT as [Ha HT]. destruct (HC n f a (or_introl eq_refl)) as [Hf Hv].
      rewrite (eval_inl_good L pe S f a (e n) HG Ha Hf Hv).
      destruct (IH ((PN n, SVal (e n)) :: pe) (n :: S)) as [pe' [H1 H2]];
        [apply good_ext, HG|exact HT|intros; apply HC; now right|].
      exists pe'. split; [exact H1|]. eapply good_incl; [exact H2|].
      intros z Hz. apply in_app_iff. destruct Hz as [<-|Hz]; [right; now left|].
      apply in_app_iff in Hz. destruct Hz; [now left|right; now right].
    Qed.

    Lemma run_diffs L de : forall pe S,
      Good pe S -> NoDup (map fst de) -> (forall x ts, In (x, ts) de -> TermsOK S ts) ->
      exists pe', run_body V vzero vadd vmul isem L pe
                    (map (fun x : name * list (name * coef V) => (PD (fst x), RSum (snd x))) de) = inl pe'
                  /\ Good pe' S
                  /\ (forall x ts, In (x, ts) de ->
                        exists d, sum_terms V vadd vmul fsem e vzero ts = Some d
                                  /\ plookup V (PD x) pe' = Some (SVal d))
                  /\ (forall k, ~ In k (map fst de) -> plookup V (PD k) pe' = plookup V (PD k) pe).
    Proof.
      induction de as [|[x ts] r IH]; intros pe S HG ND HT; cbn [map fst snd run_body eval_rhs].
      - exists pe. split; [reflexivity|]. split; [exact HG|]. split; [intros ? ? []|reflexivity].
      - inversion ND as [|? ? Hn ND']; subst.
        destruct (eval_sum_good L pe S ts HG (HT x ts (or_introl eq_refl)) vzero) as [d [Hd1 Hd2]].
        rewrite Hd2.
        destruct (IH ((PD x, SVal d) :: pe) S) as (pe' & H1 & H2 & H3 & H4);
          [apply good_extD, HG|exact ND'|intros; eapply HT; right; eassumption|].
        exists pe'. split; [exact H1|]. split; [exact H2|]. split.
        + intros x' ts' [H|H].
          * injection H as <- <-. exists d. split; [exact Hd1|]. rewrite (H4 x Hn). cbn.
            now rewrite N.eqb_refl.
          * apply H3, H.
        + intros k Hk. rewrite H4 by (intros Hk'; apply Hk; now right). cbn.
          destruct (N.eqb k x) eqn:E; [|reflexivity]. apply N.eqb_eq in E. subst.
          exfalso. apply Hk. now left.
    Qed.

    (** the explicit zero lines of the untouched variables (empty sums) *)
    Lemma run_zeros L zs : forall pe S,
      Good pe S ->
      exists pe', run_body V vzero vadd vmul isem L pe
                    (map (fun x : name * list (name * coef V) => (PD (fst x), RSum (snd x)))
                         (map (fun v : name => (v, @nil (name * coef V))) zs)) = inl pe'
                  /\ Good pe' S
                  /\ (forall z, In z zs -> plookup V (PD z) pe' = Some (SVal vzero))
                  /\ (forall k, ~ In k zs -> plookup V (PD k) pe' = plookup V (PD k) pe).
    Proof.
      induction zs as [|z r IH]; intros pe S HG; cbn [map fst snd run_body eval_rhs eval_sum].
      - exists pe. split; [reflexivity|]. split; [exact HG|]. split; [intros ? []|reflexivity].
      - destruct (IH ((PD z, SVal vzero) :: pe) S (good_extD _ _ _ _ HG)) as (pe' & H1 & H2 & H3 & H4).
        exists pe'. split; [exact H1|]. split; [exact H2|]. split.
        + intros z' Hz'. destruct (in_dec N.eq_dec z' r) as [Hr|Hr]; [now apply H3|].
          destruct Hz' as [<-|Hz']; [|contradiction]. rewrite (H4 z Hr). cbn. now rewrite N.eqb_refl.
        + intros k Hk. rewrite H4 by (intros Hk'; apply Hk; now right). cbn.
          destruct (N.eqb k z) eqn:E; [|reflexivity]. apply N.eqb_eq in E. subst.
          exfalso. apply Hk. now left.
    Qed.

    Lemma looksD pe (m : cmodel V) xs :
      (forall x, In x xs -> exists d, dxdt V vzero vadd vmul fsem m e x = Some d
                                      /\ plookup V (PD x) pe = Some (SVal d)) ->
      exists ds, map_opt (dxdt V vzero vadd vmul fsem m e) xs = Some ds
                 /\ looks V pe (map PD xs) = inl ds.
    Proof.
      induction xs as [|x r IH]; cbn [map map_opt looks]; intros H; [eauto|].
      destruct (H x (or_introl eq_refl)) as [d [H1 H2]].
      destruct IH as [ds [H3 H4]]; [intros; apply H; now right|].
      exists (d :: ds). rewrite H1, H3. unfold look. rewrite H2, H4. now split.
    Qed.
  End WithEnv.

  Lemma exec_ok F L (p : program V) t y fv pe0 pe1 pe2 vs :
    static_ok V (lf_of F L) L p = true ->
    bind_all V (g_free p) fv [(PN tname, SVal t)] = Some pe0 ->
    bind_vars V (lf_of F L) (g_vars p) y pe0 = Some pe1 ->
    run_body V vzero vadd vmul isem L pe1 (g_body p) = inl pe2 ->
    g_unit p = false ->
    looks V pe2 (g_ret p) = inl vs ->
    match lf_ret (lf_of F L), vs with RetBare, [] => False | RetBare, [_] => False | _, _ => True end ->
    exec V vzero vadd vmul isem F L p t y fv = ROk vs.
  Proof.
    intros H0 H1 H2 H3 H4 H5 H6.
    assert (Hr : exec_run V vzero vadd vmul isem F L p t y fv = ROk vs).
    { unfold exec_run. rewrite H1, H2, H3, H4, H5.
      destruct (lf_ret (lf_of F L)), vs as [|? [|? ?]]; try reflexivity; contradiction. }
    unfold exec. rewrite H0. exact Hr.
  Qed.

  Lemma topo_incl cs : forall S S', incl S S' -> topo S cs -> topo S' cs.
  Proof.
    induction cs as [|[n [f a]] r IH]; cbn; intros S S' Hi H; [trivial|].
    destruct H as [Ha H]. split; [eapply incl_tran; eassumption|].
    eapply IH; [|exact H]. intros z [<-|Hz]; [now left|right; now apply Hi].
  Qed.

  Lemma map_opt_length {A B} (f : A -> option B) l : forall r, map_opt f l = Some r -> length r = length l.
  Proof.
    induction l as [|x l IH]; cbn; intros r H.
    - now injection H as <-.
    - destruct (f x); [|discriminate]. destruct (map_opt f l) as [vs|]; [|discriminate].
      injection H as <-. cbn. f_equal. now apply IH.
  Qed.

  Definition ret_ok (lf : lang_facts) (m : cmodel V) : Prop :=
    match lf_ret lf with
    | RetBracket => (1 <= length (m_var m))%nat
    | RetBare => (2 <= length (m_var m))%nat
    | RetUnknown => False
    end.

  (** THE equivalence theorem, for every fact value with dependency-order emission, named
      assignments and a list pattern for the variables.  The two guards are disjunctions: a model
      with an assignment-defined parameter is covered when the generator emits those parameters
      ([IaFrozen]); a model with a variable no reaction acts on is covered when the generator
      writes the explicit zero ([UtZero]) and the model has an equation at all *)
  Theorem equiv_generic F L (m : cmodel V) order free p t y fv (e : env V) :
    f_order F = OrdDep -> lf_asg (lf_of F L) = AsgName -> lf_ds (lf_of F L) = DsList ->
    ret_ok (lf_of F L) m ->
    generate V translates F L m order free = GOk p ->
    NoDup (map fst (m_par m)) ->
    NoAssignedParams V m \/ f_ia F = IaFrozen ->
    EveryVariableHasReaction V m \/ (f_untouched F = UtZero /\ HasEquation V m) ->
    CoefArgsKnown V m -> ValidOrder V m order ->
    Resolved V fsem m free fv t y e ->
    exists ds, map_opt (dxdt V vzero vadd vmul fsem m e) (m_var m) = Some ds
               /\ exec V vzero vadd vmul isem F L p t y fv = ROk ds.
  Proof.
    intros Hord Hasg Hds Hret Hgen NDp NoIA EVR CAK [Htopo Hcover] [Rt Rv Rf Rp Rd Rr Rc].
    unfold generate, generate_from in Hgen.
    destruct (negb (facts_usable F L)); [discriminate|].
    destruct (pop_all free (emitted_params V F m (base_params m))) as [[|] pars] eqn:Hpop; [|discriminate].
    unfold emit_list in Hgen. rewrite Hord in Hgen.
    destruct (emit_comps V translates (lf_of F L) (comps_of_order V m order)) as [comps|] eqn:Hemit; [|discriminate].
    destruct (diffs_ok V translates (build_diff V (entries V m))) eqn:Hdok; cbn [negb] in Hgen; [|discriminate].
    destruct (emit_comps_some _ _ _ Hemit) as [-> Htr].
    destruct (build_diff_spec (entries V m)) as (NDde & Hde1 & Hde2).
    set (de := build_diff V (entries V m)) in *.
    assert (Hne : m_var m <> []).
    { unfold ret_ok in Hret. destruct (lf_ret (lf_of F L)); destruct (m_var m); cbn in Hret; try lia; try contradiction; discriminate. }
    (* every variable has a line: a sum, or the explicit zero *)
    set (zs := zero_vars V F m de) in *.
    assert (Hzs : forall x, In x zs -> In x (m_var m) /\ ~ In x (map fst de)) by (intros x; apply zero_vars_In).
    assert (Hinde : forall x, In x (map fst de) -> In (x, stoich_terms V m x) de).
    { intros x Hx. apply in_map_iff in Hx. destruct Hx as [[x' ts] [E Hx]]. cbn in E. subst x'.
      assert (Hts := Hde1 x ts Hx). rewrite terms_entries in Hts. now subst ts. }
    assert (Hnotde : forall x, ~ In x (map fst de) -> stoich_terms V m x = []).
    { intros x Hx. destruct (stoich_terms V m x) eqn:E; [reflexivity|]. exfalso. apply Hx.
      apply in_map_iff. exists (x, terms (entries V m) x). split; [reflexivity|].
      apply Hde2. rewrite terms_entries, E. discriminate. }
    assert (Hcov : de <> [] /\ forall x, In x (m_var m) -> In x (map fst de) \/ In x zs).
    { destruct EVR as [EVR|[HF (n & f & a & st & x & c & H1 & H2)]].
      - assert (Hvar : forall x, In x (m_var m) -> In x (map fst de)).
        { intros x Hx. apply in_map_iff. exists (x, terms (entries V m) x). split; [reflexivity|].
          apply Hde2. rewrite terms_entries. now apply EVR. }
        split; [|intros x Hx; left; now apply Hvar].
        destruct (m_var m) as [|x r] eqn:Ev; [congruence|]. specialize (Hvar x (or_introl eq_refl)).
        intros E. rewrite E in Hvar. destruct Hvar.
      - assert (Hd : de <> []).
        { assert (Hin : In (n, c) (terms (entries V m) x)) by (apply In_terms, In_entries; now exists f, a, st).
          assert (Hn : terms (entries V m) x <> []) by (intros E; rewrite E in Hin; destruct Hin).
          specialize (Hde2 x Hn). intros E. rewrite E in Hde2. destruct Hde2. }
        split; [exact Hd|]. intros z Hz.
        destruct (in_dec N.eq_dec z (map fst de)) as [Hi|Hi]; [now left|right].
        now apply zero_vars_all. }
    destruct Hcov as [Hdne Hcov].
    assert (Hkeys : map fst (full_diff V F m de) = map fst de ++ zs).
    { unfold full_diff. fold zs. rewrite map_app, map_map. cbn [fst]. now rewrite map_id. }
    assert (Hro : filter (fun v => existsb (N.eqb v) (map fst (full_diff V F m de))) (m_var m) = m_var m).
    { apply filter_all. intros x Hx. apply existsb_exists. exists x. split; [|apply N.eqb_refl].
      rewrite Hkeys. apply in_app_iff. now apply Hcov. }
    rewrite Hro in Hgen.
    assert (Hunit : match full_diff V F m de with [] => true | _ :: _ => false end = false).
    { unfold full_diff. destruct de; [congruence|reflexivity]. }
    rewrite Hunit in Hgen. unfold lhs_of in Hgen. rewrite Hasg in Hgen. cbv iota in Hgen.
    injection Hgen as <-.
    (* header: time and the free parameters *)
    destruct (bind_all_good e free [(PN tname, SVal t)] [tname]) as [pe0 [Hb0 G0]].
    { intros n [<-|[]]. cbn. now rewrite Rt. }
    rewrite Rf in Hb0.
    (* the destructuring line *)
    destruct (bind_all_good e (m_var m) pe0 (free ++ [tname]) G0) as [pe1 [Hb1 G1]].
    rewrite Rv in Hb1.
    assert (Hbv : bind_vars V (lf_of F L) (m_var m) y pe0 = Some pe1).
    { unfold bind_vars. rewrite Hds. destruct (m_var m) as [|x [|x' r]]; [congruence|exact Hb1|exact Hb1]. }
    (* parameters *)
    set (S1 := m_var m ++ free ++ [tname]) in *.
    assert (NDe := emitted_params_keys V F m NDp).
    destruct (run_params e L pars pe1 S1 G1) as [pe2 [Hr2 G2]].
    { intros k v Hk. apply (pop_all_spec free _ _ NDe Hpop) in Hk.
      destruct Hk as [Hk Hnf]. apply emitted_params_In in Hk. destruct Hk as [ia Hk]. eapply Rp; eassumption. }
    set (S2 := map fst pars ++ S1) in *.
    assert (Havail : incl (tname :: map fst (m_par m) ++ m_var m) S2).
    { intros z [<-|Hz].
      - apply in_app_iff. right. apply in_app_iff. right. apply in_app_iff. right. now left.
      - apply in_app_iff in Hz. destruct Hz as [Hz|Hz].
        + apply in_map_iff in Hz. destruct Hz as [[k [ia v]] [Ek Hk]]. cbn in Ek. subst k.
          assert (Hia : ia = false \/ f_ia F = IaFrozen).
          { destruct NoIA as [NoIA|NoIA]; [left; eapply NoIA; exact Hk|now right]. }
          destruct (in_dec N.eq_dec z free) as [Hf|Hf].
          * apply in_app_iff. right. apply in_app_iff. right. apply in_app_iff. now left.
          * apply in_app_iff. left. apply in_map_iff. exists (z, v). split; [reflexivity|].
            apply (pop_all_spec free _ _ NDe Hpop). split; [|exact Hf].
            eapply emitted_params_all; eassumption.
        + apply in_app_iff. right. apply in_app_iff. now left. }
    (* derived quantities and reactions, in the order of the cache *)
    destruct (run_comps e L (comps_of_order V m order) pe2 S2 G2 (topo_incl _ _ _ Havail Htopo)) as [pe3 [Hr3 G3]].
    { intros n f a Hin. split; [eapply Htr; exact Hin|].
      destruct (comps_of_order_In m order n f a Hin) as [H|[st H]]; [eapply Rd; exact H|eapply Rr; exact H]. }
    set (S3 := map fst (comps_of_order V m order) ++ S2) in *.
    assert (Hknown : incl (known_names V m) S3).
    { unfold known_names. intros z [<-|Hz].
      - apply in_app_iff. right. apply Havail. now left.
      - rewrite !in_app_iff in Hz. destruct Hz as [Hz|[Hz|[Hz|Hz]]].
        + apply in_app_iff. right. apply Havail. right. apply in_app_iff. now left.
        + apply in_app_iff. right. apply Havail. right. apply in_app_iff. now right.
        + apply in_app_iff. left. apply comps_of_order_names; [|now left].
          apply Hcover, in_app_iff. now left.
        + apply in_app_iff. left. apply comps_of_order_names; [|now right].
          apply Hcover, in_app_iff. now right. }
    (* one sum per key of diff_eqs *)
    destruct (run_diffs e L de pe3 S3 G3 NDde) as (pe4 & Hr4 & G4 & HD & _).
    { intros x ts Hin r c Hrc. assert (Hrc' := Hrc). rewrite (Hde1 x ts Hin) in Hrc.
      apply In_terms, In_entries in Hrc. destruct Hrc as (f & a & st & H1 & H2). split.
      - apply Hknown. unfold known_names. right. rewrite !in_app_iff. right. right. right.
        apply in_map_iff. now exists (r, (f, a, st)).
      - destruct c as [q|g ga]; [trivial|]. split; [|split].
        + unfold diffs_ok in Hdok. rewrite forallb_forall in Hdok. specialize (Hdok (x, ts) Hin).
          cbn in Hdok. rewrite forallb_forall in Hdok. exact (Hdok (r, CDyn g ga) Hrc').
        + intros z Hz. apply Hknown. eapply CAK; eassumption.
        + eapply Rc; eassumption. }
    (* the explicit zeros *)
    destruct (run_zeros e L zs pe4 S3 G4) as (pe5 & Hr5 & G5 & HZ & HZf).
    (* the returned list *)
    destruct (looksD e pe5 m (m_var m)) as [ds [Hds1 Hds2]].
    { intros x Hx. destruct (Hcov x Hx) as [Hi|Hi].
      - destruct (HD x _ (Hinde x Hi)) as [d [Hd1 Hd2]]. exists d. split; [exact Hd1|].
        rewrite HZf; [exact Hd2|]. intros Hz. apply Hzs in Hz. now destruct Hz.
      - exists vzero. split; [|now apply HZ]. unfold dxdt.
        rewrite (Hnotde x (proj2 (Hzs x Hi))). reflexivity. }
    exists ds. split; [exact Hds1|].
    eapply exec_ok with (pe0 := pe0) (pe1 := pe1) (pe2 := pe5); cbn [g_free g_vars g_body g_ret g_unit g_n].
    - unfold static_ok. cbn [g_free g_vars g_body g_ret g_unit g_n]. rewrite Hds, map_length, Nat.eqb_refl.
      unfold ret_ok in Hret. destruct (lf_ret (lf_of F L)); [| |contradiction]; destruct L; reflexivity.
    - exact Hb0.
    - exact Hbv.
    - rewrite run_body_app, Hr2. cbv beta iota. rewrite run_body_app, Hr3.
      unfold full_diff. fold zs. rewrite map_app, run_body_app, Hr4. exact Hr5.
    - reflexivity.
    - exact Hds2.
    - unfold ret_ok in Hret. destruct (lf_ret (lf_of F L)); [|trivial|trivial].
      apply map_opt_length in Hds1. destruct ds as [|? [|? ?]]; cbn in Hds1; try lia; trivial.
  Qed.

  (** generation succeeds when everything translates and the free names are plain parameters *)
  Theorem generates_generic F L (m : cmodel V) order free :
    facts_usable F L = true -> f_order F = OrdDep ->
    NoDup (map fst (m_par m)) -> NoDup free -> incl free (map fst (base_params m)) ->
    (forall n f a, In (n, (f, a)) (m_der m) -> translates f = true) ->
    (forall n f a st, In (n, (f, a, st)) (m_rxn m) ->
       translates f = true /\ forall x g ga, In (x, CDyn g ga) st -> translates g = true) ->
    exists p, generate V translates F L m order free = GOk p.
  Proof.
    intros Hu Hord NDp NDf Hfree Hd Hr. unfold generate, generate_from. rewrite Hu. cbn [negb].
    destruct (pop_all_ok free (emitted_params V F m (base_params m)) (emitted_params_keys V F m NDp) NDf) as [pars Hp].
    { intros k Hk. specialize (Hfree k Hk). apply in_map_iff in Hfree. destruct Hfree as [kv [E Hkv]].
      apply in_map_iff. exists kv. split; [exact E|]. now apply (base_in_emitted V F m). }
    rewrite Hp.
    unfold emit_list. rewrite Hord.
    destruct (emit_comps_all (lf_of F L) (comps_of_order V m order)) as [b Hb].
    { intros n f a Hin. destruct (comps_of_order_In m order n f a Hin) as [H|[st H]];
        [eapply Hd; exact H|exact (proj1 (Hr n f a st H))]. }
    rewrite Hb.
    assert (Hok : diffs_ok V translates (build_diff V (entries V m)) = true).
    { destruct (build_diff_spec (entries V m)) as (_ & Hde1 & _). unfold diffs_ok.
      apply forallb_forall. intros [x ts] Hin. cbn. apply forallb_forall. intros [r c] Hrc. cbn.
      rewrite (Hde1 x ts Hin) in Hrc. apply In_terms, In_entries in Hrc.
      destruct Hrc as (f & a & st & H1 & H2). destruct c as [q|g ga]; cbn; [reflexivity|].
      exact (proj2 (Hr r f a st H1) x g ga H2). }
    rewrite Hok. cbn [negb]. eauto.
  Qed.

  (** a function that does not translate makes generation raise: whenever a program is
      returned, every function of every component and coefficient translates *)
  Theorem untranslatable_generic F L (m : cmodel V) order free p :
    f_order F = OrdDep ->
    generate V translates F L m order free = GOk p ->
    NoDup (map fst (m_der m) ++ map fst (m_rxn m)) ->
    incl (map fst (m_der m) ++ map fst (m_rxn m)) order ->
    (forall n f a, In (n, (f, a)) (m_der m) -> translates f = true)
    /\ (forall n f a st, In (n, (f, a, st)) (m_rxn m) ->
          translates f = true /\ forall x g ga, In (x, CDyn g ga) st -> translates g = true).
  Proof.
    intros Hord Hgen ND Hcover. unfold generate, generate_from in Hgen.
    destruct (negb (facts_usable F L)); [discriminate|].
    destruct (pop_all free (emitted_params V F m (base_params m))) as [[|] pars]; [|discriminate].
    unfold emit_list in Hgen. rewrite Hord in Hgen.
    destruct (emit_comps V translates (lf_of F L) (comps_of_order V m order)) as [comps|] eqn:Hemit; [|discriminate].
    destruct (diffs_ok V translates (build_diff V (entries V m))) eqn:Hdok; cbn [negb] in Hgen; [|discriminate].
    destruct (emit_comps_some _ _ _ Hemit) as [_ Htr].
    destruct (comps_of_order_complete m order ND Hcover) as [Hcd Hcr].
    split.
    - intros n f a H. eapply Htr. apply Hcd. exact H.
    - intros n f a st H. split; [eapply Htr; eapply Hcr; exact H|].
      intros x g ga Hx.
      destruct (build_diff_spec (entries V m)) as (_ & _ & Hde2).
      assert (Hin : In (n, CDyn g ga) (terms (entries V m) x)).
      { apply In_terms, In_entries. now exists f, a, st. }
      assert (Hne : terms (entries V m) x <> []) by (intros E; rewrite E in Hin; destruct Hin).
      specialize (Hde2 x Hne). unfold diffs_ok in Hdok. rewrite forallb_forall in Hdok.
      specialize (Hdok _ Hde2). cbn in Hdok. rewrite forallb_forall in Hdok.
      exact (Hdok _ Hin).
  Qed.

  (** the cached parameter dict is left alone: the same request again gives the same answer *)
  Theorem again_generic F L (m : cmodel V) order free :
    f_copy F = true ->
    cache_after V F m free = base_params m
    /\ generate_again V translates F L m order free = generate V translates F L m order free.
  Proof. intros H. unfold generate_again, generate, cache_after. rewrite H. cbn [orb]. now split. Qed.

  (** a computed coefficient reaches the program as the expression [CDyn g ga] in the sum of its
      variable -- the generator never evaluates it *)
  Theorem coef_expression_generic F L (m : cmodel V) order free p n f a st x g ga :
    generate V translates F L m order free = GOk p ->
    In (n, (f, a, st)) (m_rxn m) -> In (x, CDyn g ga) st ->
    exists ts, In (lhs_of (lf_of F L) (PD x), RSum ts) (g_body p) /\ In (n, CDyn g ga) ts.
  Proof.
    intros Hgen Hr Hx. unfold generate, generate_from in Hgen.
    destruct (negb (facts_usable F L)); [discriminate|].
    destruct (pop_all free (emitted_params V F m (base_params m))) as [[|] pars]; [|discriminate].
    destruct (emit_comps V translates (lf_of F L) (emit_list V F m order)) as [comps|]; [|discriminate].
    destruct (negb (diffs_ok V translates (build_diff V (entries V m)))); [discriminate|].
    injection Hgen as <-. cbn [g_body].
    destruct (build_diff_spec (entries V m)) as (_ & _ & Hde2).
    assert (Hin : In (n, CDyn g ga) (terms (entries V m) x)) by (apply In_terms, In_entries; now exists f, a, st).
    assert (Hne : terms (entries V m) x <> []) by (intros E; rewrite E in Hin; destruct Hin).
    exists (terms (entries V m) x). split; [|exact Hin].
    apply in_app_iff. right. apply in_app_iff. right. apply in_map_iff.
    exists (x, terms (entries V m) x). split; [reflexivity|].
    unfold full_diff. apply in_app_iff. left. now apply Hde2.
  Qed.

  Lemma generate_shape F L (m : cmodel V) order free p :
    generate V translates F L m order free = GOk p -> g_vars p = m_var m /\ g_free p = free.
  Proof.
    unfold generate, generate_from.
    destruct (negb (facts_usable F L)); [discriminate|].
    destruct (pop_all free (emitted_params V F m (base_params m))) as [[|] pars]; [|discriminate].
    destruct (emit_comps V translates (lf_of F L) (emit_list V F m order)); [|discriminate].
    destruct (negb (diffs_ok V translates (build_diff V (entries V m)))); [discriminate|].
    intros H. injection H as <-. now split.
  Qed.

  (** a template that writes `a, b = *variables` never yields a program of the language *)
  Theorem splat_illformed F L (m : cmodel V) order free p t y fv :
    lf_ds (lf_of F L) = DsSplat ->
    generate V translates F L m order free = GOk p -> m_var m <> [] ->
    exec V vzero vadd vmul isem F L p t y fv = RIllFormed.
  Proof.
    intros Hds Hgen Hne. destruct (generate_shape _ _ _ _ _ _ Hgen) as [Hv _].
    assert (Hs : static_ok V (lf_of F L) L p = false).
    { unfold static_ok. rewrite Hds, Hv. destruct (m_var m); [congruence|reflexivity]. }
    unfold exec. now rewrite Hs.
  Qed.
End Proofs.
