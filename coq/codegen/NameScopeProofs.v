(** C07 -- proofs about name resolution in translated function bodies (model: NameScope.v).

    [scope_sound]        with the symbol table consulted first, whenever CPython computes a value
                         for the call, the translated expression has that value (parameters,
                         locals and module constants each read where Python reads them)
    [scope_sound_bound]  ... also after the binding statement replaced the parameters by the
                         model's argument expressions
    [scope_closed]       the translation mentions the function's own parameters only
    [global_first_same]  consulting the module constants first gives the SAME translation for every
                         function none of whose parameters / locals is called like a constant
    all of them for every value type, every module, every function, every argument list. *)
From Coq Require Import List NArith Bool Arith Lia.
From MxlBase Require Import ListX.
From Codegen Require Import Codegen CodegenSpec CallArity CallArityProofs NameScope.
Import ListNotations.

Section Proofs.
  Variable V : Type.
  Variables vadd vsub vmul : V -> V -> V.

  Notation texp := (texp V).
  Notation teval := (teval V vadd vsub vmul).
  Notation syms := (syms V).
  Notation tlookup := (tlookup V).
  Notation tr := (tr V).
  Notation tr_body := (tr_body V).
  Notation resolve := (resolve V).
  Notation py_eval := (py_eval V vadd vsub vmul).
  Notation py_body := (py_body V vadd vsub vmul).
  Notation py_run := (py_run V vadd vsub vmul).

  (** the symbol table [st] and CPython's local namespace [L] describe the same state: every bound
      local has an entry whose value (over the parameter values [env0]) is the local's value; the
      table has entries for local names only; the entries mention parameters only *)
  Record Rel (env0 : name -> option V) (ps locs : list name) (st : symtab V) (L : list (name * V)) : Prop := {
    rel_val : forall n v, assoc n L = Some v -> exists e, tlookup n st = Some e /\ teval env0 e = Some v;
    rel_key : forall n e, tlookup n st = Some e -> In n locs;
    rel_sym : forall n e s, tlookup n st = Some e -> In s (syms e) -> In s ps
  }.

  Lemma existsb_In : forall n (l : list name), existsb (N.eqb n) l = true <-> In n l.
  Proof.
    intros n l. rewrite existsb_exists. split.
    - intros [x [Hx E]]. apply N.eqb_eq in E. subst x. exact Hx.
    - intros H. exists n. split; [exact H | apply N.eqb_refl].
  Qed.

  Lemma tr_sound : forall G env0 ps locs st L e e' v,
      Rel env0 ps locs st L ->
      tr NkLocalFirst G st e = Some e' ->
      py_eval G locs L e = Some v ->
      teval env0 e' = Some v.
  Proof.
    intros G env0 ps locs st L e. unfold NameScope.py_eval.
    induction e as [k | w | a IHa b IHb | a IHa b IHb | a IHa b IHb]; intros e' v HR Ht Hp;
      cbn [NameScope.tr CallArity.teval] in Ht, Hp.
    - unfold NameScope.resolve in Ht. unfold py_name in Hp.
      destruct (assoc k L) as [v0 |] eqn:EL.
      + injection Hp as <-. destruct (rel_val _ _ _ _ _ HR k v0 EL) as (e0 & He0 & Hv).
        rewrite He0 in Ht. injection Ht as <-. exact Hv.
      + destruct (existsb (N.eqb k) locs) eqn:Ex; [discriminate |].
        destruct (tlookup k st) as [e0 |] eqn:Es.
        * exfalso. apply (rel_key _ _ _ _ _ HR) in Es. apply existsb_In in Es. congruence.
        * rewrite Hp in Ht. injection Ht as <-. reflexivity.
    - injection Ht as <-. exact Hp.
    - destruct (tr NkLocalFirst G st a) as [x |] eqn:Ea; [| discriminate].
      destruct (tr NkLocalFirst G st b) as [y |] eqn:Eb; [| discriminate]. injection Ht as <-.
      destruct (CallArity.teval V vadd vsub vmul (py_name V G locs L) a) as [va |] eqn:Pa; [| discriminate].
      destruct (CallArity.teval V vadd vsub vmul (py_name V G locs L) b) as [vb |] eqn:Pb; [| discriminate].
      cbn [CallArity.teval]. rewrite (IHa x va HR eq_refl eq_refl), (IHb y vb HR eq_refl eq_refl). exact Hp.
    - destruct (tr NkLocalFirst G st a) as [x |] eqn:Ea; [| discriminate].
      destruct (tr NkLocalFirst G st b) as [y |] eqn:Eb; [| discriminate]. injection Ht as <-.
      destruct (CallArity.teval V vadd vsub vmul (py_name V G locs L) a) as [va |] eqn:Pa; [| discriminate].
      destruct (CallArity.teval V vadd vsub vmul (py_name V G locs L) b) as [vb |] eqn:Pb; [| discriminate].
      cbn [CallArity.teval]. rewrite (IHa x va HR eq_refl eq_refl), (IHb y vb HR eq_refl eq_refl). exact Hp.
    - destruct (tr NkLocalFirst G st a) as [x |] eqn:Ea; [| discriminate].
      destruct (tr NkLocalFirst G st b) as [y |] eqn:Eb; [| discriminate]. injection Ht as <-.
      destruct (CallArity.teval V vadd vsub vmul (py_name V G locs L) a) as [va |] eqn:Pa; [| discriminate].
      destruct (CallArity.teval V vadd vsub vmul (py_name V G locs L) b) as [vb |] eqn:Pb; [| discriminate].
      cbn [CallArity.teval]. rewrite (IHa x va HR eq_refl eq_refl), (IHb y vb HR eq_refl eq_refl). exact Hp.
  Qed.

  (** the translation of an expression mentions parameters only (module constants are inlined) *)
  Lemma tr_syms : forall nk G env0 ps locs st L e e' s,
      Rel env0 ps locs st L ->
      tr nk G st e = Some e' -> In s (syms e') -> In s ps.
  Proof.
    intros nk G env0 ps locs st L e.
    induction e as [k | w | a IHa b IHb | a IHa b IHb | a IHa b IHb]; intros e' s HR Ht Hs; cbn [NameScope.tr] in Ht.
    - unfold NameScope.resolve in Ht. destruct nk; [| | discriminate].
      + destruct (tlookup k st) as [e0 |] eqn:Es.
        * injection Ht as <-. exact (rel_sym _ _ _ _ _ HR k e0 s Es Hs).
        * destruct (assoc k G); [| discriminate]. injection Ht as <-. destruct Hs.
      + destruct (assoc k G).
        * injection Ht as <-. destruct Hs.
        * exact (rel_sym _ _ _ _ _ HR k e' s Ht Hs).
    - injection Ht as <-. destruct Hs.
    - destruct (tr nk G st a) as [x |] eqn:Ea; [| discriminate].
      destruct (tr nk G st b) as [y |] eqn:Eb; [| discriminate]. injection Ht as <-.
      cbn [CallArity.syms] in Hs. apply in_app_or in Hs. destruct Hs; [eapply IHa | eapply IHb]; eauto.
    - destruct (tr nk G st a) as [x |] eqn:Ea; [| discriminate].
      destruct (tr nk G st b) as [y |] eqn:Eb; [| discriminate]. injection Ht as <-.
      cbn [CallArity.syms] in Hs. apply in_app_or in Hs. destruct Hs; [eapply IHa | eapply IHb]; eauto.
    - destruct (tr nk G st a) as [x |] eqn:Ea; [| discriminate].
      destruct (tr nk G st b) as [y |] eqn:Eb; [| discriminate]. injection Ht as <-.
      cbn [CallArity.syms] in Hs. apply in_app_or in Hs. destruct Hs; [eapply IHa | eapply IHb]; eauto.
  Qed.

  (** one assignment keeps the relation *)
  Lemma Rel_step : forall env0 ps locs st L x e' v,
      Rel env0 ps locs st L -> In x locs ->
      teval env0 e' = Some v -> (forall s, In s (syms e') -> In s ps) ->
      Rel env0 ps locs ((x, e') :: st) ((x, v) :: L).
  Proof.
    intros env0 ps locs st L x e' v HR Hx Hv Hs. constructor.
    - intros n w H. cbn in H |- *. destruct (N.eqb n x).
      + injection H as <-. exists e'. split; [reflexivity | exact Hv].
      + exact (rel_val _ _ _ _ _ HR n w H).
    - intros n e H. cbn in H. destruct (N.eqb n x) eqn:E.
      + apply N.eqb_eq in E. subst n. exact Hx.
      + exact (rel_key _ _ _ _ _ HR n e H).
    - intros n e s H Hin. cbn in H. destruct (N.eqb n x).
      + injection H as <-. exact (Hs s Hin).
      + exact (rel_sym _ _ _ _ _ HR n e s H Hin).
  Qed.

  Lemma body_sound : forall G env0 ps locs b st L st' L',
      Rel env0 ps locs st L ->
      (forall x, In x (map fst b) -> In x locs) ->
      tr_body NkLocalFirst G st b = Some st' ->
      py_body G locs L b = Some L' ->
      Rel env0 ps locs st' L'.
  Proof.
    intros G env0 ps locs. induction b as [| [x e] b IH]; intros st L st' L' HR Hloc Ht Hp; cbn in Ht, Hp.
    - injection Ht as <-. injection Hp as <-. exact HR.
    - destruct (tr NkLocalFirst G st e) as [e' |] eqn:Ee; [| discriminate].
      destruct (py_eval G locs L e) as [v |] eqn:Ev; [| discriminate].
      apply (IH ((x, e') :: st) ((x, v) :: L)); [| intros y Hy; apply Hloc; right; exact Hy | exact Ht | exact Hp].
      apply Rel_step; [exact HR | apply Hloc; left; reflexivity | eapply tr_sound; eauto |].
      intros s Hs. eapply tr_syms; eauto.
  Qed.

  (** the symbol table's shape alone (no CPython run needed): keys are locals, entries mention parameters *)
  Record Shape (ps locs : list name) (st : symtab V) : Prop := {
    sh_key : forall n e, tlookup n st = Some e -> In n locs;
    sh_sym : forall n e s, tlookup n st = Some e -> In s (syms e) -> In s ps
  }.

  Lemma shape_tr_syms : forall nk G ps locs st e e' s,
      Shape ps locs st -> tr nk G st e = Some e' -> In s (syms e') -> In s ps.
  Proof.
    intros nk G ps locs st e.
    induction e as [k | w | a IHa b IHb | a IHa b IHb | a IHa b IHb]; intros e' s HS Ht Hs; cbn [NameScope.tr] in Ht.
    - unfold NameScope.resolve in Ht. destruct nk; [| | discriminate].
      + destruct (tlookup k st) as [e0 |] eqn:Es.
        * injection Ht as <-. exact (sh_sym _ _ _ HS k e0 s Es Hs).
        * destruct (assoc k G); [| discriminate]. injection Ht as <-. destruct Hs.
      + destruct (assoc k G).
        * injection Ht as <-. destruct Hs.
        * exact (sh_sym _ _ _ HS k e' s Ht Hs).
    - injection Ht as <-. destruct Hs.
    - destruct (tr nk G st a) as [x |] eqn:Ea; [| discriminate].
      destruct (tr nk G st b) as [y |] eqn:Eb; [| discriminate]. injection Ht as <-.
      cbn [CallArity.syms] in Hs. apply in_app_or in Hs. destruct Hs; [eapply IHa | eapply IHb]; eauto.
    - destruct (tr nk G st a) as [x |] eqn:Ea; [| discriminate].
      destruct (tr nk G st b) as [y |] eqn:Eb; [| discriminate]. injection Ht as <-.
      cbn [CallArity.syms] in Hs. apply in_app_or in Hs. destruct Hs; [eapply IHa | eapply IHb]; eauto.
    - destruct (tr nk G st a) as [x |] eqn:Ea; [| discriminate].
      destruct (tr nk G st b) as [y |] eqn:Eb; [| discriminate]. injection Ht as <-.
      cbn [CallArity.syms] in Hs. apply in_app_or in Hs. destruct Hs; [eapply IHa | eapply IHb]; eauto.
  Qed.

  Lemma shape_step : forall ps locs st x e',
      Shape ps locs st -> In x locs -> (forall s, In s (syms e') -> In s ps) -> Shape ps locs ((x, e') :: st).
  Proof.
    intros ps locs st x e' HS Hx Hs. constructor.
    - intros n e H. cbn in H. destruct (N.eqb n x) eqn:E.
      + apply N.eqb_eq in E. subst n. exact Hx.
      + exact (sh_key _ _ _ HS n e H).
    - intros n e s H Hin. cbn in H. destruct (N.eqb n x).
      + injection H as <-. exact (Hs s Hin).
      + exact (sh_sym _ _ _ HS n e s H Hin).
  Qed.

  Lemma shape_body : forall nk G ps locs b st st',
      Shape ps locs st -> (forall x, In x (map fst b) -> In x locs) ->
      tr_body nk G st b = Some st' -> Shape ps locs st'.
  Proof.
    intros nk G ps locs. induction b as [| [x e] b IH]; intros st st' HS Hloc Ht; cbn in Ht.
    - injection Ht as <-. exact HS.
    - destruct (tr nk G st e) as [e' |] eqn:Ee; [| discriminate].
      apply (IH ((x, e') :: st)); [| intros y Hy; apply Hloc; right; exact Hy | exact Ht].
      apply shape_step; [exact HS | apply Hloc; left; reflexivity |].
      intros s Hs. eapply shape_tr_syms; eauto.
  Qed.

  Lemma tlookup_init : forall ps n e, tlookup n (init_tab V ps) = Some e -> e = TSym n /\ In n ps.
  Proof.
    induction ps as [| p ps IH]; intros n e H; cbn in H; [discriminate |].
    destruct (N.eqb n p) eqn:E.
    - apply N.eqb_eq in E. subst p. injection H as <-. split; [reflexivity | left; reflexivity].
    - destruct (IH n e H) as [H1 H2]. split; [exact H1 | right; exact H2].
  Qed.

  Lemma shape_init : forall ps locs, (forall p, In p ps -> In p locs) -> Shape ps locs (init_tab V ps).
  Proof.
    intros ps locs Hl. constructor.
    - intros n e H. apply tlookup_init in H. apply Hl. tauto.
    - intros n e s H Hs. apply tlookup_init in H. destruct H as [-> Hin]. cbn in Hs. destruct Hs as [<- | []]. exact Hin.
  Qed.

  Lemma assoc_combine_init : forall ps (vs : list V) n v,
      assoc n (combine ps vs) = Some v -> tlookup n (init_tab V ps) = Some (TSym n).
  Proof.
    induction ps as [| p ps IH]; intros [| w vs] n v H; cbn in H; try discriminate.
    cbn. destruct (N.eqb n p) eqn:E.
    - apply N.eqb_eq in E. subst p. reflexivity.
    - eapply IH. exact H.
  Qed.

  Lemma Rel_init : forall ps locs (vs : list V),
      (forall p, In p ps -> In p locs) ->
      Rel (env_of_list V (combine ps vs)) ps locs (init_tab V ps) (combine ps vs).
  Proof.
    intros ps locs vs Hl. destruct (shape_init ps locs Hl) as [K S]. constructor.
    - intros n v H. exists (TSym n). split; [eapply assoc_combine_init; exact H |].
      cbn. unfold env_of_list. exact H.
    - exact K.
    - exact S.
  Qed.

  (** SOUNDNESS of name resolution: whenever CPython computes a value for the call, the expression
      fn_to_sympy holds has that value at the parameter values *)
  Theorem scope_sound : forall G f vs e v,
      translate_fn V NkLocalFirst G f = Some e ->
      py_run G f vs = Some v ->
      teval (env_of_list V (combine (sf_params V f) vs)) e = Some v.
  Proof.
    intros G f vs e v Ht Hp. unfold translate_fn in Ht. unfold NameScope.py_run in Hp.
    destruct (negb (Nat.eqb (length vs) (length (sf_params V f)))); [discriminate |].
    destruct (tr_body NkLocalFirst G (init_tab V (sf_params V f)) (sf_body V f)) as [st |] eqn:Eb; [| discriminate].
    destruct (py_body G (local_names V f) (combine (sf_params V f) vs) (sf_body V f)) as [L |] eqn:Ep; [| discriminate].
    assert (HR : Rel (env_of_list V (combine (sf_params V f) vs)) (sf_params V f) (local_names V f) st L).
    { eapply body_sound; [apply Rel_init | | exact Eb | exact Ep].
      - intros p Hin. unfold local_names. apply in_or_app. left. exact Hin.
      - intros x Hin. unfold local_names. apply in_or_app. right. exact Hin. }
    eapply tr_sound; eauto.
  Qed.

  (** the expression mentions the function's own parameters only: neither a local nor a module
      constant survives as a symbol that the emitted code would read from the model *)
  Theorem scope_closed : forall nk G f e s,
      translate_fn V nk G f = Some e -> In s (syms e) -> In s (sf_params V f).
  Proof.
    intros nk G f e s Ht Hs. unfold translate_fn in Ht.
    destruct (tr_body nk G (init_tab V (sf_params V f)) (sf_body V f)) as [st |] eqn:Eb; [| discriminate].
    assert (HS : Shape (sf_params V f) (local_names V f) st).
    { eapply shape_body; [apply shape_init | | exact Eb].
      - intros p Hin. unfold local_names. apply in_or_app. left. exact Hin.
      - intros x Hin. unfold local_names. apply in_or_app. right. exact Hin. }
    eapply shape_tr_syms; eauto.
  Qed.

  (** ... and after the (strict) binding statement the model component's expression has the value
      CPython computes for the function at the values of the model's argument expressions *)
  Theorem scope_sound_bound : forall G f acts r env vs v,
      translate_for V NkLocalFirst BkStrict G f acts = Some r ->
      map_opt (teval env) acts = Some vs ->
      py_run G f vs = Some v ->
      teval env r = Some v.
  Proof.
    intros G f acts r env vs v Ht Hm Hp. unfold translate_for in Ht.
    destruct (translate_fn V NkLocalFirst G f) as [e |] eqn:Ef; [| discriminate].
    apply (bind_strict_inv V) in Ht. destruct Ht as [Hl ->].
    rewrite (teval_subst V vadd vsub vmul).
    rewrite <- (scope_sound G f vs e v Ef Hp). apply (teval_ext V vadd vsub vmul).
    intros n Hn. pose proof (scope_closed _ _ _ _ _ Ef Hn) as Hin.
    pose proof (lookup_args V vadd vsub vmul env (sf_params V f) acts vs Hm n) as Hla.
    unfold env_of_list.
    destruct (CallArity.tlookup V n (combine (sf_params V f) acts)) as [a |] eqn:Ea.
    - exact Hla.
    - destruct (tlookup_combine_some V (sf_params V f) acts n Hl Hin) as [r Hr]. congruence.
  Qed.

  (** the same for the form of the binding statement that skips an EMPTY argument list *)
  Theorem scope_sound_bound_bk : forall bk G f acts r env vs v,
      bk = BkStrict \/ (bk = BkStrictNonEmpty /\ acts <> []) ->
      translate_for V NkLocalFirst bk G f acts = Some r ->
      map_opt (teval env) acts = Some vs ->
      py_run G f vs = Some v ->
      teval env r = Some v.
  Proof.
    intros bk G f acts r env vs v Hbk Ht Hm Hp.
    apply (scope_sound_bound G f acts r env vs v); [| exact Hm | exact Hp].
    destruct Hbk as [-> | [-> Hne]]; [exact Ht |].
    unfold translate_for in Ht |- *. destruct (translate_fn V NkLocalFirst G f); [| discriminate].
    rewrite <- (bind_nonempty V) by exact Hne. exact Ht.
  Qed.

  (** ---- the module constants consulted FIRST (seeded change C07-8) ------------------------ *)
  (** same translation for every function without a name clash *)
  Lemma tr_same : forall G ps locs st e,
      Shape ps locs st ->
      (forall n, In n locs -> assoc n G = None) ->
      tr NkGlobalFirst G st e = tr NkLocalFirst G st e.
  Proof.
    intros G ps locs st e HS Hno.
    induction e as [k | w | a IHa b IHb | a IHa b IHb | a IHa b IHb]; cbn [NameScope.tr].
    - unfold NameScope.resolve. destruct (tlookup k st) as [e0 |] eqn:Es.
      + rewrite (Hno k (sh_key _ _ _ HS k e0 Es)). reflexivity.
      + destruct (assoc k G); reflexivity.
    - reflexivity.
    - rewrite IHa, IHb. reflexivity.
    - rewrite IHa, IHb. reflexivity.
    - rewrite IHa, IHb. reflexivity.
  Qed.

  Lemma tr_body_same : forall G ps locs b st,
      Shape ps locs st ->
      (forall n, In n locs -> assoc n G = None) ->
      (forall x, In x (map fst b) -> In x locs) ->
      tr_body NkGlobalFirst G st b = tr_body NkLocalFirst G st b.
  Proof.
    intros G ps locs. induction b as [| [x e] b IH]; intros st HS Hno Hloc; cbn; [reflexivity |].
    rewrite (tr_same G ps locs st e HS Hno).
    destruct (tr NkLocalFirst G st e) as [e' |] eqn:Ee; [| reflexivity].
    apply IH; [| exact Hno | intros y Hy; apply Hloc; right; exact Hy].
    apply shape_step; [exact HS | apply Hloc; left; reflexivity |].
    intros s Hs. eapply shape_tr_syms; eauto.
  Qed.

  Lemma no_clash_spec : forall G f, no_clash V G f = true -> forall n, In n (local_names V f) -> assoc n G = None.
  Proof.
    intros G f H n Hin. unfold no_clash in H. rewrite forallb_forall in H. specialize (H n Hin).
    destruct (assoc n G); [discriminate | reflexivity].
  Qed.

  Theorem global_first_same : forall G f,
      no_clash V G f = true ->
      translate_fn V NkGlobalFirst G f = translate_fn V NkLocalFirst G f.
  Proof.
    intros G f Hc. pose proof (no_clash_spec G f Hc) as Hno. unfold translate_fn.
    assert (Hp : forall p, In p (sf_params V f) -> In p (local_names V f)) by (intros p Hin; unfold local_names; apply in_or_app; left; exact Hin).
    assert (Hb : forall x, In x (map fst (sf_body V f)) -> In x (local_names V f)) by (intros p Hin; unfold local_names; apply in_or_app; right; exact Hin).
    rewrite (tr_body_same G (sf_params V f) (local_names V f) (sf_body V f) _ (shape_init _ _ Hp) Hno Hb).
    destruct (tr_body NkLocalFirst G (init_tab V (sf_params V f)) (sf_body V f)) as [st |] eqn:Eb; [| reflexivity].
    apply (tr_same G (sf_params V f) (local_names V f)); [| exact Hno].
    eapply shape_body; [apply shape_init; exact Hp | exact Hb | exact Eb].
  Qed.
End Proofs.
