(** C07 -- proofs about the explicit zero line (model: RustLit.v).

    [zero_lines_float_ok]      with the literal "0.0" every explicit-zero line is well typed in every
                               language, for every model
    [printed_zero_rust_refuted] with the empty sum sent through the printer, EVERY model that has an
                               equation and a variable no reaction acts on gets a Rust text with an
                               ill-typed line -- while the Python / TypeScript lines stay well typed
                               (which is why executing those two does not show it) *)
From Coq Require Import List NArith Bool.
From MxlBase Require Import ListX.
From Codegen Require Import Codegen CodegenSpec CodegenProofs RustLit.
Import ListNotations.

Section Proofs.
  Variable V : Type.

  Lemma zero_lines_float_ok : forall L F (m : cmodel V), zero_lines_ok V ZlFloat L F m = true.
  Proof.
    intros L F m. unfold zero_lines_ok. apply forallb_forall. intros x _. destruct L; reflexivity.
  Qed.

  Lemma keys_fold : forall (es : list (name * (name * coef V))) de y,
      In y (map fst (fold_left (fun de e => add_term V de (fst e) (snd e)) es de))
      <-> In y (map fst de) \/ In y (map fst es).
  Proof.
    induction es as [| [x t] es IH]; intros de y; cbn [fold_left map fst snd].
    - cbn. tauto.
    - rewrite IH, keys_add_term. cbn. split; intros H; intuition (subst; auto).
  Qed.

  (** an untouched variable next to an equation has an explicit-zero line *)
  Lemma untouched_has_zero_line : forall F (m : cmodel V) x,
      f_untouched F = UtZero -> HasEquation V m -> In x (m_var m) -> stoich_terms V m x = [] ->
      In x (zero_vars V F m (build_diff V (entries V m))).
  Proof.
    intros F m x HF (n & f & a & st & z & c & H1 & H2) Hx Hun.
    destruct (build_diff_spec V (entries V m)) as (_ & Hde1 & Hde2).
    apply zero_vars_all; [exact HF | | exact Hx |].
    - assert (Hin : In (n, c) (terms V (entries V m) z)) by (apply In_terms, In_entries; now exists f, a, st).
      assert (Hn : terms V (entries V m) z <> []) by (intros E; rewrite E in Hin; destruct Hin).
      specialize (Hde2 z Hn). intros E. rewrite E in Hde2. destruct Hde2.
    - intros Hk. unfold build_diff in Hk. apply keys_fold in Hk. destruct Hk as [[] | Hk].
      apply in_map_iff in Hk. destruct Hk as [[x' [r c']] [E Hk]]. cbn in E. subst x'.
      apply In_terms in Hk. rewrite terms_entries, Hun in Hk. destruct Hk.
  Qed.

  Theorem printed_zero_rust_refuted : forall F (m : cmodel V) x,
      f_untouched F = UtZero -> HasEquation V m -> In x (m_var m) -> stoich_terms V m x = [] ->
      zero_lines_ok V ZlPrinted Rs F m = false
      /\ zero_lines_ok V ZlPrinted Py F m = true /\ zero_lines_ok V ZlPrinted Ts F m = true.
  Proof.
    intros F m x HF HE Hx Hun. pose proof (untouched_has_zero_line F m x HF HE Hx Hun) as Hin.
    unfold zero_lines_ok. split; [| split; apply forallb_forall; intros; reflexivity].
    destruct (forallb (fun _ : name => zero_line_ok ZlPrinted Rs) (zero_vars V F m (build_diff V (entries V m)))) eqn:E; [| reflexivity].
    rewrite forallb_forall in E. specialize (E x Hin). discriminate.
  Qed.

  (** the other direction: without such a variable (or without any equation) the printed form changes nothing *)
  Theorem printed_zero_invisible : forall L F (m : cmodel V),
      (forall x, In x (m_var m) -> stoich_terms V m x <> []) ->
      zero_lines_ok V ZlPrinted L F m = true.
  Proof.
    intros L F m Hall. unfold zero_lines_ok. apply forallb_forall. intros x Hin. exfalso.
    apply zero_vars_In in Hin. destruct Hin as [Hx Hk]. apply Hk.
    destruct (build_diff_spec V (entries V m)) as (_ & _ & Hde2).
    apply in_map_iff. exists (x, terms V (entries V m) x). split; [reflexivity |].
    apply Hde2. rewrite terms_entries. apply Hall. exact Hx.
  Qed.
End Proofs.
