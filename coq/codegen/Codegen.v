(** C07 -- executable model of src/mxlpy/meta/codegen_model.py (no proofs in this file).

    [generate] mirrors [_generate_model_code] statement by statement; the per-language templates
    and the facts that the repairs change (emission order, copy of the cached parameter dict;
    proposed, both forms modelled: assignment-defined parameters dropped / emitted with the value
    the model holds, variables without a reaction dropped / given an explicit zero) are a [facts]
    record REGENERATED from /repo's source (GenCodegenFacts.v).
    The target is a straight-line program; [exec] is its meaning in the four target languages
    (what CPython / node / rustc / Julia do with the emitted text), including the failure
    classes the code can really produce: use of an unbound name, a scalar instead of a vector,
    text that is not well-formed in the language.

    Everything is generic in the value type [V] (no ring laws are used anywhere: the program
    performs literally the operations of the specification); the correspondence instantiates
    [V := Q].  What SymPy does is NOT modelled: the translation of one Python function to an
    inlined target expression is the Section variable [isem] (its soundness is property C06 and
    enters the theorems as a hypothesis), and a stoichiometric sum is an AST node of its own. *)
From Coq Require Import List NArith Bool.
From MxlBase Require Import ListX.
Import ListNotations.

Definition name := N.
Definition fnid := N.
(** the harness encodes "time" as 0 and "nXXXX" as XXXX *)
Definition tname : name := 0%N.

Inductive lang := Py | Ts | Rs | Jl.

(** names of the target program: a model name, [d<x>dt], or the literal [k] of a template that
    ignores its [{k}] field *)
Inductive pname := PN (n : name) | PD (n : name) | PK.

Definition pname_eqb (a b : pname) : bool :=
  match a, b with
  | PN x, PN y => N.eqb x y
  | PD x, PD y => N.eqb x y
  | PK, PK => true
  | _, _ => false
  end.

(** ---- facts extracted from the source ------------------------------------------------- *)
Inductive asg_kind := AsgName | AsgLitK | AsgUnknown.
(** [DsList]: [a, b] = variables (a pattern for any number of names);
    [DsBare]: a, b = variables (one name binds the WHOLE vector);
    [DsSplat]: a, b = *variables (not an expression in Julia) *)
Inductive ds_kind := DsList | DsBare | DsSplat | DsUnknown.
Inductive ret_kind := RetBare | RetBracket | RetUnknown.
Record lang_facts := mkLF { lf_asg : asg_kind; lf_ds : ds_kind; lf_ret : ret_kind; lf_sized : bool }.
Inductive order_kind := OrdDecl | OrdDep | OrdUnknown.
(** parameters defined by an initial assignment: not emitted at all (the snapshot: only
    get_parameter_values() is emitted) / emitted with the value the model holds for them
    (fixes/C07-assigned-parameter-value.diff: every parameter name missing from the dict is added
    from the cache's all_parameter_values) *)
Inductive ia_kind := IaDropped | IaFrozen | IaUnknown.
(** variables no reaction acts on: dropped from the returned list (the snapshot) / given an explicit
    zero line whenever diff_eqs is not empty (fixes/C07-untouched-variable-zero.diff) *)
Inductive ut_kind := UtDropped | UtZero | UtUnknown.
Record facts := mkFacts {
  f_py : lang_facts; f_ts : lang_facts; f_rs : lang_facts; f_jl : lang_facts;
  f_order : order_kind;      (* derived/reactions emitted in declaration or in dependency order *)
  f_copy : bool;             (* the cached parameter dict is copied before [pop] *)
  f_shape_ok : bool;         (* every other statement of _generate_model_code is the modelled one *)
  f_stoich_ok : bool;        (* stoichiometries_to_sympy is the modelled one *)
  f_printers_ok : bool;      (* sympy_to_inline_{py,js,rust,julia} call the matching printer *)
  f_ia : ia_kind;            (* what happens to assignment-defined parameters *)
  f_untouched : ut_kind      (* what happens to variables without a reaction *)
}.
Definition lf_of (F : facts) (L : lang) : lang_facts :=
  match L with Py => f_py F | Ts => f_ts F | Rs => f_rs F | Jl => f_jl F end.

Section Sem.
  Variable V : Type.
  Variable vzero : V.
  Variables vadd vmul : V -> V -> V.
  (** meaning of the target-language expression that fn_to_sympy + the SymPy printer produce for
      function [f] (applied to the values of its argument names); [None] = undefined there *)
  Variable isem : lang -> fnid -> list V -> option V.
  (** does fn_to_sympy return an expression for [f]? *)
  Variable translates : fnid -> bool.

  Inductive coef := CStat (q : V) | CDyn (f : fnid) (args : list name).
  Inductive rhs :=
  | RConst (v : V)
  | RInl (f : fnid) (args : list name)
  | RSum (terms : list (name * coef)).      (* sum over (reaction, coefficient) *)

  Record program := mkProg {
    g_free : list name;                 (* extra inputs after (time, variables) *)
    g_n : nat;                          (* the {n} of a sized header *)
    g_vars : list name;                 (* names of the destructuring line ([] = no such line) *)
    g_body : list (pname * rhs);
    g_ret : list pname;
    g_unit : bool                       (* the return list is the literal "()" *)
  }.

  (** ---- the model description (surrogate-free) ------------------------------------- *)
  (** a parameter: (assignment-defined?, value held by the model -- for an assignment-defined
      parameter the value resolved at time 0, which get_parameter_values() does NOT contain) *)
  Record cmodel := mkCM {
    m_par : list (name * (bool * V));
    m_var : list name;
    m_der : list (name * (fnid * list name));
    m_rxn : list (name * (fnid * list name * list (name * coef)))
  }.

  Inductive gres :=
  | GOk (p : program)
  | GErrKey              (* parameters.pop(free) : KeyError *)
  | GErrUntrans          (* "Unable to parse fn for ..." : ValueError *)
  | GErrUntransCoef      (* None * Symbol in stoichiometries_to_sympy : TypeError *)
  | GErrFacts.           (* the source no longer has the modelled shape *)

  Fixpoint assoc {A} (k : name) (l : list (name * A)) : option A :=
    match l with
    | [] => None
    | (k', v) :: r => if N.eqb k k' then Some v else assoc k r
    end.

  Fixpoint remove_key {A} (k : name) (l : list (name * A)) : list (name * A) :=
    match l with
    | [] => []
    | (k', v) :: r => if N.eqb k k' then r else (k', v) :: remove_key k r
    end.

  (** get_parameter_values(): the cache's base_parameter_values (plain parameters only) *)
  Definition base_params (m : cmodel) : list (name * V) :=
    flat_map (fun e : name * (bool * V) => if fst (snd e) then [] else [(fst e, snd (snd e))]) (m_par m).

  (** for name in model.get_parameter_names(): if name not in parameters: parameters[name] =
      all_parameter_values[name]   -- the entries of [m_par] (dict keys: unique names) whose name
      is not a key of the dict, in declaration order, with the value the model holds *)
  Definition missing_params (m : cmodel) (d : list (name * V)) : list (name * V) :=
    flat_map (fun e : name * (bool * V) =>
                if existsb (N.eqb (fst e)) (map fst d) then [] else [(fst e, snd (snd e))]) (m_par m).

  Definition emitted_params (F : facts) (m : cmodel) (d : list (name * V)) : list (name * V) :=
    match f_ia F with IaFrozen => d ++ missing_params m d | _ => d end.

  (** for key in free_parameters: parameters.pop(key)   -- [None] = KeyError; the second
      component is the dict as the loop left it (it is the CACHED dict unless copied) *)
  Fixpoint pop_all (free : list name) (d : list (name * V)) : bool * list (name * V) :=
    match free with
    | [] => (true, d)
    | k :: r => match assoc k d with
                | None => (false, d)
                | Some _ => pop_all r (remove_key k d)
                end
    end.

  Definition lhs_of (lf : lang_facts) (k : pname) : pname :=
    match lf_asg lf with AsgLitK => PK | _ => k end.

  (** the sequence of (name, fn, args) the two emission loops go through *)
  Definition comps_decl (m : cmodel) : list (name * (fnid * list name)) :=
    m_der m ++ map (fun e => match e with (n, (f, a, _)) => (n, (f, a)) end) (m_rxn m).

  Definition rxn_comp (m : cmodel) (n : name) : option (fnid * list name) :=
    match assoc n (m_rxn m) with Some (f, a, _) => Some (f, a) | None => None end.

  Definition comps_of_order (m : cmodel) (order : list name) : list (name * (fnid * list name)) :=
    flat_map (fun n => match assoc n (m_der m) with
                       | Some fa => [(n, fa)]
                       | None => match rxn_comp m n with Some fa => [(n, fa)] | None => [] end
                       end) order.

  Definition emit_list (F : facts) (m : cmodel) (order : list name) : list (name * (fnid * list name)) :=
    match f_order F with
    | OrdDep => comps_of_order m order
    | _ => comps_decl m
    end.

  (** None = the first function that does not translate raises *)
  Fixpoint emit_comps (lf : lang_facts) (cs : list (name * (fnid * list name))) : option (list (pname * rhs)) :=
    match cs with
    | [] => Some []
    | (n, (f, a)) :: r =>
      if translates f then
        match emit_comps lf r with
        | Some b => Some ((lhs_of lf (PN n), RInl f a) :: b)
        | None => None
        end
      else None
    end.

  (** diff_eqs.setdefault(var, {})[rxn] = factor, over reactions and their stoichiometries *)
  Definition entries (m : cmodel) : list (name * (name * coef)) :=
    flat_map (fun e => match e with (r, (_, _, st)) => map (fun vc => (fst vc, (r, snd vc))) st end) (m_rxn m).

  Fixpoint add_term (de : list (name * list (name * coef))) (x : name) (t : name * coef)
    : list (name * list (name * coef)) :=
    match de with
    | [] => [(x, [t])]
    | (y, ts) :: r => if N.eqb x y then (y, ts ++ [t]) :: r else (y, ts) :: add_term r x t
    end.

  Definition build_diff (es : list (name * (name * coef))) : list (name * list (name * coef)) :=
    fold_left (fun de e => add_term de (fst e) (snd e)) es [].

  Definition coef_ok (c : coef) : bool :=
    match c with CStat _ => true | CDyn f _ => translates f end.

  Definition diffs_ok (de : list (name * list (name * coef))) : bool :=
    forallb (fun e => forallb (fun t => coef_ok (snd t)) (snd e)) de.

  (** if len(diff_eqs) > 0: for variable in variables: if variable not in diff_eqs:
        diff_eqs[variable] = {}; emit "d<variable>dt = 0.0"       (only with [UtZero]) *)
  Definition zero_vars (F : facts) (m : cmodel) (de : list (name * list (name * coef))) : list name :=
    match f_untouched F, de with
    | UtZero, _ :: _ => filter (fun v => negb (existsb (N.eqb v) (map fst de))) (m_var m)
    | _, _ => []
    end.

  (** diff_eqs as the return statement sees it: an untouched variable has the empty sum *)
  Definition full_diff (F : facts) (m : cmodel) (de : list (name * list (name * coef)))
    : list (name * list (name * coef)) :=
    de ++ map (fun v => (v, [])) (zero_vars F m de).

  Definition facts_usable (F : facts) (L : lang) : bool :=
    f_shape_ok F && f_stoich_ok F && f_printers_ok F
    && match f_ia F with
       | IaUnknown => false
       | IaFrozen => f_copy F      (* the additions would otherwise go into the model's cached dict *)
       | IaDropped => true
       end
    && match f_untouched F with UtUnknown => false | _ => true end
    && match f_order F with OrdUnknown => false | _ => true end
    && match lf_asg (lf_of F L) with AsgUnknown => false | _ => true end
    && match lf_ds (lf_of F L) with DsUnknown => false | _ => true end
    && match lf_ret (lf_of F L) with RetUnknown => false | _ => true end.

  (** [cached] is the dict that Model.get_parameter_values() hands out (the cache's own dict) *)
  Definition generate_from (F : facts) (L : lang) (m : cmodel) (order free : list name)
             (cached : list (name * V)) : gres :=
    let lf := lf_of F L in
    if negb (facts_usable F L) then GErrFacts else
    match pop_all free (emitted_params F m cached) with
    | (false, _) => GErrKey
    | (true, pars) =>
      match emit_comps lf (emit_list F m order) with
      | None => GErrUntrans
      | Some comps =>
        let de0 := build_diff (entries m) in
        if negb (diffs_ok de0) then GErrUntransCoef else
        let de := full_diff F m de0 in
        let ret_order := filter (fun v => existsb (N.eqb v) (map fst de)) (m_var m) in
        GOk (mkProg free (length (m_var m)) (m_var m)
               (map (fun e => (lhs_of lf (PN (fst e)), RConst (snd e))) pars
                ++ comps
                ++ map (fun e => (lhs_of lf (PD (fst e)), RSum (snd e))) de)
               (map PD ret_order)
               (match de with [] => true | _ => false end))
      end
    end.

  (** the first request on a model whose cache holds the plain parameters *)
  Definition generate (F : facts) (L : lang) (m : cmodel) (order free : list name) : gres :=
    generate_from F L m order free (base_params m).

  (** what get_parameter_values() returns AFTER the call (the cached dict).  The dependency-order
      loop reads [model._create_cache().order], which builds a NEW cache after the pops: whatever
      was popped from the old cache's dict is gone with it *)
  Definition cache_after (F : facts) (m : cmodel) (free : list name) : list (name * V) :=
    if f_copy F || match f_order F with OrdDep => true | _ => false end
    then base_params m else snd (pop_all free (base_params m)).

  (** the same request a second time on the same model object *)
  Definition generate_again (F : facts) (L : lang) (m : cmodel) (order free : list name) : gres :=
    generate_from F L m order free (cache_after F m free).

  (** ---- meaning of the emitted text ------------------------------------------------- *)
  Inductive slot := SVal (v : V) | SVec.      (* SVec: the whole input vector bound to one name *)
  Definition penv := list (pname * slot).

  Fixpoint plookup (k : pname) (e : penv) : option slot :=
    match e with
    | [] => None
    | (k', s) :: r => if pname_eqb k k' then Some s else plookup k r
    end.

  Inductive outcome :=
  | ROk (vs : list V)      (* a vector *)
  | RScalar (v : V)        (* a bare number where a vector is required *)
  | RNone                  (* `return ` with nothing *)
  | RErrUnbound            (* NameError / UnboundLocalError / ReferenceError / E0425 / UndefVarError *)
  | RErrVec                (* arithmetic on the name that holds the whole vector *)
  | RErrArity              (* wrong number of inputs *)
  | RErrFn                 (* an inlined expression is undefined at these values *)
  | RJunk                  (* a list whose entries are not numbers: Python's `return [()]` *)
  | RIllFormed.            (* the text is not a program of the language *)

  Inductive err := EUnbound | EVec | EFn.
  Definition out_of_err (e : err) : outcome :=
    match e with EUnbound => RErrUnbound | EVec => RErrVec | EFn => RErrFn end.

  Definition look (e : penv) (k : pname) : V + err :=
    match plookup k e with
    | Some (SVal v) => inl v
    | Some SVec => inr EVec
    | None => inr EUnbound
    end.

  Fixpoint looks (e : penv) (ks : list pname) : list V + err :=
    match ks with
    | [] => inl []
    | k :: r => match look e k with
                | inr x => inr x
                | inl v => match looks e r with inr x => inr x | inl vs => inl (v :: vs) end
                end
    end.

  Definition eval_inl (L : lang) (e : penv) (f : fnid) (args : list name) : V + err :=
    match looks e (map PN args) with
    | inr x => inr x
    | inl vs => match isem L f vs with Some v => inl v | None => inr EFn end
    end.

  Definition eval_coef (L : lang) (e : penv) (c : coef) : V + err :=
    match c with CStat q => inl q | CDyn f args => eval_inl L e f args end.

  Fixpoint eval_sum (L : lang) (e : penv) (acc : V) (ts : list (name * coef)) : V + err :=
    match ts with
    | [] => inl acc
    | (r, c) :: rest =>
      match eval_coef L e c with
      | inr x => inr x
      | inl cv => match look e (PN r) with
                  | inr x => inr x
                  | inl rv => eval_sum L e (vadd acc (vmul cv rv)) rest
                  end
      end
    end.

  Definition eval_rhs (L : lang) (e : penv) (r : rhs) : V + err :=
    match r with
    | RConst v => inl v
    | RInl f args => eval_inl L e f args
    | RSum ts => eval_sum L e vzero ts
    end.

  Fixpoint run_body (L : lang) (e : penv) (b : list (pname * rhs)) : penv + err :=
    match b with
    | [] => inl e
    | (k, r) :: rest =>
      match eval_rhs L e r with
      | inr x => inr x
      | inl v => run_body L ((k, SVal v) :: e) rest
      end
    end.

  Fixpoint bind_all (ks : list name) (vs : list V) (e : penv) : option penv :=
    match ks, vs with
    | [], [] => Some e
    | k :: kr, v :: vr => bind_all kr vr ((PN k, SVal v) :: e)
    | _, _ => None
    end.

  (** the destructuring line *)
  Definition bind_vars (lf : lang_facts) (ks : list name) (y : list V) (e : penv) : option penv :=
    match ks with
    | [] => Some e                                 (* no line is emitted: any input is accepted *)
    | [k] => match lf_ds lf with
             | DsBare => Some ((PN k, SVec) :: e)
             | _ => bind_all ks y e
             end
    | _ => bind_all ks y e
    end.

  (** text-level well-formedness (decided before anything runs) *)
  Definition static_ok (lf : lang_facts) (L : lang) (p : program) : bool :=
    match lf_ds lf with
    | DsSplat => match g_vars p with [] => true | _ => false end
    | DsUnknown => false
    | _ => true
    end
    && match lf_ret lf with
       | RetBracket => negb (g_unit p)          (* "[()]" is not an expression of TS / a [f64; n] of Rust ... *)
                       || match L with Py => true | _ => false end   (* ... but a list holding a tuple in Python *)
       | RetBare => true
       | RetUnknown => false
       end
    && match L with
       | Rs => Nat.eqb (length (g_ret p)) (g_n p) || g_unit p   (* -> [f64; n] is type-checked *)
       | _ => true
       end.

  (** running the text, well-formedness aside *)
  Definition exec_run (F : facts) (L : lang) (p : program) (t : V) (y fv : list V) : outcome :=
    let lf := lf_of F L in
    match bind_all (g_free p) fv [(PN tname, SVal t)] with
    | None => RErrArity
    | Some e0 =>
      match bind_vars lf (g_vars p) y e0 with
      | None => RErrArity
      | Some e1 =>
        match run_body L e1 (g_body p) with
        | inr x => out_of_err x
        | inl e2 =>
          if g_unit p then
            match lf_ret lf with
            | RetBracket => RJunk                   (* `return [()]` (reached in Python only) *)
            | _ => ROk []                           (* `return ()` *)
            end
          else match looks e2 (g_ret p) with
               | inr x => out_of_err x
               | inl vs =>
                 match lf_ret lf, vs with
                 | RetBare, [] => RNone
                 | RetBare, [v] => RScalar v
                 | _, _ => ROk vs
                 end
               end
        end
      end
    end.

  (** a text that is not a program of the language is rejected before anything runs.  (Rust: a text
      that is ill-typed in the sense of [static_ok] AND reads a name it never declares gets E0425
      and/or E0308 from rustc depending on which diagnostics it suppresses; that overlap of two
      recorded findings is not modelled -- the harness does not compare the outcome class there) *)
  Definition exec (F : facts) (L : lang) (p : program) (t : V) (y fv : list V) : outcome :=
    if negb (static_ok (lf_of F L) L p) then RIllFormed else exec_run F L p t y fv.
End Sem.

Arguments CStat {V} _.
Arguments CDyn {V} _ _.
Arguments RConst {V} _.
Arguments RInl {V} _ _.
Arguments RSum {V} _.
Arguments mkProg {V} _ _ _ _ _ _.
Arguments mkCM {V} _ _ _ _.
Arguments GOk {V} _.
Arguments GErrKey {V}.
Arguments GErrUntrans {V}.
Arguments GErrUntransCoef {V}.
Arguments GErrFacts {V}.
Arguments ROk {V} _.
Arguments RScalar {V} _.
Arguments RNone {V}.
Arguments RErrUnbound {V}.
Arguments RErrVec {V}.
Arguments RErrArity {V}.
Arguments RErrFn {V}.
Arguments RJunk {V}.
Arguments RIllFormed {V}.
Arguments m_par {V} _.
Arguments m_var {V} _.
Arguments m_der {V} _.
Arguments m_rxn {V} _.
Arguments g_free {V} _.
Arguments g_n {V} _.
Arguments g_vars {V} _.
Arguments g_body {V} _.
Arguments g_ret {V} _.
Arguments g_unit {V} _.
Arguments SVal {V} _.
Arguments SVec {V}.
