(** C07 -- "a function that cannot be translated makes generation raise instead of emitting code
    that computes something else": executable model of the ARGUMENT BINDING of
    src/mxlpy/meta/source_tools.py::fn_to_sympy (no proofs in this file).

      fn_args = [str(arg.arg) for arg in fn_def.args.args]      (positional parameters, WITH or
                                                                 without a default; no keyword-only
                                                                 parameter, no *args)
      sympy_expr = <translation of the body over the symbols fn_args>
                   (any other name: a KeyError out of the global-name lookup)
      if model_args is not None [and len(model_args)]:
          sympy_expr = sympy_expr.subs(dict(zip(fn_args, model_args[, strict=True])), simultaneous=True)

    The same statement binds the arguments of a model component (model_args = the symbols of its
    argument names) and, through _handle_call's recursion, the arguments of a nested call
    (model_args = the translated argument expressions).  fn_to_sympy knows nothing about default
    values: a call that relies on one must be REFUSED (strict zip: ValueError -> None -> generation
    raises), or the unsupplied parameter stays in the expression as a bare symbol that reads whatever
    model component carries that name.  Which form the statement has is the regenerated fact
    [bind_kind] (GenCodegenFacts.v):

      BkStrict           if model_args is not None:  zip(..., strict=True)
                         (fixes/C07-empty-argument-list-strict.diff)
      BkStrictNonEmpty   if model_args is not None and len(model_args):  zip(..., strict=True)
                         -- an EMPTY argument list skips the binding altogether
      BkLaxNonEmpty      ... and len(model_args):  zip(...) without strict   (seeded change C07-6)

    Python's own call semantics (defaults filled in, *args swallowing the surplus, keyword-only
    parameters at their defaults) is [py_call]. *)
From Coq Require Import List NArith Bool.
From MxlBase Require Import ListX.
From Codegen Require Import Codegen CodegenSpec.
Import ListNotations.

Inductive bind_kind := BkStrict | BkStrictNonEmpty | BkLaxNonEmpty | BkUnknown.

Section Bind.
  Variable V : Type.
  Variables vadd vsub vmul : V -> V -> V.

  (** translated expressions (what SymPy holds): symbols, numbers, the three operations the
      function table uses *)
  Inductive texp :=
  | TSym (n : name)
  | TNum (v : V)
  | TAdd (a b : texp)
  | TSub (a b : texp)
  | TMul (a b : texp).

  Fixpoint syms (e : texp) : list name :=
    match e with
    | TSym n => [n]
    | TNum _ => []
    | TAdd a b | TSub a b | TMul a b => syms a ++ syms b
    end.

  Fixpoint tlookup (k : name) (s : list (name * texp)) : option texp :=
    match s with
    | [] => None
    | (k', v) :: r => if N.eqb k k' then Some v else tlookup k r
    end.

  (** expr.subs(dict, simultaneous=True) *)
  Fixpoint subst (s : list (name * texp)) (e : texp) : texp :=
    match e with
    | TSym n => match tlookup n s with Some r => r | None => TSym n end
    | TNum v => TNum v
    | TAdd a b => TAdd (subst s a) (subst s b)
    | TSub a b => TSub (subst s a) (subst s b)
    | TMul a b => TMul (subst s a) (subst s b)
    end.

  (** value of an expression where every symbol reads the component of that name ([None]: an
      undefined name -- NameError / ReferenceError / E0425 in the emitted text) *)
  Fixpoint teval (env : name -> option V) (e : texp) : option V :=
    match e with
    | TSym n => env n
    | TNum v => Some v
    | TAdd a b => match teval env a, teval env b with Some x, Some y => Some (vadd x y) | _, _ => None end
    | TSub a b => match teval env a, teval env b with Some x, Some y => Some (vsub x y) | _, _ => None end
    | TMul a b => match teval env a, teval env b with Some x, Some y => Some (vmul x y) | _, _ => None end
    end.

  (** the binding statement; [None] = ValueError of the strict zip (fn_to_sympy returns None) *)
  Definition bind (bk : bind_kind) (fn_args : list name) (body : texp) (margs : option (list texp))
    : option texp :=
    match margs with
    | None => Some body
    | Some acts =>
      let strict := if Nat.eqb (length fn_args) (length acts)
                    then Some (subst (combine fn_args acts) body) else None in
      match bk with
      | BkStrict => strict
      | BkStrictNonEmpty => match acts with [] => Some body | _ => strict end
      | BkLaxNonEmpty => match acts with [] => Some body | _ => Some (subst (combine fn_args acts) body) end
      | BkUnknown => None
      end
    end.

  (** a Python function whose body is an expression over its own parameters (nested calls are
      spliced in by [entry] below) *)
  Record pyfn := mkPyFn {
    pf_req : list name;             (* positional parameters without a default *)
    pf_opt : list (name * V);       (* positional parameters with a default (they come last) *)
    pf_kw : list (name * V);        (* keyword-only parameters (with defaults) *)
    pf_star : bool;                 (* *args *)
    pf_body : texp
  }.

  (** ast `args.args` *)
  Definition fn_args (f : pyfn) : list name := pf_req f ++ map fst (pf_opt f).

  (** every name of the body is a key of the symbol table; otherwise _handle_name's lookup among
      the module's float globals raises KeyError (the table's module has no float globals) *)
  Definition body_known (f : pyfn) : bool :=
    forallb (fun n => existsb (N.eqb n) (fn_args f)) (syms (pf_body f)).

  (** fn_to_sympy(f, model_args=acts): [None] = refused *)
  Definition translate_call (bk : bind_kind) (f : pyfn) (acts : list texp) : option texp :=
    if body_known f then bind bk (fn_args f) (pf_body f) (Some acts) else None.

  (** ---- what CPython does with the call of f with the positional arguments vs ----------------------------------------- *)
  Fixpoint fill_opt (opt : list (name * V)) (extra : list V) : list (name * V) :=
    match opt, extra with
    | [], _ => []
    | (n, d) :: r, [] => (n, d) :: fill_opt r []
    | (n, _) :: r, v :: vr => (n, v) :: fill_opt r vr
    end.

  (** the local namespace of the call; [None] = TypeError (too few / too many arguments) *)
  Definition py_bind (f : pyfn) (vs : list V) : option (list (name * V)) :=
    let nr := length (pf_req f) in
    if Nat.ltb (length vs) nr then None else
    let extra := skipn nr vs in
    if Nat.ltb (length (pf_opt f)) (length extra) && negb (pf_star f) then None else
    Some (combine (pf_req f) (firstn nr vs) ++ fill_opt (pf_opt f) extra ++ pf_kw f).

  Definition env_of_list (l : list (name * V)) : name -> option V := fun n => assoc n l.

  Definition py_call (f : pyfn) (vs : list V) : option V :=
    match py_bind f vs with
    | None => None
    | Some l => teval (env_of_list l) (pf_body f)
    end.

  (** ---- a table entry: a function of the model, optionally calling ONE helper ---------- *)
  (** the caller's body mentions the helper call as the symbol [hole] *)
  Definition hole : name := 9999%N.

  Record entry := mkEntry {
    en_fn : pyfn;                                (* the function handed to the model *)
    en_call : option (pyfn * list texp);         (* the helper it calls, with the argument expressions *)
    en_nargs : list name                         (* the argument names the MODEL passes *)
  }.

  Definition has_call (e : entry) : bool := match en_call e with Some _ => true | None => false end.
  Definition call_acts (e : entry) : list texp := match en_call e with Some (_, a) => a | None => [] end.

  (** every name the caller's body and the helper's argument expressions read is a parameter of
      the caller (otherwise: KeyError out of the global-name lookup) *)
  Definition outer_known (e : entry) : bool :=
    forallb (fun n => existsb (N.eqb n) (fn_args (en_fn e)) || (has_call e && N.eqb n hole))
            (syms (pf_body (en_fn e)))
    && forallb (fun a => forallb (fun n => existsb (N.eqb n) (fn_args (en_fn e))) (syms a)) (call_acts e).

  (** fn_to_sympy(fn, model_args = symbols of the model's argument names) *)
  Definition translate_entry (bk : bind_kind) (e : entry) : option texp :=
    if negb (outer_known e) then None else
    match en_call e with
    | None => bind bk (fn_args (en_fn e)) (pf_body (en_fn e)) (Some (map TSym (en_nargs e)))
    | Some (k, acts) =>
      match translate_call bk k acts with
      | None => None
      | Some r =>
        (* the helper's result is part of the caller's expression BEFORE the caller's own
           parameters are replaced: a symbol the helper left behind is replaced too when the
           caller has a parameter of that name *)
        bind bk (fn_args (en_fn e)) (subst [(hole, r)] (pf_body (en_fn e))) (Some (map TSym (en_nargs e)))
      end
    end.

  (** what the model computes for the component: the Python call, the helper called first *)
  Definition py_entry (e : entry) (vs : list V) : option V :=
    match en_call e with
    | None => py_call (en_fn e) vs
    | Some (k, acts) =>
      match py_bind (en_fn e) vs with
      | None => None
      | Some l =>
        match map_opt (teval (env_of_list l)) acts with
        | None => None
        | Some kvs =>
          match py_call k kvs with
          | None => None
          | Some hv => teval (env_of_list ((hole, hv) :: l)) (pf_body (en_fn e))
          end
        end
      end
    end.
End Bind.

Arguments TSym {V} _.
Arguments TNum {V} _.
Arguments TAdd {V} _ _.
Arguments TSub {V} _ _.
Arguments TMul {V} _ _.
Arguments mkPyFn {V} _ _ _ _ _.
Arguments mkEntry {V} _ _ _.
