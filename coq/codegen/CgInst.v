(** C07 -- the executable instance used by the correspondence check: values are rationals,
    functions are the table of harness/c07_fns.py (same ids, same meaning; ids 19..27 have local
    assignments and branch-local reassignment, written here as the let/if they mean).  No proofs here.

    In this instance the inlined expression of a translatable function means what the Python
    function means ([isemQ := fsemQ] on translatable ids): that is exactly hypothesis C06 of the
    theorems; executing the REAL emitted text in CPython/node/rustc and comparing with [exec]
    validates it on every generated case. *)
From Coq Require Import List NArith ZArith QArith Bool.
From MxlBase Require Import ListX.
From Codegen Require Import Codegen CodegenSpec CallArity NameScope.
Import ListNotations.
Open Scope Q_scope.

Definition Qgtb (a b : Q) : bool := negb (Qle_bool a b).
Definition Qltb (a b : Q) : bool := negb (Qle_bool b a).

(** harness/c07_fns.py : FNS *)
Definition fsemQ (f : fnid) (args : list Q) : option Q :=
  match f, args with
  | 0%N, [a] => Some a                                   (* f_id *)
  | 1%N, [a] => Some (- a)                               (* f_neg *)
  | 2%N, [a; b] => Some (a + b)                          (* f_add *)
  | 3%N, [a; b] => Some (a - b)                          (* f_sub *)
  | 4%N, [a; b] => Some (a * b)                          (* f_mul *)
  | 5%N, [a; b; c] => Some (a * b + c)                   (* f_lin *)
  | 6%N, [a] => Some (a * a)                             (* f_sq *)
  | 7%N, [a; b] => Some (a * a - 3 * b + 1)              (* f_poly2 *)
  | 8%N, [] => Some 2                                    (* f_two *)
  | 9%N, [s1; s2; k] => Some (k * s1 * s2)               (* f_ma2 *)
  | 10%N, [a; b; c] => Some (a + b + c)                  (* f_sum3 *)
  | 11%N, [a; b] => Some (if Qgtb a b then a else b)     (* g_max2: if/return *)
  | 12%N, [a] => Some (if Qgtb a 0 then a else - a)      (* g_abs: conditional expression *)
  | 13%N, [a; b] => Some (if Qgtb a 0 then a * b else 0) (* g_relu *)
  | 14%N, [a] => Some (a * (1 # 2))                      (* g_half *)
  | 15%N, [a; lo; hi] => Some (if Qltb a lo then lo else if Qgtb a hi then hi else a) (* g_clamp *)
  | 16%N, [a] => Some a                                  (* u_subscript  -- not translatable *)
  | 17%N, [a; b] => Some (if Qgtb a 0 && Qgtb b 0 then a else b) (* u_boolop -- not translatable *)
  | 18%N, [a] => Some a                                  (* u_lambda -- not translatable *)
  (* local assignments, names reassigned inside a branch and read after it *)
  | 19%N, [a; cap] => Some (let r := a * 2 in if Qgtb r cap then cap else r)        (* h_cap *)
  | 20%N, [a; b] => Some (let f := if Qgtb a b then b else 1 in a * f)               (* h_default *)
  | 21%N, [a; b; c] =>                                                              (* h_nested *)
    Some (if Qgtb a b then (let r := if Qgtb a c then c else a in r + b) else a)
  | 22%N, [a; b] =>                                                                 (* h_swap *)
    Some (let lohi := if Qgtb a b then (b, a) else (a, b) in snd lohi - fst lohi * 2)
  | 23%N, [a; b] =>                                                                 (* h_elif *)
    Some (let r := if Qgtb a 1 then a + b else if Qltb a (-1) then a * b - b else b in r * 2)
  | 24%N, [a] =>                                                                    (* h_step *)
    Some (let r1 := if Qgtb a 1 then 1 else a in
          let r2 := if Qltb a (-1) then -1 else r1 in r2 - a * (1 # 2))
  | 25%N, [a; b; c] =>                                                              (* h_else_reads *)
    Some (let r := a + b in let s := if Qgtb r c then c else r * 2 in s - a)
  | 26%N, [a; b] =>                                                                 (* h_else_assigns *)
    Some (let rs := if Qgtb a b then (a, a) else (b, b + a) in snd rs + fst rs * 2)
  | 27%N, [a; b] =>                                                                 (* h_after *)
    Some (let s := if Qgtb a b then a * 2 else b in a + s)
  (* refused by arity (CPython's own meaning: the defaults filled in) *)
  | 28%N, [a] => Some (a * 2)                            (* u_default_helper *)
  | 29%N, [a; g] => Some (a * 2 - g)                     (* u_default_inner *)
  | 30%N, [a; c] => Some (a * c + (1 # 2))               (* u_default_mid *)
  | 31%N, [a] => Some (a * 2)                            (* u_default_top *)
  | 32%N, [a] => Some (a * 2)                            (* u_kwonly *)
  | 33%N, [a] => Some (a * 2)                            (* u_kwhelper *)
  | 34%N, [a; _] => Some (a * 2)                         (* u_star *)
  | 35%N, [a; _] => Some (a * 2)                         (* u_starhelper *)
  | 36%N, [a] => Some (a * (2 * 3))                      (* u_empty_helper *)
  | 37%N, [] => Some (2 * 3)                             (* u_empty_top *)
  (* module-level float constants c_half = 1/2, c_gain = 4 read as globals / shadowed by a parameter or local *)
  | 38%N, [a] => Some (a * (1 # 2) + 4)                  (* m_const: both read as globals *)
  | 39%N, [a; ch] => Some (a * ch + 4)                   (* m_param: PARAMETER c_half *)
  | 40%N, [a; b] => Some (let ch := a + b in ch * a - 4) (* m_local: LOCAL c_half *)
  | 41%N, [a; cg] => Some (let r := a * cg in let cg' := r + (1 # 2) in cg' * 2)   (* m_rebind *)
  | 42%N, [a; b] => Some ((a * b + (1 # 2)) - 4)         (* m_helper: k_shadow(s, c_gain) = s * c_gain + c_half *)
  | _, _ => None
  end.

(** harness/c07_fns.py : TRANSLATABLE = {0..15} + {19..27} + {38..42} *)
Definition translatesQ (f : fnid) : bool := N.ltb f 16 || (N.leb 19 f && N.leb f 27) || (N.leb 38 f && N.leb f 42).

Definition isemQ (_ : lang) (f : fnid) (args : list Q) : option Q :=
  if translatesQ f then fsemQ f args else None.

(** ---- functions refused BY ARITY (harness/c07_fns.py ids 28..37) ---------------------------
    Their translatability is not a table entry but COMPUTED by the model of fn_to_sympy's argument
    binding (CallArity.v) from a description of the function's signature and body; the same
    descriptions are regenerated from the Python source by the harness and compared (arity
    correspondence below).  Identifier codes: a Python identifier nXXXX is the name XXXX, the
    others a = 9101, b = 9102, c = 9103, g = 9104, s = 9105; the model passes 9001, 9002, ... *)
Definition TQ := texp Q.
Definition id_a : name := 9101%N.
Definition id_b : name := 9102%N.
Definition id_c : name := 9103%N.
Definition id_g : name := 9104%N.
Definition id_s : name := 9105%N.
Definition n11 : name := 11%N.
Definition margs (k : nat) : list name := firstn k [9001%N; 9002%N; 9003%N].

Definition k_scale : pyfn Q := mkPyFn [id_s] [(n11, 2)] [] false (TMul (TSym id_s) (TSym n11)).
Definition k_gain : pyfn Q := mkPyFn [id_s] [(id_g, 2)] [] false (TMul (TSym id_s) (TSym id_g)).
Definition k_lin : pyfn Q := mkPyFn [id_s] [(id_b, 1); (n11, 1 # 2)] [] false (TAdd (TMul (TSym id_s) (TSym id_b)) (TSym n11)).
Definition k_kw : pyfn Q := mkPyFn [id_s] [] [(n11, 2)] false (TMul (TSym id_s) (TSym n11)).
Definition k_star : pyfn Q := mkPyFn [id_s] [] [] true (TMul (TSym id_s) (TNum 2)).
Definition k_two : pyfn Q := mkPyFn [] [(n11, 2)] [] false (TMul (TSym n11) (TNum 3)).

Definition arity_entry (f : fnid) : option (entry Q) :=
  match f with
  | 28%N => Some (mkEntry (mkPyFn [id_a] [] [] false (TSym hole)) (Some (k_scale, [TSym id_a])) (margs 1))        (* u_default_helper *)
  | 29%N => Some (mkEntry (mkPyFn [id_a; id_g] [] [] false (TSub (TSym hole) (TSym id_g))) (Some (k_gain, [TSym id_a])) (margs 2)) (* u_default_inner *)
  | 30%N => Some (mkEntry (mkPyFn [id_a; id_c] [] [] false (TSym hole)) (Some (k_lin, [TSym id_a; TSym id_c])) (margs 2))  (* u_default_mid *)
  | 31%N => Some (mkEntry (mkPyFn [id_a] [(n11, 2)] [] false (TMul (TSym id_a) (TSym n11))) None (margs 1))          (* u_default_top *)
  | 32%N => Some (mkEntry (mkPyFn [id_a] [] [(n11, 2)] false (TMul (TSym id_a) (TSym n11))) None (margs 1))          (* u_kwonly *)
  | 33%N => Some (mkEntry (mkPyFn [id_a] [] [] false (TSym hole)) (Some (k_kw, [TSym id_a])) (margs 1))             (* u_kwhelper *)
  | 34%N => Some (mkEntry (mkPyFn [id_a] [] [] true (TMul (TSym id_a) (TNum 2))) None (margs 2))                      (* u_star *)
  | 35%N => Some (mkEntry (mkPyFn [id_a; id_b] [] [] false (TSym hole)) (Some (k_star, [TSym id_a; TSym id_b])) (margs 2)) (* u_starhelper *)
  | 36%N => Some (mkEntry (mkPyFn [id_a] [] [] false (TMul (TSym id_a) (TSym hole))) (Some (k_two, [])) (margs 1))     (* u_empty_helper *)
  | 37%N => Some (mkEntry (mkPyFn [] [(n11, 2)] [] false (TMul (TSym n11) (TNum 3))) None (margs 0))              (* u_empty_top *)
  | _ => None
  end.

Definition translate_entryQ := translate_entry Q.
Definition py_entryQ := py_entry Q Qplus Qminus Qmult.
Definition tevalQ := teval Q Qplus Qminus Qmult.

(** does fn_to_sympy return an expression for [f], given the form [bk] of its binding statement *)
Definition translatesQ_at (bk : bind_kind) (f : fnid) : bool :=
  match arity_entry f with
  | Some e => match translate_entryQ bk e with Some _ => true | None => false end
  | None => translatesQ f
  end.

Definition isemQ_at (bk : bind_kind) (_ : lang) (f : fnid) (args : list Q) : option Q :=
  if translatesQ_at bk f then fsemQ f args else None.
Definition generateQ_at (bk : bind_kind) := generate Q (translatesQ_at bk).
Definition generate_againQ_at (bk : bind_kind) := generate_again Q (translatesQ_at bk).
Definition execQ_at (bk : bind_kind) := exec Q 0 Qplus Qmult (isemQ_at bk).

Definition generateQ := generate Q translatesQ.
Definition generate_againQ := generate_again Q translatesQ.
Definition execQ := exec Q 0 Qplus Qmult isemQ.
Definition cache_afterQ := cache_after Q.

(** ---- module constants and the names that shadow them (harness/c07_fns.py ids 38..42) --------
    Descriptions for the model of _handle_name (NameScope.v); the same descriptions are regenerated
    from the Python source by harness/c07_scope.py and compared (scope correspondence below).
    Identifier codes: c_half = 9106, c_gain = 9107, r = 9108 (c_missing = 9109: defined nowhere). *)
Definition id_ch : name := 9106%N.
Definition id_cg : name := 9107%N.
Definition id_r : name := 9108%N.
(** the float constants of harness/c07_fns.py *)
Definition fn_globals : globals Q := [(id_cg, 4); (id_ch, 1 # 2)].

Definition scope_entry (f : fnid) : option (sfn Q) :=
  match f with
  | 38%N => Some (mkSFn [id_a] [] (TAdd (TMul (TSym id_a) (TSym id_ch)) (TSym id_cg)))                   (* m_const *)
  | 39%N => Some (mkSFn [id_a; id_ch] [] (TAdd (TMul (TSym id_a) (TSym id_ch)) (TSym id_cg)))            (* m_param *)
  | 40%N => Some (mkSFn [id_a; id_b] [(id_ch, TAdd (TSym id_a) (TSym id_b))]
                        (TSub (TMul (TSym id_ch) (TSym id_a)) (TSym id_cg)))                              (* m_local *)
  | 41%N => Some (mkSFn [id_a; id_cg] [(id_r, TMul (TSym id_a) (TSym id_cg)); (id_cg, TAdd (TSym id_r) (TSym id_ch))]
                        (TMul (TSym id_cg) (TNum 2)))                                                     (* m_rebind *)
  | _ => None        (* 42 m_helper calls a helper: judged by the oracle and by [fsemQ] only *)
  end.

Definition translate_forQ := translate_for Q.
Definition py_runQ := py_run Q Qplus Qminus Qmult.

(** ---- comparison helpers ---------------------------------------------------------------- *)
Definition Qlist_eqb (a b : list Q) : bool := list_eqb Qeq_bool a b.

Definition outcome_eqb (a b : outcome Q) : bool :=
  match a, b with
  | ROk x, ROk y => Qlist_eqb x y
  | RScalar x, RScalar y => Qeq_bool x y
  | RNone, RNone | RErrUnbound, RErrUnbound | RErrVec, RErrVec | RErrArity, RErrArity
  | RErrFn, RErrFn | RJunk, RJunk | RIllFormed, RIllFormed => true
  | _, _ => false
  end.

(** what the harness reads back from the emitted text *)
Record skeleton := mkSk {
  sk_free : list name;
  sk_n : option nat;                       (* the n of a sized header, when the header shows one *)
  sk_vars : list name;
  sk_body : list (pname * option Q);       (* lhs ; Some v when the right-hand side is a number *)
  sk_ret : list pname;
  sk_unit : bool
}.

(** [ObsUntransKey]: generation raised a KeyError that does not come from parameters.pop (all requested
    free parameters exist): fn_to_sympy's global-name lookup for a keyword-only parameter; the model
    says "refused", the exception class of that refusal is not modelled *)
Inductive gobs := ObsOk (s : skeleton) | ObsKey | ObsUntrans | ObsUntransCoef | ObsUntransKey | ObsOther.

Fixpoint list_eqb2 {A B} (eqb : A -> B -> bool) (a : list A) (b : list B) : bool :=
  match a, b with
  | [], [] => true
  | x :: xs, y :: ys => eqb x y && list_eqb2 eqb xs ys
  | _, _ => false
  end.

Definition body_eqb (b : list (pname * rhs Q)) (o : list (pname * option Q)) : bool :=
  list_eqb2 (fun x y => pname_eqb (fst x) (fst y)
                       && match snd x with
                          | RConst v => match snd y with Some w => Qeq_bool v w | None => false end
                          | RSum [] => match snd y with Some w => Qeq_bool 0 w | None => false end  (* the explicit 0.0 *)
                          | _ => true
                          end) b o.

Definition gen_eqb (g : gres Q) (o : gobs) : bool :=
  match g, o with
  | GOk p, ObsOk s =>
    list_eqb N.eqb (g_free p) (sk_free s)
    && match sk_n s with Some n => Nat.eqb n (g_n p) | None => true end
    && list_eqb N.eqb (g_vars p) (sk_vars s)
    && body_eqb (g_body p) (sk_body s)
    && list_eqb pname_eqb (g_ret p) (sk_ret s)
    && Bool.eqb (g_unit p) (sk_unit s)
  | GErrKey, ObsKey | GErrUntrans, ObsUntrans | GErrUntransCoef, ObsUntransCoef => true
  | GErrUntrans, ObsUntransKey | GErrUntransCoef, ObsUntransKey => true
  | _, _ => false
  end.

(** ---- executable form of the specification (used to compare with the REAL model) -------- *)
(** evaluate the components along [order] with the Python meaning of the functions *)
Fixpoint resolve_comps (cs : list (name * (fnid * list name))) (e : list (name * Q)) : option (list (name * Q)) :=
  match cs with
  | [] => Some e
  | (n, (f, a)) :: r =>
    match map_opt (fun x => assoc x e) a with
    | None => None
    | Some vs => match fsemQ f vs with
                 | None => None
                 | Some v => resolve_comps r ((n, v) :: e)
                 end
    end
  end.

Definition env_of (e : list (name * Q)) : name -> Q := fun n => match assoc n e with Some v => v | None => 0 end.

(** free parameters override the stored value *)
Definition par_env (m : cmodel Q) (free : list name) (fv : list Q) : list (name * Q) :=
  combine free fv ++ map (fun e => (fst e, snd (snd e))) (m_par m).

(** the model's own right-hand side according to the specification, [None] if the order given is
    not an evaluation order or the resulting values do not satisfy the specification's equations *)
Definition spec_rhs (m : cmodel Q) (order free : list name) (fv : list Q) (t : Q) (y : list Q) : option (list Q) :=
  if negb (Nat.eqb (length y) (length (m_var m)) && Nat.eqb (length free) (length fv)) then None else
  let e0 := (tname, t) :: combine (m_var m) y ++ par_env m free fv in
  match resolve_comps (comps_of_order Q m order) e0 with
  | None => None
  | Some e =>
    if resolved_b Q fsemQ Qeq_bool m (env_of e) then
      map_opt (fun x => dxdt Q 0 Qplus Qmult fsemQ m (env_of e) x) (m_var m)
    else None
  end.

(** what the model's CACHE holds for the stoichiometries (cache.stoich_by_cpds): a computed
    coefficient all of whose arguments are parameters is stored as the NUMBER it has at the stored
    parameter values.  A generator reading the cache instead of the raw reactions would emit that
    number: kept as a regression witness (CgInstProofs.v, C07_cache_evaluated_coefficient_refuted) *)
Definition freeze_par_coefs (m : cmodel Q) : cmodel Q :=
  let stored := map (fun e => (fst e, snd (snd e))) (m_par m) in
  let fz (c : coef Q) : coef Q :=
    match c with
    | CDyn g ga =>
      match map_opt (fun x => assoc x stored) ga with
      | Some vs => match fsemQ g vs with Some v => CStat v | None => c end
      | None => c
      end
    | _ => c
    end in
  mkCM (m_par m) (m_var m) (m_der m)
       (map (fun r : name * (fnid * list name * list (name * coef Q)) =>
               (fst r, (fst (snd r), map (fun vc => (fst vc, fz (snd vc))) (snd (snd r))))) (m_rxn m)).

Definition optlist_eqb (a b : option (list Q)) : bool :=
  match a, b with
  | Some x, Some y => Qlist_eqb x y
  | None, None => true
  | _, _ => false
  end.

(** one state: time, variables, free values, what the real model returned, what executing the
    real text returned ([OSkip] = the value-level outcome is outside the modelled behaviour and
    is judged by the oracle only -- [OSkip]) *)
Inductive obs_out :=
| OSkip                       (* judged by the oracle only *)
| OOut (o : outcome Q)
| OUnmodelled.                (* an outcome class the model does not have: always a mismatch *)
Record point := mkPt { pt_t : Q; pt_y : list Q; pt_fv : list Q; pt_model : option (list Q); pt_exec : obs_out }.

(** the same request a second time: the same text / KeyError / anything else (never matches) *)
Inductive second_obs := SecSame | SecKey | SecOther.

Record ccase := mkCase {
  c_lang : lang; c_model : cmodel Q; c_order : list name; c_free : list name;
  c_gen : gobs; c_cache_after : list name; c_second : second_obs; c_points : list point
}.

(** aspects that differ: 1 generated program, 2 cached parameter dict after the call,
    3 specification vs real model values, 4 execution outcome of the text,
    5 the same request a second time *)
Definition check_case (bk : bind_kind) (F : facts) (c : ccase) : list nat :=
  let g := generateQ_at bk F (c_lang c) (c_model c) (c_order c) (c_free c) in
  (if gen_eqb g (c_gen c) then [] else [1%nat])
  ++ (if list_eqb N.eqb (map fst (cache_afterQ F (c_model c) (c_free c))) (c_cache_after c) then [] else [2%nat])
  ++ (if forallb (fun p => optlist_eqb (spec_rhs (c_model c) (c_order c) (c_free c) (pt_fv p) (pt_t p) (pt_y p)) (pt_model p)) (c_points c)
      then [] else [3%nat])
  ++ (match c_second c with
      | SecSame => if gen_eqb (generate_againQ_at bk F (c_lang c) (c_model c) (c_order c) (c_free c)) (c_gen c) then [] else [5%nat]
      | SecKey => match generate_againQ_at bk F (c_lang c) (c_model c) (c_order c) (c_free c) with GErrKey => [] | _ => [5%nat] end
      | SecOther => [5%nat]
      end)
  ++ (match g with
      | GOk p =>
        if forallb (fun pt => match pt_exec pt with
                              | OSkip => true
                              | OOut o => outcome_eqb (execQ_at bk F (c_lang c) p (pt_t pt) (pt_y pt) (pt_fv pt)) o
                              | OUnmodelled => false
                              end) (c_points c)
        then [] else [4%nat]
      | _ => []
      end).

Fixpoint mismatches_from (bk : bind_kind) (F : facts) (i : nat) (cs : list ccase) : list nat :=
  match cs with
  | [] => []
  | c :: r => map (fun a => (i * 8 + a)%nat) (check_case bk F c) ++ mismatches_from bk F (S i) r
  end.
Definition mismatches_of (bk : bind_kind) (F : facts) (cs : list ccase) : list nat := mismatches_from bk F 0 cs.

(** ---- arity correspondence: the binding model against the REAL fn_to_sympy ----------------
    [ac_entry] is the description the harness regenerates from the Python source (signature via
    inspect, body via ast); [ac_fid] = Some f ties it to the hand-written [arity_entry f].
    Observed: was the call refused (None / ValueError / KeyError), the names of the result's free
    symbols (sorted), the result's value at some environments, CPython's value of the function *)
Record apoint := mkAPt { ap_env : list (name * Q); ap_args : list Q; ap_tr : option Q; ap_py : option Q }.
Record acase := mkACase {
  ac_fid : option fnid; ac_entry : entry Q; ac_refused : bool; ac_syms : list name; ac_points : list apoint
}.

Fixpoint insert_name (n : name) (l : list name) : list name :=
  match l with
  | [] => [n]
  | x :: r => if N.ltb n x then n :: l else if N.eqb n x then l else x :: insert_name n r
  end.
Definition sort_names (l : list name) : list name := fold_right insert_name [] l.

Definition optQ_eqb (a b : option Q) : bool :=
  match a, b with Some x, Some y => Qeq_bool x y | None, None => true | _, _ => false end.

(** aspects: 1 refused or not, 2 free symbols of the translation, 3 its value, 4 CPython's value of
    the function (the description means what the source means), 5 the hand-written table entry *)
Definition check_acase (bk : bind_kind) (c : acase) : list nat :=
  let r := translate_entryQ bk (ac_entry c) in
  (match r, ac_refused c with Some _, false | None, true => [] | _, _ => [1%nat] end)
  ++ (match r with
      | Some e => (if list_eqb N.eqb (sort_names (syms Q e)) (ac_syms c) then [] else [2%nat])
                  ++ (if forallb (fun p => optQ_eqb (tevalQ (fun n => assoc n (ap_env p)) e) (ap_tr p)) (ac_points c)
                      then [] else [3%nat])
      | None => []
      end)
  ++ (if forallb (fun p => optQ_eqb (py_entryQ (ac_entry c) (ap_args p)) (ap_py p)) (ac_points c) then [] else [4%nat])
  ++ (match ac_fid c with
      | Some f => match arity_entry f with
                  | Some e => if Bool.eqb (match translate_entryQ bk e with Some _ => true | None => false end)
                                          (match r with Some _ => true | None => false end)
                                 && forallb (fun p => optQ_eqb (py_entryQ e (ap_args p)) (ap_py p)) (ac_points c)
                                 && forallb (fun p => optQ_eqb (fsemQ f (ap_args p)) (ap_py p)) (ac_points c)
                              then [] else [5%nat]
                  | None => [5%nat]
                  end
      | None => []
      end).

(** ---- scope correspondence: the model of _handle_name against the REAL fn_to_sympy ----------
    [sc_fn] / [sc_globals] are regenerated from the Python source (parameters, the assignments, the
    return expression; the module's float constants); the model passes [sc_k] arguments.
    aspects: 1 refused or not, 2 free symbols of the translation, 3 its value, 4 CPython's value of
    the function (incl. UnboundLocalError / NameError = None), 5 the hand-written [scope_entry] /
    [fsemQ] / [fn_globals] *)
Record spoint := mkSPt { sp_args : list Q; sp_tr : option Q; sp_py : option Q }.
Record scase := mkSCase {
  sc_fid : option fnid; sc_globals : globals Q; sc_fn : sfn Q; sc_k : nat;
  sc_refused : bool; sc_syms : list name; sc_points : list spoint
}.

Definition check_scase (nk : name_kind) (bk : bind_kind) (c : scase) : list nat :=
  let r := translate_forQ nk bk (sc_globals c) (sc_fn c) (map TSym (margs (sc_k c))) in
  (match r, sc_refused c with Some _, false | None, true => [] | _, _ => [1%nat] end)
  ++ (match r with
      | Some e => (if list_eqb N.eqb (sort_names (syms Q e)) (sc_syms c) then [] else [2%nat])
                  ++ (if forallb (fun p => optQ_eqb (tevalQ (fun n => assoc n (combine (margs (sc_k c)) (sp_args p))) e) (sp_tr p))
                                 (sc_points c)
                      then [] else [3%nat])
      | None => []
      end)
  ++ (if forallb (fun p => optQ_eqb (py_runQ (sc_globals c) (sc_fn c) (sp_args p)) (sp_py p)) (sc_points c) then [] else [4%nat])
  ++ (match sc_fid c with
      | Some f => match scope_entry f with
                  | Some e => if forallb (fun p => optQ_eqb (py_runQ fn_globals e (sp_args p)) (sp_py p)) (sc_points c)
                                 && forallb (fun p => optQ_eqb (fsemQ f (sp_args p)) (sp_py p)) (sc_points c)
                                 && Bool.eqb (match translate_forQ nk bk fn_globals e (map TSym (margs (sc_k c))) with Some _ => true | None => false end)
                                             (match r with Some _ => true | None => false end)
                              then [] else [5%nat]
                  | None => [5%nat]
                  end
      | None => []
      end).

Fixpoint smismatches_from (nk : name_kind) (bk : bind_kind) (i : nat) (cs : list scase) : list nat :=
  match cs with
  | [] => []
  | c :: r => map (fun a => (i * 8 + a)%nat) (check_scase nk bk c) ++ smismatches_from nk bk (S i) r
  end.
Definition smismatches_of (nk : name_kind) (bk : bind_kind) (cs : list scase) : list nat := smismatches_from nk bk 0 cs.

Fixpoint amismatches_from (bk : bind_kind) (i : nat) (cs : list acase) : list nat :=
  match cs with
  | [] => []
  | c :: r => map (fun a => (i * 8 + a)%nat) (check_acase bk c) ++ amismatches_from bk (S i) r
  end.
Definition amismatches_of (bk : bind_kind) (cs : list acase) : list nat := amismatches_from bk 0 cs.
