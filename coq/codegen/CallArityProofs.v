(** C07 -- proofs about the argument binding of fn_to_sympy (model: CallArity.v).

    [call_closed]   with the strict binding a translated call mentions only names its ARGUMENTS
                    mention: no parameter of the callee is left behind as a bare symbol
    [call_sound]    ... and it has the value CPython computes for the call (simultaneous substitution)
    [call_refused]  a call whose number of arguments differs from the number of positional
                    parameters -- in particular one that relies on a default value, or one whose
                    surplus *args would swallow -- is refused
    [entry_closed]  the same for a model function that calls one helper: every name of the
                    translation is one of the argument names the model passes
    all of them for every function, every argument list, every environment. *)
From Coq Require Import List NArith Bool Arith Lia.
From MxlBase Require Import ListX.
From Codegen Require Import Codegen CodegenSpec CallArity.
Import ListNotations.

Section Proofs.
  Variable V : Type.
  Variables vadd vsub vmul : V -> V -> V.

  Notation texp := (texp V).
  Notation teval := (teval V vadd vsub vmul).
  Notation subst := (subst V).
  Notation syms := (syms V).
  Notation tlookup := (tlookup V).
  Notation bind := (bind V).
  Notation translate_call := (translate_call V).
  Notation translate_entry := (translate_entry V).
  Notation py_call := (py_call V vadd vsub vmul).
  Notation py_bind := (py_bind V).
  Notation fn_args := (fn_args V).

  (** ---- substitution ---------------------------------------------------------------- *)
  Lemma syms_subst : forall (s : list (name * texp)) e n,
      In n (syms (subst s e)) ->
      (In n (syms e) /\ tlookup n s = None)
      \/ exists k r, In k (syms e) /\ tlookup k s = Some r /\ In n (syms r).
  Proof.
    induction e as [k | v | a IHa b IHb | a IHa b IHb | a IHa b IHb]; cbn [CallArity.subst CallArity.syms]; intros n Hn.
    - destruct (tlookup k s) as [r |] eqn:Hl.
      + right. exists k, r. cbn. auto.
      + cbn in Hn. destruct Hn as [<- | []]. left. cbn. auto.
    - destruct Hn.
    - apply in_app_or in Hn. destruct Hn as [Hn | Hn]; [destruct (IHa _ Hn) as [[H1 H2] | (k & r & H1 & H2 & H3)] | destruct (IHb _ Hn) as [[H1 H2] | (k & r & H1 & H2 & H3)]];
        try (left; split; [apply in_or_app; auto | assumption]);
        right; exists k, r; (split; [apply in_or_app; auto | auto]).
    - apply in_app_or in Hn. destruct Hn as [Hn | Hn]; [destruct (IHa _ Hn) as [[H1 H2] | (k & r & H1 & H2 & H3)] | destruct (IHb _ Hn) as [[H1 H2] | (k & r & H1 & H2 & H3)]];
        try (left; split; [apply in_or_app; auto | assumption]);
        right; exists k, r; (split; [apply in_or_app; auto | auto]).
    - apply in_app_or in Hn. destruct Hn as [Hn | Hn]; [destruct (IHa _ Hn) as [[H1 H2] | (k & r & H1 & H2 & H3)] | destruct (IHb _ Hn) as [[H1 H2] | (k & r & H1 & H2 & H3)]];
        try (left; split; [apply in_or_app; auto | assumption]);
        right; exists k, r; (split; [apply in_or_app; auto | auto]).
  Qed.

  Lemma tlookup_combine_in : forall ks (acts : list texp) n r,
      tlookup n (combine ks acts) = Some r -> In r acts.
  Proof.
    induction ks as [| k ks IH]; intros [| a acts] n r H; cbn in H; try discriminate.
    destruct (N.eqb n k).
    - injection H as <-. left. reflexivity.
    - right. eapply IH. exact H.
  Qed.

  Lemma tlookup_combine_some : forall ks (acts : list texp) n,
      length ks = length acts -> In n ks -> exists r, tlookup n (combine ks acts) = Some r.
  Proof.
    induction ks as [| k ks IH]; intros [| a acts] n Hl Hin; cbn in Hl; try discriminate; try (destruct Hin; fail).
    cbn. destruct (N.eqb n k) eqn:E.
    - eexists. reflexivity.
    - destruct Hin as [-> | Hin]; [rewrite N.eqb_refl in E; discriminate |].
      apply IH; [lia | exact Hin].
  Qed.

  Lemma teval_ext : forall e env1 env2,
      (forall n, In n (syms e) -> env1 n = env2 n) -> teval env1 e = teval env2 e.
  Proof.
    induction e as [k | v | a IHa b IHb | a IHa b IHb | a IHa b IHb]; intros env1 env2 H; cbn [CallArity.teval]; cbn [CallArity.syms] in H.
    - apply H. left. reflexivity.
    - reflexivity.
    - rewrite (IHa env1 env2), (IHb env1 env2); auto; intros; apply H; apply in_or_app; auto.
    - rewrite (IHa env1 env2), (IHb env1 env2); auto; intros; apply H; apply in_or_app; auto.
    - rewrite (IHa env1 env2), (IHb env1 env2); auto; intros; apply H; apply in_or_app; auto.
  Qed.

  (** simultaneous substitution = evaluation in the environment that reads the replaced names
      through their replacements *)
  Lemma teval_subst : forall (s : list (name * texp)) env e,
      teval env (subst s e)
      = teval (fun n => match tlookup n s with Some r => teval env r | None => env n end) e.
  Proof.
    induction e as [k | v | a IHa b IHb | a IHa b IHb | a IHa b IHb]; cbn [CallArity.subst CallArity.teval].
    - destruct (tlookup k s); reflexivity.
    - reflexivity.
    - rewrite IHa, IHb. reflexivity.
    - rewrite IHa, IHb. reflexivity.
    - rewrite IHa, IHb. reflexivity.
  Qed.

  (** ---- association lists ------------------------------------------------------------- *)
  Lemma assoc_app : forall (A : Type) (l1 l2 : list (name * A)) n,
      assoc n (l1 ++ l2) = match assoc n l1 with Some v => Some v | None => assoc n l2 end.
  Proof.
    induction l1 as [| [k v] l1 IH]; intros l2 n; cbn; [reflexivity |].
    destruct (N.eqb n k); [reflexivity | apply IH].
  Qed.

  Lemma assoc_combine_some : forall (A : Type) ks (vs : list A) n,
      length ks = length vs -> In n ks -> exists v, assoc n (combine ks vs) = Some v.
  Proof.
    induction ks as [| k ks IH]; intros [| v vs] n Hl Hin; cbn in Hl; try discriminate; try (destruct Hin; fail).
    cbn. destruct (N.eqb n k) eqn:E.
    - eexists. reflexivity.
    - destruct Hin as [-> | Hin]; [rewrite N.eqb_refl in E; discriminate |].
      apply IH; [lia | exact Hin].
  Qed.

  Lemma combine_app_split : forall (A : Type) (a b : list name) (vs : list A),
      combine (a ++ b) vs = combine a (firstn (length a) vs) ++ combine b (skipn (length a) vs).
  Proof.
    induction a as [| x a IH]; intros b vs; cbn; [reflexivity |].
    destruct vs as [| v vs]; cbn.
    - destruct b; reflexivity.
    - rewrite IH. reflexivity.
  Qed.

  Lemma fill_opt_full : forall (opt : list (name * V)) extra,
      length extra = length opt -> fill_opt V opt extra = combine (map fst opt) extra.
  Proof.
    induction opt as [| [n d] opt IH]; intros [| v extra] Hl; cbn in *; try discriminate; try reflexivity.
    rewrite IH; [reflexivity | lia].
  Qed.

  (** evaluated arguments, looked up by parameter name *)
  Lemma lookup_args : forall env ks (acts : list texp) vs,
      map_opt (teval env) acts = Some vs ->
      forall n, match tlookup n (combine ks acts) with
                | Some a => teval env a = assoc n (combine ks vs)
                | None => assoc n (combine ks vs) = None
                end.
  Proof.
    induction ks as [| k ks IH]; intros acts vs Hm n.
    - cbn. reflexivity.
    - destruct acts as [| a acts].
      + cbn in Hm. injection Hm as <-. cbn. reflexivity.
      + cbn in Hm. destruct (teval env a) as [v |] eqn:Ea; [| discriminate].
        destruct (map_opt (teval env) acts) as [vr |] eqn:Er; [| discriminate].
        injection Hm as <-. cbn. destruct (N.eqb n k).
        * exact Ea.
        * apply IH. exact Er.
  Qed.

  Lemma map_opt_length : forall (A B : Type) (g : A -> option B) l vs,
      map_opt g l = Some vs -> length vs = length l.
  Proof.
    induction l as [| x l IH]; intros vs H; cbn in H.
    - injection H as <-. reflexivity.
    - destruct (g x); [| discriminate]. destruct (map_opt g l) eqn:E; [| discriminate].
      injection H as <-. cbn. f_equal. apply IH. reflexivity.
  Qed.

  (** the local namespace of a call with exactly as many arguments as positional parameters: every
      positional parameter reads its argument (no default is used) *)
  Lemma py_bind_exact : forall f vs,
      length vs = length (fn_args f) ->
      exists l, py_bind f vs = Some l
                /\ forall n, In n (fn_args f) -> assoc n l = assoc n (combine (fn_args f) vs).
  Proof.
    intros f vs Hl. unfold CallArity.fn_args in *. rewrite app_length, map_length in Hl.
    unfold CallArity.py_bind.
    assert (Hlt : Nat.ltb (length vs) (length (pf_req V f)) = false) by (apply Nat.ltb_ge; lia).
    rewrite Hlt.
    assert (Hsk : length (skipn (length (pf_req V f)) vs) = length (pf_opt V f)) by (rewrite skipn_length; lia).
    assert (Hlt2 : Nat.ltb (length (pf_opt V f)) (length (skipn (length (pf_req V f)) vs)) = false)
      by (apply Nat.ltb_ge; lia).
    rewrite Hlt2. cbn [andb]. eexists. split; [reflexivity |].
    intros n Hin. rewrite fill_opt_full by exact Hsk.
    rewrite combine_app_split. rewrite app_assoc. rewrite (assoc_app _ (_ ++ _) (pf_kw V f)).
    rewrite <- combine_app_split.
    destruct (assoc_combine_some V (pf_req V f ++ map fst (pf_opt V f)) vs n) as [v Hv].
    - rewrite app_length, map_length. lia.
    - exact Hin.
    - rewrite Hv. reflexivity.
  Qed.

  (** ---- the binding ------------------------------------------------------------------- *)
  Lemma bind_strict_inv : forall ks body acts r,
      bind BkStrict ks body (Some acts) = Some r ->
      length ks = length acts /\ r = subst (combine ks acts) body.
  Proof.
    intros ks body acts r H. cbn in H. destruct (Nat.eqb (length ks) (length acts)) eqn:E; [| discriminate].
    apply Nat.eqb_eq in E. injection H as <-. auto.
  Qed.

  (** an argument list that is not empty is bound strictly by the tree's form as well *)
  Lemma bind_nonempty : forall ks body acts,
      acts <> [] -> bind BkStrictNonEmpty ks body (Some acts) = bind BkStrict ks body (Some acts).
  Proof. intros ks body [| a acts] H; [congruence | reflexivity]. Qed.

  Lemma bind_closed : forall ks body acts r,
      (forall n, In n (syms body) -> In n ks) ->
      bind BkStrict ks body (Some acts) = Some r ->
      forall n, In n (syms r) -> exists a, In a acts /\ In n (syms a).
  Proof.
    intros ks body acts r Hk Hb n Hn. apply bind_strict_inv in Hb. destruct Hb as [Hl ->].
    apply syms_subst in Hn. destruct Hn as [[H1 H2] | (k & a & H1 & H2 & H3)].
    - destruct (tlookup_combine_some ks acts n Hl (Hk _ H1)) as [r Hr]. congruence.
    - exists a. split; [eapply tlookup_combine_in; exact H2 | exact H3].
  Qed.

  Lemma body_known_spec : forall f, body_known V f = true -> forall n, In n (syms (pf_body V f)) -> In n (fn_args f).
  Proof.
    intros f H n Hn. unfold body_known in H. rewrite forallb_forall in H. specialize (H _ Hn).
    apply existsb_exists in H. destruct H as (x & Hx & E). apply N.eqb_eq in E. subst. exact Hx.
  Qed.

  (** NO PARAMETER IS LEFT BEHIND: every name of a translated call is a name of its arguments *)
  Theorem call_closed : forall bk f acts r,
      bk = BkStrict \/ (bk = BkStrictNonEmpty /\ acts <> []) ->
      translate_call bk f acts = Some r ->
      forall n, In n (syms r) -> exists a, In a acts /\ In n (syms a).
  Proof.
    intros bk f acts r Hbk H. unfold CallArity.translate_call in H.
    destruct (body_known V f) eqn:Hk; [| discriminate].
    assert (H' : bind BkStrict (fn_args f) (pf_body V f) (Some acts) = Some r).
    { destruct Hbk as [-> | [-> Hne]]; [exact H | rewrite <- bind_nonempty by exact Hne; exact H]. }
    apply bind_closed with (ks := fn_args f) (body := pf_body V f); [apply body_known_spec; exact Hk | exact H'].
  Qed.

  (** ... and the translated call has the value CPython computes for the call *)
  Theorem call_sound : forall bk f acts r env vs,
      bk = BkStrict \/ (bk = BkStrictNonEmpty /\ acts <> []) ->
      translate_call bk f acts = Some r ->
      map_opt (teval env) acts = Some vs ->
      teval env r = py_call f vs.
  Proof.
    intros bk f acts r env vs Hbk H Hm. unfold CallArity.translate_call in H.
    destruct (body_known V f) eqn:Hk; [| discriminate].
    assert (H' : bind BkStrict (fn_args f) (pf_body V f) (Some acts) = Some r).
    { destruct Hbk as [-> | [-> Hne]]; [exact H | rewrite <- bind_nonempty by exact Hne; exact H]. }
    apply bind_strict_inv in H'. destruct H' as [Hl ->].
    pose proof (map_opt_length _ _ _ _ _ Hm) as Hlv.
    destruct (py_bind_exact f vs) as (l & Hpb & Hl2); [lia |].
    unfold CallArity.py_call. rewrite Hpb. rewrite teval_subst. apply teval_ext.
    intros n Hn. pose proof (body_known_spec f Hk n Hn) as Hin.
    unfold env_of_list. rewrite (Hl2 n Hin).
    pose proof (lookup_args env (fn_args f) acts vs Hm n) as Hla.
    destruct (tlookup n (combine (fn_args f) acts)) as [a |] eqn:Ea.
    - exact Hla.
    - destruct (tlookup_combine_some (fn_args f) acts n Hl Hin) as [r Hr]. congruence.
  Qed.

  (** a call whose number of arguments is not the number of positional parameters is refused: one
      that relies on a default value, one whose surplus *args would take *)
  Theorem call_refused : forall bk f acts,
      bk = BkStrict \/ (bk = BkStrictNonEmpty /\ acts <> []) ->
      length acts <> length (fn_args f) ->
      translate_call bk f acts = None.
  Proof.
    intros bk f acts Hbk Hl. unfold CallArity.translate_call. destruct (body_known V f); [| reflexivity].
    assert (E : bind BkStrict (fn_args f) (pf_body V f) (Some acts) = None).
    { cbn. destruct (Nat.eqb (length (fn_args f)) (length acts)) eqn:E; [apply Nat.eqb_eq in E; lia | reflexivity]. }
    destruct Hbk as [-> | [-> Hne]]; [exact E | rewrite bind_nonempty by exact Hne; exact E].
  Qed.

  (** a body that reads a keyword-only parameter (not a key of the symbol table) is refused under
      every form of the binding *)
  Theorem kwonly_refused : forall bk f acts n,
      In n (syms (pf_body V f)) -> ~ In n (fn_args f) -> translate_call bk f acts = None.
  Proof.
    intros bk f acts n Hn Hnot. unfold CallArity.translate_call.
    destruct (body_known V f) eqn:Hk; [| reflexivity].
    exfalso. apply Hnot. apply body_known_spec; assumption.
  Qed.

  (** ---- a model function calling one helper ------------------------------------------ *)
  Lemma syms_map_TSym : forall (ns : list name) a n, In a (map (@TSym V) ns) -> In n (syms a) -> In n ns.
  Proof.
    intros ns a n Ha Hn. apply in_map_iff in Ha. destruct Ha as (k & <- & Hk). cbn in Hn.
    destruct Hn as [<- | []]. exact Hk.
  Qed.

  Theorem entry_closed : forall bk e r,
      bk = BkStrict \/ (bk = BkStrictNonEmpty /\ en_nargs V e <> []
                        /\ forall k acts, en_call V e = Some (k, acts) -> acts <> []) ->
      translate_entry bk e = Some r ->
      forall n, In n (syms r) -> In n (en_nargs V e).
  Proof.
    intros bk e r Hbk H n Hn. unfold CallArity.translate_entry in H.
    destruct (outer_known V e) eqn:Hok; cbn [negb] in H; [| discriminate].
    unfold outer_known in Hok. apply andb_prop in Hok. destruct Hok as [Hbody Hacts].
    rewrite forallb_forall in Hbody. rewrite forallb_forall in Hacts.
    assert (Hstrict : forall ks body, bind bk ks body (Some (map (@TSym V) (en_nargs V e))) = Some r ->
                                      bind BkStrict ks body (Some (map (@TSym V) (en_nargs V e))) = Some r).
    { intros ks body Hb. destruct Hbk as [-> | (-> & Hne & _)]; [exact Hb |].
      rewrite <- bind_nonempty; [exact Hb |]. destruct (en_nargs V e); [congruence | discriminate]. }
    assert (Hfin : forall body, (forall m, In m (syms body) -> In m (fn_args (en_fn V e))) ->
                                bind BkStrict (fn_args (en_fn V e)) body (Some (map (@TSym V) (en_nargs V e))) = Some r ->
                                In n (en_nargs V e)).
    { intros body Hks Hb. destruct (bind_closed _ _ _ _ Hks Hb n Hn) as (a & Ha & Hna).
      eapply syms_map_TSym; eassumption. }
    destruct (en_call V e) as [[k acts] |] eqn:Hc.
    - destruct (translate_call bk k acts) as [rk |] eqn:Hk; [| discriminate].
      apply Hstrict in H.
      assert (Hbk' : bk = BkStrict \/ (bk = BkStrictNonEmpty /\ acts <> [])).
      { destruct Hbk as [-> | (-> & _ & Hca)]; [left; reflexivity | right; split; [reflexivity | eapply Hca; reflexivity]]. }
      pose proof (call_closed bk k acts rk Hbk' Hk) as Hcl.
      unfold has_call in Hbody. unfold call_acts in Hacts. rewrite Hc in Hbody, Hacts.
      apply (Hfin _) in H; [exact H |].
      intros m Hm. apply syms_subst in Hm. destruct Hm as [[H1 H2] | (h & rr & H1 & H2 & H3)].
      + specialize (Hbody _ H1). apply orb_prop in Hbody. destruct Hbody as [Hb | Hb].
        * apply existsb_exists in Hb. destruct Hb as (x & Hx & E). apply N.eqb_eq in E. subst. exact Hx.
        * cbn [andb] in Hb. apply N.eqb_eq in Hb. subst m. cbn in H2. try rewrite N.eqb_refl in H2. discriminate.
      + cbn in H2. destruct (N.eqb h hole) eqn:Eh; [| discriminate]. injection H2 as <-.
        destruct (Hcl _ H3) as (a & Ha & Hma).
        specialize (Hacts _ Ha). rewrite forallb_forall in Hacts.
        specialize (Hacts _ Hma). apply existsb_exists in Hacts. destruct Hacts as (x & Hx & E).
        apply N.eqb_eq in E. subst. exact Hx.
    - apply Hstrict in H. unfold has_call in Hbody. rewrite Hc in Hbody.
      apply (Hfin _) in H; [exact H |].
      intros m Hm. specialize (Hbody _ Hm). apply orb_prop in Hbody. destruct Hbody as [Hb | Hb].
      + apply existsb_exists in Hb. destruct Hb as (x & Hx & E). apply N.eqb_eq in E. subst. exact Hx.
      + cbn [andb] in Hb. discriminate.
  Qed.
End Proofs.
