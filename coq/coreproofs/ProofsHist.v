(** Proofs about the regression variants of ../core/CacheHist.v (closing round, seeded C02-7 / C02-8):
    where the variants agree with the shipped [create_cache] and the inputs on which they do not. *)
From Coq Require Import ZArith List Bool Lia Permutation Relations.
From MxlBase Require Import ListX.
From Core Require Import Sort SortProofs GenSortFacts Model Cache CacheHist.
From Core Require FnLib.
From CoreP Require Import Spec ProofsEnv ProofsEval ProofsNames ProofsGraph ExModel.
Import ListNotations.

(** ---- (1) the early self-reference check ---------------------------------------------------------- *)

Lemma ias_of_CFn l k c : In (k, c) (ias_of l) -> exists f a, c = CFn f a.
Proof.
  unfold ias_of. intro H. apply in_flat_map in H. destruct H as [[k' v] [_ H]]. cbn in H.
  destruct v as [z|f a]; [destruct H|]. destruct H as [E|[]]. injection E as _ <-. eauto.
Qed.

Lemma self_checked_CFn m k c : In (k, c) (self_checked m) -> exists f a, c = CFn f a.
Proof.
  unfold self_checked. rewrite !in_app_iff. intros [H|[H|[H|H]]].
  - exact (ias_of_CFn _ _ _ H).
  - exact (ias_of_CFn _ _ _ H).
  - unfold der_comps in H. apply in_map_iff in H. destruct H as [kv [E _]]. injection E as _ <-. eauto.
  - unfold rxn_comps in H. apply in_map_iff in H. destruct H as [kv [E _]]. injection E as _ <-. eauto.
Qed.

Lemma self_checked_to_sort m kc : In kc (self_checked m) -> In kc (to_sort m).
Proof. unfold self_checked, to_sort. rewrite !in_app_iff. tauto. Qed.

(** a component of the graph listing its own name is a cycle of length one *)
Lemma names_itself_cycle m : names_itself m = true -> has_cycle m.
Proof.
  unfold names_itself. intro H. apply existsb_exists in H. destruct H as [[k c] [Hin Hm]]. cbn in Hm.
  apply memN_In in Hm. destruct (self_checked_CFn m k c Hin) as (f & a & ->).
  exists k. apply t_step. exists k, (CFn f a). split; [apply self_checked_to_sort; exact Hin|].
  split; [exact Hm|left; reflexivity].
Qed.

Section Self.
  Variable F : sort_facts.
  Hypothesis Hchk : f_checks_first F = true.
  Hypothesis Hsc : f_shortcut F <> ScAppendBreak.
  Variable fsem : fnid -> list Z -> option Z.
  Variable fsemN : fnid -> list Z -> option (list Z).

  (** on a well-formed model whose graph is complete and whose readouts do not name themselves the early check
      changes nothing: it only anticipates the sorter's verdict *)
  Lemma selfcheck_agrees_on_complete m :
    WF m -> Complete (base_available m) (map dep_of (to_sort m)) -> readout_names_itself m = false ->
    create_cache_selfcheck fsem fsemN F m = create_cache fsem fsemN F m.
  Proof.
    intros HWF Hc Hro. unfold create_cache_selfcheck. rewrite Hro, orb_false_r.
    destruct (names_itself m) eqn:E; [|reflexivity].
    symmetry. apply (cyclic_no_cache F Hchk Hsc); [exact Hc|].
    apply has_cycle_not_acyclic; [exact HWF|apply names_itself_cycle; exact E].
  Qed.

  (** the shipped code on a mixture: the missing names are reported, whatever cycles there are *)
  Lemma mixture_missing_reported m :
    names_missing m -> has_cycle m ->
    create_cache fsem fsemN F m = Err (EMissing (not_solvable (base_available m) (map dep_of (to_sort m))))
    /\ not_solvable (base_available m) (map dep_of (to_sort m)) <> [].
  Proof. intros H _. exact (proj1 (bad_graph_no_numbers F Hchk Hsc fsem fsemN m) H). Qed.

  (** the early check on a mixture whose self-reference is inside the loop: the circular error, the missing names
      are lost *)
  Lemma selfcheck_hides_missing m :
    names_missing m -> names_itself m = true ->
    create_cache_selfcheck fsem fsemN F m = Err ECircular
    /\ create_cache fsem fsemN F m <> Err ECircular.
  Proof.
    intros Hm Hs. unfold create_cache_selfcheck. rewrite Hs. split; [reflexivity|].
    rewrite (proj1 (proj1 (bad_graph_no_numbers F Hchk Hsc fsem fsemN m) Hm)). discriminate.
  Qed.
End Self.

(** witnesses: ExModel's derived quantity 6 rewired to name itself and the non-existent 99; and a second model in
    which 6 names itself while ANOTHER component (7) names 99 *)
Definition ex_mix_same : model :=
  mkModel (m_par ex_model) (m_var ex_model)
          [(6%N, mkDer 2 [6; 99]%N); (7%N, mkDer 2 [6; 2]%N); (8%N, mkDer 4 [7; 3]%N); (15%N, mkDer 2 [14; 3]%N)]
          (m_rxn ex_model) (m_sur ex_model) (m_ro ex_model) (m_dat ex_model).
Definition ex_mix_other : model :=
  mkModel (m_par ex_model) (m_var ex_model)
          [(6%N, mkDer 6 [6]%N); (7%N, mkDer 2 [99; 2]%N); (8%N, mkDer 4 [7; 3]%N); (15%N, mkDer 2 [14; 3]%N)]
          (m_rxn ex_model) (m_sur ex_model) (m_ro ex_model) (m_dat ex_model).

Lemma ex_mix_missing m k cmp :
  In (k, cmp) (to_sort m) -> In 99%N (comp_args cmp) ->
  negb (memN 99%N (base_available m ++ flat_map (fun kc => comp_outs (fst kc) (snd kc)) (to_sort m))) = true ->
  names_missing m.
Proof.
  intros Hin Ha Hb. exists k, cmp, 99%N. split; [exact Hin|]. split; [exact Ha|].
  apply negb_true_iff, memN_false in Hb. rewrite in_app_iff in Hb. split; [tauto|].
  intros (k' & c' & Hin' & Ho). apply Hb. right. apply in_flat_map. exists (k', c'). split; assumption.
Qed.

Lemma ex_mix_same_missing : names_missing ex_mix_same.
Proof. apply (ex_mix_missing ex_mix_same 6%N (CFn 2%N [6; 99]%N)); [vm_compute; tauto|right; left; reflexivity|vm_compute; reflexivity]. Qed.
Lemma ex_mix_other_missing : names_missing ex_mix_other.
Proof. apply (ex_mix_missing ex_mix_other 7%N (CFn 2%N [99; 2]%N)); [vm_compute; tauto|left; reflexivity|vm_compute; reflexivity]. Qed.

(** ---- (2) the memo that forgets [available] ----------------------------------------------------------- *)

Lemma sort_memo_fresh F avail els : fst (sort_memo F [] avail els) = sort F avail els.
Proof. unfold sort_memo. cbn [memo_find find]. destruct (sort F avail els); reflexivity. Qed.

Lemma create_cache_from_sort fsem fsemN F m :
  create_cache_from fsem fsemN (sort F (base_available m) (map dep_of (to_sort m))) m = create_cache fsem fsemN F m.
Proof. reflexivity. Qed.

(** the first construction of a process is the shipped one *)
Lemma create_cache_memo_fresh fsem fsemN F m :
  fst (create_cache_memo fsem fsemN F [] m) = create_cache fsem fsemN F m.
Proof.
  unfold create_cache_memo. cbn [fst]. rewrite sort_memo_fresh. apply create_cache_from_sort.
Qed.

(** a miss is the shipped construction too, whatever the memo holds *)
Lemma create_cache_memo_miss fsem fsemN F mm m :
  memo_find (memo_key (map dep_of (to_sort m))) mm = None ->
  fst (create_cache_memo fsem fsemN F mm m) = create_cache fsem fsemN F m.
Proof.
  intro H. unfold create_cache_memo, sort_memo. rewrite H. cbn [fst].
  rewrite <- create_cache_from_sort. destruct (sort F (base_available m) (map dep_of (to_sort m))); reflexivity.
Qed.

(** the history of the seeded demo on ExModel: build the cache, remove_parameter(1), build again *)
Definition ex_removed : model := remove_par 1%N ex_model.

Lemma ex_removed_missing : names_missing ex_removed.
Proof.
  exists 6%N, (CFn 6%N [1%N]), 1%N. split; [vm_compute; tauto|]. split; [left; reflexivity|].
  split; [vm_compute; intuition discriminate|].
  intros (k' & c' & Hin & Ho). vm_compute in Hin.
  repeat (destruct Hin as [E|Hin]; [injection E as <- <-; cbn in Ho; intuition discriminate|]). destruct Hin.
Qed.

(** ---- (3) removal of a base quantity: the shipped construction reports it, whatever was built before ----- *)

Lemma keys_plain_filter p l x : In x (keys (plain_of (filter (keep p) l))) -> In x (keys (plain_of l)) /\ x <> p.
Proof.
  unfold keys. intro H. apply in_map_iff in H. destruct H as [[k v] [E H]]. cbn in E. subst k.
  apply in_plain_of in H. apply filter_In in H. destruct H as [H Hk]. unfold keep in Hk. cbn in Hk.
  split.
  - apply in_map_iff. exists (x, v). split; [reflexivity|apply in_plain_of; exact H].
  - intro E. subst. rewrite N.eqb_refl in Hk. discriminate.
Qed.

Lemma ias_filter p l kc : In kc (ias_of (filter (keep p) l)) -> In kc (ias_of l).
Proof.
  destruct kc as [k c]. intro H. apply in_ias_of in H. destruct H as (f & a & -> & H).
  apply filter_In in H. apply in_ias_of. exists f, a. split; [reflexivity|tauto].
Qed.

Lemma keys_filter {A} p (l : list (name * A)) x : In x (keys (filter (keep p) l)) -> In x (keys l) /\ x <> p.
Proof.
  unfold keys. intro H. apply in_map_iff in H. destruct H as [[k v] [E H]]. cbn in E. subst k.
  apply filter_In in H. destruct H as [H Hk]. unfold keep in Hk. cbn in Hk. split.
  - apply in_map_iff. exists (x, v). split; [reflexivity|exact H].
  - intro E. subst. rewrite N.eqb_refl in Hk. discriminate.
Qed.

Lemma removal_names_missing m m' p nm cmp :
  WF m -> In p (base_available m) ->
  incl (to_sort m') (to_sort m) -> ~ In p (base_available m') ->
  In (nm, cmp) (to_sort m') -> In p (comp_args cmp) ->
  ~ In p (flat_map outs_of (to_sort m')).
Proof.
  intros HWF Hp Hincl Hnp Hin Ha Ho.
  pose proof (nodup_avail_outs m HWF) as Hnd.
  apply cnt_NoDup with (x := p) in Hnd. rewrite cnt_app in Hnd.
  apply cnt_In in Hp.
  assert (Hq : In p (flat_map outs_of (to_sort m))).
  { apply in_flat_map in Ho. destruct Ho as [kc [Hk Ho]]. apply in_flat_map. exists kc. split; [apply Hincl; exact Hk|exact Ho]. }
  apply cnt_In in Hq. lia.
Qed.

Lemma removal_payload m' p nm cmp :
  In (nm, cmp) (to_sort m') -> In p (comp_args cmp) ->
  ~ In p (base_available m') -> ~ In p (flat_map outs_of (to_sort m')) ->
  names_missing m'
  /\ exists l, In (nm, l) (not_solvable (base_available m') (map dep_of (to_sort m'))) /\ In p l.
Proof.
  intros Hin Ha Hb Ho. split.
  { exists nm, cmp, p. split; [exact Hin|]. split; [exact Ha|]. split; [exact Hb|].
    intros (nm' & cmp' & Hin' & Ho'). apply Ho. apply in_flat_map. exists (nm', cmp'). split; assumption. }
  assert (Hnp : ~ In p (all_provided (base_available m') (map dep_of (to_sort m')))).
  { unfold all_provided. rewrite flat_map_prov, in_app_iff. tauto. }
  exists (sort_dedup (diffN (d_req (dep_of (nm, cmp))) (all_provided (base_available m') (map dep_of (to_sort m'))))).
  split.
  - apply not_solvable_In. exists (dep_of (nm, cmp)). split; [apply in_map; exact Hin|]. split; [reflexivity|].
    split; [|reflexivity]. intro Hi. apply Hnp. apply Hi. exact Ha.
  - rewrite sort_dedup_In. apply diffN_In. split; [exact Ha|exact Hnp].
Qed.

(** the three removals *)
Lemma to_sort_remove_par p m : incl (to_sort (remove_par p m)) (to_sort m).
Proof.
  unfold to_sort, remove_par. cbn [m_par m_var]. intros kc. rewrite !in_app_iff.
  intros [H|[H|H]]; [left; exact H|right; left; exact (ias_filter _ _ _ H)|right; right; exact H].
Qed.
Lemma to_sort_remove_dat p m : to_sort (remove_dat p m) = to_sort m.
Proof. reflexivity. Qed.
Lemma to_sort_remove_var p m : incl (to_sort (remove_var p m)) (to_sort m).
Proof.
  unfold to_sort, remove_var, der_comps, rxn_comps, sur_comps. cbn [m_par m_var m_der m_rxn m_sur]. rewrite !map_map. cbn [fst snd r_fn r_args s_fn s_args s_out].
  intros kc. rewrite !in_app_iff.
  intros [H|H]; [left; exact (ias_filter _ _ _ H)|right; exact H].
Qed.

Lemma avail_remove_par m p : WF m -> In p (keys (plain_of (m_par m))) -> ~ In p (base_available (remove_par p m)).
Proof.
  intros HWF Hp. unfold base_available, remove_par. cbn [m_par m_var m_dat]. rewrite !in_app_iff.
  intros [H|[H|[H|H]]].
  - apply keys_plain_filter in H. tauto.
  - names_contra m HWF p.
  - names_contra m HWF p.
  - names_contra m HWF p.
Qed.
Lemma avail_remove_var m p : WF m -> In p (keys (plain_of (m_var m))) -> ~ In p (base_available (remove_var p m)).
Proof.
  intros HWF Hp. unfold base_available, remove_var. cbn [m_par m_var m_dat]. rewrite !in_app_iff.
  intros [H|[H|[H|H]]].
  - names_contra m HWF p.
  - apply keys_plain_filter in H. tauto.
  - names_contra m HWF p.
  - names_contra m HWF p.
Qed.
Lemma avail_remove_dat m p : WF m -> In p (keys (m_dat m)) -> ~ In p (base_available (remove_dat p m)).
Proof.
  intros HWF Hp. unfold base_available, remove_dat. cbn [m_par m_var m_dat]. rewrite !in_app_iff.
  intros [H|[H|[H|H]]].
  - names_contra m HWF p.
  - names_contra m HWF p.
  - apply keys_filter in H. tauto.
  - names_contra m HWF p.
Qed.

Lemma is_base_available k p m : is_base k p m -> In p (base_available m).
Proof. unfold base_available. rewrite !in_app_iff. destruct k; cbn; tauto. Qed.

Lemma to_sort_remove_base k p m : incl (to_sort (remove_base k p m)) (to_sort m).
Proof.
  destruct k; cbn [remove_base]; [apply to_sort_remove_par|apply to_sort_remove_var|].
  rewrite to_sort_remove_dat. apply incl_refl.
Qed.

Lemma avail_remove_base k p m : WF m -> is_base k p m -> ~ In p (base_available (remove_base k p m)).
Proof.
  destruct k; cbn [remove_base is_base]; [apply avail_remove_par|apply avail_remove_var|apply avail_remove_dat].
Qed.

Section Removal.
  Variable F : sort_facts.
  Hypothesis Hchk : f_checks_first F = true.
  Hypothesis Hsc : f_shortcut F <> ScAppendBreak.
  Variable fsem : fnid -> list Z -> option Z.
  Variable fsemN : fnid -> list Z -> option (list Z).

  Lemma removed_base_reported m k p nm cmp :
    WF m -> is_base k p m ->
    In (nm, cmp) (to_sort (remove_base k p m)) -> In p (comp_args cmp) ->
    create_cache fsem fsemN F (remove_base k p m)
    = Err (EMissing (not_solvable (base_available (remove_base k p m)) (map dep_of (to_sort (remove_base k p m)))))
    /\ exists l, In (nm, l) (not_solvable (base_available (remove_base k p m)) (map dep_of (to_sort (remove_base k p m))))
                 /\ In p l.
  Proof.
    intros HWF Hb Hin Ha.
    pose proof (avail_remove_base k p m HWF Hb) as Hnp.
    pose proof (removal_names_missing m (remove_base k p m) p nm cmp HWF (is_base_available k p m Hb)
                                      (to_sort_remove_base k p m) Hnp Hin Ha) as Ho.
    destruct (removal_payload (remove_base k p m) p nm cmp Hin Ha Hnp Ho) as [Hm Hl].
    split; [|exact Hl].
    exact (proj1 (proj1 (bad_graph_no_numbers F Hchk Hsc fsem fsemN (remove_base k p m)) Hm)).
  Qed.
End Removal.
