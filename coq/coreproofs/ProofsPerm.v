(** Declaration-order independence of the VALUES (C02): two models that hold the same components
    in any declaration order build caches that agree as finite maps and answer queries with
    tables that agree on every name.  Ingredients: every view of the containers the cache code
    reads is a permutation; the evaluation pass along ANY valid order follows a given resolved
    environment (so it succeeds and lands on the same values); totality of the remaining stages. *)
From Coq Require Import ZArith List Bool Lia Permutation.
From MxlBase Require Import ListX.
From Core Require Import Sort SortProofs SortAcyclic Model Cache Query.
From CoreP Require Import Spec ProofsEnv ProofsEval ProofsNames ProofsSplit ProofsStoich ProofsCache ProofsTop ProofsRhs ProofsUnique.
Import ListNotations.

(** ---- finite maps under permutation --------------------------------------------------- *)

Lemma lookup_perm {A} k (d d' : list (name * A)) :
  Permutation d d' -> NoDup (keys d) -> lookup k d = lookup k d'.
Proof.
  intros Hp Hnd.
  assert (Hnd' : NoDup (keys d')).
  { eapply Permutation_NoDup; [apply Permutation_map; exact Hp|exact Hnd]. }
  destruct (lookup k d) as [v|] eqn:E.
  - symmetry. apply lookup_NoDup; [exact Hnd'|]. eapply Permutation_in; [exact Hp|]. apply lookup_In. exact E.
  - symmetry. apply lookup_None. apply lookup_None in E. intro H. apply E.
    eapply Permutation_in; [apply Permutation_map; apply Permutation_sym; exact Hp|exact H].
Qed.

Lemma has_perm {A} k (d d' : list (name * A)) : Permutation d d' -> has k d = has k d'.
Proof.
  intro Hp. destruct (has k d) eqn:E; symmetry.
  - apply has_In. apply has_In in E. eapply Permutation_in; [apply Permutation_map; exact Hp|exact E].
  - apply has_false. apply has_false in E. intro H. apply E.
    eapply Permutation_in; [apply Permutation_map; apply Permutation_sym; exact Hp|exact H].
Qed.

Lemma in_keys_perm {A} k (d d' : list (name * A)) : Permutation d d' -> In k (keys d) -> In k (keys d').
Proof. intros Hp. apply Permutation_in. apply Permutation_map. exact Hp. Qed.

Lemma topo_from_incl ds : forall a a', incl a a' -> topo_from a ds -> topo_from a' ds.
Proof.
  induction ds as [|d r IH]; intros a a' Hi Ht; [exact I|].
  cbn [topo_from] in *. destruct Ht as [Hr Ht]. split.
  - intros x Hx. apply Hi. apply Hr. exact Hx.
  - apply (IH (d_prov d ++ a)); [|exact Ht]. apply incl_app_app; [apply incl_refl|exact Hi].
Qed.

Lemma memN_ext_in a b : (forall x, In x a <-> In x b) -> forall x, memN x a = memN x b.
Proof.
  intros H x. destruct (memN x a) eqn:Ea; destruct (memN x b) eqn:Eb; try reflexivity.
  - apply memN_In in Ea. apply H in Ea. apply memN_In in Ea. congruence.
  - apply memN_In in Eb. apply H in Eb. apply memN_In in Eb. congruence.
Qed.

(** ---- the views of the containers ------------------------------------------------------ *)

Lemma same_components_sym m m' : same_components m m' -> same_components m' m.
Proof. intros [A B C D E G]. constructor; apply Permutation_sym; assumption. Qed.

Lemma same_components_refl m : same_components m m.
Proof. constructor; apply Permutation_refl. Qed.

Section Views.
  Variables m m' : model.
  Hypothesis HP : same_components m m'.

  Lemma perm_plain l l' : Permutation l l' -> Permutation (plain_of l) (plain_of l').
  Proof. apply Permutation_flat_map. Qed.
  Lemma perm_ias l l' : Permutation l l' -> Permutation (ias_of l) (ias_of l').
  Proof. apply Permutation_flat_map. Qed.

  Lemma perm_to_sort : Permutation (to_sort m) (to_sort m').
  Proof.
    unfold to_sort, der_comps, rxn_comps, sur_comps.
    repeat apply Permutation_app; try (apply Permutation_map); try (apply perm_ias); apply HP.
  Qed.

  Lemma perm_containers : Permutation (containers m) (containers m').
  Proof.
    unfold containers, der_comps, rxn_comps, sur_comps.
    repeat apply Permutation_app; apply Permutation_map; apply HP.
  Qed.

  Lemma perm_base_available : Permutation (base_available m) (base_available m').
  Proof.
    unfold base_available, keys.
    repeat apply Permutation_app; try apply Permutation_refl; apply Permutation_map; try apply perm_plain; apply HP.
  Qed.

  Lemma perm_all_rxn_entries : Permutation (all_rxn_entries m) (all_rxn_entries m').
  Proof.
    unfold all_rxn_entries. apply Permutation_app; [apply Permutation_map|apply Permutation_flat_map]; apply HP.
  Qed.

  Lemma perm_surrogate_outputs : Permutation (surrogate_outputs m) (surrogate_outputs m').
  Proof. unfold surrogate_outputs. apply Permutation_flat_map. apply HP. Qed.

  Lemma perm_all_names : Permutation (all_names m) (all_names m').
  Proof.
    unfold all_names, keys. apply perm_skip.
    repeat apply Permutation_app; try apply perm_surrogate_outputs; apply Permutation_map; apply HP.
  Qed.

  Lemma WF_perm : WF m -> WF m'.
  Proof.
    intros [W1 W2 W3 W4]. constructor.
    - eapply Permutation_NoDup; [apply perm_all_names|exact W1].
    - intros rn ent Hin.
      assert (Hin' : In (rn, ent) (all_rxn_entries m)).
      { eapply Permutation_in; [apply Permutation_sym, perm_all_rxn_entries|exact Hin]. }
      destruct (W2 rn ent Hin') as [A B]. split; [exact A|].
      intros x Hx. eapply in_keys_perm; [apply HP|]. apply B. exact Hx.
    - intros sn s Hin. apply (W3 sn s). eapply Permutation_in; [apply Permutation_sym; apply HP|exact Hin].
    - intros rn ent cpd cf Hin Hc a Ha Hd.
      assert (Hin' : In (rn, ent) (all_rxn_entries m)).
      { eapply Permutation_in; [apply Permutation_sym, perm_all_rxn_entries|exact Hin]. }
      apply (W4 rn ent cpd cf Hin' Hc a Ha).
      eapply in_keys_perm; [apply Permutation_sym; apply HP|exact Hd].
  Qed.

  Lemma OnlyParams_perm k : OnlyParams m k -> OnlyParams m' k.
  Proof.
    induction 1 as [p Hp|d der Hd Ha IH].
    - apply OP_par. eapply in_keys_perm; [apply HP|exact Hp].
    - apply (OP_der m' d der); [|exact IH]. eapply Permutation_in; [apply HP|exact Hd].
  Qed.

  Lemma acyclic_perm_model :
    Acyclic (base_available m) (map dep_of (to_sort m)) -> Acyclic (base_available m') (map dep_of (to_sort m')).
  Proof.
    intros [ds [Hp Ht]]. exists ds. split.
    - eapply Permutation_trans; [exact Hp|]. apply Permutation_map. apply perm_to_sort.
    - apply (topo_from_incl ds (base_available m)); [|exact Ht].
      intros x Hx. eapply Permutation_in; [apply perm_base_available|exact Hx].
  Qed.

  Hypothesis HWF : WF m.

  Lemma dependent0_perm k : lookup k (dependent0 m) = lookup k (dependent0 m').
  Proof.
    pose proof (WF_perm HWF) as HWF'.
    unfold dependent0. cbn [lookup]. destruct (N.eqb k time_name); [reflexivity|].
    rewrite !lookup_env_of_dict_nodup;
      try (apply nodup_keys_dat; assumption);
      try (apply nodup_keys_plain_var; assumption);
      try (apply nodup_keys_plain_par; assumption).
    rewrite <- (lookup_perm k (m_dat m) (m_dat m')); [|apply HP|apply nodup_keys_dat; exact HWF].
    rewrite <- (lookup_perm k (plain_of (m_var m)) (plain_of (m_var m')));
      [|apply perm_plain; apply HP|apply nodup_keys_plain_var; exact HWF].
    rewrite <- (lookup_perm k (plain_of (m_par m)) (plain_of (m_par m')));
      [|apply perm_plain; apply HP|apply nodup_keys_plain_par; exact HWF].
    reflexivity.
  Qed.
End Views.

(** ---- the evaluation pass follows a resolved environment -------------------------------- *)

Section Follow.
  Variable fsem : fnid -> list Z -> option Z.
  Variable fsemN : fnid -> list Z -> option (list Z).

  Lemma eval_comp_follows nm c (e E : env) :
    (forall a, In a (comp_args c) -> lookup a e = lookup a E) ->
    comp_holds fsem fsemN nm c E ->
    exists e', eval_comp fsem fsemN nm c e = Val e'
               /\ (forall o, In o (comp_outs nm c) -> lookup o e' = lookup o E)
               /\ (forall k, ~ In k (comp_outs nm c) -> lookup k e' = lookup k e).
  Proof.
    intros Hargs Hh.
    assert (Hframe : forall e', eval_comp fsem fsemN nm c e = Val e' ->
                                forall k, ~ In k (comp_outs nm c) -> lookup k e' = lookup k e).
    { intros e' He'. apply (eval_comp_frame fsem fsemN nm c e e' He'). }
    destruct c as [f args|f args outs]; cbn [comp_holds comp_args comp_outs eval_comp] in *.
    - destruct Hh as (vs & v & A & B & C).
      exists ((nm, v) :: e). unfold calc in *. rewrite (lookups_ext args E e Hargs), A, B. cbn [bind].
      split; [reflexivity|]. split.
      + intros o [<-|[]]. rewrite lookup_cons_eq. symmetry. exact C.
      + apply Hframe. unfold calc. rewrite (lookups_ext args E e Hargs), A, B. reflexivity.
    - destruct Hh as (vs & ws & A & B & L & C).
      rewrite (lookups_ext args E e Hargs), A, B in *.
      assert (El : Nat.eqb (length ws) (length outs) = true) by (apply Nat.eqb_eq; exact L).
      rewrite El in *. exists (env_of_dict (combine outs ws) e). split; [reflexivity|]. split.
      + intros o Ho. rewrite lookup_env_of_dict.
        assert (Hk : keys (combine outs ws) = outs) by (apply keys_combine; symmetry; exact L).
        assert (Hin : In o (keys (rev (combine outs ws)))).
        { rewrite keys_rev. apply -> in_rev. rewrite Hk. exact Ho. }
        destruct (lookup_Some_of_In o _ Hin) as [w Ew]. rewrite Ew.
        apply lookup_In in Ew. apply in_rev in Ew.
        destruct (In_nth_error _ _ Ew) as [i Hi]. rewrite nth_error_combine in Hi.
        destruct (nth_error outs i) as [o'|] eqn:Eo; [|discriminate].
        destruct (nth_error ws i) as [w'|] eqn:Ew'; [|discriminate].
        injection Hi as -> ->. symmetry. apply (C i o w Eo Ew').
      + apply Hframe. reflexivity.
  Qed.

  Lemma eval_list_follows cs : forall avail (e E : env),
    topo_from avail (map dep_of cs) ->
    (forall k, In k avail -> lookup k e = lookup k E) ->
    (forall nm c, In (nm, c) cs -> comp_holds fsem fsemN nm c E) ->
    exists e', eval_list fsem fsemN cs e = Val e'
               /\ (forall k, In k (flat_map outs_of cs) \/ In k avail -> lookup k e' = lookup k E)
               /\ (forall k, ~ In k (flat_map outs_of cs) -> lookup k e' = lookup k e).
  Proof.
    induction cs as [|[nm c] r IH]; intros avail e E Ht Hav Hc.
    - exists e. split; [reflexivity|]. split; [|reflexivity]. intros k [[]|Hk]. apply Hav. exact Hk.
    - cbn [map topo_from] in Ht. destruct Ht as [Hreq Ht]. rewrite d_prov_dep_of in Ht.
      unfold dep_of in Hreq. cbn [d_req fst snd] in Hreq.
      destruct (eval_comp_follows nm c e E) as (e1 & He1 & Ho1 & Hf1).
      { intros a Ha. apply Hav. apply Hreq. exact Ha. }
      { apply Hc. left. reflexivity. }
      destruct (IH (outs_of (nm, c) ++ avail) e1 E Ht) as (e2 & He2 & Ho2 & Hf2).
      { intros k Hk. rewrite in_app_iff in Hk.
        destruct (in_dec N.eq_dec k (comp_outs nm c)) as [Hi|Hn]; [apply Ho1; exact Hi|].
        rewrite Hf1 by exact Hn. destruct Hk as [Hk|Hk]; [contradiction|apply Hav; exact Hk]. }
      { intros nm' c' Hin. apply Hc. right. exact Hin. }
      exists e2. cbn [eval_list fst snd]. rewrite He1. cbn [bind]. split; [exact He2|]. split.
      + intros k Hk. apply Ho2. cbn [flat_map] in Hk. rewrite !in_app_iff in *. tauto.
      + intros k Hk. cbn [flat_map] in Hk. rewrite in_app_iff in Hk.
        rewrite Hf2 by tauto. apply Hf1. tauto.
  Qed.
End Follow.

(** ---- totality of the stages after the evaluation pass ----------------------------------- *)

Lemma ias_keys_incl l k : In k (keys (ias_of l)) -> In k (keys l).
Proof. intro H. apply cnt_In. apply cnt_In in H. pose proof (cnt_keys_plain_ias k l). lia. Qed.

Lemma split_total m : forall order ap,
  (forall k, In k order -> In k (keys (to_sort m))) ->
  exists s d a, split_order m order ap = Val (s, d, a).
Proof.
  induction order as [|nm rest IH]; intros ap H.
  - exists [], [], ap. reflexivity.
  - assert (Hr : forall k, In k rest -> In k (keys (to_sort m))) by (intros k Hk; apply H; right; exact Hk).
    cbn [split_order].
    destruct (has nm (m_rxn m) || has nm (m_sur m)) eqn:E1.
    { destruct (IH ap Hr) as (s & d & a & E). rewrite E. cbn [bind]. eauto. }
    destruct (has nm (m_var m) || has nm (m_par m)) eqn:E2.
    { destruct (IH ap Hr) as (s & d & a & E). rewrite E. cbn [bind]. eauto. }
    assert (Hd : In nm (keys (m_der m))).
    { specialize (H nm (or_introl eq_refl)). rewrite keys_to_sort, !in_app_iff in H.
      apply orb_false_iff in E1. destruct E1 as [Er Es]. apply orb_false_iff in E2. destruct E2 as [Ev Ep].
      apply has_false in Er, Es, Ev, Ep.
      destruct H as [H|[H|[H|[H|H]]]]; try contradiction; try exact H; exfalso.
      - apply Ev. apply ias_keys_incl. exact H.
      - apply Ep. apply ias_keys_incl. exact H. }
    destruct (lookup_Some_of_In nm _ Hd) as [der El]. rewrite El.
    destruct (forallb (fun i => memN i ap) (d_args der)).
    + destruct (IH (nm :: ap) Hr) as (s & d & a & E). rewrite E. cbn [bind]. eauto.
    + destruct (IH ap Hr) as (s & d & a & E). rewrite E. cbn [bind]. eauto.
Qed.

Lemma add_entries_total fsem allpar dep rn : forall ent t,
  (forall cpd f args, In (cpd, CDyn f args) ent -> static_args allpar args = true ->
                      exists v, calc fsem f args dep = Val v) ->
  exists t', add_stoich_entries fsem allpar dep rn t ent = Val t'.
Proof.
  induction ent as [|[cpd cf] rest IH]; intros t H; [eexists; reflexivity|].
  cbn [add_stoich_entries].
  assert (H1 : exists t1, add_stoich_entry fsem allpar dep rn t (cpd, cf) = Val t1).
  { destruct t as [st dy]. unfold add_stoich_entry. cbn [fst snd]. destruct cf as [q|f args]; [eexists; reflexivity|].
    destruct (forallb (fun i => memN i allpar) args) eqn:Es; [|eexists; reflexivity].
    destruct (H cpd f args (or_introl eq_refl) Es) as [v Ev]. rewrite Ev. cbn [bind]. eexists; reflexivity. }
  destruct H1 as [t1 E1]. rewrite E1. cbn [bind]. apply IH.
  intros cpd' f args Hin Hs. apply (H cpd' f args); [right; exact Hin|exact Hs].
Qed.

Lemma add_rxns_total fsem allpar dep : forall rs t,
  (forall rn ent cpd f args, In (rn, ent) rs -> In (cpd, CDyn f args) ent -> static_args allpar args = true ->
                             exists v, calc fsem f args dep = Val v) ->
  exists t', add_rxn_list fsem allpar dep t rs = Val t'.
Proof.
  induction rs as [|[rn ent] rest IH]; intros t H; [eexists; reflexivity|].
  cbn [add_rxn_list].
  destruct (add_entries_total fsem allpar dep rn ent t) as [t1 E1].
  { intros cpd f args Hin Hs. apply (H rn ent cpd f args); [left; reflexivity|exact Hin|exact Hs]. }
  rewrite E1. cbn [bind]. apply IH.
  intros rn' ent' cpd f args Hin Hc Hs. apply (H rn' ent' cpd f args); [right; exact Hin|exact Hc|exact Hs].
Qed.

Lemma init_total (dep : env) : forall vars,
  (forall k, In k vars -> exists v, lookup k dep = Some v) -> exists r, init_conditions vars dep = Val r.
Proof.
  induction vars as [|k rest IH]; intro H; [eexists; reflexivity|].
  cbn [init_conditions]. destruct (H k (or_introl eq_refl)) as [v Ev]. rewrite Ev.
  destruct IH as [r Er]; [intros k' Hk'; apply H; right; exact Hk'|]. rewrite Er. cbn [bind]. eexists; reflexivity.
Qed.

Lemma fill_total m (dep : env) : forall so acc,
  (forall k, In k so -> has k (m_var m) = true
                        \/ ((has k (m_par m) || has k (m_der m)) = true /\ exists v, lookup k dep = Some v)) ->
  exists r, fill_all_par m dep so acc = Val r.
Proof.
  induction so as [|nm rest IH]; intros acc H; [eexists; reflexivity|].
  cbn [fill_all_par].
  assert (Hr : forall k, In k rest -> has k (m_var m) = true
                 \/ ((has k (m_par m) || has k (m_der m)) = true /\ exists v, lookup k dep = Some v)).
  { intros k Hk. apply H. right. exact Hk. }
  destruct (has nm (m_var m)) eqn:Ev; [apply IH; exact Hr|].
  destruct (H nm (or_introl eq_refl)) as [E|[E [v El]]]; [congruence|].
  rewrite E, El. apply IH. exact Hr.
Qed.

(** ---- the cache of the re-ordered model ---------------------------------------------------- *)

Section Transfer.
  Variable F : sort_facts.
  Hypothesis Hsc : f_shortcut F <> ScAppendBreak.
  Hypothesis Hcap : f_cap F = CapSquare.
  Hypothesis Hcmp : f_cmp F = CmpGt.
  Variable fsem : fnid -> list Z -> option Z.
  Variable fsemN : fnid -> list Z -> option (list Z).

  Lemma sorted_acyclic m order :
    sort F (base_available m) (map dep_of (to_sort m)) = Ok order ->
    Acyclic (base_available m) (map dep_of (to_sort m)).
  Proof.
    intro Hs. destruct (sort_ok_topo F _ _ _ Hsc Hs) as [ds [_ [Hp Ht]]]. exists ds. split; assumption.
  Qed.

  Lemma cache_acyclic m c :
    create_cache fsem fsemN F m = Val c -> Acyclic (base_available m) (map dep_of (to_sort m)).
  Proof.
    intro Hc. destruct (create_cache_inv _ _ _ _ _ Hc) as (order & ? & ? & ? & ? & ? & ? & ? & ? & Hsort & _).
    eapply sorted_acyclic. exact Hsort.
  Qed.

  (** what two caches have in common when they were built from the same components *)
  Definition cache_agree (m' : model) (c c' : cache) : Prop :=
    (forall k, lookup k (c_init c') = lookup k (c_init c))
    /\ (forall k, lookup k (c_all_par c') = lookup k (c_all_par c))
    /\ (forall k, lookup k (c_base_par c') = lookup k (c_base_par c))
    /\ c_var_names c' = keys (m_var m').

  Variables m m' : model.
  Hypothesis HWF : WF m.
  Hypothesis HP : same_components m m'.

  Lemma cache_transfer c :
    create_cache fsem fsemN F m = Val c ->
    exists c', create_cache fsem fsemN F m' = Val c' /\ cache_agree m' c c'.
  Proof.
    intro Hc.
    destruct (create_cache_inv _ _ _ _ _ Hc) as
        (order & dependent & s & d & a & st & dy & init & all_par & Hsort & Heval & Hsplit & Hadd & Hinit & Hfill & ->).
    destruct (order_cs F Hsc m order Hsort) as (cs & Hord & Hperm & Htopo).
    pose proof (WF_perm m m' HP HWF) as HWF'.
    pose proof (perm_to_sort m m' HP) as Hpts.
    (* 1: the sorter accepts the re-ordered graph *)
    destruct (sort_complete_acyclic F (base_available m') (map dep_of (to_sort m')) Hcap Hcmp) as [order' Hsort'].
    { rewrite map_name_dep_of. apply (nodup_keys_to_sort m' HWF'). }
    { apply (acyclic_perm_model m m' HP). eapply sorted_acyclic. exact Hsort. }
    destruct (order_cs F Hsc m' order' Hsort') as (cs' & Hord' & Hperm' & Htopo').
    (* 2: the evaluation pass follows [dependent] *)
    assert (Hts : forall nm c, In (nm, c) (to_sort m') -> In (nm, c) (to_sort m)).
    { intros nm c. apply Permutation_in. apply Permutation_sym. exact Hpts. }
    assert (Houts : forall k, In k (flat_map outs_of (to_sort m')) <-> In k (flat_map outs_of (to_sort m))).
    { intro k. split; apply Permutation_in; apply Permutation_flat_map; [apply Permutation_sym|]; exact Hpts. }
    assert (Hbase : forall k, In k (base_available m') -> ~ In k (flat_map outs_of (to_sort m))).
    { intros k Hk Ho. apply (NoDup_app_disj _ _ k (nodup_avail_outs m HWF)); [|exact Ho].
      eapply Permutation_in; [apply Permutation_sym, (perm_base_available m m' HP)|exact Hk]. }
    destruct (eval_list_follows fsem fsemN cs' (base_available m') (dependent0 m') dependent Htopo')
      as (dependent' & Hev' & Hag' & Hfr').
    { intros k Hk. rewrite <- (dependent0_perm m m' HP HWF k). symmetry.
      apply (dep_frame fsem fsemN m order cs dependent HWF Hord Hperm Htopo Heval). apply Hbase. exact Hk. }
    { intros nm c Hin. apply (dep_holds fsem fsemN m order cs dependent HWF Hord Hperm Htopo Heval).
      apply Hts. eapply Permutation_in; [exact Hperm'|exact Hin]. }
    assert (Heval' : eval_order fsem fsemN (to_sort m') order' (dependent0 m') = Val dependent').
    { rewrite Hord'. rewrite (eval_order_list fsem fsemN (to_sort m') cs'); [exact Hev'|].
      intros nm c Hin. apply (lookup_to_sort m' HWF'). eapply Permutation_in; [exact Hperm'|exact Hin]. }
    assert (Hdep : forall k, lookup k dependent' = lookup k dependent).
    { intro k. destruct (in_dec N.eq_dec k (flat_map outs_of cs')) as [Hi|Hn]; [apply Hag'; left; exact Hi|].
      rewrite Hfr' by exact Hn. rewrite <- (dependent0_perm m m' HP HWF k). symmetry.
      apply (dep_frame fsem fsemN m order cs dependent HWF Hord Hperm Htopo Heval).
      intro Ho. apply Hn. eapply Permutation_in; [apply Permutation_flat_map, Permutation_sym; exact Hperm'|].
      apply Houts. exact Ho. }
    (* 3: the split *)
    assert (Hok' : forall k, In k order' -> In k (keys (to_sort m'))).
    { intros k Hk. rewrite Hord' in Hk. eapply Permutation_in; [apply Permutation_map; exact Hperm'|exact Hk]. }
    destruct (split_total m' order' (keys (m_par m')) Hok') as (s' & d' & a' & Hsplit').
    (* 5: initial conditions *)
    destruct (init_total dependent' (keys (m_var m'))) as [init' Hinit'].
    { intros k Hk. rewrite Hdep.
      assert (Hk0 : In k (keys (m_var m))) by (eapply in_keys_perm; [apply Permutation_sym; apply HP|exact Hk]).
      pose proof (init_lookup m dependent init Hinit k Hk0) as E. rewrite <- E.
      apply lookup_Some_of_In. rewrite (init_keys m dependent init Hinit). exact Hk0. }
    (* 6: the frozen table *)
    destruct (fill_total m' dependent' s' (plain_of (m_par m'))) as [all_par' Hfill'].
    { intros k Hk.
      destruct (split_basic m' _ _ _ _ _ Hsplit') as (_ & Hsd & _ & _ & Hsc' & _).
      assert (Hko : In k (keys (to_sort m'))).
      { apply Hok'. eapply Permutation_in; [exact Hsd|]. apply in_app_iff. left. exact Hk. }
      destruct (Hsc' k Hk) as [Hnf _]. unfold is_flux in Hnf. apply orb_false_iff in Hnf. destruct Hnf as [Hr Hs].
      apply has_false in Hr, Hs.
      destruct (has k (m_var m')) eqn:Ev; [left; reflexivity|right].
      apply has_false in Ev.
      rewrite keys_to_sort, !in_app_iff in Hko.
      destruct Hko as [H|[H|[H|[H|H]]]]; try contradiction.
      - exfalso. apply Ev. apply ias_keys_incl. exact H.
      - split; [apply orb_true_iff; left; apply has_In; apply ias_keys_incl; exact H|].
        unfold keys in H. apply in_map_iff in H. destruct H as [[k' c] [E Hin]]. cbn [fst] in E. subst k'.
        assert (Hin' : In (k, c) (to_sort m')) by (unfold to_sort; rewrite !in_app_iff; right; left; exact Hin).
        apply in_ias_of in Hin. destruct Hin as (f & ar & -> & _).
        destruct (dep_holds fsem fsemN m order cs dependent HWF Hord Hperm Htopo Heval k _ (Hts _ _ Hin'))
          as (vs & v & _ & _ & Hl). exists v. rewrite Hdep. exact Hl.
      - split; [apply orb_true_iff; right; apply has_In; exact H|].
        unfold keys in H. apply in_map_iff in H. destruct H as [[k' der] [E Hin]]. cbn [fst] in E. subst k'.
        assert (Hin' : In (k, CFn (d_fn der) (d_args der)) (to_sort m')).
        { unfold to_sort. rewrite !in_app_iff. right. right. left. apply in_der_comps. exists der. split; [reflexivity|exact Hin]. }
        destruct (dep_holds fsem fsemN m order cs dependent HWF Hord Hperm Htopo Heval k _ (Hts _ _ Hin'))
          as (vs & v & _ & _ & Hl). exists v. rewrite Hdep. exact Hl. }
    (* 4: the coefficient tables: the same coefficients are static, with the same values *)
    assert (Ha : forall k, In k a' <-> In k a).
    { intro k.
      rewrite (a_dom fsem fsemN m' order' cs' dependent' s' d' a' all_par' HWF' Hord' Hperm' Htopo' Heval' Hsplit' Hfill' k).
      rewrite (a_dom fsem fsemN m order cs dependent s d a all_par HWF Hord Hperm Htopo Heval Hsplit Hfill k).
      pose proof (same_components_sym m m' HP) as HP'.
      split; (intros [Hp|[Hd Hop]]; [left|right; split]).
      - eapply in_keys_perm; [apply HP'|exact Hp].
      - eapply in_keys_perm; [apply HP'|exact Hd].
      - apply (OnlyParams_perm m' m HP'). exact Hop.
      - eapply in_keys_perm; [apply HP|exact Hp].
      - eapply in_keys_perm; [apply HP|exact Hd].
      - apply (OnlyParams_perm m m' HP). exact Hop. }
    destruct (add_rxns_rows fsem a dependent (all_rxn_entries m) ([], []) (st, dy) Hadd
                            (nodup_keys_all_rxn_entries m HWF)) as (_ & _ & Hcalc & _).
    { intros rn ent Hin. apply (wf_st_keys m HWF rn ent Hin). }
    destruct (add_rxns_total fsem a' dependent' (all_rxn_entries m') ([], [])) as [[st' dy'] Hadd'].
    { intros rn ent cpd f args Hin Hcf Hst.
      rewrite (calc_ext fsem dependent dependent' Hdep).
      apply (Hcalc rn ent cpd f args).
      - eapply Permutation_in; [apply Permutation_sym, (perm_all_rxn_entries m m' HP)|exact Hin].
      - exact Hcf.
      - unfold static_args in *. rewrite forallb_forall in *. intros i Hi. apply memN_In. apply Ha. apply memN_In. apply Hst. exact Hi. }
    (* assemble *)
    exists (mkCache order' (keys (m_var m')) d' (plain_of (m_par m')) all_par' st' dy' init').
    split.
    - unfold create_cache, sort_res. rewrite Hsort'. cbn [bind].
      unfold dependent0 in Heval'. rewrite Heval'. cbn [bind]. rewrite Hsplit'. cbn [bind].
      rewrite Hadd'. cbn [bind]. rewrite Hinit'. cbn [bind]. rewrite Hfill'. cbn [bind]. reflexivity.
    - unfold cache_agree. cbn [c_init c_all_par c_base_par c_var_names]. repeat split.
      + intro k. destruct (in_dec N.eq_dec k (keys (m_var m))) as [Hi|Hn].
        * rewrite (init_lookup m dependent init Hinit k Hi).
          rewrite (init_lookup m' dependent' init' Hinit' k); [apply Hdep|].
          eapply in_keys_perm; [apply HP|exact Hi].
        * assert (E1 : lookup k init = None).
          { apply lookup_None. rewrite (init_keys m dependent init Hinit). exact Hn. }
          assert (E2 : lookup k init' = None).
          { apply lookup_None. rewrite (init_keys m' dependent' init' Hinit'). intro H. apply Hn.
            eapply in_keys_perm; [apply Permutation_sym; apply HP|exact H]. }
          rewrite E1, E2. reflexivity.
      + intro k.
        assert (Hh : has k all_par' = has k all_par).
        { assert (Hiff : has k all_par' = true <-> has k all_par = true).
          { rewrite (all_par_dom fsem fsemN m' order' cs' dependent' s' d' a' all_par' HWF' Hord' Hperm' Htopo' Heval' Hsplit' Hfill' k).
            rewrite (all_par_dom fsem fsemN m order cs dependent s d a all_par HWF Hord Hperm Htopo Heval Hsplit Hfill k).
            rewrite <- (a_dom fsem fsemN m' order' cs' dependent' s' d' a' all_par' HWF' Hord' Hperm' Htopo' Heval' Hsplit' Hfill' k).
            rewrite <- (a_dom fsem fsemN m order cs dependent s d a all_par HWF Hord Hperm Htopo Heval Hsplit Hfill k).
            apply Ha. }
          destruct (has k all_par'); destruct (has k all_par); try reflexivity.
          - destruct Hiff as [H1 _]. discriminate (H1 eq_refl).
          - destruct Hiff as [_ H2]. discriminate (H2 eq_refl). }
        destruct (has k all_par) eqn:E.
        * rewrite (all_par_val fsem fsemN m' order' cs' dependent' s' d' a' all_par' HWF' Hord' Hperm' Htopo' Heval' Hsplit' Hfill' k Hh).
          rewrite (all_par_val fsem fsemN m order cs dependent s d a all_par HWF Hord Hperm Htopo Heval Hsplit Hfill k E).
          apply Hdep.
        * apply has_lookup_None in Hh. apply has_lookup_None in E. rewrite Hh, E. reflexivity.
      + intro k. symmetry. apply lookup_perm; [apply perm_plain; apply HP|apply nodup_keys_plain_par; exact HWF].
  Qed.
End Transfer.

(** ---- stoichiometry x rates is a sum: order of the reactions and extensional environment ---- *)

Section RhsSpec.
  Variable fsem : fnid -> list Z -> option Z.

  Lemma sum_entries_ext x flux ent (e e' : env) :
    (forall k, lookup k e' = lookup k e) -> sum_entries fsem x flux ent e' = sum_entries fsem x flux ent e.
  Proof.
    intro H. induction ent as [|[cpd cf] rest IH]; [reflexivity|].
    cbn [sum_entries]. rewrite IH.
    assert (Hc : coef_val fsem cf e' = coef_val fsem cf e).
    { destruct cf as [q|f args]; [reflexivity|]. cbn [coef_val].
      rewrite (lookups_ext args e e'); [reflexivity|]. intros a _. apply H. }
    rewrite Hc. reflexivity.
  Qed.

  Lemma rhs_spec_ext x rs (e e' : env) :
    (forall k, lookup k e' = lookup k e) -> rhs_spec fsem x rs e' = rhs_spec fsem x rs e.
  Proof.
    intro H. induction rs as [|[rn ent] rest IH]; [reflexivity|].
    cbn [rhs_spec]. rewrite IH, H. destruct (lookup rn e) as [flux|]; [|reflexivity].
    rewrite (sum_entries_ext x flux ent e e' H). reflexivity.
  Qed.

  Lemma rhs_spec_perm x rs rs' (e : env) :
    Permutation rs rs' -> rhs_spec fsem x rs e = rhs_spec fsem x rs' e.
  Proof.
    induction 1 as [|[rn ent] l l' Hp IH|[rn1 ent1] [rn2 ent2] l|l1 l2 l3 H1 IH1 H2 IH2].
    - reflexivity.
    - cbn [rhs_spec]. rewrite IH. reflexivity.
    - cbn [rhs_spec].
      destruct (lookup rn1 e) as [f1|]; destruct (lookup rn2 e) as [f2|];
        destruct (rhs_spec fsem x l e) as [s|]; try reflexivity.
      destruct (sum_entries fsem x f1 ent1 e) as [a1|]; destruct (sum_entries fsem x f2 ent2 e) as [a2|];
        try reflexivity. f_equal. lia.
    - rewrite IH1. exact IH2.
  Qed.
End RhsSpec.

(** ---- the argument table of the re-ordered model -------------------------------------------- *)

Section QueryAgree.
  Variable F : sort_facts.
  Hypothesis Hsc : f_shortcut F <> ScAppendBreak.
  Hypothesis Hcap : f_cap F = CapSquare.
  Hypothesis Hcmp : f_cmp F = CmpGt.
  Variable fsem : fnid -> list Z -> option Z.
  Variable fsemN : fnid -> list Z -> option (list Z).

  (** the table [_get_args] returns, as a finite map: what every name is bound to *)
  Lemma args_table_char m c vars t e :
    WF m -> create_cache fsem fsemN F m = Val c ->
    NoDup (keys vars) -> incl (keys vars) (keys (m_var m)) ->
    get_args_raw fsem fsemN m c vars t = Val e ->
    lookup time_name e = Some t
    /\ (forall x, In x (keys (m_var m)) -> lookup x e = lookup x vars)
    /\ (forall p, In p (keys (m_par m)) -> lookup p e = lookup p (c_all_par c))
    /\ (forall nm cmp, In (nm, cmp) (containers m) -> comp_holds fsem fsemN nm cmp (env_of_dict (m_dat m) e))
    /\ (forall k, In k (keys (m_dat m)) -> lookup k e = None)
    /\ (forall k, k <> time_name -> ~ In k (keys (m_var m)) -> ~ In k (keys (m_par m)) -> ~ In k (keys (m_der m)) ->
                  ~ In k (keys (m_rxn m)) -> ~ In k (surrogate_outputs m) -> lookup k e = None).
  Proof.
    intros HWF Hc Hvnd Hvars Hq.
    destruct (get_args_raw_inv _ _ _ _ _ _ _ Hq) as [e1 [He1 ->]].
    destruct (create_cache_inv _ _ _ _ _ Hc) as
        (order & dependent & s & d & a & st & dy & init & all_par & Hsort & Heval & Hsplit & Hadd & Hinit & Hfill & ->).
    destruct (order_cs F Hsc m order Hsort) as (cs & Hord & Hperm & Htopo).
    cbn [c_dyn_order c_all_par] in *.
    destruct (args_resolved_core fsem fsemN m order cs dependent s d a all_par HWF Hord Hperm Htopo Heval Hsplit Hfill
                                 vars t e1 Hvnd Hvars He1) as (R1 & R2 & R3 & R4 & R5).
    split; [exact R1|]. split; [|split; [|split; [exact R4|split]]].
    - intros x Hx. destruct (lookup x vars) as [v|] eqn:E; [apply R2; exact E|].
      apply (popped_unsupplied_var fsem fsemN m order cs dependent s d a all_par HWF Hord Hperm Htopo Heval Hsplit Hfill
                                   vars t e1 He1 x Hx).
      apply lookup_None. exact E.
    - intros p Hp.
      apply (popped_frozen fsem fsemN m order cs dependent s d a all_par HWF Hord Hperm Htopo Heval Hsplit Hfill
                           vars t e1 Hvars He1 p). left. exact Hp.
    - intros k Hk. apply popped_data. exact Hk.
    - apply (popped_unbound fsem fsemN m order cs dependent s d a all_par HWF Hord Hperm Htopo Heval Hsplit Hfill
                            vars t e1 Hvars He1).
  Qed.

  Variables m m' : model.
  Hypothesis HWF : WF m.
  Hypothesis HP : same_components m m'.

  Lemma args_agree c c' vars vars' t e e' :
    create_cache fsem fsemN F m = Val c -> create_cache fsem fsemN F m' = Val c' ->
    NoDup (keys vars) -> NoDup (keys vars') -> incl (keys vars) (keys (m_var m)) ->
    (forall k, lookup k vars' = lookup k vars) ->
    get_args_raw fsem fsemN m c vars t = Val e ->
    get_args_raw fsem fsemN m' c' vars' t = Val e' ->
    forall k, lookup k e' = lookup k e.
  Proof.
    intros Hc Hc' Hnd Hnd' Hvars Hvv Hq Hq'.
    pose proof (WF_perm m m' HP HWF) as HWF'.
    pose proof (same_components_sym m m' HP) as HP'.
    destruct (cache_transfer F Hsc Hcap Hcmp fsem fsemN m m' HWF HP c Hc) as (c'' & Hc'' & _ & Hall & _ & _).
    rewrite Hc' in Hc''. injection Hc'' as <-.
    assert (Hvars' : incl (keys vars') (keys (m_var m'))).
    { intros x Hx. eapply in_keys_perm; [apply HP|]. apply Hvars.
      destruct (lookup_Some_of_In x _ Hx) as [v Ev]. rewrite Hvv in Ev. eapply lookup_In_keys. exact Ev. }
    destruct (args_table_char m c vars t e HWF Hc Hnd Hvars Hq) as (T1 & V1 & P1 & C1 & D1 & U1).
    destruct (args_table_char m' c' vars' t e' HWF' Hc' Hnd' Hvars' Hq') as (T2 & V2 & P2 & C2 & D2 & U2).
    assert (Hmem : forall (A : Type) (f : model -> list (name * A)), True) by (intros; exact I). clear Hmem.
    assert (Hvar : forall k, In k (keys (m_var m')) <-> In k (keys (m_var m))).
    { intro k. split; apply in_keys_perm; [apply HP'|apply HP]. }
    assert (Hpar : forall k, In k (keys (m_par m')) <-> In k (keys (m_par m))).
    { intro k. split; apply in_keys_perm; [apply HP'|apply HP]. }
    assert (Hder : forall k, In k (keys (m_der m')) <-> In k (keys (m_der m))).
    { intro k. split; apply in_keys_perm; [apply HP'|apply HP]. }
    assert (Hrxn : forall k, In k (keys (m_rxn m')) <-> In k (keys (m_rxn m))).
    { intro k. split; apply in_keys_perm; [apply HP'|apply HP]. }
    assert (Hdat : forall k, In k (keys (m_dat m')) <-> In k (keys (m_dat m))).
    { intro k. split; apply in_keys_perm; [apply HP'|apply HP]. }
    assert (Hso : forall k, In k (surrogate_outputs m') <-> In k (surrogate_outputs m)).
    { intro k. split; apply Permutation_in; [apply Permutation_sym|]; apply (perm_surrogate_outputs m m' HP). }
    (* the tables with the data sets put back agree on every component name *)
    assert (HE : forall k, ~ In k (keys (m_dat m)) ->
                           lookup k (env_of_dict (m_dat m) e) = lookup k e
                           /\ lookup k (env_of_dict (m_dat m') e') = lookup k e').
    { intros k Hk. split; apply lookup_env_of_dict_notin; [exact Hk|]. intro H. apply Hk. apply Hdat. exact H. }
    assert (Huniq : forall k, In k (keys (m_der m)) \/ In k (keys (m_rxn m)) \/ In k (surrogate_outputs m) ->
                              lookup k (env_of_dict (m_dat m) e) = lookup k (env_of_dict (m_dat m') e')).
    { apply (resolved_unique fsem fsemN m).
      - eapply cache_acyclic; eassumption.
      - destruct (HE time_name) as [E1 E2]; [intro H; names_contra m HWF time_name|].
        rewrite E1, E2, T1, T2. reflexivity.
      - intros x Hx. destruct (HE x) as [E1 E2]; [intro H; names_contra m HWF x|].
        rewrite E1, E2, V1, V2, Hvv; [reflexivity|apply Hvar; exact Hx|exact Hx].
      - intros p Hp. destruct (HE p) as [E1 E2]; [intro H; names_contra m HWF p|].
        rewrite E1, E2, P1, P2, Hall; [reflexivity|apply Hpar; exact Hp|exact Hp].
      - intros k Hk.
        rewrite !lookup_env_of_dict_nodup; try (apply nodup_keys_dat; assumption).
        rewrite <- (lookup_perm k (m_dat m) (m_dat m')); [|apply HP|apply nodup_keys_dat; exact HWF].
        destruct (lookup_Some_of_In k _ Hk) as [v Ev]. rewrite Ev. reflexivity.
      - intros nm cmp Hin. split; [apply C1; exact Hin|]. apply C2.
        eapply Permutation_in; [apply (perm_containers m m' HP)|exact Hin]. }
    intro k.
    destruct (in_dec N.eq_dec k (keys (m_dat m))) as [Hd|Hd].
    { rewrite D1 by exact Hd. apply D2. apply Hdat. exact Hd. }
    destruct (N.eq_dec k time_name) as [->|Ht]; [rewrite T1, T2; reflexivity|].
    destruct (in_dec N.eq_dec k (keys (m_var m))) as [Hv|Hv].
    { rewrite V1 by exact Hv. rewrite V2 by (apply Hvar; exact Hv). apply Hvv. }
    destruct (in_dec N.eq_dec k (keys (m_par m))) as [Hp|Hp].
    { rewrite P1 by exact Hp. rewrite P2 by (apply Hpar; exact Hp). apply Hall. }
    destruct (in_dec N.eq_dec k (keys (m_der m))) as [Hde|Hde].
    { destruct (HE k Hd) as [E1 E2]. rewrite <- E1, <- E2. symmetry. apply Huniq. left. exact Hde. }
    destruct (in_dec N.eq_dec k (keys (m_rxn m))) as [Hr|Hr].
    { destruct (HE k Hd) as [E1 E2]. rewrite <- E1, <- E2. symmetry. apply Huniq. right. left. exact Hr. }
    destruct (in_dec N.eq_dec k (surrogate_outputs m)) as [Hs|Hs].
    { destruct (HE k Hd) as [E1 E2]. rewrite <- E1, <- E2. symmetry. apply Huniq. right. right. exact Hs. }
    rewrite (U1 k Ht Hv Hp Hde Hr Hs). apply (U2 k Ht).
    - intro H. apply Hv. apply Hvar. exact H.
    - intro H. apply Hp. apply Hpar. exact H.
    - intro H. apply Hde. apply Hder. exact H.
    - intro H. apply Hr. apply Hrxn. exact H.
    - intro H. apply Hs. apply Hso. exact H.
  Qed.

  (** stoichiometry x rates per variable is the same sum *)
  Lemma rhs_agree (e e' : env) x :
    (forall k, lookup k e' = lookup k e) ->
    rhs_spec fsem x (all_rxn_entries m') e' = rhs_spec fsem x (all_rxn_entries m) e.
  Proof.
    intro H. rewrite (rhs_spec_ext fsem x _ e e' H). symmetry.
    apply rhs_spec_perm. apply (perm_all_rxn_entries m m' HP).
  Qed.
End QueryAgree.

(** ---- the positional entry point: the ORDER of the vector follows the declaration order of
         the variables, the value per variable does not depend on any declaration order ---------- *)

Lemma lookup_combine_nth {A} (ks : list name) : forall (vs : list A) k i,
  NoDup ks -> nth_error ks i = Some k -> lookup k (combine ks vs) = nth_error vs i.
Proof.
  induction ks as [|k0 ks IH]; intros vs k i Hnd Hi; [destruct i; discriminate|].
  inversion Hnd as [|? ? Hni Hnd']; subst.
  destruct vs as [|v vs].
  - cbn [combine lookup]. destruct i; reflexivity.
  - destruct i as [|i]; cbn [nth_error] in *.
    + injection Hi as ->. cbn [combine]. apply lookup_cons_eq.
    + cbn [combine]. rewrite lookup_cons_ne; [apply IH; assumption|].
      intros ->. apply Hni. eapply nth_error_In. exact Hi.
Qed.

Section CallAgree.
  Variable F : sort_facts.
  Hypothesis Hsc : f_shortcut F <> ScAppendBreak.
  Hypothesis Hcap : f_cap F = CapSquare.
  Hypothesis Hcmp : f_cmp F = CmpGt.
  Variable fsem : fnid -> list Z -> option Z.
  Variable fsemN : fnid -> list Z -> option (list Z).
  Variables m m' : model.
  Hypothesis HWF : WF m.
  Hypothesis HP : same_components m m'.

  Lemma cache_both_or_neither :
    (exists c, create_cache fsem fsemN F m = Val c) <-> (exists c', create_cache fsem fsemN F m' = Val c').
  Proof.
    split.
    - intros [c Hc]. destruct (cache_transfer F Hsc Hcap Hcmp fsem fsemN m m' HWF HP c Hc) as [c' [Hc' _]].
      exists c'. exact Hc'.
    - intros [c' Hc'].
      destruct (cache_transfer F Hsc Hcap Hcmp fsem fsemN m' m (WF_perm m m' HP HWF) (same_components_sym m m' HP) c' Hc')
        as [c [Hc _]].
      exists c. exact Hc.
  Qed.

  Lemma call_agree c c' t y y' dx dx' :
    create_cache fsem fsemN F m = Val c -> create_cache fsem fsemN F m' = Val c' ->
    (forall i j x, nth_error (keys (m_var m)) i = Some x -> nth_error (keys (m_var m')) j = Some x ->
                   nth_error y' j = nth_error y i) ->
    call fsem fsemN m c t y = Val dx -> call fsem fsemN m' c' t y' = Val dx' ->
    forall i j x, nth_error (keys (m_var m)) i = Some x -> nth_error (keys (m_var m')) j = Some x ->
                  nth_error dx' j = nth_error dx i.
  Proof.
    intros Hc Hc' Hy Hcall Hcall' i j x Hi Hj.
    pose proof (WF_perm m m' HP HWF) as HWF'.
    destruct (call_inv _ _ _ _ _ _ _ Hcall) as [Hlen _]. rewrite (create_cache_var_names _ _ _ _ _ Hc) in Hlen.
    destruct (call_inv _ _ _ _ _ _ _ Hcall') as [Hlen' _]. rewrite (create_cache_var_names _ _ _ _ _ Hc') in Hlen'.
    destruct (rhs_is_stoichiometry_times_rates F Hsc fsem fsemN m c t y dx HWF Hc Hcall) as (e & He & _ & Hdx).
    destruct (rhs_is_stoichiometry_times_rates F Hsc fsem fsemN m' c' t y' dx' HWF' Hc' Hcall') as (e' & He' & _ & Hdx').
    assert (Hk : keys (combine (keys (m_var m)) y) = keys (m_var m)) by (apply keys_combine; symmetry; exact Hlen).
    assert (Hk' : keys (combine (keys (m_var m')) y') = keys (m_var m')) by (apply keys_combine; symmetry; exact Hlen').
    assert (Hag : forall k, lookup k e' = lookup k e).
    { apply (args_agree F Hsc Hcap Hcmp fsem fsemN m m' HWF HP c c'
                        (combine (keys (m_var m)) y) (combine (keys (m_var m')) y') t e e' Hc Hc').
      - rewrite Hk. apply nodup_keys_var. exact HWF.
      - rewrite Hk'. apply nodup_keys_var. exact HWF'.
      - rewrite Hk. apply incl_refl.
      - intro k. destruct (in_dec N.eq_dec k (keys (m_var m))) as [Hin|Hn].
        + destruct (In_nth_error _ _ Hin) as [i0 Hi0].
          assert (Hin' : In k (keys (m_var m'))) by (eapply in_keys_perm; [apply HP|exact Hin]).
          destruct (In_nth_error _ _ Hin') as [j0 Hj0].
          rewrite (lookup_combine_nth _ y k i0 (nodup_keys_var m HWF) Hi0).
          rewrite (lookup_combine_nth _ y' k j0 (nodup_keys_var m' HWF') Hj0).
          apply (Hy i0 j0 k Hi0 Hj0).
        + assert (E1 : lookup k (combine (keys (m_var m)) y) = None).
          { apply lookup_None. rewrite Hk. exact Hn. }
          assert (E2 : lookup k (combine (keys (m_var m')) y') = None).
          { apply lookup_None. rewrite Hk'. intro H. apply Hn.
            eapply in_keys_perm; [apply Permutation_sym; apply HP|exact H]. }
          rewrite E1, E2. reflexivity.
      - exact He.
      - exact He'. }
    destruct (Hdx i x Hi) as (v & Hv & Hs). destruct (Hdx' j x Hj) as (v' & Hv' & Hs').
    pose proof (rhs_agree fsem m m' HP e e' x Hag) as Hr. rewrite Hr, Hs in Hs'. injection Hs' as <-.
    rewrite Hv, Hv'. reflexivity.
  Qed.
End CallAgree.
