(** The stoichiometry tables built by [add_rxn_list] in closed form (row by row), the
    accumulation loops of [__call__] / [_get_right_hand_side] as row sums, and the row sums as
    [rhs_spec]. *)
From Coq Require Import ZArith List Bool Lia Permutation.
From MxlBase Require Import ListX.
From Core Require Import Sort Model Cache Query.
From CoreP Require Import Spec ProofsEnv.
Import ListNotations.

Definition row_of {A} (k : name) (tab : list (name * list (name * A))) : list (name * A) :=
  match lookup k tab with Some r => r | None => [] end.

Lemma row_of_nil {A} k : @row_of A k [] = [].
Proof. reflexivity. Qed.

Lemma row_of_dsetdefault {A} (T : list (name * list (name * A))) cpd x :
  row_of x (dsetdefault cpd [] T) = row_of x T.
Proof.
  unfold row_of. destruct (N.eq_dec x cpd) as [->|Hne].
  - rewrite lookup_dsetdefault_same. destruct (lookup cpd T); reflexivity.
  - rewrite lookup_dsetdefault_ne by exact Hne. reflexivity.
Qed.

Lemma row_of_upd {A} (T : list (name * list (name * A))) cpd rn (v : A) x :
  (cpd = x -> ~ In rn (keys (row_of x T))) ->
  row_of x (dset cpd (dset rn v (match lookup cpd (dsetdefault cpd [] T) with Some d => d | None => [] end))
                 (dsetdefault cpd [] T))
  = row_of x T ++ (if N.eqb cpd x then [(rn, v)] else []).
Proof.
  intro Hfresh. change (match lookup cpd (dsetdefault cpd [] T) with Some d => d | None => [] end)
    with (row_of cpd (dsetdefault cpd [] T)).
  rewrite row_of_dsetdefault.
  destruct (N.eqb_spec cpd x) as [->|Hne].
  - unfold row_of at 1. rewrite lookup_dset_eq. apply dset_fresh. apply has_false. apply Hfresh. reflexivity.
  - unfold row_of at 1. rewrite lookup_dset_ne by (intro E; apply Hne; symmetry; exact E).
    fold (row_of x (dsetdefault cpd [] T)). rewrite row_of_dsetdefault, app_nil_r. reflexivity.
Qed.

Lemma calc_coef_val fsem f a e n : calc fsem f a e = Val n <-> coef_val fsem (CDyn f a) e = Some n.
Proof.
  unfold calc, coef_val. destruct (lookups a e) as [vs|]; [|split; discriminate].
  destruct (fsem f vs) as [v|]; split; intro H; try discriminate; injection H as <-; reflexivity.
Qed.

Section Tables.
  Variable fsem : fnid -> list Z -> option Z.
  Variables (allpar : list name) (dependent : env).

  Definition static_args (args : list name) : bool := forallb (fun i => memN i allpar) args.

  (** what one entry [(cpd, coefficient)] of reaction [rn] appends to row [x] of each table *)
  Definition st_entry (x rn : name) (en : name * coef) : list (name * Z) :=
    if N.eqb (fst en) x then
      match snd en with
      | CStat q => [(rn, q)]
      | CDyn f args =>
        if static_args args
        then match calc fsem f args dependent with Val v => [(rn, v)] | Err _ => [] end
        else []
      end
    else [].

  Definition dy_entry (x rn : name) (en : name * coef) : list (name * (fnid * list name)) :=
    if N.eqb (fst en) x then
      match snd en with
      | CStat _ => []
      | CDyn f args => if static_args args then [] else [(rn, (f, args))]
      end
    else [].

  Lemma st_entry_keys x rn en k : In k (keys (st_entry x rn en)) -> k = rn.
  Proof.
    unfold st_entry. destruct (N.eqb (fst en) x); [|intros []].
    destruct (snd en) as [q|f args].
    - intros [<-|[]]. reflexivity.
    - destruct (static_args args); [|intros []].
      destruct (calc fsem f args dependent); [|intros []]. intros [<-|[]]. reflexivity.
  Qed.

  Lemma dy_entry_keys x rn en k : In k (keys (dy_entry x rn en)) -> k = rn.
  Proof.
    unfold dy_entry. destruct (N.eqb (fst en) x); [|intros []].
    destruct (snd en) as [q|f args]; [intros []|].
    destruct (static_args args); [intros []|]. intros [<-|[]]. reflexivity.
  Qed.

  Lemma st_entry_other x rn en : fst en <> x -> st_entry x rn en = [].
  Proof. intro H. unfold st_entry. apply N.eqb_neq in H. rewrite H. reflexivity. Qed.
  Lemma dy_entry_other x rn en : fst en <> x -> dy_entry x rn en = [].
  Proof. intro H. unfold dy_entry. apply N.eqb_neq in H. rewrite H. reflexivity. Qed.

  Lemma add_entry_rows rn t en t' :
    add_stoich_entry fsem allpar dependent rn t en = Val t' ->
    (NoDup (keys (fst t)) -> NoDup (keys (fst t')))
    /\ (NoDup (keys (snd t)) -> NoDup (keys (snd t')))
    /\ (forall f args, snd en = CDyn f args -> static_args args = true ->
                       exists v, calc fsem f args dependent = Val v)
    /\ forall x,
      (fst en = x -> ~ In rn (keys (row_of x (fst t))) /\ ~ In rn (keys (row_of x (snd t)))) ->
      row_of x (fst t') = row_of x (fst t) ++ st_entry x rn en
      /\ row_of x (snd t') = row_of x (snd t) ++ dy_entry x rn en.
  Proof.
    destruct t as [st dy]. destruct en as [cpd cf]. unfold add_stoich_entry, st_entry, dy_entry.
    cbn [fst snd]. fold (static_args).
    destruct cf as [q|f args].
    - intro H. injection H as <-. cbn [fst snd]. split; [|split; [|split]].
      + intro Hnd. apply NoDup_keys_dset, NoDup_keys_dsetdefault. exact Hnd.
      + intro Hnd. exact Hnd.
      + intros f args E. discriminate.
      + intros x Hf. split.
        * rewrite row_of_upd by (intro E; apply (Hf E)). destruct (N.eqb cpd x); reflexivity.
        * destruct (N.eqb cpd x); rewrite app_nil_r; reflexivity.
    - fold (static_args args). destruct (static_args args) eqn:Es.
      + destruct (calc fsem f args dependent) as [v|] eqn:Ec; [|discriminate].
        cbn [bind]. intro H. injection H as <-. cbn [fst snd]. split; [|split; [|split]].
        * intro Hnd. apply NoDup_keys_dset, NoDup_keys_dsetdefault. exact Hnd.
        * intro Hnd. exact Hnd.
        * intros f' args' E _. injection E as <- <-. exists v. exact Ec.
        * intros x Hf. split.
          -- rewrite row_of_upd by (intro E; apply (Hf E)). destruct (N.eqb cpd x); reflexivity.
          -- destruct (N.eqb cpd x); rewrite app_nil_r; reflexivity.
      + intro H. injection H as <-. cbn [fst snd]. split; [|split; [|split]].
        * intro Hnd. apply NoDup_keys_dsetdefault. exact Hnd.
        * intro Hnd. apply NoDup_keys_dset, NoDup_keys_dsetdefault. exact Hnd.
        * intros f' args' E Hs. injection E as <- <-. congruence.
        * intros x Hf. split.
          -- rewrite row_of_dsetdefault. destruct (N.eqb cpd x); rewrite app_nil_r; reflexivity.
          -- rewrite row_of_upd by (intro E; apply (Hf E)). destruct (N.eqb cpd x); reflexivity.
  Qed.

  Definition st_entries (x rn : name) (ent : list (name * coef)) := flat_map (st_entry x rn) ent.
  Definition dy_entries (x rn : name) (ent : list (name * coef)) := flat_map (dy_entry x rn) ent.

  Lemma st_entries_keys x rn ent k : In k (keys (st_entries x rn ent)) -> k = rn.
  Proof.
    unfold st_entries. induction ent as [|en r IH]; [intros []|].
    cbn [flat_map]. rewrite keys_app, in_app_iff. intros [H|H]; [eapply st_entry_keys; exact H|apply IH; exact H].
  Qed.
  Lemma dy_entries_keys x rn ent k : In k (keys (dy_entries x rn ent)) -> k = rn.
  Proof.
    unfold dy_entries. induction ent as [|en r IH]; [intros []|].
    cbn [flat_map]. rewrite keys_app, in_app_iff. intros [H|H]; [eapply dy_entry_keys; exact H|apply IH; exact H].
  Qed.

  Lemma add_entries_rows rn : forall ent t t',
    add_stoich_entries fsem allpar dependent rn t ent = Val t' ->
    NoDup (keys ent) ->
    (NoDup (keys (fst t)) -> NoDup (keys (fst t')))
    /\ (NoDup (keys (snd t)) -> NoDup (keys (snd t')))
    /\ (forall cpd f args, In (cpd, CDyn f args) ent -> static_args args = true ->
                           exists v, calc fsem f args dependent = Val v)
    /\ forall x,
      (In x (keys ent) -> ~ In rn (keys (row_of x (fst t))) /\ ~ In rn (keys (row_of x (snd t)))) ->
      row_of x (fst t') = row_of x (fst t) ++ st_entries x rn ent
      /\ row_of x (snd t') = row_of x (snd t) ++ dy_entries x rn ent.
  Proof.
    induction ent as [|en rest IH]; intros t t' H Hnd; cbn [add_stoich_entries] in H.
    - injection H as <-. split; [tauto|]. split; [tauto|]. split; [intros ? ? ? []|].
      intros x _. unfold st_entries, dy_entries. cbn [flat_map]. rewrite !app_nil_r. split; reflexivity.
    - destruct (add_stoich_entry fsem allpar dependent rn t en) as [t1|] eqn:E1; [|discriminate].
      cbn [bind] in H. cbn [keys map] in Hnd. inversion Hnd as [|? ? Hni Hnd']; subst.
      destruct (add_entry_rows rn t en t1 E1) as (A1 & A2 & A3 & A4).
      destruct (IH t1 t' H Hnd') as (B1 & B2 & B3 & B4).
      split; [tauto|]. split; [tauto|]. split.
      + intros cpd f args [Eq|Hin] Hs; [|eapply B3; eassumption].
        apply (A3 f args); [rewrite Eq; reflexivity|exact Hs].
      + intros x Hf.
        destruct (A4 x) as [R1 R2].
        { intro E. apply Hf. left. exact E. }
        destruct (B4 x) as [S1 S2].
        { intro Hin. assert (Hne : fst en <> x) by (intro E; apply Hni; rewrite E; exact Hin).
          rewrite R1, R2, st_entry_other, dy_entry_other, !app_nil_r by exact Hne.
          apply Hf. right. exact Hin. }
        rewrite S1, S2, R1, R2. unfold st_entries, dy_entries. cbn [flat_map].
        rewrite <- !app_assoc. split; reflexivity.
  Qed.

  Definition st_rows (x : name) (rs : list (name * list (name * coef))) :=
    flat_map (fun re => st_entries x (fst re) (snd re)) rs.
  Definition dy_rows (x : name) (rs : list (name * list (name * coef))) :=
    flat_map (fun re => dy_entries x (fst re) (snd re)) rs.

  Lemma add_rxns_rows : forall rs t t',
    add_rxn_list fsem allpar dependent t rs = Val t' ->
    NoDup (keys rs) -> (forall rn ent, In (rn, ent) rs -> NoDup (keys ent)) ->
    (NoDup (keys (fst t)) -> NoDup (keys (fst t')))
    /\ (NoDup (keys (snd t)) -> NoDup (keys (snd t')))
    /\ (forall rn ent cpd f args, In (rn, ent) rs -> In (cpd, CDyn f args) ent -> static_args args = true ->
                                  exists v, calc fsem f args dependent = Val v)
    /\ forall x,
      (forall rn, In rn (keys rs) -> ~ In rn (keys (row_of x (fst t))) /\ ~ In rn (keys (row_of x (snd t)))) ->
      row_of x (fst t') = row_of x (fst t) ++ st_rows x rs
      /\ row_of x (snd t') = row_of x (snd t) ++ dy_rows x rs.
  Proof.
    induction rs as [|[rn ent] rest IH]; intros t t' H Hnd Hent; cbn [add_rxn_list] in H.
    - injection H as <-. split; [tauto|]. split; [tauto|]. split; [intros ? ? ? ? ? []|].
      intros x _. unfold st_rows, dy_rows. cbn [flat_map]. rewrite !app_nil_r. split; reflexivity.
    - destruct (add_stoich_entries fsem allpar dependent rn t ent) as [t1|] eqn:E1; [|discriminate].
      cbn [bind] in H. cbn [keys map fst] in Hnd. inversion Hnd as [|? ? Hni Hnd']; subst.
      destruct (add_entries_rows rn ent t t1 E1 (Hent rn ent (or_introl eq_refl))) as (A1 & A2 & A3 & A4).
      destruct (IH t1 t' H Hnd') as (B1 & B2 & B3 & B4).
      { intros rn' ent' Hin. apply (Hent rn' ent'). right. exact Hin. }
      split; [tauto|]. split; [tauto|]. split.
      + intros rn' ent' cpd f args [Eq|Hin] Hc Hs; [|eapply B3; eassumption].
        injection Eq as <- <-. eapply A3; eassumption.
      + intros x Hf.
        destruct (A4 x) as [R1 R2].
        { intros _. apply Hf. left. reflexivity. }
        destruct (B4 x) as [S1 S2].
        { intros rn' Hin. rewrite R1, R2, !keys_app, !in_app_iff.
          assert (Hne : rn' <> rn) by (intros ->; exact (Hni Hin)).
          destruct (Hf rn' (or_intror Hin)) as [F1 F2]. split.
          - intros [Hx|Hx]; [exact (F1 Hx)|]. apply st_entries_keys in Hx. exact (Hne Hx).
          - intros [Hx|Hx]; [exact (F2 Hx)|]. apply dy_entries_keys in Hx. exact (Hne Hx). }
        rewrite S1, S2, R1, R2. unfold st_rows, dy_rows. cbn [flat_map fst snd].
        rewrite <- !app_assoc. split; reflexivity.
  Qed.

  (** ---- accumulation loops as row sums ------------------------------------------- *)

  Fixpoint rowsum_s (row : list (name * Z)) (e : env) : option Z :=
    match row with
    | [] => Some 0%Z
    | (flux, n) :: rest =>
      match lookup flux e, rowsum_s rest e with
      | Some v, Some s => Some (n * v + s)%Z
      | _, _ => None
      end
    end.

  Fixpoint rowsum_d (row : list (name * (fnid * list name))) (e : env) : option Z :=
    match row with
    | [] => Some 0%Z
    | (flux, (f, a)) :: rest =>
      match coef_val fsem (CDyn f a) e, lookup flux e, rowsum_d rest e with
      | Some n, Some v, Some s => Some (n * v + s)%Z
      | _, _, _ => None
      end
    end.

  Lemma rowsum_s_app a b e s :
    rowsum_s (a ++ b) e = Some s ->
    exists s1 s2, rowsum_s a e = Some s1 /\ rowsum_s b e = Some s2 /\ s = (s1 + s2)%Z.
  Proof.
    revert s. induction a as [|[flux n] a IH]; intros s H.
    - exists 0%Z, s. split; [reflexivity|]. split; [exact H|lia].
    - cbn [app rowsum_s] in *. destruct (lookup flux e) as [v|]; [|discriminate].
      destruct (rowsum_s (a ++ b) e) as [s'|]; [|discriminate]. injection H as <-.
      destruct (IH s' eq_refl) as (s1 & s2 & E1 & E2 & ->). rewrite E1.
      exists (n * v + s1)%Z, s2. split; [reflexivity|]. split; [exact E2|lia].
  Qed.

  Lemma rowsum_d_app a b e s :
    rowsum_d (a ++ b) e = Some s ->
    exists s1 s2, rowsum_d a e = Some s1 /\ rowsum_d b e = Some s2 /\ s = (s1 + s2)%Z.
  Proof.
    revert s. induction a as [|[flux [f args]] a IH]; intros s H.
    - exists 0%Z, s. split; [reflexivity|]. split; [exact H|lia].
    - cbn [app rowsum_d] in *. destruct (coef_val fsem (CDyn f args) e) as [n|]; [|discriminate].
      destruct (lookup flux e) as [v|]; [|discriminate].
      destruct (rowsum_d (a ++ b) e) as [s'|]; [|discriminate]. injection H as <-.
      destruct (IH s' eq_refl) as (s1 & s2 & E1 & E2 & ->). rewrite E1.
      exists (n * v + s1)%Z, s2. split; [reflexivity|]. split; [exact E2|lia].
  Qed.

  Lemma acc_static_row_spec k : forall row args dxdt d',
    acc_static_row k row args dxdt = Val d' ->
    keys d' = keys dxdt
    /\ (forall x, x <> k -> lookup x d' = lookup x dxdt)
    /\ exists s, rowsum_s row args = Some s
                 /\ forall old, lookup k dxdt = Some old -> lookup k d' = Some (old + s)%Z.
  Proof.
    induction row as [|[flux n] rest IH]; intros args dxdt d' H; cbn [acc_static_row] in H.
    - injection H as <-. split; [reflexivity|]. split; [reflexivity|].
      exists 0%Z. split; [reflexivity|]. intros old E. rewrite E. f_equal; lia.
    - destruct (lookup k dxdt) as [old0|] eqn:Ek; [|discriminate].
      destruct (lookup flux args) as [v|] eqn:Ef; [|discriminate].
      destruct (IH _ _ _ H) as (I1 & I2 & s' & I3 & I4).
      assert (Hh : has k dxdt = true) by (unfold has; rewrite Ek; reflexivity).
      split; [rewrite I1; apply keys_dset_has; exact Hh|]. split.
      + intros x Hx. rewrite I2 by exact Hx. apply lookup_dset_ne. exact Hx.
      + exists (n * v + s')%Z. cbn [rowsum_s]. rewrite Ef, I3. split; [reflexivity|].
        intros old E. injection E as <-. rewrite (I4 _ (lookup_dset_eq k _ dxdt)). f_equal; lia.
  Qed.

  Lemma acc_dyn_row_spec k : forall row args dxdt d',
    acc_dyn_row fsem k row args dxdt = Val d' ->
    keys d' = keys dxdt
    /\ (forall x, x <> k -> lookup x d' = lookup x dxdt)
    /\ exists s, rowsum_d row args = Some s
                 /\ forall old, lookup k dxdt = Some old -> lookup k d' = Some (old + s)%Z.
  Proof.
    induction row as [|[flux [f a]] rest IH]; intros args dxdt d' H; cbn [acc_dyn_row] in H.
    - injection H as <-. split; [reflexivity|]. split; [reflexivity|].
      exists 0%Z. split; [reflexivity|]. intros old E. rewrite E. f_equal; lia.
    - destruct (calc fsem f a args) as [n|] eqn:Ec; [|discriminate]. cbn [bind] in H.
      destruct (lookup k dxdt) as [old0|] eqn:Ek; [|discriminate].
      destruct (lookup flux args) as [v|] eqn:Ef; [|discriminate].
      destruct (IH _ _ _ H) as (I1 & I2 & s' & I3 & I4).
      assert (Hh : has k dxdt = true) by (unfold has; rewrite Ek; reflexivity).
      apply calc_coef_val in Ec.
      split; [rewrite I1; apply keys_dset_has; exact Hh|]. split.
      + intros x Hx. rewrite I2 by exact Hx. apply lookup_dset_ne. exact Hx.
      + exists (n * v + s')%Z. cbn [rowsum_d]. rewrite Ec, Ef, I3. split; [reflexivity|].
        intros old E. injection E as <-. rewrite (I4 _ (lookup_dset_eq k _ dxdt)). f_equal; lia.
  Qed.

  Lemma row_of_cons_eq {A} k (row : list (name * A)) rest : row_of k ((k, row) :: rest) = row.
  Proof. unfold row_of. rewrite lookup_cons_eq. reflexivity. Qed.
  Lemma row_of_cons_ne {A} x k (row : list (name * A)) rest : x <> k -> row_of x ((k, row) :: rest) = row_of x rest.
  Proof. intro H. unfold row_of. rewrite lookup_cons_ne by exact H. reflexivity. Qed.
  Lemma row_of_notin {A} x (tab : list (name * list (name * A))) : ~ In x (keys tab) -> row_of x tab = [].
  Proof. intro H. unfold row_of. apply lookup_None in H. rewrite H. reflexivity. Qed.

  Lemma acc_static_spec : forall tab args dxdt d',
    acc_static tab args dxdt = Val d' -> NoDup (keys tab) ->
    keys d' = keys dxdt
    /\ forall x old, lookup x dxdt = Some old ->
         exists s, rowsum_s (row_of x tab) args = Some s /\ lookup x d' = Some (old + s)%Z.
  Proof.
    induction tab as [|[k row] rest IH]; intros args dxdt d' H Hnd; cbn [acc_static] in H.
    - injection H as <-. split; [reflexivity|]. intros x old E. exists 0%Z. split; [reflexivity|].
      rewrite E. f_equal; lia.
    - destruct (acc_static_row k row args dxdt) as [d1|] eqn:E1; [|discriminate]. cbn [bind] in H.
      cbn [keys map fst] in Hnd. inversion Hnd as [|? ? Hni Hnd']; subst.
      destruct (acc_static_row_spec k row args dxdt d1 E1) as (R1 & R2 & s & R3 & R4).
      destruct (IH _ _ _ H Hnd') as (I1 & I2).
      split; [rewrite I1; exact R1|].
      intros x old E. destruct (N.eq_dec x k) as [->|Hne].
      + rewrite row_of_cons_eq. destruct (I2 k _ (R4 old E)) as (s' & S1 & S2).
        rewrite row_of_notin in S1 by exact Hni. injection S1 as <-.
        exists s. split; [exact R3|]. rewrite S2. f_equal; lia.
      + rewrite row_of_cons_ne by exact Hne. apply I2. rewrite R2 by exact Hne. exact E.
  Qed.

  Lemma acc_dyn_spec : forall tab args dxdt d',
    acc_dyn fsem tab args dxdt = Val d' -> NoDup (keys tab) ->
    keys d' = keys dxdt
    /\ forall x old, lookup x dxdt = Some old ->
         exists s, rowsum_d (row_of x tab) args = Some s /\ lookup x d' = Some (old + s)%Z.
  Proof.
    induction tab as [|[k row] rest IH]; intros args dxdt d' H Hnd; cbn [acc_dyn] in H.
    - injection H as <-. split; [reflexivity|]. intros x old E. exists 0%Z. split; [reflexivity|].
      rewrite E. f_equal; lia.
    - destruct (acc_dyn_row fsem k row args dxdt) as [d1|] eqn:E1; [|discriminate]. cbn [bind] in H.
      cbn [keys map fst] in Hnd. inversion Hnd as [|? ? Hni Hnd']; subst.
      destruct (acc_dyn_row_spec k row args dxdt d1 E1) as (R1 & R2 & s & R3 & R4).
      destruct (IH _ _ _ H Hnd') as (I1 & I2).
      split; [rewrite I1; exact R1|].
      intros x old E. destruct (N.eq_dec x k) as [->|Hne].
      + rewrite row_of_cons_eq. destruct (I2 k _ (R4 old E)) as (s' & S1 & S2).
        rewrite row_of_notin in S1 by exact Hni. injection S1 as <-.
        exists s. split; [exact R3|]. rewrite S2. f_equal; lia.
      + rewrite row_of_cons_ne by exact Hne. apply I2. rewrite R2 by exact Hne. exact E.
  Qed.

  Lemma lookup_zeros x names : In x names -> lookup x (map (fun k => (k, 0%Z)) names) = Some 0%Z.
  Proof.
    induction names as [|k r IH]; [intros []|]. cbn [map lookup].
    destruct (N.eqb_spec x k) as [_|Hne]; [reflexivity|]. intros [E|H]; [congruence|apply IH; exact H].
  Qed.

  Lemma keys_zeros names : keys (map (fun k => (k, 0%Z)) names) = names.
  Proof. unfold keys. rewrite map_map. cbn [fst]. apply map_id. Qed.

  Lemma rhs_of_args_spec c var_names args d2 :
    rhs_of_args fsem c var_names args = Val d2 ->
    NoDup (keys (c_stoich c)) -> NoDup (keys (c_dyn_stoich c)) ->
    keys d2 = var_names
    /\ forall x, In x var_names ->
         exists s1 s2, rowsum_s (row_of x (c_stoich c)) args = Some s1
                       /\ rowsum_d (row_of x (c_dyn_stoich c)) args = Some s2
                       /\ lookup x d2 = Some (s1 + s2)%Z.
  Proof.
    unfold rhs_of_args. intros H Hn1 Hn2.
    destruct (acc_static (c_stoich c) args (map (fun k => (k, 0%Z)) var_names)) as [d1|] eqn:E1; [|discriminate].
    cbn [bind] in H.
    destruct (acc_dyn fsem (c_dyn_stoich c) args d1) as [d2'|] eqn:E2; [|discriminate].
    cbn [bind] in H. injection H as <-.
    destruct (acc_static_spec _ _ _ _ E1 Hn1) as (A1 & A2).
    destruct (acc_dyn_spec _ _ _ _ E2 Hn2) as (B1 & B2).
    split; [rewrite B1, A1; apply keys_zeros|].
    intros x Hx. destruct (A2 x 0%Z (lookup_zeros x var_names Hx)) as (s1 & S1 & S1').
    destruct (B2 x _ S1') as (s2 & S2 & S2').
    exists s1, s2. split; [exact S1|]. split; [exact S2|]. rewrite S2'. f_equal.
  Qed.

  (** ---- row sums as rhs_spec ------------------------------------------------------- *)

  Variable e : env.
  (** the frozen coefficient values are the values in the query environment *)
  Hypothesis Hfrozen : forall k, In k allpar -> lookup k e = lookup k dependent.

  Lemma static_coef_val f args v :
    static_args args = true -> calc fsem f args dependent = Val v -> coef_val fsem (CDyn f args) e = Some v.
  Proof.
    intros Hs Hc. apply calc_coef_val in Hc. unfold coef_val in *.
    rewrite (lookups_ext args dependent e); [exact Hc|].
    intros a Ha. apply Hfrozen. unfold static_args in Hs. rewrite forallb_forall in Hs.
    apply memN_In. apply Hs. exact Ha.
  Qed.

  Lemma entries_sum x rn flux : forall ent s1 s2,
    lookup rn e = Some flux ->
    (forall cpd f args, In (cpd, CDyn f args) ent -> static_args args = true ->
                        exists v, calc fsem f args dependent = Val v) ->
    rowsum_s (st_entries x rn ent) e = Some s1 ->
    rowsum_d (dy_entries x rn ent) e = Some s2 ->
    sum_entries fsem x flux ent e = Some (s1 + s2)%Z.
  Proof.
    intros ent s1 s2 Hflux. revert s1 s2.
    induction ent as [|[cpd cf] rest IH]; intros s1 s2 Hok H1 H2.
    - cbn in H1, H2. injection H1 as <-. injection H2 as <-. reflexivity.
    - unfold st_entries in H1. unfold dy_entries in H2. cbn [flat_map] in H1, H2.
      apply rowsum_s_app in H1. destruct H1 as (a1 & b1 & A1 & B1 & ->).
      apply rowsum_d_app in H2. destruct H2 as (a2 & b2 & A2 & B2 & ->).
      assert (Hok' : forall cpd' f args, In (cpd', CDyn f args) rest -> static_args args = true ->
                                         exists v, calc fsem f args dependent = Val v).
      { intros cpd' f args Hin. apply (Hok cpd' f args). right. exact Hin. }
      pose proof (IH b1 b2 Hok' B1 B2) as Hrest.
      cbn [sum_entries]. rewrite Hrest.
      unfold st_entry in A1. unfold dy_entry in A2. cbn [fst snd] in A1, A2.
      destruct (N.eqb cpd x).
      + destruct cf as [q|f args].
        * cbn [rowsum_s] in A1. rewrite Hflux in A1. injection A1 as <-. injection A2 as <-.
          cbn [coef_val]. f_equal; lia.
        * destruct (static_args args) eqn:Es.
          -- destruct (Hok cpd f args (or_introl eq_refl) Es) as [v Ev]. rewrite Ev in A1.
             cbn [rowsum_s] in A1. rewrite Hflux in A1. injection A1 as <-. injection A2 as <-.
             rewrite (static_coef_val f args v Es Ev). f_equal; lia.
          -- cbn [rowsum_d] in A2. injection A1 as <-.
             destruct (coef_val fsem (CDyn f args) e) as [n|]; [|discriminate].
             rewrite Hflux in A2. injection A2 as <-. f_equal; lia.
      + injection A1 as <-. injection A2 as <-. f_equal; lia.
  Qed.

  Lemma rxns_sum x : forall rs s1 s2,
    (forall rn, In rn (keys rs) -> exists flux, lookup rn e = Some flux) ->
    (forall rn ent cpd f args, In (rn, ent) rs -> In (cpd, CDyn f args) ent -> static_args args = true ->
                               exists v, calc fsem f args dependent = Val v) ->
    rowsum_s (st_rows x rs) e = Some s1 ->
    rowsum_d (dy_rows x rs) e = Some s2 ->
    rhs_spec fsem x rs e = Some (s1 + s2)%Z.
  Proof.
    induction rs as [|[rn ent] rest IH]; intros s1 s2 Hb Hok H1 H2.
    - cbn in H1, H2. injection H1 as <-. injection H2 as <-. reflexivity.
    - unfold st_rows in H1. unfold dy_rows in H2. cbn [flat_map fst snd] in H1, H2.
      apply rowsum_s_app in H1. destruct H1 as (a1 & b1 & A1 & B1 & ->).
      apply rowsum_d_app in H2. destruct H2 as (a2 & b2 & A2 & B2 & ->).
      destruct (Hb rn (or_introl eq_refl)) as [flux Hflux].
      cbn [rhs_spec]. rewrite Hflux.
      rewrite (IH b1 b2); [| | |exact B1|exact B2].
      + rewrite (entries_sum x rn flux ent a1 a2 Hflux); [f_equal; lia| |exact A1|exact A2].
        intros cpd f args Hin. apply (Hok rn ent cpd f args); [left; reflexivity|exact Hin].
      + intros rn' Hin. apply Hb. right. exact Hin.
      + intros rn' ent' cpd f args Hin. apply (Hok rn' ent' cpd f args). right. exact Hin.
  Qed.
End Tables.

(** untouched variables *)
Lemma sum_entries_untouched fsem x flux ent e v :
  ~ In x (keys ent) -> sum_entries fsem x flux ent e = Some v -> v = 0%Z.
Proof.
  revert v. induction ent as [|[cpd cf] rest IH]; intros v Hni H.
  - cbn in H. injection H as <-. reflexivity.
  - cbn [sum_entries] in H. cbn [keys map fst In] in Hni.
    destruct (sum_entries fsem x flux rest e) as [s|] eqn:E; [|discriminate].
    destruct (N.eqb_spec cpd x) as [->|Hne].
    + exfalso. apply Hni. left. reflexivity.
    + injection H as <-. apply (IH s); [|reflexivity]. intro Hin. apply Hni. right. exact Hin.
Qed.

Lemma untouched_variable_zero fsem x rs e v :
  (forall rn ent, In (rn, ent) rs -> ~ In x (keys ent)) -> rhs_spec fsem x rs e = Some v -> v = 0%Z.
Proof.
  revert v. induction rs as [|[rn ent] rest IH]; intros v Hni H.
  - cbn in H. injection H as <-. reflexivity.
  - cbn [rhs_spec] in H. destruct (lookup rn e) as [flux|]; [|discriminate].
    destruct (rhs_spec fsem x rest e) as [s|] eqn:E; [|discriminate].
    destruct (sum_entries fsem x flux ent e) as [a|] eqn:Ea; [|discriminate]. injection H as <-.
    apply sum_entries_untouched in Ea; [|apply (Hni rn ent); left; reflexivity].
    rewrite (IH s); [lia| |reflexivity]. intros rn' ent' Hin. apply (Hni rn' ent'). right. exact Hin.
Qed.

(** ---- the accumulation reads its argument table only through [lookup] -------------- *)
Section Ext.
  Variable fsem : fnid -> list Z -> option Z.
  Variables e e' : env.
  Hypothesis Hext : forall k, lookup k e' = lookup k e.

  Lemma calc_ext f a : calc fsem f a e' = calc fsem f a e.
  Proof. unfold calc. rewrite (lookups_ext a e e'); [reflexivity|]. intros k _. apply Hext. Qed.

  Lemma acc_static_row_ext k : forall row dxdt, acc_static_row k row e' dxdt = acc_static_row k row e dxdt.
  Proof.
    induction row as [|[flux n] rest IH]; intro dxdt; [reflexivity|].
    cbn [acc_static_row]. rewrite Hext. destruct (lookup k dxdt); [|reflexivity].
    destruct (lookup flux e); [|reflexivity]. apply IH.
  Qed.

  Lemma acc_static_ext : forall tab dxdt, acc_static tab e' dxdt = acc_static tab e dxdt.
  Proof.
    induction tab as [|[k row] rest IH]; intro dxdt; [reflexivity|].
    cbn [acc_static]. rewrite acc_static_row_ext. destruct (acc_static_row k row e dxdt); [|reflexivity].
    cbn [bind]. apply IH.
  Qed.

  Lemma acc_dyn_row_ext k : forall row dxdt, acc_dyn_row fsem k row e' dxdt = acc_dyn_row fsem k row e dxdt.
  Proof.
    induction row as [|[flux [f a]] rest IH]; intro dxdt; [reflexivity|].
    cbn [acc_dyn_row]. rewrite calc_ext, Hext. destruct (calc fsem f a e); [|reflexivity]. cbn [bind].
    destruct (lookup k dxdt); [|reflexivity]. destruct (lookup flux e); [|reflexivity]. apply IH.
  Qed.

  Lemma acc_dyn_ext : forall tab dxdt, acc_dyn fsem tab e' dxdt = acc_dyn fsem tab e dxdt.
  Proof.
    induction tab as [|[k row] rest IH]; intro dxdt; [reflexivity|].
    cbn [acc_dyn]. rewrite acc_dyn_row_ext. destruct (acc_dyn_row fsem k row e dxdt); [|reflexivity].
    cbn [bind]. apply IH.
  Qed.

  Lemma rhs_of_args_ext c var_names : rhs_of_args fsem c var_names e' = rhs_of_args fsem c var_names e.
  Proof.
    unfold rhs_of_args. rewrite acc_static_ext.
    destruct (acc_static (c_stoich c) e (map (fun k => (k, 0%Z)) var_names)); [|reflexivity].
    cbn [bind]. rewrite acc_dyn_ext. reflexivity.
  Qed.
End Ext.

Lemma select_total names (e : env) :
  (forall k, In k names -> exists v, lookup k e = Some v) -> exists r, select names e = Val r.
Proof.
  induction names as [|k rest IH]; intro H; [exists []; reflexivity|].
  destruct (H k (or_introl eq_refl)) as [v Ev].
  destruct IH as [r Er]; [intros k' Hk'; apply H; right; exact Hk'|].
  exists ((k, v) :: r). cbn [select]. rewrite Ev, Er. reflexivity.
Qed.
