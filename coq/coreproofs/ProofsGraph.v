(** Bad dependency graphs at the level of the model: a missing name or a cycle makes
    [create_cache] return the corresponding error -- never a cache (C02_bad_graph_no_numbers). *)
From Coq Require Import ZArith List Bool Lia Permutation Relations.
From MxlBase Require Import ListX.
From Core Require Import Sort SortProofs SortAcyclic Model Cache Query.
From CoreP Require Import Spec ProofsEnv ProofsEval ProofsNames.
Import ListNotations.

(** ---- a valid evaluation order over pairwise distinct names has no cycle ------------------ *)

Definition dfeeds (ds : list dep) (x y : N) : Prop :=
  exists d, In d ds /\ In x (d_req d) /\ In y (d_prov d).

(** rank of a name: 0 if nobody provides it, else 1 + position of its first provider *)
Fixpoint rk (ds : list dep) (x : N) : nat :=
  match ds with
  | [] => 0
  | d :: r => if memN x (d_prov d) then 1 else match rk r x with 0 => 0 | S n => S (S n) end
  end.

Lemma rk_unprovided ds x : ~ In x (flat_map d_prov ds) -> rk ds x = 0.
Proof.
  induction ds as [|d r IH]; intro H; [reflexivity|].
  cbn [flat_map] in H. rewrite in_app_iff in H. cbn [rk].
  destruct (memN x (d_prov d)) eqn:E; [apply memN_In in E; tauto|].
  rewrite IH by tauto. reflexivity.
Qed.

Lemma rk_increases ds : forall avail,
  topo_from avail ds -> NoDup (avail ++ flat_map d_prov ds) ->
  forall x y, dfeeds ds x y -> rk ds x < rk ds y.
Proof.
  induction ds as [|d0 r IH]; intros avail Ht Hnd x y (d & Hd & Hx & Hy); [destruct Hd|].
  cbn [topo_from] in Ht. destruct Ht as [Hreq Ht]. cbn [flat_map] in Hnd.
  assert (Hc : forall z, cnt z avail + cnt z (d_prov d0) + cnt z (flat_map d_prov r) <= 1).
  { intro z. apply cnt_NoDup with (x := z) in Hnd. rewrite !cnt_app in Hnd. lia. }
  cbn [rk]. destruct Hd as [<-|Hd].
  - assert (E : memN y (d_prov d0) = true) by (apply memN_In; exact Hy). rewrite E.
    assert (Hxa : In x avail) by (apply Hreq; exact Hx).
    assert (E2 : memN x (d_prov d0) = false).
    { apply memN_false. intro H. apply cnt_In in H. apply cnt_In in Hxa. specialize (Hc x). lia. }
    rewrite E2. rewrite rk_unprovided; [lia|].
    intro H. apply cnt_In in H. apply cnt_In in Hxa. specialize (Hc x). lia.
  - assert (Hyr : In y (flat_map d_prov r)) by (apply in_flat_map; exists d; split; assumption).
    assert (E : memN y (d_prov d0) = false).
    { apply memN_false. intro H. apply cnt_In in H. apply cnt_In in Hyr. specialize (Hc y). lia. }
    rewrite E.
    assert (Hlt : rk r x < rk r y).
    { apply (IH (d_prov d0 ++ avail) Ht).
      - apply cnt_NoDup. intro z. rewrite !cnt_app. specialize (Hc z). lia.
      - exists d. repeat split; assumption. }
    destruct (rk r y) as [|n]; [lia|].
    destruct (memN x (d_prov d0)); [lia|]. destruct (rk r x); lia.
Qed.

Lemma topo_no_cycle ds avail :
  topo_from avail ds -> NoDup (avail ++ flat_map d_prov ds) ->
  forall x, ~ clos_trans N (dfeeds ds) x x.
Proof.
  intros Ht Hnd x Hc.
  assert (H : forall a b, clos_trans N (dfeeds ds) a b -> rk ds a < rk ds b).
  { induction 1 as [a b Hab|a b c _ IH1 _ IH2]; [eapply rk_increases; eassumption|lia]. }
  specialize (H x x Hc). lia.
Qed.

Lemma acyclic_no_cycle avail els :
  NoDup (avail ++ flat_map d_prov els) -> Acyclic avail els -> forall x, ~ clos_trans N (dfeeds els) x x.
Proof.
  intros Hnd [ds [Hp Ht]] x Hc.
  apply (topo_no_cycle ds avail Ht) with (x := x).
  - eapply Permutation_NoDup; [|exact Hnd]. apply Permutation_app_head. apply Permutation_flat_map.
    apply Permutation_sym. exact Hp.
  - assert (H : forall a b, clos_trans N (dfeeds els) a b -> clos_trans N (dfeeds ds) a b).
    { induction 1 as [a b (d & Hd & Hx & Hy)|a b c _ IH1 _ IH2].
      + apply t_step. exists d. split; [eapply Permutation_in; [apply Permutation_sym; exact Hp|exact Hd]|]. split; assumption.
      + eapply t_trans; eassumption. }
    apply H. exact Hc.
Qed.

(** ---- the model ----------------------------------------------------------------------------- *)

Lemma names_missing_incomplete m : names_missing m -> ~ Complete (base_available m) (map dep_of (to_sort m)).
Proof.
  intros (nm & cmp & a & Hin & Ha & Hna & Hno) Hc.
  specialize (Hc (dep_of (nm, cmp)) (in_map dep_of _ _ Hin) a Ha).
  unfold all_provided in Hc. rewrite flat_map_prov, in_app_iff in Hc. destruct Hc as [Hc|Hc]; [exact (Hna Hc)|].
  apply in_flat_map in Hc. destruct Hc as [[nm' cmp'] [Hin' Ho]]. apply Hno. exists nm', cmp'. split; assumption.
Qed.

Lemma has_cycle_not_acyclic m :
  WF m -> has_cycle m -> ~ Acyclic (base_available m) (map dep_of (to_sort m)).
Proof.
  intros HWF [x Hc] Hac.
  apply (acyclic_no_cycle (base_available m) (map dep_of (to_sort m))) with (x := x).
  - rewrite flat_map_prov. apply nodup_avail_outs. exact HWF.
  - exact Hac.
  - assert (H : forall a b, clos_trans name (feeds m) a b -> clos_trans N (dfeeds (map dep_of (to_sort m))) a b).
    { induction 1 as [a b (nm & cmp & Hin & Ha & Hb)|a b c _ IH1 _ IH2].
      + apply t_step. exists (dep_of (nm, cmp)). split; [apply in_map; exact Hin|]. split; [exact Ha|exact Hb].
      + eapply t_trans; eassumption. }
    apply H. exact Hc.
Qed.

Section Bad.
  Variable F : sort_facts.
  Hypothesis Hchk : f_checks_first F = true.
  Hypothesis Hsc : f_shortcut F <> ScAppendBreak.
  Variable fsem : fnid -> list Z -> option Z.
  Variable fsemN : fnid -> list Z -> option (list Z).

  Lemma incomplete_no_cache m :
    ~ Complete (base_available m) (map dep_of (to_sort m)) ->
    create_cache fsem fsemN F m = Err (EMissing (not_solvable (base_available m) (map dep_of (to_sort m)))).
  Proof.
    intro Hn. unfold create_cache, sort_res.
    rewrite (proj2 (sort_missing_iff F _ _ Hchk) Hn). reflexivity.
  Qed.

  Lemma cyclic_no_cache m :
    Complete (base_available m) (map dep_of (to_sort m)) ->
    ~ Acyclic (base_available m) (map dep_of (to_sort m)) ->
    create_cache fsem fsemN F m = Err ECircular.
  Proof.
    intros Hc Hn. unfold create_cache, sort_res.
    destruct (sort_cyclic_rejected F _ _ Hchk Hsc Hc Hn) as [p Hp]. rewrite Hp. reflexivity.
  Qed.

  Lemma complete_dec' avail els : Complete avail els \/ ~ Complete avail els.
  Proof.
    destruct (not_solvable avail els) eqn:E.
    - left. apply not_solvable_nil_iff. exact E.
    - right. intro H. apply not_solvable_nil_iff in H. congruence.
  Qed.

  (** a model that names a missing thing or has a cycle gets the error, never a cache *)
  Lemma bad_graph_no_numbers m :
    (names_missing m ->
       create_cache fsem fsemN F m = Err (EMissing (not_solvable (base_available m) (map dep_of (to_sort m))))
       /\ not_solvable (base_available m) (map dep_of (to_sort m)) <> [])
    /\ (WF m -> has_cycle m -> ~ names_missing m ->
        Complete (base_available m) (map dep_of (to_sort m)) ->
        create_cache fsem fsemN F m = Err ECircular)
    /\ (WF m -> has_cycle m -> forall c, create_cache fsem fsemN F m <> Val c).
  Proof.
    split; [|split].
    - intro H. pose proof (names_missing_incomplete m H) as Hn. split; [apply incomplete_no_cache; exact Hn|].
      intro E. apply Hn. apply not_solvable_nil_iff. exact E.
    - intros HWF Hcy _ Hc. apply cyclic_no_cache; [exact Hc|apply has_cycle_not_acyclic; assumption].
    - intros HWF Hcy c Hc.
      destruct (complete_dec' (base_available m) (map dep_of (to_sort m))) as [Hco|Hn].
      + rewrite (cyclic_no_cache m Hco (has_cycle_not_acyclic m HWF Hcy)) in Hc. discriminate.
      + rewrite (incomplete_no_cache m Hn) in Hc. discriminate.
  Qed.
End Bad.
