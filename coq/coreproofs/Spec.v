(** Specification vocabulary for C01 / C13 (readable in minutes; no reference to the cache,
    the sorter or evaluation order). *)
From Coq Require Import ZArith List Bool Permutation Relations.
From MxlBase Require Import ListX.
From Core Require Import Sort Model Cache Query.
Import ListNotations.

Section Spec.
  Variable fsem : fnid -> list Z -> option Z.
  Variable fsemN : fnid -> list Z -> option (list Z).

  (** "its function applied to the values its named arguments have" -- in ONE environment *)
  Definition comp_holds (nm : name) (c : comp) (e : env) : Prop :=
    match c with
    | CFn f args =>
      exists vs v, lookups args e = Some vs /\ fsem f vs = Some v /\ lookup nm e = Some v
    | CSur f args outs =>
      exists vs ws, lookups args e = Some vs /\ fsemN f vs = Some ws /\ length ws = length outs /\
                    forall i o w, nth_error outs i = Some o -> nth_error ws i = Some w -> lookup o e = Some w
    end.

  (** the single name space (what the id registry guarantees, see C03), plus per-reaction
      stoichiometries being dictionaries keyed by variables *)
  Definition surrogate_outputs (m : model) : list name := flat_map (fun kv => s_out (snd kv)) (m_sur m).

  Definition all_names (m : model) : list name :=
    time_name :: keys (m_par m) ++ keys (m_var m) ++ keys (m_der m) ++ keys (m_rxn m)
              ++ keys (m_sur m) ++ surrogate_outputs m ++ keys (m_dat m).

  Definition coef_args (cf : coef) : list name :=
    match cf with CStat _ => [] | CDyn _ a => a end.

  Record WF (m : model) : Prop := {
    wf_names : NoDup (all_names m);
    (* every stoichiometry is a dict keyed by variables ... *)
    wf_st_keys : forall rn ent, In (rn, ent) (all_rxn_entries m) ->
                                NoDup (keys ent) /\ incl (keys ent) (keys (m_var m));
    (* ... surrogate stoichiometries are keyed by that surrogate's outputs ... *)
    wf_sur_st : forall sn s, In (sn, s) (m_sur m) -> NoDup (keys (s_st s)) /\ incl (keys (s_st s)) (s_out s);
    (* ... and a computed coefficient does not name a data set (the code pops the data keys before
       coefficients are evaluated, in every entry point alike) *)
    wf_coef_nodata : forall rn ent cpd cf, In (rn, ent) (all_rxn_entries m) -> In (cpd, cf) ent ->
                                          forall a, In a (coef_args cf) -> ~ In a (keys (m_dat m))
  }.

  (** value of a stoichiometric coefficient in an environment *)
  Definition coef_val (cf : coef) (e : env) : option Z :=
    match cf with
    | CStat q => Some q
    | CDyn f args => match lookups args e with Some vs => fsem f vs | None => None end
    end.

  (** stoichiometry x rates, straight from the model's content:
      sum over all reactions / surrogate fluxes [rn] and their entries for variable [x] of
      coefficient * flux *)
  Fixpoint sum_entries (x : name) (flux : Z) (ent : list (name * coef)) (e : env) : option Z :=
    match ent with
    | [] => Some 0%Z
    | (cpd, cf) :: rest =>
      match sum_entries x flux rest e with
      | None => None
      | Some s => if N.eqb cpd x
                  then match coef_val cf e with Some n => Some (n * flux + s)%Z | None => None end
                  else Some s
      end
    end.

  Fixpoint rhs_spec (x : name) (rs : list (name * list (name * coef))) (e : env) : option Z :=
    match rs with
    | [] => Some 0%Z
    | (rn, ent) :: rest =>
      match lookup rn e, rhs_spec x rest e with
      | Some flux, Some s => match sum_entries x flux ent e with Some a => Some (a + s)%Z | None => None end
      | _, _ => None
      end
    end.

  (** derived parameter = depends, through any chain, only on parameters (inductive reachability) *)
  Inductive OnlyParams (m : model) : name -> Prop :=
  | OP_par p : In p (keys (m_par m)) -> OnlyParams m p
  | OP_der d der : In (d, der) (m_der m) -> (forall a, In a (d_args der) -> OnlyParams m a) -> OnlyParams m d.
End Spec.

(** C02: "in whatever order parameters, derived quantities, reactions, surrogates and initial
    assignments were declared": the two models hold the same components, container by container,
    in any order (initial assignments live in the parameter / variable containers; a component
    keeps its own content, e.g. the order of its argument list and of its stoichiometry). *)
Record same_components (m m' : model) : Prop := {
  sc_par : Permutation (m_par m) (m_par m');
  sc_var : Permutation (m_var m) (m_var m');
  sc_der : Permutation (m_der m) (m_der m');
  sc_rxn : Permutation (m_rxn m) (m_rxn m');
  sc_sur : Permutation (m_sur m) (m_sur m');
  sc_dat : Permutation (m_dat m) (m_dat m')
}.

(** coefficient tables of the cache read as partial maps (variable, flux) -> entry *)
Definition st_coef (c : cache) (x rn : name) : option Z :=
  match lookup x (c_stoich c) with Some row => lookup rn row | None => None end.
Definition dy_coef (c : cache) (x rn : name) : option (fnid * list name) :=
  match lookup x (c_dyn_stoich c) with Some row => lookup rn row | None => None end.

(** C02, bad graphs, said about the MODEL (not about the sorter's element list):
    [names_missing]: some component names something that is neither a plain parameter / plain
    variable / data set / time nor provided by any component;
    [feeds m x y]: the component that provides [y] reads [x]; a dependency cycle is a name that
    feeds itself through one or more steps (one step = a component naming itself). *)
Definition names_missing (m : model) : Prop :=
  exists nm cmp a, In (nm, cmp) (to_sort m) /\ In a (comp_args cmp)
                   /\ ~ In a (base_available m)
                   /\ ~ (exists nm' cmp', In (nm', cmp') (to_sort m) /\ In a (comp_outs nm' cmp')).
Definition feeds (m : model) (x y : name) : Prop :=
  exists nm cmp, In (nm, cmp) (to_sort m) /\ In x (comp_args cmp) /\ In y (comp_outs nm cmp).
Definition has_cycle (m : model) : Prop := exists x, clos_trans name (feeds m) x x.

(** closing round (seeded C01-9): a name reads a data set when it IS one or is a derived quantity one
    of whose arguments does, through any chain *)
Inductive ReadsData (m : model) : name -> Prop :=
| RD_dat k : In k (keys (m_dat m)) -> ReadsData m k
| RD_der d der a : In (d, der) (m_der m) -> In a (d_args der) -> ReadsData m a -> ReadsData m d.
