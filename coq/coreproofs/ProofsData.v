(** Data sets: quantities computed from a data set are never frozen in the cache; a model whose data
    set was exchanged ([update_data], cache rebuilt) resolves everything from the new data; the seeded
    shape "data sets count as static names" together with a cache that is NOT rebuilt reports stale
    derivatives (regression witness for seeded change C01-9). *)
From Coq Require Import ZArith List Bool Lia Permutation.
From MxlBase Require Import ListX.
From Core Require Import Sort GenSortFacts SortProofs Model Cache CacheData Query.
From Core Require FnLib.
From CoreP Require Import Spec ProofsEnv ProofsEval ProofsNames ProofsSplit ProofsCache ProofsTop WFDec.
Import ListNotations.

Lemma in_same_key {A} k (v v' : A) (l : list (name * A)) :
  NoDup (keys l) -> In (k, v) l -> In (k, v') l -> v = v'.
Proof.
  intros Hnd H1 H2. apply (lookup_NoDup k v l Hnd) in H1. apply (lookup_NoDup k v' l Hnd) in H2. congruence.
Qed.

Lemma only_params_reads_no_data m : WF m -> forall k, OnlyParams m k -> ReadsData m k -> False.
Proof.
  intros HWF k Hop. induction Hop as [p Hp|d der Hin Hall IH]; intro Hrd.
  - inversion Hrd as [k Hk|d' der' a Hin' Ha Hr]; subst.
    + names_contra m HWF p.
    + apply in_keys in Hin'. names_contra m HWF p.
  - inversion Hrd as [k Hk|d' der' a Hin' Ha Hr]; subst.
    + apply in_keys in Hin. names_contra m HWF d.
    + assert (der' = der) by (eapply in_same_key; [apply nodup_keys_der; exact HWF|exact Hin'|exact Hin]).
      subst der'. exact (IH a Ha Hr).
Qed.

Section DataTop.
  Variable F : sort_facts.
  Hypothesis Hsc : f_shortcut F <> ScAppendBreak.

  Lemma data_readers_recomputed fsem fsemN m c d :
    WF m -> create_cache fsem fsemN F m = Val c ->
    In d (keys (m_der m)) -> ReadsData m d ->
    ~ In d (derived_parameter_names m c)
    /\ In d (derived_variable_names m c)
    /\ lookup d (c_all_par c) = None.
  Proof.
    intros HWF Hc Hd Hrd.
    assert (Hn : ~ In d (derived_parameter_names m c)).
    { intro Hin. apply (classification_top F Hsc fsem fsemN m c d HWF Hc) in Hin.
      destruct Hin as [_ Hop]. exact (only_params_reads_no_data m HWF d Hop Hrd). }
    assert (Hh : has d (c_all_par c) = false).
    { destruct (has d (c_all_par c)) eqn:E; [|reflexivity]. exfalso. apply Hn.
      unfold derived_parameter_names. apply filter_In. split; assumption. }
    split; [exact Hn|]. split.
    - unfold derived_variable_names. apply filter_In. split; [exact Hd|]. rewrite Hh. reflexivity.
    - apply has_lookup_None. exact Hh.
  Qed.

  (** [update_data] keeps the model well formed and changes nothing but the one data set *)
  Lemma update_data_inv m k v m' :
    update_data m k v = Val m' ->
    In k (keys (m_dat m))
    /\ m_par m' = m_par m /\ m_var m' = m_var m /\ m_der m' = m_der m /\ m_rxn m' = m_rxn m
    /\ m_sur m' = m_sur m /\ m_ro m' = m_ro m /\ m_dat m' = dset k v (m_dat m)
    /\ keys (m_dat m') = keys (m_dat m).
  Proof.
    unfold update_data. destruct (has k (m_dat m)) eqn:E; [|discriminate]. intro H. injection H as <-.
    cbn. split; [apply has_In; exact E|]. repeat split; try reflexivity. apply keys_dset_has. exact E.
  Qed.

  Lemma update_data_WF m k v m' : WF m -> update_data m k v = Val m' -> WF m'.
  Proof.
    intros HWF Hu. destruct (update_data_inv m k v m' Hu) as (_ & Ep & Ev & Ed & Er & Es & _ & _ & Ek).
    assert (Ea : all_rxn_entries m' = all_rxn_entries m) by (unfold all_rxn_entries; rewrite Er, Es; reflexivity).
    constructor.
    - unfold all_names, surrogate_outputs. rewrite Ep, Ev, Ed, Er, Es, Ek. exact (wf_names m HWF).
    - intros rn ent Hin. rewrite Ea in Hin. rewrite Ev. exact (wf_st_keys m HWF rn ent Hin).
    - intros sn s Hin. rewrite Es in Hin. exact (wf_sur_st m HWF sn s Hin).
    - intros rn ent cpd cf Hin Hc a Ha. rewrite Ea in Hin. rewrite Ek. exact (wf_coef_nodata m HWF rn ent cpd cf Hin Hc a Ha).
  Qed.

  Lemma after_update_data fsem fsemN m k v m' c' vars t e :
    WF m -> update_data m k v = Val m' ->
    create_cache fsem fsemN F m' = Val c' ->
    NoDup (keys vars) -> incl (keys vars) (keys (m_var m)) ->
    get_args_raw fsem fsemN m' c' vars t = Val e ->
    lookup k (m_dat m') = Some v
    /\ (forall k', k' <> k -> lookup k' (m_dat m') = lookup k' (m_dat m))
    /\ lookup time_name e = Some t
    /\ (forall x w, lookup x vars = Some w -> lookup x e = Some w)
    /\ (forall nm cmp, In (nm, cmp) (containers m) -> comp_holds fsem fsemN nm cmp (env_of_dict (m_dat m') e)).
  Proof.
    intros HWF Hu Hc Hnd Hincl Hq.
    pose proof (update_data_WF m k v m' HWF Hu) as HWF'.
    destruct (update_data_inv m k v m' Hu) as (Hk & Ep & Ev & Ed & Er & Es & _ & Edat & Ek).
    assert (Hincl' : incl (keys vars) (keys (m_var m'))) by (rewrite Ev; exact Hincl).
    destruct (args_fully_resolved F Hsc fsem fsemN m' c' vars t e HWF' Hc Hnd Hincl' Hq) as (H1 & H2 & _ & H4 & _).
    split; [rewrite Edat; apply lookup_dset_eq|].
    split; [intros k' Hne; rewrite Edat; apply lookup_dset_ne; exact Hne|].
    split; [exact H1|]. split; [exact H2|].
    intros nm cmp Hin. apply H4. unfold containers, der_comps, rxn_comps, sur_comps in *. rewrite Ed, Er, Es. exact Hin.
  Qed.
End DataTop.

Lemma seeded_par_is_shipped fsem fsemN F m : create_cache_seeded fsem fsemN par_seed F m = create_cache fsem fsemN F m.
Proof. reflexivity. Qed.

(** ---- regression witness ------------------------------------------------------------- *)
Local Open Scope N_scope.

(** parameter 1 = 2, variable 3 = 5 and untouched variable 4, data set 14 = 7; derived 6 = data + parameter (data only),
    derived 7 = 6 * parameter (chained, still state free), derived 8 = data * variable; reaction 9 = 7 + 8 on variable 3 *)
Definition ex_data_model : model := mkModel
  [(1, Plain 2%Z)]
  [(3, Plain 5%Z); (4, Plain 1%Z)]
  [(6, mkDer 2 [14; 1]); (7, mkDer 4 [6; 1]); (8, mkDer 4 [14; 3])]
  [(9, mkRxn 2 [7; 8] [(3, CStat 1%Z)])]
  [] [] [(14, 7%Z)].

Lemma ex_data_model_WF : WF ex_data_model.
Proof. apply wf_b_sound. vm_compute. reflexivity. Qed.

Definition fs := FnLib.fsem.
Definition fsN := FnLib.fsemN.

Lemma data_static_stale_refuted :
  exists m k v m' c_old_seeded c_old c_new c_new_seeded vars t,
    WF m /\ update_data m k v = Val m'
    /\ create_cache_seeded fs fsN par_data_seed gen_sort_facts m = Val c_old_seeded
    /\ create_cache fs fsN gen_sort_facts m = Val c_old
    /\ create_cache fs fsN gen_sort_facts m' = Val c_new
    /\ create_cache_seeded fs fsN par_data_seed gen_sort_facts m' = Val c_new_seeded
    (* the right answer: stoichiometry x rates over the values resolved from the NEW data *)
    /\ (exists e, get_args_raw fs fsN m' c_new vars t = Val e
                  /\ rhs_spec fs 3 (all_rxn_entries m') e = Some 11%Z)
    /\ get_rhs fs fsN m' c_new vars t = Val [(3, 11%Z); (4, 0%Z)]
    (* each edit alone is harmless here: data counted as static but cache rebuilt / cache kept but data read live *)
    /\ get_rhs fs fsN m' c_new_seeded vars t = Val [(3, 11%Z); (4, 0%Z)]
    /\ get_rhs fs fsN m' c_old vars t = Val [(3, 11%Z); (4, 0%Z)]
    (* together: the data-only derived quantities 6 and 7 keep the values of the OLD data set *)
    /\ get_rhs fs fsN m' c_old_seeded vars t = Val [(3, 23%Z); (4, 0%Z)]
    /\ lookup 6 (c_all_par c_old_seeded) = Some 9%Z /\ lookup 7 (c_all_par c_old_seeded) = Some 18%Z.
Proof.
  exists ex_data_model, 14, 1%Z.
  eexists. eexists. eexists. eexists. eexists. exists [(3, 5%Z); (4, 1%Z)], 2%Z.
  split; [exact ex_data_model_WF|].
  split; [vm_compute; reflexivity|]. split; [vm_compute; reflexivity|]. split; [vm_compute; reflexivity|].
  split; [vm_compute; reflexivity|]. split; [vm_compute; reflexivity|].
  split; [eexists; split; vm_compute; reflexivity|].
  repeat split; vm_compute; reflexivity.
Qed.

Lemma ex_data_reads : ReadsData ex_data_model 7 /\ In 7 (keys (m_der ex_data_model)).
Proof.
  split; [|vm_compute; tauto].
  apply (RD_der ex_data_model 7 (mkDer 4 [6; 1]) 6); [vm_compute; tauto|vm_compute; tauto|].
  apply (RD_der ex_data_model 6 (mkDer 2 [14; 1]) 14); [vm_compute; tauto|vm_compute; tauto|].
  apply RD_dat. vm_compute. tauto.
Qed.
