(** Top-level lemmas for C01-b / C01-c: the vector handed to integrators and the agreement of
    the entry points. *)
From Coq Require Import ZArith List Bool Lia Permutation.
From MxlBase Require Import ListX.
From Core Require Import Sort GenSortFacts SortProofs Model Cache Query.
From Core Require FnLib.
From CoreP Require Import Spec ProofsEnv ProofsEval ProofsNames ProofsSplit ProofsStoich ProofsCache ProofsTop.
From CoreP Require ExModel.
Import ListNotations.

Lemma call_inv fsem fsemN m c t y dx :
  call fsem fsemN m c t y = Val dx ->
  length y = length (c_var_names c) /\
  exists e d sel,
    get_args_raw fsem fsemN m c (combine (c_var_names c) y) t = Val e
    /\ rhs_of_args fsem c (c_var_names c) e = Val d
    /\ select (c_var_names c) d = Val sel
    /\ dx = map snd sel.
Proof.
  unfold call. destruct (Nat.eqb (length y) (length (c_var_names c))) eqn:El; cbn [negb]; [|discriminate].
  apply Nat.eqb_eq in El.
  destruct (get_args_raw fsem fsemN m c (combine (c_var_names c) y) t) as [e|] eqn:E1; [|discriminate]. cbn [bind].
  destruct (rhs_of_args fsem c (c_var_names c) e) as [d|] eqn:E2; [|discriminate]. cbn [bind].
  destruct (select (c_var_names c) d) as [sel|] eqn:E3; [|discriminate]. cbn [bind].
  intro H. injection H as <-. split; [exact El|]. exists e, d, sel. repeat split; assumption || reflexivity.
Qed.

Lemma create_cache_var_names fsem fsemN F m c :
  create_cache fsem fsemN F m = Val c -> c_var_names c = keys (m_var m).
Proof.
  intro Hc. destruct (create_cache_inv _ _ _ _ _ Hc) as (? & ? & ? & ? & ? & ? & ? & ? & ? & _ & _ & _ & _ & _ & _ & ->).
  reflexivity.
Qed.

Section TopRhs.
  Variable F : sort_facts.
  Hypothesis Hsc : f_shortcut F <> ScAppendBreak.

  (** the accumulation over the table returned by _get_args, for any supplied state *)
  Lemma rhs_of_args_top fsem fsemN m c vars t e d :
    WF m -> create_cache fsem fsemN F m = Val c ->
    incl (keys vars) (keys (m_var m)) ->
    get_args_raw fsem fsemN m c vars t = Val e ->
    rhs_of_args fsem c (keys (m_var m)) e = Val d ->
    keys d = keys (m_var m)
    /\ forall x, In x (keys (m_var m)) ->
         exists v, lookup x d = Some v /\ rhs_spec fsem x (all_rxn_entries m) e = Some v.
  Proof.
    intros HWF Hc Hvars Hq Hr.
    destruct (get_args_raw_inv _ _ _ _ _ _ _ Hq) as [e1 [He1 ->]].
    destruct (create_cache_inv _ _ _ _ _ Hc) as
        (order & dependent & s & dd & a & st & dy & init & all_par & Hsort & Heval & Hsplit & Hadd & Hinit & Hfill & ->).
    destruct (order_cs F Hsc m order Hsort) as (cs & Hord & Hperm & Htopo).
    cbn [c_dyn_order c_all_par] in He1.
    eapply (rhs_core fsem fsemN m order cs dependent s dd a all_par HWF Hord Hperm Htopo Heval Hsplit Hfill
                     vars t e1 Hvars He1 st dy Hadd); [| |exact Hr]; reflexivity.
  Qed.

  Lemma keys_combine_vars m (y : list Z) : length y = length (keys (m_var m)) -> keys (combine (keys (m_var m)) y) = keys (m_var m).
  Proof. intro H. apply keys_combine. symmetry. exact H. Qed.

  (** C01-b *)
  Lemma rhs_is_stoichiometry_times_rates fsem fsemN m c t y dx :
    WF m ->
    create_cache fsem fsemN F m = Val c ->
    call fsem fsemN m c t y = Val dx ->
    exists e,
      get_args_raw fsem fsemN m c (combine (keys (m_var m)) y) t = Val e
      /\ length dx = length (m_var m)
      /\ forall i x, nth_error (keys (m_var m)) i = Some x ->
           exists v, nth_error dx i = Some v /\ rhs_spec fsem x (all_rxn_entries m) e = Some v.
  Proof.
    intros HWF Hc Hcall.
    destruct (call_inv _ _ _ _ _ _ _ Hcall) as (Hlen & e & d & sel & Hq & Hr & Hsel & ->).
    rewrite (create_cache_var_names _ _ _ _ _ Hc) in *.
    exists e. split; [exact Hq|].
    destruct (rhs_of_args_top fsem fsemN m c (combine (keys (m_var m)) y) t e d HWF Hc) as [Hk Hx]; [|exact Hq|exact Hr|].
    { rewrite keys_combine_vars by exact Hlen. apply incl_refl. }
    destruct (select_spec _ _ _ Hsel) as [Hks Hvs].
    split.
    - rewrite map_length. rewrite <- (map_length fst sel). fold (keys sel). rewrite Hks.
      unfold keys. apply map_length.
    - intros i x Hi.
      assert (Hi' : nth_error (keys sel) i = Some x) by (rewrite Hks; exact Hi).
      unfold keys in Hi'. rewrite nth_error_map in Hi'.
      destruct (nth_error sel i) as [[x' v]|] eqn:En; [|discriminate]. cbn in Hi'. injection Hi' as ->.
      exists v. split.
      + rewrite nth_error_map, En. reflexivity.
      + destruct (Hx x (nth_error_In _ _ Hi)) as (v' & L & R).
        rewrite (Hvs x v (nth_error_In _ _ En)) in L. injection L as ->. exact R.
  Qed.

  (** C01-c *)
  Lemma entry_points_agree fsem fsemN m c t y dx :
    WF m -> create_cache fsem fsemN F m = Val c ->
    call fsem fsemN m c t y = Val dx ->
    get_rhs fsem fsemN m c (combine (keys (m_var m)) y) t = Val (combine (keys (m_var m)) dx).
  Proof.
    intros HWF Hc Hcall.
    destruct (call_inv _ _ _ _ _ _ _ Hcall) as (Hlen & e & d & sel & Hq & Hr & Hsel & ->).
    rewrite (create_cache_var_names _ _ _ _ _ Hc) in *.
    unfold get_rhs. rewrite Hq. cbn [bind]. rewrite Hr. f_equal.
    destruct (rhs_of_args_top fsem fsemN m c (combine (keys (m_var m)) y) t e d HWF Hc) as [Hk _]; [|exact Hq|exact Hr|].
    { rewrite keys_combine_vars by exact Hlen. apply incl_refl. }
    assert (Hnd : NoDup (keys d)) by (rewrite Hk; apply nodup_keys_var; exact HWF).
    rewrite <- Hk in Hsel. rewrite (select_self d Hnd) in Hsel. injection Hsel as <-.
    rewrite <- Hk. unfold keys. clear. induction d as [|[k v] d IH]; [reflexivity|].
    cbn [map fst snd combine]. f_equal. exact IH.
  Qed.

  (** membership in the default argument names (time excluded) *)
  Lemma arg_names_cover m c k :
    In k (keys (m_var m)) \/ In k (keys (m_par m)) \/ In k (keys (m_der m)) \/ In k (keys (m_rxn m))
    \/ In k (surrogate_outputs m) -> In k (arg_names m c false).
  Proof.
    unfold arg_names. cbn [app]. rewrite !in_app_iff.
    intros [H|[H|[H|[H|H]]]]; [left; exact H|right; left; exact H| |do 4 right; left; exact H|].
    - right. right. unfold derived_variable_names, derived_parameter_names. rewrite !filter_In.
      destruct (has k (c_all_par c)); [right; left|left]; split; auto.
    - do 5 right. unfold surrogate_outputs in H. apply in_flat_map in H. destruct H as [[sn s] [Hin Hk]].
      cbn [snd] in Hk. unfold surrogate_output_nonflux, surrogate_reaction_names. rewrite !in_flat_map.
      destruct (has k (s_st s)) eqn:Eh.
      + right. exists (sn, s). split; [exact Hin|]. cbn [snd]. apply has_In. exact Eh.
      + left. exists (sn, s). split; [exact Hin|]. cbn [snd]. apply filter_In. split; [exact Hk|].
        rewrite Eh. reflexivity.
  Qed.

  (** the time-course form: one row of the argument table (which has no time column) with the
      time put back gives the same right-hand side as the table of _get_args itself *)
  Lemma time_course_form fsem fsemN m c vars t e tab :
    WF m -> create_cache fsem fsemN F m = Val c ->
    incl (keys vars) (keys (m_var m)) ->
    get_args_raw fsem fsemN m c vars t = Val e ->
    select (arg_names m c false) e = Val tab ->
    rhs_of_args fsem c (keys (m_var m)) ((time_name, t) :: env_of_dict tab [])
    = rhs_of_args fsem c (keys (m_var m)) e.
  Proof.
    intros HWF Hc Hvars Hq Hsel. apply rhs_of_args_ext. intro k.
    destruct (select_spec _ _ _ Hsel) as [Hk Hv].
    destruct (N.eq_dec k time_name) as [->|Hnt].
    { rewrite lookup_cons_eq. symmetry.
      destruct (get_args_raw_inv _ _ _ _ _ _ _ Hq) as [e1 [He1 ->]].
      destruct (create_cache_inv _ _ _ _ _ Hc) as
          (order & dependent & s & dd & a & st & dy & init & all_par & Hsort & Heval & Hsplit & Hadd & Hinit & Hfill & ->).
      destruct (order_cs F Hsc m order Hsort) as (cs & Hord & Hperm & Htopo).
      cbn [c_dyn_order c_all_par] in He1.
      rewrite (popped_lookup m e1 time_name) by (intro H; names_contra m HWF time_name).
      eapply e1_time; eassumption. }
    rewrite lookup_cons_ne by exact Hnt. rewrite lookup_env_of_dict.
    destruct (lookup k (rev tab)) as [v|] eqn:El.
    - symmetry. apply Hv. apply in_rev. apply lookup_In. exact El.
    - cbn [lookup]. symmetry.
      assert (Hn : ~ In k (arg_names m c false)).
      { rewrite <- Hk. apply lookup_None in El. rewrite keys_rev in El. intro H. apply El. apply in_rev.
        rewrite rev_involutive. exact H. }
      destruct (get_args_raw_inv _ _ _ _ _ _ _ Hq) as [e1 [He1 ->]].
      destruct (create_cache_inv _ _ _ _ _ Hc) as
          (order & dependent & s & dd & a & st & dy & init & all_par & Hsort & Heval & Hsplit & Hadd & Hinit & Hfill & Ec).
      destruct (order_cs F Hsc m order Hsort) as (cs & Hord & Hperm & Htopo).
      rewrite Ec in He1. cbn [c_dyn_order c_all_par] in He1.
      eapply popped_unbound; try eassumption; intro H; apply Hn; apply arg_names_cover; tauto.
  Qed.

  (** fluxes and the argument table are selections of the same table; the fluxes always exist *)
  Lemma fluxes_args_same_table fsem fsemN m c vars t e :
    WF m -> create_cache fsem fsemN F m = Val c ->
    incl (keys vars) (keys (m_var m)) ->
    get_args_raw fsem fsemN m c vars t = Val e ->
    (exists fl, get_fluxes fsem fsemN m c vars t = Val fl /\ keys fl = flux_names m
                /\ forall k v, In (k, v) fl -> lookup k e = Some v)
    /\ (forall tab, get_args fsem fsemN m c vars t = Val tab ->
          keys tab = arg_names m c true /\ forall k v, In (k, v) tab -> lookup k e = Some v).
  Proof.
    intros HWF Hc Hvars Hq. split.
    - unfold get_fluxes. rewrite Hq. cbn [bind].
      destruct (select_total (flux_names m) e) as [fl Hfl].
      { intros k Hin.
        destruct (get_args_raw_inv _ _ _ _ _ _ _ Hq) as [e1 [He1 ->]].
        destruct (create_cache_inv _ _ _ _ _ Hc) as
            (order & dependent & s & dd & a & st & dy & init & all_par & Hsort & Heval & Hsplit & Hadd & Hinit & Hfill & ->).
        destruct (order_cs F Hsc m order Hsort) as (cs & Hord & Hperm & Htopo).
        cbn [c_dyn_order c_all_par] in He1.
        eapply popped_flux_bound; try eassumption.
        rewrite (keys_all_rxn_entries m). exact Hin. }
      exists fl. split; [exact Hfl|]. apply (select_spec _ _ _ Hfl).
    - intros tab Ht. unfold get_args in Ht. rewrite Hq in Ht. cbn [bind] in Ht. apply (select_spec _ _ _ Ht).
  Qed.
End TopRhs.

(** the first draft of C01-a is false of the model: data keys are popped from the returned table,
    and an association list that binds a variable twice is not a dict *)
Lemma args_draft_refuted :
  exists m c vars t e,
    WF m /\ create_cache FnLib.fsem FnLib.fsemN gen_sort_facts m = Val c
    /\ NoDup (keys vars) /\ incl (keys vars) (keys (m_var m))
    /\ get_args_raw FnLib.fsem FnLib.fsemN m c vars t = Val e
    /\ (exists nm cmp, In (nm, cmp) (containers m) /\ ~ comp_holds FnLib.fsem FnLib.fsemN nm cmp e)
    /\ exists vars' e' x v,
         incl (keys vars') (keys (m_var m))
         /\ get_args_raw FnLib.fsem FnLib.fsemN m c vars' t = Val e'
         /\ lookup x vars' = Some v /\ lookup x e' <> Some v.
Proof.
  exists ExModel.ex_model. eexists. exists [(3%N, 1%Z); (4%N, 2%Z); (5%N, 3%Z)], 3%Z. eexists.
  split; [exact ExModel.ex_model_WF|]. split; [vm_compute; reflexivity|].
  split; [repeat (constructor; [cbn; intuition discriminate|]); constructor|].
  split; [intros x Hx; cbn in Hx |- *; intuition|].
  split; [vm_compute; reflexivity|]. split.
  - exists 15%N, (CFn 2%N [14%N; 3%N]). split; [cbn; intuition|].
    intros (vs & v & H & _). vm_compute in H. discriminate.
  - exists [(3%N, 1%Z); (3%N, 2%Z); (4%N, 2%Z); (5%N, 3%Z)]. eexists. exists 3%N, 1%Z.
    split; [intros x Hx; cbn in Hx |- *; intuition|].
    split; [vm_compute; reflexivity|]. split; [reflexivity|]. vm_compute. discriminate.
Qed.
