(** Assignment functions that draw ([CacheDraw.v]): each drawing assignment is evaluated exactly once
    per resolution, the numbers the cache reports are the numbers of that one evaluation (the values
    every other component was resolved from), a pure drawing stream gives [create_cache] back, and
    the seeded shape "initial conditions evaluated again" (C13-8) does neither. *)
From Coq Require Import ZArith List Bool Lia Permutation.
From MxlBase Require Import ListX.
From Core Require Import Sort GenSortFacts SortProofs Model Cache CacheDraw Query.
From Core Require FnLib.
From CoreP Require Import Spec ProofsEnv ProofsEval ProofsNames ProofsSplit ProofsCache ProofsTop WFDec.
Import ListNotations.

(** the meaning of a function whose evaluation drew [z] *)
Definition plus_draw (fsem : fnid -> list Z -> option Z) (z : Z) : fnid -> list Z -> option Z :=
  fun f vs => match fsem f vs with Some v => Some (v + z)%Z | None => None end.

Definition ia_names (m : model) : list name := keys (ias_of (m_var m)) ++ keys (ias_of (m_par m)).

(** ---- name-space facts without an evaluation hypothesis in the context ------------------- *)
Lemma dep0_par' m p v : WF m -> In (p, Plain v) (m_par m) -> lookup p (dependent0 m) = Some v.
Proof.
  intros HWF H. apply in_plain_of in H.
  assert (Hk : In p (keys (plain_of (m_par m)))) by (apply (in_map fst) in H; exact H).
  unfold dependent0.
  rewrite lookup_cons_ne by (intros ->; names_contra m HWF time_name).
  rewrite lookup_env_of_dict_notin by (intro Hd; names_contra m HWF p).
  rewrite lookup_env_of_dict_notin by (intro Hd; names_contra m HWF p).
  apply lookup_env_of_dict_in; [apply nodup_keys_plain_par; exact HWF|exact H].
Qed.

Lemma dep0_var' m x v : WF m -> In (x, Plain v) (m_var m) -> lookup x (dependent0 m) = Some v.
Proof.
  intros HWF H. apply in_plain_of in H.
  assert (Hk : In x (keys (plain_of (m_var m)))) by (apply (in_map fst) in H; exact H).
  unfold dependent0.
  rewrite lookup_cons_ne by (intros ->; names_contra m HWF time_name).
  rewrite lookup_env_of_dict_notin by (intro Hd; names_contra m HWF x).
  apply lookup_env_of_dict_in; [apply nodup_keys_plain_var; exact HWF|exact H].
Qed.

Lemma ia_par_static' m order cs s d a k :
  WF m -> order = map fst cs -> Permutation cs (to_sort m) ->
  split_order m order (keys (m_par m)) = Val (s, d, a) ->
  In k (keys (ias_of (m_par m))) -> In k s.
Proof.
  intros HWF Hord Hperm Hsplit H.
  assert (Ho : In k order).
  { apply (order_in m order cs Hord Hperm). rewrite keys_to_sort, !in_app_iff. right. left. exact H. }
  destruct (order_sd m order s d a Hsplit k Ho) as [Hs|Hd]; [exact Hs|]. exfalso.
  assert (Hp : In k (keys (m_par m))).
  { apply cnt_In. apply cnt_In in H. pose proof (cnt_keys_plain_ias k (m_par m)). lia. }
  destruct (d_class m order s d a Hsplit k Hd) as [E|E].
  - unfold is_flux in E. apply orb_true_iff in E. destruct E as [E|E]; names_contra m HWF k.
  - unfold is_varpar in E. apply orb_false_iff in E. destruct E as [_ E]. names_contra m HWF k.
Qed.

Section DrawProofs.
  Variable fsem : fnid -> list Z -> option Z.
  Variable fsemN : fnid -> list Z -> option (list Z).
  Variable imp : list name.
  Variable draw : nat -> Z.

  Definition is_fn_comp (c : comp) : bool := match c with CFn _ _ => true | CSur _ _ _ => false end.
  Definition is_fn (table : list (name * comp)) (n : name) : bool :=
    match lookup n table with Some c => is_fn_comp c | None => false end.
  Definition draws_of (table : list (name * comp)) (order : list name) : list name :=
    filter (fun n => memN n imp && is_fn table n) order.

  (** ---- the log ---------------------------------------------------------------------- *)
  Lemma eval_comp_d_log nm c st st' :
    eval_comp_d fsem fsemN imp draw nm c st = Val st' ->
    snd st' = snd st ++ (if memN nm imp && is_fn_comp c then [nm] else []).
  Proof.
    destruct st as [e log]. destruct c as [f args|f args outs]; cbn [eval_comp_d calc_d is_fn_comp fst snd].
    - destruct (calc fsem f args e) as [v|er]; [|discriminate]. cbn [bind].
      destruct (memN nm imp); cbn [bind fst snd andb]; intro H; injection H as <-; cbn [snd];
        [reflexivity|rewrite app_nil_r; reflexivity].
    - destruct (eval_comp fsem fsemN nm (CSur f args outs) e) as [e'|er]; [|discriminate]. cbn [bind].
      intro H. injection H as <-. cbn [snd]. rewrite andb_false_r, app_nil_r. reflexivity.
  Qed.

  Lemma eval_order_d_log table : forall order st st',
    eval_order_d fsem fsemN imp draw table order st = Val st' ->
    snd st' = snd st ++ draws_of table order.
  Proof.
    induction order as [|nm rest IH]; intros st st' H.
    - cbn in H. injection H as <-. unfold draws_of. cbn. rewrite app_nil_r. reflexivity.
    - cbn [eval_order_d] in H. unfold draws_of. cbn [filter]. unfold is_fn at 1.
      destruct (lookup nm table) as [c|]; [|discriminate].
      destruct (eval_comp_d fsem fsemN imp draw nm c st) as [st1|er] eqn:E1; [|discriminate]. cbn [bind] in H.
      rewrite (IH st1 st' H), (eval_comp_d_log nm c st st1 E1).
      destruct (memN nm imp && is_fn_comp c); rewrite <- app_assoc; reflexivity.
  Qed.

  Lemma cnt_filter (p : name -> bool) x l : cnt x (filter p l) = if p x then cnt x l else 0.
  Proof.
    induction l as [|y l IH]; [destruct (p x); reflexivity|].
    cbn [filter]. destruct (p y) eqn:Ey.
    - rewrite !cnt_cons, IH. destruct (N.eq_dec y x) as [->|Hne]; [rewrite Ey; reflexivity|].
      destruct (p x); reflexivity.
    - rewrite IH, cnt_cons. destruct (N.eq_dec y x) as [->|Hne]; [rewrite Ey; reflexivity|].
      destruct (p x); reflexivity.
  Qed.

  (** ---- a stream that draws nothing: the pure pass ---------------------------------- *)
  Lemma eval_order_d_pure table :
    (forall k, draw k = 0%Z) ->
    forall order e log,
      eval_order_d fsem fsemN imp draw table order (e, log) =
      match eval_order fsem fsemN table order e with
      | Val e' => Val (e', log ++ draws_of table order)
      | Err x => Err x
      end.
  Proof.
    intro H0. induction order as [|nm rest IH]; intros e log.
    - cbn. unfold draws_of. cbn. rewrite app_nil_r. reflexivity.
    - cbn [eval_order_d eval_order]. unfold draws_of. cbn [filter]. unfold is_fn at 1.
      destruct (lookup nm table) as [c|]; [|reflexivity].
      destruct c as [f args|f args outs]; cbn [eval_comp_d eval_comp calc_d is_fn_comp fst snd].
      + destruct (calc fsem f args e) as [v|er]; [|reflexivity]. cbn [bind].
        destruct (memN nm imp); cbn [bind fst snd andb].
        * rewrite H0, Z.add_0_r, IH.
          destruct (eval_order fsem fsemN table rest ((nm, v) :: e)); [|reflexivity].
          rewrite <- app_assoc. reflexivity.
        * rewrite IH. reflexivity.
      + destruct (match lookups args e with
                  | Some vs => match fsemN f vs with
                               | Some ws => if Nat.eqb (length ws) (length outs) then Val (env_of_dict (combine outs ws) e) else Err EValue
                               | None => Err EType end
                  | None => Err EKey end) as [e'|er]; [|reflexivity].
        cbn [bind]. rewrite andb_false_r. rewrite IH. reflexivity.
  Qed.

  (** ---- inversion of create_cache_d (shipped shape) ------------------------------------ *)
  Lemma create_cache_d_inv F m c log :
    create_cache_d fsem fsemN imp draw false F m = Val (c, log) ->
    exists order dependent s d a st dy init all_par,
      sort F (base_available m) (map dep_of (to_sort m)) = Ok order /\
      eval_order_d fsem fsemN imp draw (to_sort m) order (dependent0 m, []) = Val (dependent, log) /\
      split_order m order (keys (m_par m)) = Val (s, d, a) /\
      add_rxn_list fsem a dependent ([], []) (all_rxn_entries m) = Val (st, dy) /\
      init_conditions (keys (m_var m)) dependent = Val init /\
      fill_all_par m dependent s (plain_of (m_par m)) = Val all_par /\
      c = mkCache order (keys (m_var m)) d (plain_of (m_par m)) all_par st dy init.
  Proof.
    unfold create_cache_d, sort_res. cbv zeta. fold (dependent0 m).
    destruct (sort F (base_available m) (map dep_of (to_sort m))) as [order| | |] eqn:Es; try discriminate.
    cbn [bind].
    match goal with |- context [eval_order_d ?a ?b ?c ?d ?e ?f ?g] => destruct (eval_order_d a b c d e f g) as [[dependent lg]|] eqn:Ee end; [|cbn [bind]; intro HH; discriminate HH].
    cbn [bind].
    destruct (split_order m order (keys (m_par m))) as [[[s d] a]|] eqn:Esp; [|cbn [bind]; intro HH; discriminate HH].
    cbn [bind].
    destruct (add_rxn_list fsem a dependent ([], []) (all_rxn_entries m)) as [[st dy]|] eqn:Ea; [|cbn [bind]; intro HH; discriminate HH].
    cbn [bind].
    destruct (init_conditions (keys (m_var m)) dependent) as [init|] eqn:Ei; [|cbn [bind]; intro HH; discriminate HH].
    cbn [bind].
    destruct (fill_all_par m dependent s (plain_of (m_par m))) as [all_par|] eqn:Ef; [|cbn [bind]; intro HH; discriminate HH].
    cbn [bind]. intro H. injection H as <- <-.
    exists order, dependent, s, d, a, st, dy, init, all_par. repeat split; assumption || reflexivity.
  Qed.

  (** a stream that draws nothing gives the pure cache, and the other way round *)
  Lemma pure_stream_is_create_cache F m :
    (forall k, draw k = 0%Z) ->
    (forall c log, create_cache_d fsem fsemN imp draw false F m = Val (c, log) -> create_cache fsem fsemN F m = Val c)
    /\ (forall c, create_cache fsem fsemN F m = Val c ->
          exists log, create_cache_d fsem fsemN imp draw false F m = Val (c, log)).
  Proof.
    intro H0. unfold create_cache_d, create_cache.
    destruct (sort_res F (base_available m) (map dep_of (to_sort m))) as [order|er]; cbn [bind]; [|split; [intros; discriminate|intros; discriminate]].
    rewrite (eval_order_d_pure (to_sort m) H0).
    destruct (eval_order fsem fsemN (to_sort m) order _) as [dependent|er]; cbn [bind]; [|split; intros; discriminate].
    destruct (split_order m order (keys (m_par m))) as [[[s d] a]|]; cbn [bind]; [|split; intros; discriminate].
    destruct (add_rxn_list fsem a dependent ([], []) (all_rxn_entries m)) as [[st dy]|]; cbn [bind]; [|split; intros; discriminate].
    destruct (init_conditions (keys (m_var m)) dependent) as [init|]; cbn [bind]; [|split; intros; discriminate].
    destruct (fill_all_par m dependent s (plain_of (m_par m))) as [all_par|]; cbn [bind]; [|split; intros; discriminate].
    split.
    - intros c log H. injection H as <- _. reflexivity.
    - intros c H. injection H as <-. eexists. reflexivity.
  Qed.

  (** ---- evaluated exactly once -------------------------------------------------------- *)
  Section Once.
    Variable F : sort_facts.
    Hypothesis Hsc : f_shortcut F <> ScAppendBreak.

    Lemma drawn_once m c log :
      WF m -> create_cache_d fsem fsemN imp draw false F m = Val (c, log) ->
      (forall n, In n log -> In n imp /\ In n (keys (to_sort m)))
      /\ (forall n, In n imp -> In n (ia_names m) -> cnt n log = 1)
      /\ NoDup log.
    Proof.
      intros HWF Hc.
      destruct (create_cache_d_inv F m c log Hc) as
          (order & dependent & s & d & a & st & dy & init & all_par & Hsort & Heval & _).
      destruct (order_cs F Hsc m order Hsort) as (cs & Hord & Hperm & Htopo).
      pose proof (eval_order_d_log (to_sort m) order _ _ Heval) as Hlog. cbn [snd app] in Hlog. subst log.
      pose proof (nodup_order m order cs HWF Hord Hperm) as Hnd.
      split; [|split].
      - intros n Hin. unfold draws_of in Hin. apply filter_In in Hin. destruct Hin as [Ho Hb].
        apply andb_true_iff in Hb. destruct Hb as [Hb _]. split; [apply memN_In; exact Hb|].
        apply (order_in m order cs Hord Hperm). exact Ho.
      - intros n Hi Hia. unfold draws_of. rewrite cnt_filter.
        assert (Hk : In n (keys (to_sort m))).
        { rewrite keys_to_sort. unfold ia_names in Hia. rewrite in_app_iff in Hia. rewrite !in_app_iff. tauto. }
        assert (Hfn : is_fn (to_sort m) n = true).
        { unfold ia_names in Hia. rewrite in_app_iff in Hia.
          assert (Hex : exists f a', In (n, CFn f a') (to_sort m)).
          { unfold to_sort. destruct Hia as [Hia|Hia]; unfold keys in Hia; apply in_map_iff in Hia;
              destruct Hia as [[n' c'] [E Hin]]; cbn [fst] in E; subst n';
              pose proof Hin as Hin'; apply in_ias_of in Hin'; destruct Hin' as [f [a' [-> _]]];
              exists f, a'; rewrite !in_app_iff; tauto. }
          destruct Hex as [f [a' Hin]]. unfold is_fn. rewrite (lookup_to_sort m HWF n _ Hin). reflexivity. }
        apply memN_In in Hi. rewrite Hi, Hfn. cbn [andb].
        apply (order_in m order cs Hord Hperm) in Hk.
        apply cnt_In in Hk. pose proof (proj1 (cnt_NoDup order) Hnd n). lia.
      - unfold draws_of. apply NoDup_filter. exact Hnd.
    Qed.
  End Once.

  (** ---- the numbers of the one evaluation ------------------------------------------------ *)
  (** a component holds in [e] given the final log: a drawing assignment is its polynomial plus the draw it made,
      which is the draw of ITS position in the log; everything else is its pure function *)
  Definition holds_d (log : list name) (nm : name) (c : comp) (e : env) : Prop :=
    if memN nm imp && is_fn_comp c
    then exists k, nth_error log k = Some nm /\ comp_holds (plus_draw fsem (draw k)) fsemN nm c e
    else comp_holds fsem fsemN nm c e.

  Fixpoint eval_list_d (cs : list (name * comp)) (st : dstate) : res dstate :=
    match cs with
    | [] => Val st
    | kc :: r => do st' <- eval_comp_d fsem fsemN imp draw (fst kc) (snd kc) st; eval_list_d r st'
    end.

  Lemma eval_order_d_list table cs :
    (forall nm c, In (nm, c) cs -> lookup nm table = Some c) ->
    forall st, eval_order_d fsem fsemN imp draw table (map fst cs) st = eval_list_d cs st.
  Proof.
    induction cs as [|[nm c] r IH]; intros H st; [reflexivity|].
    cbn [map fst eval_order_d eval_list_d snd].
    rewrite (H nm c (or_introl eq_refl)).
    destruct (eval_comp_d fsem fsemN imp draw nm c st) as [st'|er]; [|reflexivity].
    cbn [bind]. apply IH. intros nm' c' Hin. apply H. right. exact Hin.
  Qed.

  (** one drawing step is a pure step of the shifted meaning *)
  Lemma eval_comp_d_step nm c e log e1 log1 :
    eval_comp_d fsem fsemN imp draw nm c (e, log) = Val (e1, log1) ->
    if memN nm imp && is_fn_comp c
    then eval_comp (plus_draw fsem (draw (length log))) fsemN nm c e = Val e1 /\ log1 = log ++ [nm]
    else eval_comp fsem fsemN nm c e = Val e1 /\ log1 = log.
  Proof.
    destruct c as [f args|f args outs]; cbn [eval_comp_d calc_d is_fn_comp fst snd eval_comp].
    - unfold calc, plus_draw. destruct (lookups args e) as [vs|]; [|cbn [bind]; discriminate].
      destruct (fsem f vs) as [v|]; [|cbn [bind]; discriminate]. cbn [bind].
      destruct (memN nm imp); cbn [bind fst snd andb]; intro H; injection H as <- <-; split; reflexivity.
    - rewrite andb_false_r.
      destruct (match lookups args e with
                | Some vs => match fsemN f vs with
                             | Some ws => if Nat.eqb (length ws) (length outs) then Val (env_of_dict (combine outs ws) e) else Err EValue
                             | None => Err EType end
                | None => Err EKey end) as [e'|er]; [|cbn [bind]; discriminate].
      cbn [bind]. intro H. injection H as <- <-. split; reflexivity.
  Qed.

  Lemma holds_d_mono log ext nm c e : holds_d log nm c e -> holds_d (log ++ ext) nm c e.
  Proof.
    unfold holds_d. destruct (memN nm imp && is_fn_comp c); [|exact (fun H => H)].
    intros [k [Hk Hh]]. exists k. split; [|exact Hh].
    rewrite nth_error_app1; [exact Hk|]. apply nth_error_Some. congruence.
  Qed.

  Lemma holds_d_ext log nm c (e e' : env) :
    (forall k, In k (comp_args c) \/ In k (comp_outs nm c) -> lookup k e' = lookup k e) ->
    holds_d log nm c e -> holds_d log nm c e'.
  Proof.
    intro Hext. unfold holds_d. destruct (memN nm imp && is_fn_comp c).
    - intros [k [Hk Hh]]. exists k. split; [exact Hk|]. eapply comp_holds_ext; eassumption.
    - apply comp_holds_ext. exact Hext.
  Qed.

  Lemma eval_list_d_holds cs : forall e0 log0 e log,
    eval_list_d cs (e0, log0) = Val (e, log) ->
    good cs ->
    (forall nm c, In (nm, c) cs -> holds_d log nm c e)
    /\ (forall k, ~ In k (flat_map outs_of cs) -> lookup k e = lookup k e0)
    /\ (exists ext, log = log0 ++ ext).
  Proof.
    induction cs as [|[nm c] r IH]; intros e0 log0 e log H Hg.
    - cbn [eval_list_d] in H. injection H as <- <-. split; [intros ? ? []|]. split; [reflexivity|].
      exists []. rewrite app_nil_r. reflexivity.
    - cbn [eval_list_d fst snd] in H.
      destruct (eval_comp_d fsem fsemN imp draw nm c (e0, log0)) as [[e1 log1]|] eqn:E1; [|discriminate]. cbn [bind] in H.
      destruct Hg as [G1 [G2 [G3 G4]]]. unfold outs_of in G1, G2, G3. cbn [fst snd] in G1, G2, G3.
      destruct (IH e1 log1 e log H G4) as [IH1 [IH2 [ext Hext]]].
      pose proof (eval_comp_d_step nm c e0 log0 e1 log1 E1) as Hstep.
      assert (Hframe1 : forall k, ~ In k (comp_outs nm c) -> lookup k e1 = lookup k e0).
      { destruct (memN nm imp && is_fn_comp c); destruct Hstep as [Hs _]; intros k Hk;
          eapply eval_comp_frame; eassumption. }
      split; [|split].
      + intros nm' c' [Eq|Hin]; [|apply IH1; exact Hin]. injection Eq as <- <-.
        apply (holds_d_ext log nm c e1 e).
        { intros k [Hk|Hk]; apply IH2; [apply (G3 k Hk)|apply (G2 k Hk)]. }
        subst log. apply holds_d_mono. unfold holds_d.
        destruct (memN nm imp && is_fn_comp c); destruct Hstep as [Hs Hl].
        * exists (length log0). subst log1. split.
          { rewrite nth_error_app2 by lia. rewrite Nat.sub_diag. reflexivity. }
          apply (eval_comp_holds _ fsemN nm c e0 e1 Hs G1). intros a Ha. apply (G3 a Ha).
        * apply (eval_comp_holds fsem fsemN nm c e0 e1 Hs G1). intros a Ha. apply (G3 a Ha).
      + intros k Hk. cbn [flat_map] in Hk. rewrite in_app_iff in Hk.
        rewrite IH2 by (intro Hin; apply Hk; right; exact Hin).
        apply Hframe1. intro Hin. apply Hk. left. exact Hin.
      + assert (Hl1 : exists x, log1 = log0 ++ x).
        { destruct (memN nm imp && is_fn_comp c); destruct Hstep as [_ ->]; [exists [nm]|exists []]; [reflexivity|rewrite app_nil_r; reflexivity]. }
        destruct Hl1 as [x ->]. exists (x ++ ext). rewrite Hext, app_assoc. reflexivity.
  Qed.

  Section ResolvedOnce.
    Variable F : sort_facts.
    Hypothesis Hsc : f_shortcut F <> ScAppendBreak.

    Lemma drawn_resolved_once m c log :
      WF m -> create_cache_d fsem fsemN imp draw false F m = Val (c, log) ->
      exists e0,
        lookup time_name e0 = Some 0%Z
        /\ (forall p v, In (p, Plain v) (m_par m) -> lookup p e0 = Some v)
        /\ (forall x v, In (x, Plain v) (m_var m) -> lookup x e0 = Some v)
        /\ (forall nm cmp, In (nm, cmp) (to_sort m) -> holds_d log nm cmp e0)
        /\ keys (c_init c) = keys (m_var m)
        /\ (forall x, In x (keys (m_var m)) -> lookup x (c_init c) = lookup x e0)
        /\ (forall p f a, In (p, IA f a) (m_par m) -> lookup p (c_all_par c) = lookup p e0).
    Proof.
      intros HWF Hc.
      destruct (create_cache_d_inv F m c log Hc) as
          (order & dependent & s & d & a & st & dy & init & all_par & Hsort & Heval & Hsplit & _ & Hinit & Hfill & ->).
      destruct (order_cs F Hsc m order Hsort) as (cs & Hord & Hperm & Htopo).
      assert (Hl : eval_list_d cs (dependent0 m, []) = Val (dependent, log)).
      { rewrite <- (eval_order_d_list (to_sort m) cs).
        - rewrite Hord in Heval. exact Heval.
        - intros nm c Hin. apply lookup_to_sort; [exact HWF|]. apply (cs_in m cs Hperm). exact Hin. }
      destruct (eval_list_d_holds cs _ _ _ _ Hl (good_cs m cs HWF Hperm Htopo)) as [Hh [Hfr _]].
      assert (Hfr' : forall k, ~ In k (flat_map outs_of (to_sort m)) -> lookup k dependent = lookup k (dependent0 m)).
      { intros k Hk. apply Hfr. intro Hin. apply Hk.
        eapply Permutation_in; [apply Permutation_flat_map; exact Hperm|exact Hin]. }
      exists dependent. cbn [c_init c_all_par]. repeat split.
      - rewrite Hfr'; [apply dep0_time|]. intro H. names_contra m HWF time_name.
      - intros p v H. rewrite Hfr'; [apply dep0_par'; assumption|].
        apply in_plain_of in H. apply in_keys in H. intro Ho. names_contra m HWF p.
      - intros x v H. rewrite Hfr'; [apply dep0_var'; assumption|].
        apply in_plain_of in H. apply in_keys in H. intro Ho. names_contra m HWF x.
      - intros nm cmp Hin. apply Hh. apply (cs_in m cs Hperm). exact Hin.
      - apply (init_keys m dependent init Hinit).
      - apply (init_lookup m dependent init Hinit).
      - intros p f a' Hin.
        assert (Hk : In p (keys (ias_of (m_par m)))).
        { apply (in_keys p (CFn f a')). apply in_ias_of. exists f, a'. split; [reflexivity|exact Hin]. }
        apply (all_par_static m dependent s all_par Hfill p).
        + eapply ia_par_static'; eassumption.
        + apply has_false. intro Hv. apply in_keys in Hin. names_contra m HWF p.
    Qed.
  End ResolvedOnce.
End DrawProofs.

(** ---- example and regression witness -------------------------------------------------- *)
Local Open Scope N_scope.

(** parameter 1 = 10 (scale), parameter 2 := y (y_total, assigned from the variable), variable 3 = 0, variable 4 := scale
    (drawing: y = scale + draw), derived parameter 6 = y_total + scale, reaction 9 = y + y_total converting 4 into 3 *)
Definition ex_draw_model : model := mkModel
  [(1, Plain 10%Z); (2, IA 0 [4])]
  [(3, Plain 0%Z); (4, IA 0 [1])]
  [(6, mkDer 2 [2; 1])]
  [(9, mkRxn 2 [4; 2] [(4, CStat (-1)%Z); (3, CStat 1%Z)])]
  [] [] [].

Lemma ex_draw_model_WF : WF ex_draw_model.
Proof. apply wf_b_sound. vm_compute. reflexivity. Qed.

Definition count_up (k : nat) : Z := Z.of_nat (S k).

Lemma ex_draw_runs :
  exists c, create_cache_d FnLib.fsem FnLib.fsemN [4] count_up false gen_sort_facts ex_draw_model = Val (c, [4])
    /\ c_init c = [(3, 0%Z); (4, 11%Z)]
    /\ c_all_par c = [(1, 10%Z); (2, 11%Z); (6, 21%Z)].
Proof. eexists. split; [vm_compute; reflexivity|]. split; vm_compute; reflexivity. Qed.

(** the seeded shape: the variable assignment is evaluated a second time -- two draws, and the start value differs from
    the value the assigned parameter (and the derived parameter behind it) was resolved from; with a stream that draws
    nothing both shapes build the same cache *)
Lemma evaluated_again_refuted :
  exists m imp draw c log c' log',
    WF m
    /\ create_cache_d FnLib.fsem FnLib.fsemN imp draw false gen_sort_facts m = Val (c, log)
    /\ create_cache_d FnLib.fsem FnLib.fsemN imp draw true gen_sort_facts m = Val (c', log')
    /\ cnt 4 log = 1%nat /\ cnt 4 log' = 2%nat
    /\ lookup 4 (c_init c) = Some 11%Z /\ lookup 2 (c_all_par c) = Some 11%Z
    /\ lookup 4 (c_init c') = Some 12%Z /\ lookup 2 (c_all_par c') = Some 11%Z
    /\ (exists c0, create_cache_d FnLib.fsem FnLib.fsemN imp (fun _ => 0%Z) false gen_sort_facts m = Val (c0, log)
                   /\ create_cache_d FnLib.fsem FnLib.fsemN imp (fun _ => 0%Z) true gen_sort_facts m = Val (c0, log')
                   /\ create_cache FnLib.fsem FnLib.fsemN gen_sort_facts m = Val c0).
Proof.
  exists ex_draw_model, [4], count_up. eexists. eexists. eexists. eexists.
  split; [exact ex_draw_model_WF|].
  split; [vm_compute; reflexivity|]. split; [vm_compute; reflexivity|].
  split; [vm_compute; reflexivity|]. split; [vm_compute; reflexivity|].
  split; [vm_compute; reflexivity|]. split; [vm_compute; reflexivity|].
  split; [vm_compute; reflexivity|]. split; [vm_compute; reflexivity|].
  eexists. split; [vm_compute; reflexivity|]. split; vm_compute; reflexivity.
Qed.
