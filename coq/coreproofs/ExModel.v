(** A concrete well-formed model used by the non-vacuity examples of C01 / C13:
    a plain and an assignment-defined parameter, a plain, an assignment-defined and an untouched
    variable, a derived chain (two parameter-only links, one state-dependent link, one reading a
    data set), a reaction with a numeric and a computed (parameter-only) coefficient, a reaction
    with a state-dependent coefficient, a 2-output surrogate with one flux, one data set. *)
From Coq Require Import ZArith List Bool Lia.
From MxlBase Require Import ListX.
From Core Require Import Sort GenSortFacts FnLib Model Cache Query.
From CoreP Require Import Spec WFDec.
Import ListNotations.
Open Scope N_scope.

Definition ex_model : model := mkModel
  (* parameters *)   [(1, Plain 2%Z); (2, IA 2 [1; 1])]
  (* variables  *)   [(3, Plain 5%Z); (4, IA 4 [1; 3]); (5, Plain 1%Z)]
  (* derived    *)   [(6, mkDer 6 [1]); (7, mkDer 2 [6; 2]); (8, mkDer 4 [7; 3]); (15, mkDer 2 [14; 3])]
  (* reactions  *)   [(9, mkRxn 4 [8; 4] [(3, CStat (-1)%Z); (4, CDyn 0 [7])]);
                      (10, mkRxn 0 [3] [(4, CDyn 0 [3])])]
  (* surrogates *)   [(11, mkSur 1 [3; 4] [12; 13] [(12, [(3, CStat 1%Z)])])]
  (* readouts   *)   []
  (* data       *)   [(14, 7%Z)].

Lemma ex_model_WF : WF ex_model.
Proof. apply wf_b_sound. vm_compute. reflexivity. Qed.
