(** Evaluation of components in a dependency order: the extension (frame) lemma and the
    resolution lemma -- every component evaluated in a good order holds in the FINAL environment. *)
From Coq Require Import ZArith List Bool Lia Permutation.
From MxlBase Require Import ListX.
From Core Require Import Sort Model Cache Query.
From CoreP Require Import Spec ProofsEnv.
Import ListNotations.

Definition outs_of (kc : name * comp) : list name := comp_outs (fst kc) (snd kc).

Lemma d_prov_dep_of kc : d_prov (dep_of kc) = outs_of kc.
Proof. reflexivity. Qed.

Lemma flat_map_prov cs : flat_map d_prov (map dep_of cs) = flat_map outs_of cs.
Proof. induction cs as [|kc cs IH]; [reflexivity|]. cbn [map flat_map]. rewrite IH. reflexivity. Qed.

Lemma map_name_dep_of cs : map d_name (map dep_of cs) = map fst cs.
Proof. rewrite map_map. reflexivity. Qed.

(** an order is good when nobody writes a name that an earlier-or-same component wrote or read *)
Fixpoint good (cs : list (name * comp)) : Prop :=
  match cs with
  | [] => True
  | kc :: r =>
    NoDup (outs_of kc)
    /\ (forall k, In k (outs_of kc) -> ~ In k (flat_map outs_of r))
    /\ (forall a, In a (comp_args (snd kc)) -> ~ In a (outs_of kc) /\ ~ In a (flat_map outs_of r))
    /\ good r
  end.

Lemma good_sublist cs' cs : sublist cs' cs -> good cs -> good cs'.
Proof.
  induction 1 as [|kc l1 l2 Hs IH|kc l1 l2 Hs IH]; intro Hg.
  - exact I.
  - apply IH. apply Hg.
  - destruct Hg as [H1 [H2 [H3 H4]]]. cbn [good]. repeat split.
    + exact H1.
    + intros k Hk Hin. apply (H2 k Hk). eapply sublist_flat_map_In; eassumption.
    + apply (H3 a H).
    + intro Hin. apply (proj2 (H3 a H)). eapply sublist_flat_map_In; eassumption.
    + apply IH. exact H4.
Qed.

(** a topological order over pairwise distinct names is good *)
Lemma topo_good cs : forall avail,
  topo_from avail (map dep_of cs) -> NoDup (avail ++ flat_map outs_of cs) -> good cs.
Proof.
  induction cs as [|kc r IH]; intros avail Ht Hnd; [exact I|].
  cbn [map topo_from] in Ht. destruct Ht as [Hreq Ht]. rewrite d_prov_dep_of in Ht.
  cbn [flat_map] in Hnd.
  assert (Hc : forall x, cnt x avail + cnt x (outs_of kc) + cnt x (flat_map outs_of r) <= 1).
  { intro x. apply cnt_NoDup with (x := x) in Hnd. rewrite !cnt_app in Hnd. lia. }
  cbn [good]. repeat split.
  - apply cnt_NoDup. intro x. specialize (Hc x). lia.
  - intros k Hk Hin. apply cnt_In in Hk. apply cnt_In in Hin. specialize (Hc k). lia.
  - intro Hin. apply Hreq in H. apply cnt_In in H. apply cnt_In in Hin. specialize (Hc a). lia.
  - intro Hin. apply Hreq in H. apply cnt_In in H. apply cnt_In in Hin. specialize (Hc a). lia.
  - apply (IH (outs_of kc ++ avail)); [exact Ht|].
    apply cnt_NoDup. intro x. rewrite !cnt_app. specialize (Hc x). lia.
Qed.

Section Eval.
  Variable fsem : fnid -> list Z -> option Z.
  Variable fsemN : fnid -> list Z -> option (list Z).

  Fixpoint eval_list (cs : list (name * comp)) (e : env) : res env :=
    match cs with
    | [] => Val e
    | kc :: r => do e' <- eval_comp fsem fsemN (fst kc) (snd kc) e; eval_list r e'
    end.

  Lemma eval_order_list table cs :
    (forall nm c, In (nm, c) cs -> lookup nm table = Some c) ->
    forall e, eval_order fsem fsemN table (map fst cs) e = eval_list cs e.
  Proof.
    induction cs as [|[nm c] r IH]; intros H e; [reflexivity|].
    cbn [map fst eval_order eval_list snd].
    rewrite (H nm c (or_introl eq_refl)).
    destruct (eval_comp fsem fsemN nm c e) as [e'|er]; [|reflexivity].
    cbn [bind]. apply IH. intros nm' c' Hin. apply H. right. exact Hin.
  Qed.

  (** extension lemma: a component writes exactly its outputs *)
  Lemma eval_comp_frame nm c e e' :
    eval_comp fsem fsemN nm c e = Val e' ->
    forall k, ~ In k (comp_outs nm c) -> lookup k e' = lookup k e.
  Proof.
    intros H k Hk. destruct c as [f args|f args outs]; cbn [eval_comp comp_outs] in *.
    - unfold calc in H. destruct (lookups args e) as [vs|]; [|discriminate].
      destruct (fsem f vs) as [v|]; [|discriminate]. cbn [bind] in H. injection H as <-.
      apply lookup_cons_ne. intros ->. apply Hk. left. reflexivity.
    - destruct (lookups args e) as [vs|]; [|discriminate].
      destruct (fsemN f vs) as [ws|]; [|discriminate].
      destruct (Nat.eqb (length ws) (length outs)); [|discriminate]. injection H as <-.
      rewrite lookup_env_of_dict.
      assert (E : lookup k (rev (combine outs ws)) = None).
      { apply lookup_None. rewrite keys_rev. intro Hin. apply in_rev in Hin.
        apply keys_combine_incl in Hin. exact (Hk Hin). }
      rewrite E. reflexivity.
  Qed.

  Lemma comp_holds_ext nm c (e e' : env) :
    (forall k, In k (comp_args c) \/ In k (comp_outs nm c) -> lookup k e' = lookup k e) ->
    comp_holds fsem fsemN nm c e -> comp_holds fsem fsemN nm c e'.
  Proof.
    intros Hext Hh. destruct c as [f args|f args outs]; cbn [comp_holds comp_args comp_outs] in *.
    - destruct Hh as [vs [v [H1 [H2 H3]]]]. exists vs, v. repeat split.
      + rewrite <- H1. apply lookups_ext. intros a Ha. apply Hext. left. exact Ha.
      + exact H2.
      + rewrite <- H3. apply Hext. right. left. reflexivity.
    - destruct Hh as [vs [ws [H1 [H2 [H3 H4]]]]]. exists vs, ws. repeat split.
      + rewrite <- H1. apply lookups_ext. intros a Ha. apply Hext. left. exact Ha.
      + exact H2.
      + exact H3.
      + intros i o w Ho Hw. rewrite <- (H4 i o w Ho Hw). apply Hext. right.
        eapply nth_error_In. exact Ho.
  Qed.

  (** one step: right after its evaluation a component holds *)
  Lemma eval_comp_holds nm c e e' :
    eval_comp fsem fsemN nm c e = Val e' ->
    NoDup (comp_outs nm c) ->
    (forall a, In a (comp_args c) -> ~ In a (comp_outs nm c)) ->
    comp_holds fsem fsemN nm c e'.
  Proof.
    intros H Hnd Hsep. destruct c as [f args|f args outs]; cbn [eval_comp comp_outs comp_args comp_holds] in *.
    - unfold calc in H. destruct (lookups args e) as [vs|] eqn:E1; [|discriminate].
      destruct (fsem f vs) as [v|] eqn:E2; [|discriminate]. cbn [bind] in H. injection H as <-.
      exists vs, v. repeat split.
      + rewrite <- E1. apply lookups_ext. intros a Ha. apply lookup_cons_ne.
        intros ->. apply (Hsep nm Ha). left. reflexivity.
      + exact E2.
      + apply lookup_cons_eq.
    - destruct (lookups args e) as [vs|] eqn:E1; [|discriminate].
      destruct (fsemN f vs) as [ws|] eqn:E2; [|discriminate].
      destruct (Nat.eqb (length ws) (length outs)) eqn:E3; [|discriminate]. injection H as <-.
      apply Nat.eqb_eq in E3.
      assert (Hk : keys (combine outs ws) = outs) by (apply keys_combine; symmetry; exact E3).
      exists vs, ws. repeat split.
      + rewrite <- E1. apply lookups_ext. intros a Ha. rewrite lookup_env_of_dict.
        assert (E : lookup a (rev (combine outs ws)) = None).
        { apply lookup_None. rewrite keys_rev, Hk. intro Hin. apply in_rev in Hin. exact (Hsep a Ha Hin). }
        rewrite E. reflexivity.
      + exact E2.
      + exact E3.
      + intros i o w Ho Hw. rewrite lookup_env_of_dict.
        rewrite lookup_rev_NoDup by (rewrite Hk; exact Hnd).
        rewrite (lookup_NoDup o w (combine outs ws)); [reflexivity|rewrite Hk; exact Hnd|].
        apply (nth_error_In _ i). rewrite nth_error_combine, Ho, Hw. reflexivity.
  Qed.

  (** resolution lemma *)
  Lemma eval_list_holds cs : forall e0 e,
    eval_list cs e0 = Val e ->
    good cs ->
    (forall nm c, In (nm, c) cs -> comp_holds fsem fsemN nm c e)
    /\ (forall k, ~ In k (flat_map outs_of cs) -> lookup k e = lookup k e0).
  Proof.
    induction cs as [|[nm c] r IH]; intros e0 e H Hg.
    - cbn [eval_list] in H. injection H as <-. split; [intros ? ? []|reflexivity].
    - cbn [eval_list fst snd] in H.
      destruct (eval_comp fsem fsemN nm c e0) as [e1|] eqn:E1; [|discriminate]. cbn [bind] in H.
      destruct Hg as [G1 [G2 [G3 G4]]]. unfold outs_of in G1, G2, G3. cbn [fst snd] in G1, G2, G3.
      destruct (IH e1 e H G4) as [IH1 IH2]. split.
      + intros nm' c' [Eq|Hin]; [|apply IH1; exact Hin]. injection Eq as <- <-.
        apply (comp_holds_ext nm c e1 e).
        * intros k [Hk|Hk]; apply IH2; [apply (G3 k Hk)|apply (G2 k Hk)].
        * apply (eval_comp_holds nm c e0 e1 E1 G1). intros a Ha. apply (G3 a Ha).
      + intros k Hk. cbn [flat_map] in Hk. rewrite in_app_iff in Hk.
        rewrite IH2 by (intro Hin; apply Hk; right; exact Hin).
        apply (eval_comp_frame nm c e0 e1 E1). intro Hin. apply Hk. left. exact Hin.
  Qed.
End Eval.
