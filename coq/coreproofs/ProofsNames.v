(** Consequences of [WF]: the single name space.  Every disjointness / uniqueness fact is
    obtained by counting occurrences ([wf_cnt] + [lia]). *)
From Coq Require Import ZArith List Bool Lia Permutation.
From MxlBase Require Import ListX.
From Core Require Import Sort Model Cache Query.
From CoreP Require Import Spec ProofsEnv ProofsEval.
Import ListNotations.

Lemma cnt_keys_plain_ias x l : cnt x (keys (plain_of l)) + cnt x (keys (ias_of l)) = cnt x (keys l).
Proof.
  induction l as [|[k [v|f a]] l IH]; [reflexivity| |].
  - change (plain_of ((k, Plain v) :: l)) with ((k, v) :: plain_of l).
    change (ias_of ((k, Plain v) :: l)) with (ias_of l).
    unfold keys in *. cbn [map fst]. rewrite !cnt_cons. destruct (N.eq_dec k x); lia.
  - change (plain_of ((k, IA f a) :: l)) with (plain_of l).
    change (ias_of ((k, IA f a) :: l)) with ((k, CFn f a) :: ias_of l).
    unfold keys in *. cbn [map fst]. rewrite !cnt_cons. destruct (N.eq_dec k x); lia.
Qed.

Lemma keys_der_comps m : keys (der_comps m) = keys (m_der m).
Proof. unfold keys, der_comps. rewrite map_map. reflexivity. Qed.
Lemma keys_rxn_comps m : keys (rxn_comps m) = keys (m_rxn m).
Proof. unfold keys, rxn_comps. rewrite map_map. reflexivity. Qed.
Lemma keys_sur_comps m : keys (sur_comps m) = keys (m_sur m).
Proof. unfold keys, sur_comps. rewrite map_map. reflexivity. Qed.

Lemma keys_containers m : keys (containers m) = keys (m_der m) ++ keys (m_rxn m) ++ keys (m_sur m).
Proof. unfold containers. rewrite !keys_app, keys_der_comps, keys_rxn_comps, keys_sur_comps. reflexivity. Qed.

Lemma keys_to_sort m :
  keys (to_sort m) = keys (ias_of (m_var m)) ++ keys (ias_of (m_par m)) ++ keys (m_der m) ++ keys (m_rxn m) ++ keys (m_sur m).
Proof. unfold to_sort. rewrite !keys_app, keys_der_comps, keys_rxn_comps, keys_sur_comps. reflexivity. Qed.

Lemma outs_ias l : flat_map outs_of (ias_of l) = keys (ias_of l).
Proof.
  induction l as [|[k [v|f a]] l IH]; [reflexivity|exact IH|].
  change (ias_of ((k, IA f a) :: l)) with ((k, CFn f a) :: ias_of l).
  cbn [flat_map keys map fst]. unfold outs_of at 1. cbn [fst snd comp_outs app]. f_equal. exact IH.
Qed.
Lemma outs_der m : flat_map outs_of (der_comps m) = keys (m_der m).
Proof.
  unfold der_comps. induction (m_der m) as [|[k d] l IH]; [reflexivity|].
  cbn [map flat_map keys fst]. unfold outs_of at 1. cbn [fst snd comp_outs app]. f_equal. exact IH.
Qed.
Lemma outs_rxn m : flat_map outs_of (rxn_comps m) = keys (m_rxn m).
Proof.
  unfold rxn_comps. induction (m_rxn m) as [|[k d] l IH]; [reflexivity|].
  cbn [map flat_map keys fst]. unfold outs_of at 1. cbn [fst snd comp_outs app]. f_equal. exact IH.
Qed.
Lemma outs_sur m : flat_map outs_of (sur_comps m) = surrogate_outputs m.
Proof.
  unfold sur_comps, surrogate_outputs. induction (m_sur m) as [|[k d] l IH]; [reflexivity|].
  cbn [map flat_map fst]. unfold outs_of at 1. cbn [fst snd comp_outs]. f_equal. exact IH.
Qed.

Lemma outs_to_sort m :
  flat_map outs_of (to_sort m) =
  keys (ias_of (m_var m)) ++ keys (ias_of (m_par m)) ++ keys (m_der m) ++ keys (m_rxn m) ++ surrogate_outputs m.
Proof. unfold to_sort. rewrite !flat_map_app, !outs_ias, outs_der, outs_rxn, outs_sur. reflexivity. Qed.

Lemma wf_cnt m x : WF m ->
  cnt x [time_name]
  + cnt x (keys (plain_of (m_par m))) + cnt x (keys (ias_of (m_par m)))
  + cnt x (keys (plain_of (m_var m))) + cnt x (keys (ias_of (m_var m)))
  + cnt x (keys (m_der m)) + cnt x (keys (m_rxn m)) + cnt x (keys (m_sur m))
  + cnt x (surrogate_outputs m) + cnt x (keys (m_dat m)) <= 1.
Proof.
  intro HWF. pose proof (wf_names m HWF) as H. apply cnt_NoDup with (x := x) in H.
  unfold all_names in H. change (time_name :: ?l) with ([time_name] ++ l) in H.
  rewrite !cnt_app in H.
  pose proof (cnt_keys_plain_ias x (m_par m)). pose proof (cnt_keys_plain_ias x (m_var m)). lia.
Qed.

(** turn every membership fact about [x] into a count, add the name-space bound, call lia *)
Ltac names_prep m HWF x :=
  repeat match goal with
  | H : has x _ = true |- _ => apply has_In in H
  | H : has x _ = false |- _ => apply has_false in H
  end;
  repeat match goal with
  | H : In x _ |- _ => apply cnt_In in H
  | H : ~ In x _ |- _ => apply cnt_not_In in H
  end;
  pose proof (wf_cnt m x HWF);
  pose proof (cnt_keys_plain_ias x (m_par m));
  pose proof (cnt_keys_plain_ias x (m_var m));
  unfold base_available in *;
  rewrite ?keys_to_sort, ?keys_containers, ?outs_to_sort in *;
  rewrite ?cnt_app in *.

Ltac names_lia m HWF x :=
  names_prep m HWF x; rewrite ?cnt_cons, ?cnt_nil in *;
  repeat match goal with
  | H : context [N.eq_dec ?a ?b] |- _ => destruct (N.eq_dec a b); [try subst|]
  | |- context [N.eq_dec ?a ?b] => destruct (N.eq_dec a b); [try subst|]
  end; lia.
Ltac names_contra m HWF x := exfalso; names_lia m HWF x.

Section Names.
  Variable m : model.
  Hypothesis HWF : WF m.

  Lemma nodup_keys_par : NoDup (keys (m_par m)).
  Proof. apply cnt_NoDup. intro x. names_lia m HWF x. Qed.
  Lemma nodup_keys_var : NoDup (keys (m_var m)).
  Proof. apply cnt_NoDup. intro x. names_lia m HWF x. Qed.
  Lemma nodup_keys_der : NoDup (keys (m_der m)).
  Proof. apply cnt_NoDup. intro x. names_lia m HWF x. Qed.
  Lemma nodup_keys_dat : NoDup (keys (m_dat m)).
  Proof. apply cnt_NoDup. intro x. names_lia m HWF x. Qed.
  Lemma nodup_keys_plain_par : NoDup (keys (plain_of (m_par m))).
  Proof. apply cnt_NoDup. intro x. names_lia m HWF x. Qed.
  Lemma nodup_keys_plain_var : NoDup (keys (plain_of (m_var m))).
  Proof. apply cnt_NoDup. intro x. names_lia m HWF x. Qed.
  Lemma nodup_keys_to_sort : NoDup (keys (to_sort m)).
  Proof. apply cnt_NoDup. intro x. names_lia m HWF x. Qed.
  Lemma nodup_keys_containers : NoDup (keys (containers m)).
  Proof. apply cnt_NoDup. intro x. names_lia m HWF x. Qed.
  Lemma nodup_avail_outs : NoDup (base_available m ++ flat_map outs_of (to_sort m)).
  Proof. apply cnt_NoDup. intro x. names_lia m HWF x. Qed.

  (** membership in the views *)
  Lemma in_plain_of l k v : In (k, v) (plain_of l) <-> In (k, Plain v) l.
  Proof.
    unfold plain_of. rewrite in_flat_map. split.
    - intros [[k' [v'|f a]] [Hin H]]; cbn [fst snd] in H; [|destruct H].
      destruct H as [E|[]]. injection E as -> ->. exact Hin.
    - intro H. exists (k, Plain v). split; [exact H|left; reflexivity].
  Qed.

  Lemma in_ias_of l k c : In (k, c) (ias_of l) <-> exists f a, c = CFn f a /\ In (k, IA f a) l.
  Proof.
    unfold ias_of. rewrite in_flat_map. split.
    - intros [[k' [v'|f a]] [Hin H]]; cbn [fst snd] in H; [destruct H|].
      destruct H as [E|[]]. injection E as -> <-. exists f, a. split; [reflexivity|exact Hin].
    - intros [f [a [-> H]]]. exists (k, IA f a). split; [exact H|left; reflexivity].
  Qed.

  Lemma in_der_comps k c : In (k, c) (der_comps m) <-> exists d, c = CFn (d_fn d) (d_args d) /\ In (k, d) (m_der m).
  Proof.
    unfold der_comps. rewrite in_map_iff. split.
    - intros [[k' d] [E Hin]]. cbn [fst snd] in E. injection E as -> <-. exists d. split; [reflexivity|exact Hin].
    - intros [d [-> H]]. exists (k, d). split; [reflexivity|exact H].
  Qed.

  Lemma in_rxn_comps k c : In (k, c) (rxn_comps m) <-> exists r, c = CFn (r_fn r) (r_args r) /\ In (k, r) (m_rxn m).
  Proof.
    unfold rxn_comps. rewrite in_map_iff. split.
    - intros [[k' d] [E Hin]]. cbn [fst snd] in E. injection E as -> <-. exists d. split; [reflexivity|exact Hin].
    - intros [d [-> H]]. exists (k, d). split; [reflexivity|exact H].
  Qed.

  Lemma in_sur_comps k c : In (k, c) (sur_comps m) <-> exists s, c = CSur (s_fn s) (s_args s) (s_out s) /\ In (k, s) (m_sur m).
  Proof.
    unfold sur_comps. rewrite in_map_iff. split.
    - intros [[k' d] [E Hin]]. cbn [fst snd] in E. injection E as -> <-. exists d. split; [reflexivity|exact Hin].
    - intros [d [-> H]]. exists (k, d). split; [reflexivity|exact H].
  Qed.

  Lemma sur_out_in sn s k : In (sn, s) (m_sur m) -> In k (s_out s) -> In k (surrogate_outputs m).
  Proof. intros H Hk. unfold surrogate_outputs. apply in_flat_map. exists (sn, s). split; assumption. Qed.

  Lemma in_to_sort nm c : In (nm, c) (to_sort m) <->
    In (nm, c) (ias_of (m_var m)) \/ In (nm, c) (ias_of (m_par m)) \/ In (nm, c) (containers m).
  Proof. unfold to_sort, containers. rewrite !in_app_iff. tauto. Qed.

  Lemma containers_in_to_sort nm c : In (nm, c) (containers m) -> In (nm, c) (to_sort m).
  Proof. intro H. apply in_to_sort. right. right. exact H. Qed.

  (** what a component of the table writes: its own name, or outputs of a surrogate *)
  Lemma to_sort_outs nm c k :
    In (nm, c) (to_sort m) -> In k (comp_outs nm c) -> k = nm \/ In k (surrogate_outputs m).
  Proof.
    intros H Hk. apply in_to_sort in H. unfold containers in H. rewrite !in_app_iff in H.
    destruct H as [H|[H|[H|[H|H]]]].
    - apply in_ias_of in H. destruct H as [f [a [-> _]]]. destruct Hk as [<-|[]]. left. reflexivity.
    - apply in_ias_of in H. destruct H as [f [a [-> _]]]. destruct Hk as [<-|[]]. left. reflexivity.
    - apply in_der_comps in H. destruct H as [d [-> _]]. destruct Hk as [<-|[]]. left. reflexivity.
    - apply in_rxn_comps in H. destruct H as [d [-> _]]. destruct Hk as [<-|[]]. left. reflexivity.
    - apply in_sur_comps in H. destruct H as [s [-> Hs]]. right. eapply sur_out_in; eassumption.
  Qed.

  Lemma to_sort_outs_strong nm c k :
    In (nm, c) (to_sort m) -> In k (comp_outs nm c) ->
    (k = nm /\ ~ In nm (keys (m_sur m))) \/ In k (surrogate_outputs m).
  Proof.
    intros H Hk. apply in_to_sort in H. unfold containers in H. rewrite !in_app_iff in H.
    destruct H as [H|[H|[H|[H|H]]]].
    - pose proof (in_keys _ _ _ H) as Hn. apply in_ias_of in H. destruct H as [f [a [-> _]]].
      destruct Hk as [<-|[]]. left. split; [reflexivity|]. intro Hs. names_contra m HWF nm.
    - pose proof (in_keys _ _ _ H) as Hn. apply in_ias_of in H. destruct H as [f [a [-> _]]].
      destruct Hk as [<-|[]]. left. split; [reflexivity|]. intro Hs. names_contra m HWF nm.
    - apply in_der_comps in H. destruct H as [d [-> Hin]]. apply in_keys in Hin.
      destruct Hk as [<-|[]]. left. split; [reflexivity|]. intro Hs. names_contra m HWF nm.
    - apply in_rxn_comps in H. destruct H as [d [-> Hin]]. apply in_keys in Hin.
      destruct Hk as [<-|[]]. left. split; [reflexivity|]. intro Hs. names_contra m HWF nm.
    - apply in_sur_comps in H. destruct H as [s [-> Hs]]. right. eapply sur_out_in; eassumption.
  Qed.

  Lemma lookup_to_sort nm c : In (nm, c) (to_sort m) -> lookup nm (to_sort m) = Some c.
  Proof. apply lookup_NoDup. apply nodup_keys_to_sort. Qed.

  Lemma lookup_containers nm c : In (nm, c) (containers m) -> lookup nm (containers m) = Some c.
  Proof. apply lookup_NoDup. apply nodup_keys_containers. Qed.

  (** a table entry whose name is not a variable / parameter name is a live container entry *)
  Lemma to_sort_container nm c :
    In (nm, c) (to_sort m) -> ~ In nm (keys (m_var m)) -> ~ In nm (keys (m_par m)) -> In (nm, c) (containers m).
  Proof.
    intros H Hv Hp. apply in_to_sort in H. destruct H as [H|[H|H]]; [| |exact H]; exfalso.
    - apply in_ias_of in H. destruct H as [f [a [_ H]]]. apply Hv. apply (in_map fst) in H. exact H.
    - apply in_ias_of in H. destruct H as [f [a [_ H]]]. apply Hp. apply (in_map fst) in H. exact H.
  Qed.

  (** flux names: reactions and the surrogates' stoichiometry keys *)
  Lemma keys_all_rxn_entries : keys (all_rxn_entries m) = keys (m_rxn m) ++ surrogate_reaction_names m.
  Proof.
    unfold all_rxn_entries, surrogate_reaction_names. rewrite keys_app. f_equal.
    - unfold keys. rewrite map_map. reflexivity.
    - induction (m_sur m) as [|kv l IH]; [reflexivity|]. cbn [flat_map]. rewrite keys_app, IH. reflexivity.
  Qed.

  Lemma cnt_sur_rxn_le x : cnt x (surrogate_reaction_names m) <= cnt x (surrogate_outputs m).
  Proof.
    unfold surrogate_reaction_names, surrogate_outputs.
    assert (H : forall sn s, In (sn, s) (m_sur m) -> NoDup (keys (s_st s)) /\ incl (keys (s_st s)) (s_out s))
      by (apply (wf_sur_st m HWF)).
    induction (m_sur m) as [|[sn s] l IH]; [reflexivity|].
    cbn [flat_map snd]. rewrite !cnt_app.
    destruct (H sn s (or_introl eq_refl)) as [Hnd Hi].
    assert (cnt x (keys (s_st s)) <= cnt x (s_out s)).
    { apply cnt_NoDup with (x := x) in Hnd.
      destruct (in_dec N.eq_dec x (keys (s_st s))) as [Hin|Hn].
      - apply Hi in Hin. apply cnt_In in Hin. lia.
      - apply cnt_not_In in Hn. lia. }
    assert (cnt x (flat_map (fun kv => keys (s_st (snd kv))) l) <= cnt x (flat_map (fun kv => s_out (snd kv)) l)).
    { apply IH. intros sn' s' Hin. apply (H sn' s'). right. exact Hin. }
    lia.
  Qed.

  Lemma nodup_keys_all_rxn_entries : NoDup (keys (all_rxn_entries m)).
  Proof.
    apply cnt_NoDup. intro x. rewrite keys_all_rxn_entries, cnt_app.
    pose proof (cnt_sur_rxn_le x). names_lia m HWF x.
  Qed.

  Lemma sur_rxn_in rn : In rn (surrogate_reaction_names m) ->
    exists sn s, In (sn, s) (m_sur m) /\ In rn (s_out s).
  Proof.
    unfold surrogate_reaction_names. intro H. apply in_flat_map in H. destruct H as [[sn s] [Hin Hk]].
    exists sn, s. split; [exact Hin|]. cbn [snd] in Hk. apply (proj2 (wf_sur_st m HWF sn s Hin)). exact Hk.
  Qed.

  Lemma der_comp_of nm der c :
    lookup nm (m_der m) = Some der -> In (nm, c) (to_sort m) -> c = CFn (d_fn der) (d_args der).
  Proof.
    intros Hl Hin. apply lookup_In in Hl.
    assert (H : In (nm, CFn (d_fn der) (d_args der)) (to_sort m)).
    { apply containers_in_to_sort. unfold containers. apply in_app_iff. left.
      apply in_der_comps. exists der. split; [reflexivity|exact Hl]. }
    apply lookup_to_sort in H. apply lookup_to_sort in Hin. congruence.
  Qed.
End Names.
