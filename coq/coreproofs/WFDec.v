(** A boolean check of [WF] with its soundness proof (used by the non-vacuity examples). *)
From Coq Require Import ZArith List Bool Lia.
From MxlBase Require Import ListX.
From Core Require Import Sort Model Cache Query.
From CoreP Require Import Spec.
Import ListNotations.

Fixpoint nodupb (l : list N) : bool :=
  match l with [] => true | x :: r => negb (memN x r) && nodupb r end.

Lemma nodupb_sound l : nodupb l = true -> NoDup l.
Proof.
  induction l as [|x r IH]; intro H; [constructor|].
  cbn [nodupb] in H. apply andb_true_iff in H. destruct H as [H1 H2].
  constructor; [|apply IH; exact H2].
  apply memN_false. apply negb_true_iff. exact H1.
Qed.

Definition wf_b (m : model) : bool :=
  nodupb (all_names m)
  && forallb (fun re => nodupb (keys (snd re)) && subsetN (keys (snd re)) (keys (m_var m))) (all_rxn_entries m)
  && forallb (fun ks => nodupb (keys (s_st (snd ks))) && subsetN (keys (s_st (snd ks))) (s_out (snd ks))) (m_sur m)
  && forallb (fun re => forallb (fun en => forallb (fun a => negb (memN a (keys (m_dat m)))) (coef_args (snd en)))
                                (snd re)) (all_rxn_entries m).

Lemma wf_b_sound m : wf_b m = true -> WF m.
Proof.
  unfold wf_b. intro H.
  apply andb_true_iff in H. destruct H as [H H4].
  apply andb_true_iff in H. destruct H as [H H3].
  apply andb_true_iff in H. destruct H as [H1 H2].
  constructor.
  - apply nodupb_sound. exact H1.
  - intros rn ent Hin. rewrite forallb_forall in H2. specialize (H2 (rn, ent) Hin). cbn [snd] in H2.
    apply andb_true_iff in H2. destruct H2 as [Ha Hb].
    split; [apply nodupb_sound; exact Ha|apply subsetN_incl; exact Hb].
  - intros sn s Hin. rewrite forallb_forall in H3. specialize (H3 (sn, s) Hin). cbn [snd] in H3.
    apply andb_true_iff in H3. destruct H3 as [Ha Hb].
    split; [apply nodupb_sound; exact Ha|apply subsetN_incl; exact Hb].
  - intros rn ent cpd cf Hin Hc a Ha. rewrite forallb_forall in H4. specialize (H4 (rn, ent) Hin). cbn [snd] in H4.
    rewrite forallb_forall in H4. specialize (H4 (cpd, cf) Hc). cbn [snd] in H4.
    rewrite forallb_forall in H4. specialize (H4 a Ha).
    apply memN_false. apply negb_true_iff. exact H4.
Qed.
