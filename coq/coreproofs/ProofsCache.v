(** What [create_cache] establishes and what [get_args_raw] returns: the lemmas behind
    C13-a/b/c and C01-a. *)
From Coq Require Import ZArith List Bool Lia Permutation.
From MxlBase Require Import ListX.
From Core Require Import Sort SortProofs Model Cache Query.
From CoreP Require Import Spec ProofsEnv ProofsEval ProofsNames ProofsSplit ProofsStoich.
Import ListNotations.

(** the two start environments, named *)
Definition dependent0 (m : model) : env :=
  (time_name, 0%Z) :: env_of_dict (m_dat m) (env_of_dict (plain_of (m_var m)) (env_of_dict (plain_of (m_par m)) [])).

Definition args0 (m : model) (all_par vars : env) (t : Z) : env :=
  (time_name, t) :: env_of_dict (m_dat m) (env_of_dict vars (env_of_dict all_par [])).

Lemma create_cache_inv fsem fsemN F m c :
  create_cache fsem fsemN F m = Val c ->
  exists order dependent s d a st dy init all_par,
    sort F (base_available m) (map dep_of (to_sort m)) = Ok order /\
    eval_order fsem fsemN (to_sort m) order (dependent0 m) = Val dependent /\
    split_order m order (keys (m_par m)) = Val (s, d, a) /\
    add_rxn_list fsem a dependent ([], []) (all_rxn_entries m) = Val (st, dy) /\
    init_conditions (keys (m_var m)) dependent = Val init /\
    fill_all_par m dependent s (plain_of (m_par m)) = Val all_par /\
    c = mkCache order (keys (m_var m)) d (plain_of (m_par m)) all_par st dy init.
Proof.
  unfold create_cache, sort_res. fold (dependent0 m).
  destruct (sort F (base_available m) (map dep_of (to_sort m))) as [order| | |] eqn:Es; try discriminate.
  cbn [bind].
  destruct (eval_order fsem fsemN (to_sort m) order (dependent0 m)) as [dependent|] eqn:Ee; [|discriminate].
  cbn [bind].
  destruct (split_order m order (keys (m_par m))) as [[[s d] a]|] eqn:Esp; [|discriminate].
  cbn [bind].
  destruct (add_rxn_list fsem a dependent ([], []) (all_rxn_entries m)) as [[st dy]|] eqn:Ea; [|discriminate].
  cbn [bind].
  destruct (init_conditions (keys (m_var m)) dependent) as [init|] eqn:Ei; [|discriminate].
  cbn [bind].
  destruct (fill_all_par m dependent s (plain_of (m_par m))) as [all_par|] eqn:Ef; [|discriminate].
  cbn [bind]. intro H. injection H as <-.
  exists order, dependent, s, d, a, st, dy, init, all_par. repeat split; assumption || reflexivity.
Qed.

Section CacheFacts.
  Variable fsem : fnid -> list Z -> option Z.
  Variable fsemN : fnid -> list Z -> option (list Z).
  Variable m : model.
  Variables (order : list name) (cs : list (name * comp)) (dependent : env) (s d a : list name)
            (all_par init : env).
  Hypothesis HWF : WF m.
  Hypothesis Hord : order = map fst cs.
  Hypothesis Hperm : Permutation cs (to_sort m).
  Hypothesis Htopo : topo_from (base_available m) (map dep_of cs).
  Hypothesis Heval : eval_order fsem fsemN (to_sort m) order (dependent0 m) = Val dependent.
  Hypothesis Hsplit : split_order m order (keys (m_par m)) = Val (s, d, a).
  Hypothesis Hinit : init_conditions (keys (m_var m)) dependent = Val init.
  Hypothesis Hfill : fill_all_par m dependent s (plain_of (m_par m)) = Val all_par.

  Lemma cs_in nm c : In (nm, c) cs <-> In (nm, c) (to_sort m).
  Proof.
    split; apply Permutation_in; [exact Hperm|apply Permutation_sym; exact Hperm].
  Qed.

  Lemma order_in k : In k order <-> In k (keys (to_sort m)).
  Proof.
    rewrite Hord. unfold keys.
    split; apply Permutation_in; apply Permutation_map; [exact Hperm|apply Permutation_sym; exact Hperm].
  Qed.

  Lemma outs_cs_in k : In k (flat_map outs_of cs) <-> In k (flat_map outs_of (to_sort m)).
  Proof.
    split; apply Permutation_in; apply Permutation_flat_map; [exact Hperm|apply Permutation_sym; exact Hperm].
  Qed.

  Lemma nodup_order : NoDup order.
  Proof.
    rewrite Hord. apply (Permutation_NoDup (l := keys (to_sort m))).
    - unfold keys. apply Permutation_map. apply Permutation_sym. exact Hperm.
    - apply nodup_keys_to_sort. exact HWF.
  Qed.

  Lemma good_cs : good cs.
  Proof.
    apply (topo_good cs (base_available m) Htopo).
    apply (Permutation_NoDup (l := base_available m ++ flat_map outs_of (to_sort m))).
    - apply Permutation_app_head. apply Permutation_flat_map. apply Permutation_sym. exact Hperm.
    - apply nodup_avail_outs. exact HWF.
  Qed.

  Lemma eval_cs : eval_list fsem fsemN cs (dependent0 m) = Val dependent.
  Proof.
    rewrite <- (eval_order_list fsem fsemN (to_sort m) cs).
    - rewrite <- Hord. exact Heval.
    - intros nm c Hin. apply lookup_to_sort; [exact HWF|]. apply cs_in. exact Hin.
  Qed.

  (** C13-a core: everything in the table holds in [dependent] *)
  Lemma dep_holds nm c : In (nm, c) (to_sort m) -> comp_holds fsem fsemN nm c dependent.
  Proof.
    intro H. apply (proj1 (eval_list_holds fsem fsemN cs _ _ eval_cs good_cs)). apply cs_in. exact H.
  Qed.

  Lemma dep_frame k : ~ In k (flat_map outs_of (to_sort m)) -> lookup k dependent = lookup k (dependent0 m).
  Proof.
    intro H. apply (proj2 (eval_list_holds fsem fsemN cs _ _ eval_cs good_cs)).
    intro Hin. apply H. apply outs_cs_in. exact Hin.
  Qed.

  Lemma time_ne k L : In k L -> cnt time_name L = 0 -> k <> time_name.
  Proof. intros Hin Hc ->. apply cnt_In in Hin. lia. Qed.

  Lemma dep0_time : lookup time_name (dependent0 m) = Some 0%Z.
  Proof. apply lookup_cons_eq. Qed.

  Lemma dep0_par p v : In (p, Plain v) (m_par m) -> lookup p (dependent0 m) = Some v.
  Proof.
    intro H. apply in_plain_of in H.
    assert (Hk : In p (keys (plain_of (m_par m)))) by (apply (in_map fst) in H; exact H).
    unfold dependent0.
    rewrite lookup_cons_ne by (intros ->; names_contra m HWF time_name).
    rewrite lookup_env_of_dict_notin by (intro Hd; names_contra m HWF p).
    rewrite lookup_env_of_dict_notin by (intro Hd; names_contra m HWF p).
    apply lookup_env_of_dict_in; [apply nodup_keys_plain_par; exact HWF|exact H].
  Qed.

  Lemma dep0_var x v : In (x, Plain v) (m_var m) -> lookup x (dependent0 m) = Some v.
  Proof.
    intro H. apply in_plain_of in H.
    assert (Hk : In x (keys (plain_of (m_var m)))) by (apply (in_map fst) in H; exact H).
    unfold dependent0.
    rewrite lookup_cons_ne by (intros ->; names_contra m HWF time_name).
    rewrite lookup_env_of_dict_notin by (intro Hd; names_contra m HWF x).
    apply lookup_env_of_dict_in; [apply nodup_keys_plain_var; exact HWF|exact H].
  Qed.

  Lemma dep_time : lookup time_name dependent = Some 0%Z.
  Proof. rewrite dep_frame; [apply dep0_time|]. intro H. names_contra m HWF time_name. Qed.

  Lemma dep_par p v : In (p, Plain v) (m_par m) -> lookup p dependent = Some v.
  Proof.
    intro H. rewrite dep_frame; [apply dep0_par; exact H|].
    apply in_plain_of in H. apply in_keys in H.
    intro Ho. names_contra m HWF p.
  Qed.

  Lemma dep_var x v : In (x, Plain v) (m_var m) -> lookup x dependent = Some v.
  Proof.
    intro H. rewrite dep_frame; [apply dep0_var; exact H|].
    apply in_plain_of in H. apply in_keys in H.
    intro Ho. names_contra m HWF x.
  Qed.

  Lemma init_keys : keys init = keys (m_var m).
  Proof. apply (init_conditions_spec _ _ _ Hinit). Qed.

  Lemma init_lookup x : In x (keys (m_var m)) -> lookup x init = lookup x dependent.
  Proof.
    intro H. rewrite <- init_keys in H. apply lookup_Some_of_In in H. destruct H as [v E].
    rewrite E. symmetry. apply (proj2 (init_conditions_spec _ _ _ Hinit)). apply lookup_In. exact E.
  Qed.

  (** ---- the split ---------------------------------------------------------------- *)

  Lemma sd_perm : Permutation (s ++ d) order.
  Proof. apply (split_basic m _ _ _ _ _ Hsplit). Qed.

  Lemma sd_disjoint k : In k s -> In k d -> False.
  Proof.
    apply NoDup_app_disj. apply (Permutation_NoDup (l := order)); [apply Permutation_sym, sd_perm|apply nodup_order].
  Qed.

  Lemma order_sd k : In k order -> In k s \/ In k d.
  Proof.
    intro H. apply in_app_iff. eapply Permutation_in; [apply Permutation_sym, sd_perm|exact H].
  Qed.

  Lemma s_in_order k : In k s -> In k order.
  Proof. intro H. eapply Permutation_in; [apply sd_perm|]. apply in_app_iff. left. exact H. Qed.

  Lemma d_class k : In k d -> is_flux m k = true \/ is_varpar m k = false.
  Proof. apply (split_basic m _ _ _ _ _ Hsplit). Qed.

  Lemma s_class k : In k s -> is_flux m k = false /\
        (is_varpar m k = true \/
         (In k a /\ exists der, lookup k (m_der m) = Some der /\ forall i, In i (d_args der) -> In i a)).
  Proof. apply (split_basic m _ _ _ _ _ Hsplit). Qed.

  Lemma a_class k : In k a -> In k (keys (m_par m)) \/
        (In k s /\ is_flux m k = false /\ is_varpar m k = false /\ In k (keys (m_der m))).
  Proof. apply (split_basic m _ _ _ _ _ Hsplit). Qed.

  (** a parameter is never in the dynamic order; an assignment-defined one is in the static order *)
  Lemma par_not_dyn k : In k (keys (m_par m)) -> ~ In k d.
  Proof.
    intros Hp Hd. destruct (d_class k Hd) as [E|E].
    - unfold is_flux in E. apply orb_true_iff in E. destruct E as [E|E]; names_contra m HWF k.
    - unfold is_varpar in E. apply orb_false_iff in E. destruct E as [_ E]. names_contra m HWF k.
  Qed.

  Lemma ia_par_static k : In k (keys (ias_of (m_par m))) -> In k s.
  Proof.
    intro H.
    assert (Ho : In k order).
    { apply order_in. rewrite keys_to_sort, !in_app_iff. right. left. exact H. }
    destruct (order_sd k Ho) as [Hs|Hd]; [exact Hs|]. exfalso. apply (par_not_dyn k); [|exact Hd].
    apply cnt_In. apply cnt_In in H. pose proof (cnt_keys_plain_ias k (m_par m)). lia.
  Qed.

  Lemma plain_par_not_order k : In k (keys (plain_of (m_par m))) -> ~ In k order.
  Proof. intros H Ho. apply order_in in Ho. names_contra m HWF k. Qed.

  (** a derived quantity that is in the static order, as a component *)
  Lemma static_der k : In k s -> In k (keys (m_der m)) ->
    In k a /\ exists der, lookup k (m_der m) = Some der /\ forall i, In i (d_args der) -> In i a.
  Proof.
    intros Hs Hd. destruct (s_class k Hs) as [_ [E|E]]; [|exact E]. exfalso.
    unfold is_varpar in E. apply orb_true_iff in E. destruct E as [E|E]; names_contra m HWF k.
  Qed.

  (** ---- the frozen table --------------------------------------------------------- *)

  Lemma nodup_all_par : NoDup (keys all_par).
  Proof.
    apply (proj1 (proj2 (proj2 (fill_spec m dependent s _ _ Hfill)))). apply nodup_keys_plain_par. exact HWF.
  Qed.

  Lemma all_par_static k : In k s -> has k (m_var m) = false -> lookup k all_par = lookup k dependent /\ has k all_par = true.
  Proof. apply (proj1 (fill_spec m dependent s _ _ Hfill)). Qed.

  Lemma all_par_other k : ~ In k s -> lookup k all_par = lookup k (plain_of (m_par m)).
  Proof. intro H. apply (proj1 (proj2 (fill_spec m dependent s _ _ Hfill))). left. exact H. Qed.

  Lemma all_par_has k : has k all_par = true -> In k (keys (plain_of (m_par m))) \/ (In k s /\ has k (m_var m) = false).
  Proof.
    intro H. destruct (proj2 (proj2 (proj2 (fill_spec m dependent s _ _ Hfill))) k H) as [E|E]; [left|right; exact E].
    apply has_In. exact E.
  Qed.

  (** frozen names: parameters and static derived quantities *)
  Definition frozen (k : name) : Prop := In k (keys (m_par m)) \/ (In k s /\ In k (keys (m_der m))).

  Lemma a_frozen k : In k a -> frozen k.
  Proof. intro H. destruct (a_class k H) as [E|[E1 [_ [_ E2]]]]; [left; exact E|right; split; assumption]. Qed.

  Lemma frozen_all_par k : frozen k -> lookup k all_par = lookup k dependent.
  Proof.
    intros [Hp|[Hs Hd]].
    - assert (Hc : cnt k (keys (plain_of (m_par m))) + cnt k (keys (ias_of (m_par m))) > 0).
      { apply cnt_In in Hp. pose proof (cnt_keys_plain_ias k (m_par m)). lia. }
      assert (Hor : In k (keys (plain_of (m_par m))) \/ In k (keys (ias_of (m_par m)))).
      { destruct (in_dec N.eq_dec k (keys (plain_of (m_par m)))) as [Hi|Hn]; [left; exact Hi|right].
        apply cnt_not_In in Hn. apply cnt_In. lia. }
      destruct Hor as [Hpl|Hia].
      + rewrite all_par_other by (intro Hs; apply (plain_par_not_order k Hpl); apply s_in_order; exact Hs).
        destruct (lookup_Some_of_In k _ Hpl) as [v E]. rewrite E. symmetry.
        apply dep_par. apply in_plain_of. apply lookup_In. exact E.
      + apply all_par_static; [apply ia_par_static; exact Hia|]. apply has_false. intro Hv. names_contra m HWF k.
    - apply all_par_static; [exact Hs|]. apply has_false. intro Hv. names_contra m HWF k.
  Qed.

  Lemma frozen_has k : frozen k -> has k all_par = true.
  Proof.
    intros [Hp|[Hs Hd]].
    - destruct (in_dec N.eq_dec k (keys (plain_of (m_par m)))) as [Hi|Hn].
      + unfold has. destruct (in_dec N.eq_dec k s) as [Hs|Hns].
        * exfalso. apply (plain_par_not_order k Hi). apply s_in_order. exact Hs.
        * rewrite all_par_other by exact Hns. destruct (lookup_Some_of_In k _ Hi) as [v E]. rewrite E. reflexivity.
      + apply all_par_static.
        * apply ia_par_static. apply cnt_not_In in Hn. apply cnt_In. apply cnt_In in Hp.
          pose proof (cnt_keys_plain_ias k (m_par m)). lia.
        * apply has_false. intro Hv. names_contra m HWF k.
    - apply all_par_static; [exact Hs|]. apply has_false. intro Hv. names_contra m HWF k.
  Qed.

  (** C13-b *)
  Lemma classification k :
    In k (filter (fun k => has k all_par) (keys (m_der m))) <-> In k (keys (m_der m)) /\ OnlyParams m k.
  Proof.
    rewrite filter_In. split.
    - intros [Hd Hh]. split; [exact Hd|].
      destruct (all_par_has k Hh) as [Hp|[Hs _]]; [names_contra m HWF k|].
      apply (split_allpar_OP m _ _ _ _ _ Hsplit).
      + intros p Hp. apply OP_par. exact Hp.
      + apply (static_der k Hs Hd).
    - intros [Hd Hop]. split; [exact Hd|]. apply frozen_has. right. split; [|exact Hd].
      rewrite Hord in Hsplit.
      apply (split_OP_static m HWF cs (base_available m) (keys (m_par m)) s d a Hsplit Htopo).
      + intros nm c Hin. apply cs_in. exact Hin.
      + apply incl_refl.
      + intros x Hx Hav. destruct (OP_class m x Hx) as [Hc|Hc]; [exact Hc|]. names_contra m HWF x.
      + exact Hop.
      + exact Hd.
      + rewrite <- Hord. apply order_in. rewrite keys_to_sort, !in_app_iff. right. right. left. exact Hd.
  Qed.

  (** the frozen table as a finite map: its domain and its values *)
  Lemma has_all_par_frozen k : has k all_par = true -> frozen k.
  Proof.
    intro H. destruct (all_par_has k H) as [Hp|[Hs Hv]].
    - left. apply cnt_In. apply cnt_In in Hp. pose proof (cnt_keys_plain_ias k (m_par m)). lia.
    - destruct (s_class k Hs) as [_ [E|[_ [der [El _]]]]].
      + left. unfold is_varpar in E. rewrite Hv in E. cbn [orb] in E. apply has_In. exact E.
      + right. split; [exact Hs|]. eapply lookup_In_keys. exact El.
  Qed.

  Lemma all_par_dom k :
    has k all_par = true <-> In k (keys (m_par m)) \/ (In k (keys (m_der m)) /\ OnlyParams m k).
  Proof.
    split.
    - intro H. destruct (has_all_par_frozen k H) as [Hp|[Hs Hd]]; [left; exact Hp|right].
      apply classification. apply filter_In. split; assumption.
    - intros [Hp|Hd]; [apply frozen_has; left; exact Hp|].
      apply classification in Hd. apply filter_In in Hd. apply Hd.
  Qed.

  Lemma all_par_val k : has k all_par = true -> lookup k all_par = lookup k dependent.
  Proof. intro H. apply frozen_all_par. apply has_all_par_frozen. exact H. Qed.

  Lemma a_dom k : In k a <-> In k (keys (m_par m)) \/ (In k (keys (m_der m)) /\ OnlyParams m k).
  Proof.
    split.
    - intro H. apply all_par_dom. apply frozen_has. apply a_frozen. exact H.
    - intros [Hp|Hd].
      + apply (proj1 (proj2 (proj2 (split_basic m _ _ _ _ _ Hsplit)))). exact Hp.
      + assert (Hh : has k all_par = true) by (apply all_par_dom; right; exact Hd).
        destruct Hd as [Hd _].
        destruct (all_par_has k Hh) as [Hp|[Hs _]]; [names_contra m HWF k|].
        apply (static_der k Hs Hd).
  Qed.

  (** C13-a *)
  Lemma c13a_core :
    lookup time_name dependent = Some 0%Z
    /\ (forall p v, In (p, Plain v) (m_par m) -> lookup p dependent = Some v)
    /\ (forall x v, In (x, Plain v) (m_var m) -> lookup x dependent = Some v)
    /\ (forall nm cmp, In (nm, cmp) (to_sort m) -> comp_holds fsem fsemN nm cmp dependent)
    /\ keys init = keys (m_var m)
    /\ (forall x, In x (keys (m_var m)) -> lookup x init = lookup x dependent)
    /\ (forall p f a', In (p, IA f a') (m_par m) -> lookup p all_par = lookup p dependent).
  Proof.
    split; [exact dep_time|]. split; [exact dep_par|]. split; [exact dep_var|]. split; [exact dep_holds|].
    split; [exact init_keys|]. split; [exact init_lookup|].
    intros p f a' H. apply frozen_all_par. left. eapply in_keys. exact H.
  Qed.

  (** ---- query time ---------------------------------------------------------------- *)

  Variables (vars : env) (t : Z) (e1 : env).
  Hypothesis Hvnd : NoDup (keys vars).
  Hypothesis Hvars : incl (keys vars) (keys (m_var m)).
  Hypothesis Hq : eval_order fsem fsemN (containers m) d (args0 m all_par vars t) = Val e1.

  Lemma dyn_cs : exists csd, sublist csd cs /\ map fst csd = d.
  Proof.
    apply sublist_map_inv. rewrite <- Hord. apply (split_basic m _ _ _ _ _ Hsplit).
  Qed.

  Lemma dyn_entry_container csd nm c :
    sublist csd cs -> map fst csd = d -> In (nm, c) csd -> In (nm, c) (containers m).
  Proof.
    intros Hs Hm Hin.
    assert (Hd : In nm d) by (rewrite <- Hm; apply (in_map fst) in Hin; exact Hin).
    assert (Hts : In (nm, c) (to_sort m)) by (apply cs_in; eapply sublist_In; eassumption).
    apply to_sort_container; [exact Hts| |].
    - intro Hv. destruct (d_class nm Hd) as [E|E].
      + unfold is_flux in E. apply orb_true_iff in E. destruct E as [E|E]; names_contra m HWF nm.
      + unfold is_varpar in E. apply orb_false_iff in E. destruct E as [E _]. names_contra m HWF nm.
    - intro Hp. exact (par_not_dyn nm Hp Hd).
  Qed.

  Lemma query_eval : exists csd, sublist csd cs /\ map fst csd = d /\
    eval_list fsem fsemN csd (args0 m all_par vars t) = Val e1.
  Proof.
    destruct dyn_cs as [csd [Hs Hm]]. exists csd. split; [exact Hs|]. split; [exact Hm|].
    rewrite <- (eval_order_list fsem fsemN (containers m) csd).
    - rewrite Hm. exact Hq.
    - intros nm c Hin. apply lookup_containers; [exact HWF|]. eapply dyn_entry_container; eassumption.
  Qed.

  (** names the dynamic components never write *)
  Lemma e1_frame k :
    (forall nm c, In (nm, c) (to_sort m) -> In nm d -> ~ In k (comp_outs nm c)) ->
    lookup k e1 = lookup k (args0 m all_par vars t).
  Proof.
    intro H. destruct query_eval as [csd [Hs [Hm He]]].
    apply (proj2 (eval_list_holds fsem fsemN csd _ _ He (good_sublist _ _ Hs good_cs))).
    intro Hin. apply in_flat_map in Hin. destruct Hin as [[nm c] [Hin Hk]].
    apply (H nm c).
    - apply cs_in. eapply sublist_In; eassumption.
    - rewrite <- Hm. apply (in_map fst) in Hin. exact Hin.
    - exact Hk.
  Qed.

  Lemma e1_frame_notout k : ~ In k (flat_map outs_of (to_sort m)) -> lookup k e1 = lookup k (args0 m all_par vars t).
  Proof.
    intro H. apply e1_frame. intros nm c Hin _ Hk. apply H. apply in_flat_map. exists (nm, c). split; assumption.
  Qed.

  Lemma e1_time : lookup time_name e1 = Some t.
  Proof.
    rewrite e1_frame_notout; [apply lookup_cons_eq|]. intro H. names_contra m HWF time_name.
  Qed.

  Lemma e1_data k : In k (keys (m_dat m)) -> lookup k e1 = lookup k (rev (m_dat m)) /\ has k (rev (m_dat m)) = true.
  Proof.
    intro H. rewrite e1_frame_notout by (intro Ho; names_contra m HWF k).
    assert (Hh : has k (rev (m_dat m)) = true) by (apply has_In; rewrite keys_rev; apply in_rev; rewrite rev_involutive; exact H).
    split; [|exact Hh]. unfold args0.
    rewrite lookup_cons_ne by (intros ->; names_contra m HWF time_name).
    rewrite lookup_env_of_dict. unfold has in Hh. destruct (lookup k (rev (m_dat m))); [reflexivity|discriminate].
  Qed.

  Lemma args0_nodata k : k <> time_name -> ~ In k (keys (m_dat m)) ->
    lookup k (args0 m all_par vars t) = match lookup k vars with Some v => Some v | None => lookup k all_par end.
  Proof.
    intros Ht Hd. unfold args0. rewrite lookup_cons_ne by exact Ht.
    rewrite lookup_env_of_dict_notin by exact Hd.
    rewrite lookup_env_of_dict_nodup by exact Hvnd.
    destruct (lookup k vars); [reflexivity|].
    rewrite lookup_env_of_dict_nodup by exact nodup_all_par.
    destruct (lookup k all_par); reflexivity.
  Qed.

  Lemma args0_notvar k : k <> time_name -> ~ In k (keys (m_dat m)) -> ~ In k (keys vars) ->
    lookup k (args0 m all_par vars t) = lookup k all_par.
  Proof.
    intros Ht Hd Hv. unfold args0. rewrite lookup_cons_ne by exact Ht.
    rewrite lookup_env_of_dict_notin by exact Hd.
    rewrite lookup_env_of_dict_notin by exact Hv.
    rewrite lookup_env_of_dict_nodup by exact nodup_all_par.
    destruct (lookup k all_par); reflexivity.
  Qed.

  Lemma e1_var x v : lookup x vars = Some v -> lookup x e1 = Some v.
  Proof.
    intro H. assert (Hx : In x (keys (m_var m))) by (apply Hvars; eapply lookup_In_keys; exact H).
    rewrite e1_frame.
    - rewrite args0_nodata; [rewrite H; reflexivity| |].
      + intros ->. names_contra m HWF time_name.
      + intro Hd. names_contra m HWF x.
    - intros nm c Hin Hd Hk. destruct (to_sort_outs m nm c x Hin Hk) as [->|Hs]; [|names_contra m HWF x].
      destruct (d_class nm Hd) as [E|E].
      + unfold is_flux in E. apply orb_true_iff in E. destruct E as [E|E]; names_contra m HWF nm.
      + unfold is_varpar in E. apply orb_false_iff in E. destruct E as [E _]. names_contra m HWF nm.
  Qed.

  (** frozen values are the cached ones, whatever the state and time *)
  Lemma e1_frozen k : frozen k -> lookup k e1 = lookup k all_par.
  Proof.
    intro Hf.
    assert (Hcl : In k (keys (m_par m)) \/ In k (keys (m_der m))) by (destruct Hf as [H|[_ H]]; [left|right]; exact H).
    rewrite e1_frame.
    - apply args0_notvar.
      + intros ->. destruct Hcl as [H|H]; names_contra m HWF time_name.
      + intro Hd. destruct Hcl as [H|H]; names_contra m HWF k.
      + intro E. apply Hvars in E. destruct Hcl as [H|H]; names_contra m HWF k.
    - intros nm c Hin Hd Hk. destruct (to_sort_outs m nm c k Hin Hk) as [->|Hs].
      + destruct Hf as [Hp|[Hs _]]; [exact (par_not_dyn nm Hp Hd)|exact (sd_disjoint nm Hs Hd)].
      + destruct Hcl as [H|H]; names_contra m HWF k.
  Qed.

  Lemma e1_frozen_dep k : frozen k -> lookup k e1 = lookup k dependent.
  Proof. intro H. rewrite e1_frozen by exact H. apply frozen_all_par. exact H. Qed.

  Lemma e1_par p v : In (p, Plain v) (m_par m) -> lookup p e1 = Some v.
  Proof.
    intro H. rewrite e1_frozen_dep; [apply dep_par; exact H|]. left. apply (in_map fst) in H. exact H.
  Qed.

  (** C01-a core: every live component holds in the environment before the data keys are popped *)
  Lemma e1_holds nm c : In (nm, c) (containers m) -> comp_holds fsem fsemN nm c e1.
  Proof.
    intro Hin. pose proof (containers_in_to_sort m nm c Hin) as Hts.
    assert (Ho : In nm order) by (apply order_in; apply (in_map fst) in Hts; exact Hts).
    destruct (order_sd nm Ho) as [Hs|Hd].
    - (* static derived: frozen, and so are its arguments *)
      assert (Hk : In nm (keys (containers m))) by (apply (in_map fst) in Hin; exact Hin).
      assert (Hder : In nm (keys (m_der m))).
      { destruct (s_class nm Hs) as [E _]. unfold is_flux in E. apply orb_false_iff in E. destruct E as [Er Es].
        apply has_false in Er. apply has_false in Es. rewrite keys_containers, !in_app_iff in Hk.
        destruct Hk as [Hk|[Hk|Hk]]; [exact Hk|contradiction|contradiction]. }
      destruct (static_der nm Hs Hder) as [_ [der [El Hargs]]].
      pose proof (der_comp_of m HWF nm der c El Hts) as Hc. subst c.
      apply (comp_holds_ext fsem fsemN nm _ dependent e1); [|apply dep_holds; exact Hts].
      cbn [comp_args comp_outs]. intros k [Hk'|[<-|[]]]; apply e1_frozen_dep.
      + apply a_frozen. apply Hargs. exact Hk'.
      + right. split; assumption.
    - destruct query_eval as [csd [Hsl [Hm He]]].
      apply (proj1 (eval_list_holds fsem fsemN csd _ _ He (good_sublist _ _ Hsl good_cs))).
      rewrite <- Hm in Hd. apply in_map_iff in Hd. destruct Hd as [[nm' c'] [E Hin']]. cbn [fst] in E. subst nm'.
      assert (c' = c).
      { pose proof (dyn_entry_container csd nm c' Hsl Hm Hin') as H1.
        apply (lookup_containers m HWF) in H1. apply (lookup_containers m HWF) in Hin. congruence. }
      subst c'. exact Hin'.
  Qed.

  (** the returned table: data keys popped *)
  Definition popped : env := filter (fun kv => negb (has (fst kv) (m_dat m))) e1.

  Lemma popped_lookup k : ~ In k (keys (m_dat m)) -> lookup k popped = lookup k e1.
  Proof.
    intro H. unfold popped. rewrite (lookup_filter_keys k (fun k => negb (has k (m_dat m)))).
    apply has_false in H. rewrite H. reflexivity.
  Qed.

  Lemma popped_data k : In k (keys (m_dat m)) -> lookup k popped = None.
  Proof.
    intro H. unfold popped. rewrite (lookup_filter_keys k (fun k => negb (has k (m_dat m)))).
    apply has_In in H. rewrite H. reflexivity.
  Qed.

  Lemma readd_data k : lookup k (env_of_dict (m_dat m) popped) = lookup k e1.
  Proof.
    destruct (in_dec N.eq_dec k (keys (m_dat m))) as [Hi|Hn].
    - rewrite lookup_env_of_dict. destruct (e1_data k Hi) as [E Hh]. rewrite E.
      unfold has in Hh. destruct (lookup k (rev (m_dat m))); [reflexivity|discriminate].
    - rewrite lookup_env_of_dict_notin by exact Hn. apply popped_lookup. exact Hn.
  Qed.

  Lemma popped_holds_readd nm c :
    In (nm, c) (containers m) -> comp_holds fsem fsemN nm c (env_of_dict (m_dat m) popped).
  Proof.
    intro H. apply (comp_holds_ext fsem fsemN nm c e1); [|apply e1_holds; exact H].
    intros k _. apply readd_data.
  Qed.

  Lemma popped_holds nm c :
    In (nm, c) (containers m) -> (forall x, In x (comp_args c) -> ~ In x (keys (m_dat m))) ->
    comp_holds fsem fsemN nm c popped.
  Proof.
    intros H Hnd. apply (comp_holds_ext fsem fsemN nm c e1); [|apply e1_holds; exact H].
    intros k [Hk|Hk]; apply popped_lookup.
    - apply Hnd. exact Hk.
    - intro Hd. destruct (to_sort_outs m nm c k (containers_in_to_sort m nm c H) Hk) as [->|Hs].
      + apply in_keys in H. names_contra m HWF nm.
      + names_contra m HWF k.
  Qed.

  Lemma popped_frozen k : frozen k -> lookup k popped = lookup k all_par.
  Proof.
    intro Hf. rewrite popped_lookup; [apply e1_frozen; exact Hf|].
    intro Hd. destruct Hf as [H|[_ H]]; names_contra m HWF k.
  Qed.

  (** C01-a *)
  Lemma args_resolved_core :
    lookup time_name popped = Some t
    /\ (forall x v, lookup x vars = Some v -> lookup x popped = Some v)
    /\ (forall p v, In (p, Plain v) (m_par m) -> lookup p popped = Some v)
    /\ (forall nm c, In (nm, c) (containers m) -> comp_holds fsem fsemN nm c (env_of_dict (m_dat m) popped))
    /\ (forall nm c, In (nm, c) (containers m) -> (forall x, In x (comp_args c) -> ~ In x (keys (m_dat m))) ->
                     comp_holds fsem fsemN nm c popped).
  Proof.
    split; [|split; [|split; [|split]]].
    - rewrite popped_lookup; [exact e1_time|]. intro H. names_contra m HWF time_name.
    - intros x v H. rewrite popped_lookup; [apply e1_var; exact H|].
      apply lookup_In_keys in H. apply Hvars in H. intro Hd. names_contra m HWF x.
    - intros p v H. rewrite popped_lookup; [apply e1_par; exact H|].
      apply in_keys in H. intro Hd. names_contra m HWF p.
    - exact popped_holds_readd.
    - exact popped_holds.
  Qed.

  (** names that are neither time nor a variable / parameter / derived / reaction / surrogate
      output are not bound in the returned table *)
  Lemma popped_unbound k :
    k <> time_name -> ~ In k (keys (m_var m)) -> ~ In k (keys (m_par m)) -> ~ In k (keys (m_der m)) ->
    ~ In k (keys (m_rxn m)) -> ~ In k (surrogate_outputs m) -> lookup k popped = None.
  Proof.
    intros Ht Hv Hp Hd Hr Hso.
    destruct (in_dec N.eq_dec k (keys (m_dat m))) as [Hdat|Hdat]; [apply popped_data; exact Hdat|].
    rewrite popped_lookup by exact Hdat.
    assert (Hnts : In k (keys (to_sort m)) -> In k (keys (m_sur m))).
    { rewrite keys_to_sort, !in_app_iff. intros [H|[H|[H|[H|H]]]]; [exfalso|exfalso|contradiction|contradiction|exact H].
      - apply Hv. apply cnt_In. apply cnt_In in H. pose proof (cnt_keys_plain_ias k (m_var m)). lia.
      - apply Hp. apply cnt_In. apply cnt_In in H. pose proof (cnt_keys_plain_ias k (m_par m)). lia. }
    rewrite e1_frame.
    - rewrite args0_notvar; [|exact Ht|exact Hdat|intro H; apply Hv; apply Hvars; exact H].
      apply has_lookup_None. destruct (has k all_par) eqn:Eh; [exfalso|reflexivity].
      destruct (all_par_has k Eh) as [H|[Hs _]].
      + apply Hp. apply cnt_In. apply cnt_In in H. pose proof (cnt_keys_plain_ias k (m_par m)). lia.
      + destruct (s_class k Hs) as [Ef _]. unfold is_flux in Ef. apply orb_false_iff in Ef. destruct Ef as [_ Ef].
        apply has_false in Ef. apply Ef. apply Hnts. apply order_in. apply s_in_order. exact Hs.
    - intros nm c Hin _ Hk. destruct (to_sort_outs_strong m HWF nm c k Hin Hk) as [[-> Hns]|Hs]; [|contradiction].
      apply Hns. apply Hnts. eapply in_keys. exact Hin.
  Qed.

  (** a variable that was not supplied is not bound in the returned table *)
  Lemma popped_unsupplied_var x : In x (keys (m_var m)) -> ~ In x (keys vars) -> lookup x popped = None.
  Proof.
    intros Hx Hns. rewrite popped_lookup by (intro Hd; names_contra m HWF x).
    rewrite e1_frame.
    - rewrite args0_notvar; [|intros ->; names_contra m HWF time_name|intro Hd; names_contra m HWF x|exact Hns].
      apply has_lookup_None. destruct (has x all_par) eqn:Eh; [exfalso|reflexivity].
      destruct (has_all_par_frozen x Eh) as [H|[_ H]]; names_contra m HWF x.
    - intros nm c Hin Hd Hk. destruct (to_sort_outs m nm c x Hin Hk) as [->|Hs]; [|names_contra m HWF x].
      destruct (d_class nm Hd) as [E|E].
      + unfold is_flux in E. apply orb_true_iff in E. destruct E as [E|E]; names_contra m HWF nm.
      + unfold is_varpar in E. apply orb_false_iff in E. destruct E as [E _]. names_contra m HWF nm.
  Qed.

  (** every flux name is bound in the returned table *)
  Lemma popped_flux_bound rn : In rn (keys (all_rxn_entries m)) -> exists v, lookup rn popped = Some v.
  Proof.
    rewrite (keys_all_rxn_entries m), in_app_iff. intros [H|H].
    - assert (Hk := H). unfold keys in H. apply in_map_iff in H. destruct H as [[rn' r] [E Hin]]. cbn [fst] in E. subst rn'.
      assert (Hc : In (rn, CFn (r_fn r) (r_args r)) (containers m)).
      { unfold containers. rewrite !in_app_iff. right. left. apply in_rxn_comps. exists r. split; [reflexivity|exact Hin]. }
      destruct (e1_holds _ _ Hc) as (vs & v & _ & _ & Hl). exists v.
      rewrite popped_lookup; [exact Hl|]. intro Hd. names_contra m HWF rn.
    - destruct (sur_rxn_in m HWF rn H) as (sn & s' & Hin & Hout).
      assert (Hc : In (sn, CSur (s_fn s') (s_args s') (s_out s')) (containers m)).
      { unfold containers. rewrite !in_app_iff. right. right. apply in_sur_comps. exists s'. split; [reflexivity|exact Hin]. }
      destruct (e1_holds _ _ Hc) as (vs & ws & _ & _ & Hlen & Hl).
      destruct (In_nth_error _ _ Hout) as [i Hi].
      destruct (nth_error ws i) as [w|] eqn:Ew.
      + exists w. rewrite popped_lookup; [exact (Hl i rn w Hi Ew)|].
        pose proof (sur_out_in m sn s' rn Hin Hout) as Hso. intro Hd. names_contra m HWF rn.
      + exfalso. apply nth_error_None in Ew. assert (i < length (s_out s')) by (apply nth_error_Some; congruence). lia.
  Qed.

  Lemma popped_allpar k : In k a -> lookup k popped = lookup k dependent.
  Proof.
    intro H. apply a_frozen in H. rewrite popped_frozen by exact H. apply frozen_all_par. exact H.
  Qed.

  (** C01-b core: the accumulated vector is stoichiometry x rates over the returned table *)
  Variables (st : list (name * list (name * Z))) (dy : list (name * list (name * (fnid * list name)))).
  Hypothesis Hadd : add_rxn_list fsem a dependent ([], []) (all_rxn_entries m) = Val (st, dy).

  Lemma rhs_core c var_names d2 :
    c_stoich c = st -> c_dyn_stoich c = dy ->
    rhs_of_args fsem c var_names popped = Val d2 ->
    keys d2 = var_names
    /\ forall x, In x var_names ->
         exists v, lookup x d2 = Some v /\ rhs_spec fsem x (all_rxn_entries m) popped = Some v.
  Proof.
    intros Est Edy Hr.
    destruct (add_rxns_rows fsem a dependent (all_rxn_entries m) ([], []) (st, dy) Hadd
                            (nodup_keys_all_rxn_entries m HWF)) as (N1 & N2 & Hok & Hrows).
    { intros rn ent Hin. apply (wf_st_keys m HWF rn ent Hin). }
    cbn [fst snd] in N1, N2, Hrows.
    destruct (rhs_of_args_spec fsem c var_names popped d2 Hr) as [Hk Hx].
    { rewrite Est. apply N1. constructor. }
    { rewrite Edy. apply N2. constructor. }
    split; [exact Hk|]. intros x Hin. destruct (Hx x Hin) as (s1 & s2 & S1 & S2 & S3).
    exists (s1 + s2)%Z. split; [exact S3|].
    destruct (Hrows x) as [R1 R2].
    { intros rn _. split; intros []. }
    rewrite Est, R1 in S1. rewrite Edy, R2 in S2. cbn [app] in S1, S2.
    apply (rxns_sum fsem a dependent popped popped_allpar x (all_rxn_entries m) s1 s2).
    - intros rn Hrn. apply popped_flux_bound. exact Hrn.
    - exact Hok.
    - exact S1.
    - exact S2.
  Qed.
End CacheFacts.
