(** Top-level lemmas for C13-a/b/c and C01-a, in the shape of the property statements
    (for any sorter facts [F] whose retry shortcut does not return an order). *)
From Coq Require Import ZArith List Bool Lia Permutation.
From MxlBase Require Import ListX.
From Core Require Import Sort GenSortFacts SortProofs Model Cache Query.
From CoreP Require Import Spec ProofsEnv ProofsEval ProofsNames ProofsSplit ProofsCache.
Import ListNotations.

Section Top.
  Variable F : sort_facts.
  Hypothesis Hsc : f_shortcut F <> ScAppendBreak.

  Lemma order_cs m order :
    sort F (base_available m) (map dep_of (to_sort m)) = Ok order ->
    exists cs, order = map fst cs /\ Permutation cs (to_sort m) /\ topo_from (base_available m) (map dep_of cs).
  Proof.
    intro Hsort. destruct (sort_ok_topo F _ _ _ Hsc Hsort) as [ds [Ho [Hp Ht]]].
    apply Permutation_map_inv in Hp. destruct Hp as [cs [Hds Hp]]. subst ds.
    exists cs. split; [rewrite Ho; apply map_name_dep_of|]. split; [apply Permutation_sym; exact Hp|exact Ht].
  Qed.

  Lemma initial_assignments_resolved_once fsem fsemN m c :
    WF m -> create_cache fsem fsemN F m = Val c ->
    exists e0,
      lookup time_name e0 = Some 0%Z
      /\ (forall p v, In (p, Plain v) (m_par m) -> lookup p e0 = Some v)
      /\ (forall x v, In (x, Plain v) (m_var m) -> lookup x e0 = Some v)
      /\ (forall nm cmp, In (nm, cmp) (to_sort m) -> comp_holds fsem fsemN nm cmp e0)
      /\ keys (c_init c) = keys (m_var m)
      /\ (forall x, In x (keys (m_var m)) -> lookup x (c_init c) = lookup x e0)
      /\ (forall p f a, In (p, IA f a) (m_par m) -> lookup p (c_all_par c) = lookup p e0).
  Proof.
    intros HWF Hc.
    destruct (create_cache_inv _ _ _ _ _ Hc) as
        (order & dependent & s & d & a & st & dy & init & all_par & Hsort & Heval & Hsplit & Hadd & Hinit & Hfill & ->).
    destruct (order_cs m order Hsort) as (cs & Hord & Hperm & Htopo).
    exists dependent. cbn [c_init c_all_par].
    eapply c13a_core; eassumption.
  Qed.

  Lemma classification_top fsem fsemN m c k :
    WF m -> create_cache fsem fsemN F m = Val c ->
    (In k (derived_parameter_names m c) <-> In k (keys (m_der m)) /\ OnlyParams m k).
  Proof.
    intros HWF Hc.
    destruct (create_cache_inv _ _ _ _ _ Hc) as
        (order & dependent & s & d & a & st & dy & init & all_par & Hsort & Heval & Hsplit & Hadd & Hinit & Hfill & ->).
    destruct (order_cs m order Hsort) as (cs & Hord & Hperm & Htopo).
    unfold derived_parameter_names. cbn [c_all_par].
    eapply classification; eassumption.
  Qed.

  (** inversion of get_args_raw on a cache built by create_cache *)
  Lemma get_args_raw_inv fsem fsemN m c vars t e :
    get_args_raw fsem fsemN m c vars t = Val e ->
    exists e1, eval_order fsem fsemN (containers m) (c_dyn_order c) (args0 m (c_all_par c) vars t) = Val e1
               /\ e = popped m e1.
  Proof.
    unfold get_args_raw. fold (args0 m (c_all_par c) vars t).
    destruct (eval_order fsem fsemN (containers m) (c_dyn_order c) (args0 m (c_all_par c) vars t)) as [e1|]; [|discriminate].
    cbn [bind]. intro H. injection H as <-. exists e1. split; reflexivity.
  Qed.

  Lemma args_fully_resolved fsem fsemN m c vars t e :
    WF m -> create_cache fsem fsemN F m = Val c ->
    NoDup (keys vars) -> incl (keys vars) (keys (m_var m)) ->
    get_args_raw fsem fsemN m c vars t = Val e ->
    lookup time_name e = Some t
    /\ (forall x v, lookup x vars = Some v -> lookup x e = Some v)
    /\ (forall p v, In (p, Plain v) (m_par m) -> lookup p e = Some v)
    /\ (forall nm cmp, In (nm, cmp) (containers m) ->
          comp_holds fsem fsemN nm cmp (env_of_dict (m_dat m) e))
    /\ (forall nm cmp, In (nm, cmp) (containers m) ->
          (forall x, In x (comp_args cmp) -> ~ In x (keys (m_dat m))) -> comp_holds fsem fsemN nm cmp e).
  Proof.
    intros HWF Hc Hvnd Hvars Hq.
    destruct (get_args_raw_inv _ _ _ _ _ _ _ Hq) as [e1 [He1 ->]].
    destruct (create_cache_inv _ _ _ _ _ Hc) as
        (order & dependent & s & d & a & st & dy & init & all_par & Hsort & Heval & Hsplit & Hadd & Hinit & Hfill & ->).
    destruct (order_cs m order Hsort) as (cs & Hord & Hperm & Htopo).
    cbn [c_dyn_order c_all_par] in He1.
    eapply args_resolved_core; eassumption.
  Qed.

  Lemma frozen_top fsem fsemN m c vars t e vars' t' e' k :
    WF m -> create_cache fsem fsemN F m = Val c ->
    incl (keys vars) (keys (m_var m)) -> incl (keys vars') (keys (m_var m)) ->
    get_args_raw fsem fsemN m c vars t = Val e ->
    get_args_raw fsem fsemN m c vars' t' = Val e' ->
    In k (derived_parameter_names m c) \/ (exists f a, In (k, IA f a) (m_par m)) ->
    lookup k e = lookup k e' /\ lookup k e = lookup k (c_all_par c).
  Proof.
    intros HWF Hc Hvars Hvars' Hq Hq' Hk.
    destruct (get_args_raw_inv _ _ _ _ _ _ _ Hq) as [e1 [He1 ->]].
    destruct (get_args_raw_inv _ _ _ _ _ _ _ Hq') as [e1' [He1' ->]].
    destruct (create_cache_inv _ _ _ _ _ Hc) as
        (order & dependent & s & d & a & st & dy & init & all_par & Hsort & Heval & Hsplit & Hadd & Hinit & Hfill & ->).
    destruct (order_cs m order Hsort) as (cs & Hord & Hperm & Htopo).
    cbn [c_dyn_order c_all_par] in *.
    assert (Hf : frozen m s k).
    { destruct Hk as [Hk|[f [a' Hk]]].
      - unfold derived_parameter_names in Hk. cbn [c_all_par] in Hk. apply filter_In in Hk. destruct Hk as [Hd Hh].
        right. split; [|exact Hd].
        destruct (all_par_has m dependent s all_par Hfill k Hh) as [Hp|[Hs _]]; [|exact Hs].
        exfalso. names_contra m HWF k.
      - left. eapply in_keys. exact Hk. }
    assert (E1 : lookup k (popped m e1) = lookup k all_par).
    { exact (popped_frozen fsem fsemN m order cs dependent s d a all_par HWF Hord Hperm Htopo Heval Hsplit Hfill
                           vars t e1 Hvars He1 k Hf). }
    assert (E2 : lookup k (popped m e1') = lookup k all_par).
    { exact (popped_frozen fsem fsemN m order cs dependent s d a all_par HWF Hord Hperm Htopo Heval Hsplit Hfill
                           vars' t' e1' Hvars' He1' k Hf). }
    split; [rewrite E1, E2; reflexivity|exact E1].
  Qed.
End Top.

(** the sorter facts regenerated from the source never return an order from the retry shortcut *)
Lemma gen_sc : f_shortcut gen_sort_facts <> ScAppendBreak.
Proof. vm_compute. discriminate. Qed.

Lemma gen_cap : f_cap gen_sort_facts = CapSquare.
Proof. vm_compute. reflexivity. Qed.
Lemma gen_cmp : f_cmp gen_sort_facts = CmpGt.
Proof. vm_compute. reflexivity. Qed.
Lemma gen_chk : f_checks_first gen_sort_facts = true.
Proof. vm_compute. reflexivity. Qed.
