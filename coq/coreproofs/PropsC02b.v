(** C02 (second part) -- the VALUES do not depend on the declaration order; bad graphs give no
    numbers, said about the MODEL.

    ONLY theorem statements (written out in full), each closed by [exact <lemma>] and followed by
    [Print Assumptions].  They are about the executable model of [Model._create_cache] /
    [Model._get_args] / [Model.__call__] (../core/Cache.v, Query.v -- tied to the source by the
    correspondence checks of harness/c01.py / c13.py and by the pinned shape facts) run with the
    sorter facts [gen_sort_facts] REGENERATED from /repo/src/mxlpy/model.py, for EVERY meaning
    [fsem]/[fsemN] of the Python functions.  Vocabulary ([WF], [same_components], [names_missing],
    [feeds], [has_cycle], [comp_holds], [rhs_spec]): Spec.v.  (First part: ../core/PropsC02.v, the sorter.) *)
From Coq Require Import ZArith List Bool Permutation Relations.
From MxlBase Require Import ListX.
From Core Require Import Sort GenSortFacts GenCacheFacts Model Cache Query CacheHist.
From Core Require FnLib.
From CoreP Require Import Spec ProofsTop ProofsUnique ProofsPerm ProofsGraph ExModel ExPerm ProofsHist.
Import ListNotations.

(** the facts the lemmas below are instantiated with: the regenerated sorter facts, and the
    regenerated shape of [_create_cache] (statement for statement the modelled one) *)
Theorem C02b_facts_pinned :
  f_cap gen_sort_facts = CapSquare /\ f_cmp gen_sort_facts = CmpGt
  /\ f_shortcut gen_sort_facts = ScRaise /\ f_checks_first gen_sort_facts = true
  /\ gen_cache_shape = true.
Proof. vm_compute. repeat split; reflexivity. Qed.
Print Assumptions C02b_facts_pinned.

(** "In whatever order parameters, derived quantities, reactions, surrogates and initial
    assignments were declared ... evaluates to the same values": if the cache of a well-formed
    model [m] is built then so is the cache of every model [m'] holding the same components in any
    declaration order, and the two agree as finite maps: initial conditions, all_parameter_values,
    base parameter values.  [var_names] is the declaration order of the variables of [m'] (a
    permutation of that of [m]: the ORDER of the positional vector follows the declaration order
    of the variables, see [C02_order_independent_call]). *)
Theorem C02_order_independent_values :
  forall fsem fsemN m m' c,
    WF m -> same_components m m' ->
    create_cache fsem fsemN gen_sort_facts m = Val c ->
    exists c',
      create_cache fsem fsemN gen_sort_facts m' = Val c'
      /\ (forall k, lookup k (c_init c') = lookup k (c_init c))
      /\ (forall k, lookup k (c_all_par c') = lookup k (c_all_par c))
      /\ (forall k, lookup k (c_base_par c') = lookup k (c_base_par c))
      /\ c_var_names c' = keys (m_var m').
Proof.
  exact (fun fsem fsemN m m' c HWF HP =>
           cache_transfer gen_sort_facts gen_sc gen_cap gen_cmp fsem fsemN m m' HWF HP c).
Qed.
Print Assumptions C02_order_independent_values.

(** ... hence the cache is built for both declaration orders or for neither *)
Theorem C02_cache_both_or_neither :
  forall fsem fsemN m m',
    WF m -> same_components m m' ->
    ((exists c, create_cache fsem fsemN gen_sort_facts m = Val c)
     <-> (exists c', create_cache fsem fsemN gen_sort_facts m' = Val c')).
Proof. exact (cache_both_or_neither gen_sort_facts gen_sc gen_cap gen_cmp). Qed.
Print Assumptions C02_cache_both_or_neither.

(** the argument tables [_get_args] returns for the two declaration orders, at the same state
    (given as any two association lists that agree as maps) and time, agree on EVERY name; and
    stoichiometry x rates per variable is the same number (with [C01_rhs_is_stoichiometry_times_rates]
    / [C01_named_rhs_is_stoichiometry_times_rates]: the right-hand side agrees per variable) *)
Theorem C02_order_independent_tables :
  forall fsem fsemN m m' c c' vars vars' t e e',
    WF m -> same_components m m' ->
    create_cache fsem fsemN gen_sort_facts m = Val c ->
    create_cache fsem fsemN gen_sort_facts m' = Val c' ->
    NoDup (keys vars) -> NoDup (keys vars') -> incl (keys vars) (keys (m_var m)) ->
    (forall k, lookup k vars' = lookup k vars) ->
    get_args_raw fsem fsemN m c vars t = Val e ->
    get_args_raw fsem fsemN m' c' vars' t = Val e' ->
    (forall k, lookup k e' = lookup k e)
    /\ (forall x, rhs_spec fsem x (all_rxn_entries m') e' = rhs_spec fsem x (all_rxn_entries m) e).
Proof.
  intros fsem fsemN m m' c c' vars vars' t e e' HWF HP Hc Hc' Hnd Hnd' Hi Hv Hq Hq'.
  exact ((fun H => conj H (fun x => rhs_agree fsem m m' HP e e' x H))
           (args_agree gen_sort_facts gen_sc gen_cap gen_cmp fsem fsemN m m' HWF HP c c' vars vars' t e e'
                       Hc Hc' Hnd Hnd' Hi Hv Hq Hq')).
Qed.
Print Assumptions C02_order_independent_tables.

(** the positional entry point: when the variables themselves are declared in another order the
    vector handed to integrators is re-ordered with them -- position [j] of [m'] holds the value
    position [i] of [m] holds whenever both positions are the same variable *)
Theorem C02_order_independent_call :
  forall fsem fsemN m m' c c' t y y' dx dx',
    WF m -> same_components m m' ->
    create_cache fsem fsemN gen_sort_facts m = Val c ->
    create_cache fsem fsemN gen_sort_facts m' = Val c' ->
    (forall i j x, nth_error (keys (m_var m)) i = Some x -> nth_error (keys (m_var m')) j = Some x ->
                   nth_error y' j = nth_error y i) ->
    call fsem fsemN m c t y = Val dx -> call fsem fsemN m' c' t y' = Val dx' ->
    forall i j x, nth_error (keys (m_var m)) i = Some x -> nth_error (keys (m_var m')) j = Some x ->
                  nth_error dx' j = nth_error dx i.
Proof.
  exact (fun fsem fsemN m m' c c' t y y' dx dx' HWF HP =>
           call_agree gen_sort_facts gen_sc gen_cap gen_cmp fsem fsemN m m' HWF HP c c' t y y' dx dx').
Qed.
Print Assumptions C02_order_independent_call.

(** whenever a cache is built the dependency graph of the model is acyclic (there is a valid
    evaluation order of ALL its components from the plain values, the data sets and time) *)
Theorem C02_cache_only_for_acyclic :
  forall fsem fsemN m c,
    create_cache fsem fsemN gen_sort_facts m = Val c ->
    Acyclic (base_available m) (map dep_of (to_sort m)).
Proof. exact (cache_acyclic gen_sort_facts gen_sc). Qed.
Print Assumptions C02_cache_only_for_acyclic.

(** "A component naming something that does not exist is rejected with a missing-dependency
    error that lists exactly those names [payload: C02_missing_exact], and any dependency cycle,
    including a component naming itself, is rejected with a circular-dependency error.  In
    neither case are numbers returned": no cache, hence no query answers. *)
Theorem C02_bad_graph_no_numbers :
  forall fsem fsemN m,
    (names_missing m ->
       create_cache fsem fsemN gen_sort_facts m
       = Err (EMissing (not_solvable (base_available m) (map dep_of (to_sort m))))
       /\ not_solvable (base_available m) (map dep_of (to_sort m)) <> [])
    /\ (WF m -> has_cycle m -> ~ names_missing m ->
        Complete (base_available m) (map dep_of (to_sort m)) ->
        create_cache fsem fsemN gen_sort_facts m = Err ECircular)
    /\ (WF m -> has_cycle m -> forall c, create_cache fsem fsemN gen_sort_facts m <> Val c).
Proof. exact (bad_graph_no_numbers gen_sort_facts gen_chk gen_sc). Qed.
Print Assumptions C02_bad_graph_no_numbers.

(** the same at the level of the sorter's vocabulary *)
Theorem C02_incomplete_or_cyclic_no_cache :
  forall fsem fsemN m,
    (~ Complete (base_available m) (map dep_of (to_sort m)) ->
       create_cache fsem fsemN gen_sort_facts m
       = Err (EMissing (not_solvable (base_available m) (map dep_of (to_sort m)))))
    /\ (Complete (base_available m) (map dep_of (to_sort m)) ->
        ~ Acyclic (base_available m) (map dep_of (to_sort m)) ->
        create_cache fsem fsemN gen_sort_facts m = Err ECircular).
Proof.
  intros fsem fsemN m.
  exact (conj (incomplete_no_cache gen_sort_facts gen_chk fsem fsemN m)
              (cyclic_no_cache gen_sort_facts gen_chk gen_sc fsem fsemN m)).
Qed.
Print Assumptions C02_incomplete_or_cyclic_no_cache.

(** a cycle in the sense of [has_cycle] excludes every valid evaluation order *)
Theorem C02_cycle_not_acyclic :
  forall m, WF m -> has_cycle m -> ~ Acyclic (base_available m) (map dep_of (to_sort m)).
Proof. exact has_cycle_not_acyclic. Qed.
Print Assumptions C02_cycle_not_acyclic.

(** non-vacuity: the model of ExModel.v and the same model with EVERY container declared in
    reverse order are both well formed, hold the same components, both caches are built; the
    sorted orders differ, the initial conditions are the same map in reversed order; at state
    (3 -> 1, 4 -> 2, 5 -> 3), time 3 the positional calls return (-13, 129, 0) and (0, 129, -13).
    A model naming the non-existent 99 gets the missing-dependency error listing exactly 99; a
    component naming itself and a 2-cycle get the circular-dependency error. *)
Example C02b_nonvacuous :
  WF ex_model /\ same_components ex_model ex_model_rev /\
  (exists c c',
     create_cache FnLib.fsem FnLib.fsemN gen_sort_facts ex_model = Val c
     /\ create_cache FnLib.fsem FnLib.fsemN gen_sort_facts ex_model_rev = Val c'
     /\ c_order c <> c_order c'
     /\ c_init c = [(3%N, 5%Z); (4%N, 10%Z); (5%N, 1%Z)]
     /\ c_init c' = [(5%N, 1%Z); (4%N, 10%Z); (3%N, 5%Z)]
     /\ call FnLib.fsem FnLib.fsemN ex_model c 3%Z [1; 2; 3]%Z = Val [-13; 129; 0]%Z
     /\ call FnLib.fsem FnLib.fsemN ex_model_rev c' 3%Z [3; 2; 1]%Z = Val [0; 129; -13]%Z)
  /\ names_missing ex_missing
  /\ create_cache FnLib.fsem FnLib.fsemN gen_sort_facts ex_missing = Err (EMissing [(6%N, [99%N])])
  /\ WF ex_selfloop /\ has_cycle ex_selfloop
  /\ create_cache FnLib.fsem FnLib.fsemN gen_sort_facts ex_selfloop = Err ECircular
  /\ WF ex_twocycle /\ has_cycle ex_twocycle
  /\ create_cache FnLib.fsem FnLib.fsemN gen_sort_facts ex_twocycle = Err ECircular.
Proof.
  split; [exact ex_model_WF|]. split; [exact ex_same_components|].
  split.
  { eexists. eexists. split; [vm_compute; reflexivity|]. split; [vm_compute; reflexivity|].
    split; [vm_compute; discriminate|]. repeat split; vm_compute; reflexivity. }
  split.
  { exists 6%N, (CFn 6%N [99%N]), 99%N. split; [vm_compute; tauto|]. split; [left; reflexivity|].
    split; [vm_compute; intuition discriminate|].
    intros (nm' & cmp' & Hin & Ho). vm_compute in Hin.
    destruct Hin as [E|[E|[]]]; injection E as <- <-; cbn in Ho; intuition discriminate. }
  split; [vm_compute; reflexivity|].
  split; [exact ex_selfloop_WF|].
  split.
  { exists 6%N. apply t_step. exists 6%N, (CFn 2%N [6%N; 1%N]). split; [vm_compute; tauto|].
    split; [left; reflexivity|left; reflexivity]. }
  split; [vm_compute; reflexivity|].
  split; [exact ex_twocycle_WF|].
  split.
  { exists 6%N. apply t_trans with (y := 7%N); apply t_step.
    - exists 7%N, (CFn 6%N [6%N]). split; [vm_compute; tauto|]. split; left; reflexivity.
    - exists 6%N, (CFn 2%N [7%N; 1%N]). split; [vm_compute; tauto|]. split; left; reflexivity. }
  vm_compute; reflexivity.
Qed.
Print Assumptions C02b_nonvacuous.

(** ------------------------------------------------------------------------------------------------
    Closing round: MIXTURES of bad-graph kinds, and HISTORIES (what a process did before).
    [create_cache] is a function of the model's content: the shipped code has no state besides the
    model, so an answer cannot depend on earlier constructions.  The theorems below say what that
    buys on the two shapes of seeded changes C02-7 / C02-8, whose executable models are the
    regression variants of ../core/CacheHist.v (NOT the shipped code). *)

(** "A component naming something that does not exist is rejected with a missing-dependency error
    that lists exactly those names" -- ALSO when the graph has cycles (e.g. a component naming itself) *)
Theorem C02_mixture_missing_reported :
  forall fsem fsemN m,
    names_missing m -> has_cycle m ->
    create_cache fsem fsemN gen_sort_facts m
    = Err (EMissing (not_solvable (base_available m) (map dep_of (to_sort m))))
    /\ not_solvable (base_available m) (map dep_of (to_sort m)) <> [].
Proof. exact (mixture_missing_reported gen_sort_facts gen_chk gen_sc). Qed.
Print Assumptions C02_mixture_missing_reported.

(** regression (seeded C02-7): an early "does a component list its own name" test in the sanity loop of
    [_create_cache], before the sorter.  Where it is harmless (complete graph, no readout naming itself:
    it anticipates the sorter's verdict) ... *)
Theorem C02_early_self_check_partial :
  forall fsem fsemN m,
    WF m -> Complete (base_available m) (map dep_of (to_sort m)) -> readout_names_itself m = false ->
    create_cache_selfcheck fsem fsemN gen_sort_facts m = create_cache fsem fsemN gen_sort_facts m.
Proof. exact (selfcheck_agrees_on_complete gen_sort_facts gen_chk gen_sc). Qed.
Print Assumptions C02_early_self_check_partial.

(** ... and where it breaks the property: on EVERY model that names a missing thing and in which an initial
    assignment, derived quantity or reaction lists its own name, the circular error hides the missing names
    (the shipped code never answers Circular there); witnesses: one component naming itself AND the missing 99,
    and a self-reference next to ANOTHER component naming 99 *)
Theorem C02_early_self_check_refuted :
  (forall fsem fsemN m,
     names_missing m -> names_itself m = true ->
     create_cache_selfcheck fsem fsemN gen_sort_facts m = Err ECircular
     /\ create_cache fsem fsemN gen_sort_facts m <> Err ECircular)
  /\ names_missing ex_mix_same /\ names_itself ex_mix_same = true
  /\ create_cache FnLib.fsem FnLib.fsemN gen_sort_facts ex_mix_same = Err (EMissing [(6%N, [99%N])])
  /\ create_cache_selfcheck FnLib.fsem FnLib.fsemN gen_sort_facts ex_mix_same = Err ECircular
  /\ names_missing ex_mix_other /\ names_itself ex_mix_other = true
  /\ create_cache FnLib.fsem FnLib.fsemN gen_sort_facts ex_mix_other = Err (EMissing [(7%N, [99%N])])
  /\ create_cache_selfcheck FnLib.fsem FnLib.fsemN gen_sort_facts ex_mix_other = Err ECircular.
Proof.
  split; [exact (selfcheck_hides_missing gen_sort_facts gen_chk gen_sc)|].
  split; [exact ex_mix_same_missing|]. split; [vm_compute; reflexivity|].
  split; [vm_compute; reflexivity|]. split; [vm_compute; reflexivity|].
  split; [exact ex_mix_other_missing|]. split; [vm_compute; reflexivity|].
  split; vm_compute; reflexivity.
Qed.
Print Assumptions C02_early_self_check_refuted.

(** regression (seeded C02-8): a process-wide memo of sorted orders keyed by the components only.  The first
    construction of a process, and every construction whose components are not in the memo, is the shipped one ... *)
Theorem C02_memo_miss_is_shipped_partial :
  forall fsem fsemN m,
    fst (create_cache_memo fsem fsemN gen_sort_facts [] m) = create_cache fsem fsemN gen_sort_facts m
    /\ forall mm, memo_find (memo_key (map dep_of (to_sort m))) mm = None ->
                  fst (create_cache_memo fsem fsemN gen_sort_facts mm m) = create_cache fsem fsemN gen_sort_facts m.
Proof.
  exact (fun fsem fsemN m => conj (create_cache_memo_fresh fsem fsemN gen_sort_facts m)
                                  (fun mm => create_cache_memo_miss fsem fsemN gen_sort_facts mm m)).
Qed.
Print Assumptions C02_memo_miss_is_shipped_partial.

(** ... but a hit forgets what is available: build the cache of ExModel, remove_parameter(1), build again.  The
    content now names the missing 1 (shipped: the missing-dependency error listing it per component, in element
    order); with the memo the stale order is evaluated and a bare KeyError escapes. *)
Theorem C02_memo_forgetting_available_refuted :
  exists c mm,
    create_cache_memo FnLib.fsem FnLib.fsemN gen_sort_facts [] ex_model = (Val c, mm)
    /\ names_missing (remove_par 1%N ex_model)
    /\ create_cache FnLib.fsem FnLib.fsemN gen_sort_facts (remove_par 1%N ex_model)
       = Err (EMissing [(4%N, [1%N]); (2%N, [1%N]); (6%N, [1%N])])
    /\ fst (create_cache_memo FnLib.fsem FnLib.fsemN gen_sort_facts mm (remove_par 1%N ex_model)) = Err EKey.
Proof.
  eexists. eexists. split; [vm_compute; reflexivity|]. split; [exact ex_removed_missing|].
  split; vm_compute; reflexivity.
Qed.
Print Assumptions C02_memo_forgetting_available_refuted.

(** histories, positively and for ALL models: remove a plain parameter / a plain variable (its stoichiometric
    entries go with it) / a data set from a well-formed model.  If a component of what remains names it, the
    shipped construction answers with the missing-dependency error -- whatever was built or asked before the
    removal, [create_cache] has no other input than the content -- and the payload lists that component with
    the removed name.  (Not assumed: that the cache of [m] was built, or that [m] was complete.) *)
Theorem C02_removed_base_quantity_is_reported :
  forall fsem fsemN m k p nm cmp,
    WF m -> is_base k p m ->
    In (nm, cmp) (to_sort (remove_base k p m)) -> In p (comp_args cmp) ->
    create_cache fsem fsemN gen_sort_facts (remove_base k p m)
    = Err (EMissing (not_solvable (base_available (remove_base k p m)) (map dep_of (to_sort (remove_base k p m)))))
    /\ exists l, In (nm, l) (not_solvable (base_available (remove_base k p m)) (map dep_of (to_sort (remove_base k p m))))
                 /\ In p l.
Proof. exact (removed_base_reported gen_sort_facts gen_chk gen_sc). Qed.
Print Assumptions C02_removed_base_quantity_is_reported.

(** non-vacuity: ExModel (well formed, cache built: C02b_nonvacuous) without its parameter 1, its variable 3, its
    data set 14: each is named by a remaining component, and the payloads are exactly the components naming it,
    in element order *)
Example C02_removed_base_nonvacuous :
  WF ex_model
  /\ is_base BPar 1%N ex_model /\ In (6%N, CFn 6%N [1%N]) (to_sort (remove_base BPar 1%N ex_model))
  /\ create_cache FnLib.fsem FnLib.fsemN gen_sort_facts (remove_base BPar 1%N ex_model)
     = Err (EMissing [(4%N, [1%N]); (2%N, [1%N]); (6%N, [1%N])])
  /\ is_base BVar 3%N ex_model /\ In (8%N, CFn 4%N [7%N; 3%N]) (to_sort (remove_base BVar 3%N ex_model))
  /\ create_cache FnLib.fsem FnLib.fsemN gen_sort_facts (remove_base BVar 3%N ex_model)
     = Err (EMissing [(4%N, [3%N]); (8%N, [3%N]); (15%N, [3%N]); (10%N, [3%N]); (11%N, [3%N])])
  /\ is_base BDat 14%N ex_model /\ In (15%N, CFn 2%N [14%N; 3%N]) (to_sort (remove_base BDat 14%N ex_model))
  /\ create_cache FnLib.fsem FnLib.fsemN gen_sort_facts (remove_base BDat 14%N ex_model)
     = Err (EMissing [(15%N, [14%N])]).
Proof.
  split; [exact ex_model_WF|].
  repeat split; vm_compute; try reflexivity; tauto.
Qed.
Print Assumptions C02_removed_base_nonvacuous.
