(** C13 -- Initial assignments resolve once at t=0; derived parameters are state-free.

    ONLY theorem statements (written out in full), each closed by [exact <lemma>] and followed by
    [Print Assumptions].  The statements are about the executable model of [Model._create_cache] /
    [Model._get_args] (../core/Cache.v, Query.v -- tied to the source by the correspondence check
    of harness/c13.py and by [C13_facts_pinned]) run with the sorter facts [gen_sort_facts]
    REGENERATED from /repo/src/mxlpy/model.py, for EVERY meaning [fsem]/[fsemN] of the Python
    functions, every model, state and time.  Vocabulary ([WF], [comp_holds], [OnlyParams]): Spec.v. *)
From Coq Require Import ZArith List Bool.
From MxlBase Require Import ListX.
From Core Require Import Sort GenSortFacts Model Cache CacheDraw Query GenQueryFacts GenCacheFacts.
From Core Require FnLib.
From CoreP Require Import Spec ProofsEnv ProofsTop ProofsUnique ExModel ProofsDraw.
Import ListNotations.

Theorem C13_facts_pinned : gen_query_facts = mkQueryFacts true true true true true.
Proof. vm_compute. reflexivity. Qed.
Print Assumptions C13_facts_pinned.

(** the body of [Model._create_cache] is statement for statement (ast-normalised) the one modelled
    in ../core/Cache.v: any edit of the cache construction (plain/assigned split, the Dependency
    list, the evaluation pass at time 0, the static/dynamic split, the coefficient tables,
    all_parameter_values) breaks this obligation *)
Theorem C13_cache_shape_pinned : gen_cache_shape = true.
Proof. vm_compute. reflexivity. Qed.
Print Assumptions C13_cache_shape_pinned.

(** C13-a: initial assignments are evaluated once, at time 0, from the declared initial state,
    after everything they name: there is ONE environment [e0] (time = 0, plain parameters and
    plain initial values as declared) in which every initial assignment, derived quantity,
    reaction rate and surrogate output is its function applied to the values its arguments have
    in [e0]; the initial conditions the cache reports (what simulations start from) are the
    variables' values in [e0], and every assignment-defined parameter is frozen at its value in [e0]. *)
Theorem C13_initial_assignments_resolved_once :
  forall fsem fsemN m c,
    WF m -> create_cache fsem fsemN gen_sort_facts m = Val c ->
    exists e0,
      lookup time_name e0 = Some 0%Z
      /\ (forall p v, In (p, Plain v) (m_par m) -> lookup p e0 = Some v)
      /\ (forall x v, In (x, Plain v) (m_var m) -> lookup x e0 = Some v)
      /\ (forall nm cmp, In (nm, cmp) (to_sort m) -> comp_holds fsem fsemN nm cmp e0)
      /\ keys (c_init c) = keys (m_var m)
      /\ (forall x, In x (keys (m_var m)) -> lookup x (c_init c) = lookup x e0)
      /\ (forall p f a, In (p, IA f a) (m_par m) -> lookup p (c_all_par c) = lookup p e0).
Proof. exact (initial_assignments_resolved_once gen_sort_facts gen_sc). Qed.
Print Assumptions C13_initial_assignments_resolved_once.

(** C13-b: reported as derived parameter  <=>  depends, through any chain, only on parameters *)
Theorem C13_classification :
  forall fsem fsemN m c d,
    WF m -> create_cache fsem fsemN gen_sort_facts m = Val c ->
    (In d (derived_parameter_names m c) <-> In d (keys (m_der m)) /\ OnlyParams m d).
Proof. exact (classification_top gen_sort_facts gen_sc). Qed.
Print Assumptions C13_classification.

(** C13-c: derived parameters and assignment-defined parameters keep their value for every
    state and time (and that value is the cached one) *)
Theorem C13_frozen :
  forall fsem fsemN m c vars t e vars' t' e' k,
    WF m -> create_cache fsem fsemN gen_sort_facts m = Val c ->
    incl (keys vars) (keys (m_var m)) -> incl (keys vars') (keys (m_var m)) ->
    get_args_raw fsem fsemN m c vars t = Val e ->
    get_args_raw fsem fsemN m c vars' t' = Val e' ->
    In k (derived_parameter_names m c) \/ (exists f a, In (k, IA f a) (m_par m)) ->
    lookup k e = lookup k e' /\ lookup k e = lookup k (c_all_par c).
Proof. exact (frozen_top gen_sort_facts gen_sc). Qed.
Print Assumptions C13_frozen.

(** the environment [e0] of C13-a is unique: for an acyclic graph, two environments that agree on
    the plain parameters, plain initial values, data sets and time, and in both of which every
    initial assignment, derived quantity, rate and surrogate is its function applied to the values
    its arguments have, agree on every name of the model -- "computed once, after everything they
    name" leaves no freedom *)
Theorem C13_initial_env_unique :
  forall fsem fsemN m (e1 e2 : env),
    Acyclic (base_available m) (map dep_of (to_sort m)) ->
    (forall k, In k (base_available m) -> lookup k e1 = lookup k e2) ->
    (forall nm cmp, In (nm, cmp) (to_sort m) ->
        comp_holds fsem fsemN nm cmp e1 /\ comp_holds fsem fsemN nm cmp e2) ->
    forall k, In k (base_available m) \/ In k (flat_map (fun kc => comp_outs (fst kc) (snd kc)) (to_sort m)) ->
              lookup k e1 = lookup k e2.
Proof. exact initial_env_unique. Qed.
Print Assumptions C13_initial_env_unique.

(** ---- closing round: assignment functions that are not pure (seeded change C13-8) -------------------- *)
(** Vocabulary (ProofsDraw.v / ../core/CacheDraw.v): [imp] = the assignments whose function draws; [draw k] = what the
    k-th draw of one resolution adds to the function's pure meaning; [create_cache_d .. false] = [_create_cache] as
    shipped, threading the log of draws through the time-zero pass; [plus_draw fsem z] = the meaning of a function whose
    evaluation drew [z]; [ia_names m] = the assignment-defined variables and parameters; [cnt] = number of occurrences. *)

(** [initial_conditions] is read from the values of the ONE time-zero pass (regenerated from the source; the recognised
    alternative [InitAgain] is the seeded shape of [C13_evaluated_again_refuted]) *)
Theorem C13_init_source_pinned : gen_init_source = InitFromPass.
Proof. vm_compute. reflexivity. Qed.
Print Assumptions C13_init_source_pinned.

(** "computed once": in one resolution of the model every drawing assignment is evaluated exactly once -- the log of
    draws holds each of them once, nothing else, no name twice -- for every model, every set of drawing assignments
    and every stream of draws *)
Theorem C13_drawing_assignment_evaluated_once :
  forall fsem fsemN imp draw m c log,
    WF m -> create_cache_d fsem fsemN imp draw false gen_sort_facts m = Val (c, log) ->
    (forall n, In n log -> In n imp /\ In n (keys (to_sort m)))
    /\ (forall n, In n imp -> In n (ia_names m) -> cnt n log = 1%nat)
    /\ NoDup log.
Proof. exact (fun fsem fsemN imp draw => drawn_once fsem fsemN imp draw gen_sort_facts gen_sc). Qed.
Print Assumptions C13_drawing_assignment_evaluated_once.

(** ... and the number of that one evaluation is THE value: there is one environment [e0] at time zero (plain values as
    declared) in which a drawing assignment is its polynomial of the values its arguments have in [e0] plus the draw it
    made -- the draw of its own position [k] in the log --, every other assignment, derived quantity, rate and surrogate
    output is its pure function of the values in [e0] (so whatever names a drawn value was resolved from that number),
    and the initial conditions the cache reports and every assignment-defined parameter are the values in [e0].
    [C13_initial_assignments_resolved_once] is the case [imp = []]. *)
Theorem C13_drawn_values_resolved_once :
  forall fsem fsemN imp draw m c log,
    WF m -> create_cache_d fsem fsemN imp draw false gen_sort_facts m = Val (c, log) ->
    exists e0,
      lookup time_name e0 = Some 0%Z
      /\ (forall p v, In (p, Plain v) (m_par m) -> lookup p e0 = Some v)
      /\ (forall x v, In (x, Plain v) (m_var m) -> lookup x e0 = Some v)
      /\ (forall nm cmp, In (nm, cmp) (to_sort m) ->
            if memN nm imp && is_fn_comp cmp
            then exists k, nth_error log k = Some nm /\ comp_holds (plus_draw fsem (draw k)) fsemN nm cmp e0
            else comp_holds fsem fsemN nm cmp e0)
      /\ keys (c_init c) = keys (m_var m)
      /\ (forall x, In x (keys (m_var m)) -> lookup x (c_init c) = lookup x e0)
      /\ (forall p f a, In (p, IA f a) (m_par m) -> lookup p (c_all_par c) = lookup p e0).
Proof. exact (fun fsem fsemN imp draw => drawn_resolved_once fsem fsemN imp draw gen_sort_facts gen_sc). Qed.
Print Assumptions C13_drawn_values_resolved_once.

(** the stateful model is the validated pure one when nothing is drawn: same cache, both ways *)
Theorem C13_pure_stream_is_create_cache :
  forall fsem fsemN imp draw F m,
    (forall k, draw k = 0%Z) ->
    (forall c log, create_cache_d fsem fsemN imp draw false F m = Val (c, log) -> create_cache fsem fsemN F m = Val c)
    /\ (forall c, create_cache fsem fsemN F m = Val c ->
          exists log, create_cache_d fsem fsemN imp draw false F m = Val (c, log)).
Proof. exact pure_stream_is_create_cache. Qed.
Print Assumptions C13_pure_stream_is_create_cache.

(** regression (seeded change C13-8: [initial_conditions] rebuilt as "plain value as declared, else
    init.calculate(dependent)"): the variable assignment 4 of [ex_draw_model] is evaluated twice in one resolution and the
    start value (12) is not the number (11) the assigned parameter 2 was resolved from; with a stream that draws nothing
    both shapes build the same cache, which is [create_cache]'s -- why no pure function shows the change *)
Theorem C13_evaluated_again_refuted :
  exists m imp draw c log c' log',
    WF m
    /\ create_cache_d FnLib.fsem FnLib.fsemN imp draw false gen_sort_facts m = Val (c, log)
    /\ create_cache_d FnLib.fsem FnLib.fsemN imp draw true gen_sort_facts m = Val (c', log')
    /\ cnt 4%N log = 1%nat /\ cnt 4%N log' = 2%nat
    /\ lookup 4%N (c_init c) = Some 11%Z /\ lookup 2%N (c_all_par c) = Some 11%Z
    /\ lookup 4%N (c_init c') = Some 12%Z /\ lookup 2%N (c_all_par c') = Some 11%Z
    /\ (exists c0, create_cache_d FnLib.fsem FnLib.fsemN imp (fun _ => 0%Z) false gen_sort_facts m = Val (c0, log)
                   /\ create_cache_d FnLib.fsem FnLib.fsemN imp (fun _ => 0%Z) true gen_sort_facts m = Val (c0, log')
                   /\ create_cache FnLib.fsem FnLib.fsemN gen_sort_facts m = Val c0).
Proof. exact evaluated_again_refuted. Qed.
Print Assumptions C13_evaluated_again_refuted.

(** non-vacuity: [ex_draw_model] (variable 4 := scale, drawing; parameter 2 := variable 4; derived parameter 6 behind it)
    is well formed; with the stream 1, 2, 3, ... its cache is built, the one draw is logged, y = y_total = 11 *)
Example C13_drawing_nonvacuous :
  WF ex_draw_model /\ In 4%N (ia_names ex_draw_model)
  /\ exists c, create_cache_d FnLib.fsem FnLib.fsemN [4%N] count_up false gen_sort_facts ex_draw_model = Val (c, [4%N])
       /\ c_init c = [(3%N, 0%Z); (4%N, 11%Z)]
       /\ c_all_par c = [(1%N, 10%Z); (2%N, 11%Z); (6%N, 21%Z)].
Proof. split; [exact ex_draw_model_WF|]. split; [vm_compute; tauto|]. exact ex_draw_runs. Qed.
Print Assumptions C13_drawing_nonvacuous.

(** "every other derived quantity, flux and computed coefficient is recomputed from the state
    supplied" is C01_args_fully_resolved / C01_rhs_is_stoichiometry_times_rates (PropsC01.v). *)

(** non-vacuity: the model of ExModel.v (assignment-defined parameter 2 and variable 4, derived
    chain 6 -> 7 -> 8, derived 15 reading a data set, computed coefficients, 2-output surrogate)
    is well formed, its cache is built, 6 and 7 are the derived parameters, 8 and 15 the derived
    variables, and between two states the frozen names keep their values while 8 is recomputed *)
Example C13_nonvacuous :
  WF ex_model /\
  exists c, create_cache FnLib.fsem FnLib.fsemN gen_sort_facts ex_model = Val c
    /\ c_init c = [(3%N, 5%Z); (4%N, 10%Z); (5%N, 1%Z)]
    /\ c_all_par c = [(1%N, 2%Z); (2%N, 4%Z); (6%N, 4%Z); (7%N, 8%Z)]
    /\ derived_parameter_names ex_model c = [6; 7]%N
    /\ derived_variable_names ex_model c = [8; 15]%N
    /\ exists e e',
         get_args_raw FnLib.fsem FnLib.fsemN ex_model c (c_init c) 0%Z = Val e
         /\ get_args_raw FnLib.fsem FnLib.fsemN ex_model c [(3%N, 1%Z); (4%N, 2%Z); (5%N, 3%Z)] 3%Z = Val e'
         /\ lookup 7%N e = Some 8%Z /\ lookup 7%N e' = Some 8%Z
         /\ lookup 8%N e = Some 40%Z /\ lookup 8%N e' = Some 8%Z.
Proof.
  split; [exact ex_model_WF|].
  eexists. split; [vm_compute; reflexivity|].
  split; [vm_compute; reflexivity|]. split; [vm_compute; reflexivity|].
  split; [vm_compute; reflexivity|]. split; [vm_compute; reflexivity|].
  eexists. eexists. split; [vm_compute; reflexivity|]. split; [vm_compute; reflexivity|].
  repeat split; vm_compute; reflexivity.
Qed.
Print Assumptions C13_nonvacuous.
