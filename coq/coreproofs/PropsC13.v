(** C13 -- Initial assignments resolve once at t=0; derived parameters are state-free.

    ONLY theorem statements (written out in full), each closed by [exact <lemma>] and followed by
    [Print Assumptions].  The statements are about the executable model of [Model._create_cache] /
    [Model._get_args] (../core/Cache.v, Query.v -- tied to the source by the correspondence check
    of harness/c13.py and by [C13_facts_pinned]) run with the sorter facts [gen_sort_facts]
    REGENERATED from /repo/src/mxlpy/model.py, for EVERY meaning [fsem]/[fsemN] of the Python
    functions, every model, state and time.  Vocabulary ([WF], [comp_holds], [OnlyParams]): Spec.v. *)
From Coq Require Import ZArith List Bool.
From MxlBase Require Import ListX.
From Core Require Import Sort GenSortFacts Model Cache Query GenQueryFacts GenCacheFacts.
From Core Require FnLib.
From CoreP Require Import Spec ProofsTop ProofsUnique ExModel.
Import ListNotations.

Theorem C13_facts_pinned : gen_query_facts = mkQueryFacts true true true true true.
Proof. vm_compute. reflexivity. Qed.
Print Assumptions C13_facts_pinned.

(** the body of [Model._create_cache] is statement for statement (ast-normalised) the one modelled
    in ../core/Cache.v: any edit of the cache construction (plain/assigned split, the Dependency
    list, the evaluation pass at time 0, the static/dynamic split, the coefficient tables,
    all_parameter_values) breaks this obligation *)
Theorem C13_cache_shape_pinned : gen_cache_shape = true.
Proof. vm_compute. reflexivity. Qed.
Print Assumptions C13_cache_shape_pinned.

(** C13-a: initial assignments are evaluated once, at time 0, from the declared initial state,
    after everything they name: there is ONE environment [e0] (time = 0, plain parameters and
    plain initial values as declared) in which every initial assignment, derived quantity,
    reaction rate and surrogate output is its function applied to the values its arguments have
    in [e0]; the initial conditions the cache reports (what simulations start from) are the
    variables' values in [e0], and every assignment-defined parameter is frozen at its value in [e0]. *)
Theorem C13_initial_assignments_resolved_once :
  forall fsem fsemN m c,
    WF m -> create_cache fsem fsemN gen_sort_facts m = Val c ->
    exists e0,
      lookup time_name e0 = Some 0%Z
      /\ (forall p v, In (p, Plain v) (m_par m) -> lookup p e0 = Some v)
      /\ (forall x v, In (x, Plain v) (m_var m) -> lookup x e0 = Some v)
      /\ (forall nm cmp, In (nm, cmp) (to_sort m) -> comp_holds fsem fsemN nm cmp e0)
      /\ keys (c_init c) = keys (m_var m)
      /\ (forall x, In x (keys (m_var m)) -> lookup x (c_init c) = lookup x e0)
      /\ (forall p f a, In (p, IA f a) (m_par m) -> lookup p (c_all_par c) = lookup p e0).
Proof. exact (initial_assignments_resolved_once gen_sort_facts gen_sc). Qed.
Print Assumptions C13_initial_assignments_resolved_once.

(** C13-b: reported as derived parameter  <=>  depends, through any chain, only on parameters *)
Theorem C13_classification :
  forall fsem fsemN m c d,
    WF m -> create_cache fsem fsemN gen_sort_facts m = Val c ->
    (In d (derived_parameter_names m c) <-> In d (keys (m_der m)) /\ OnlyParams m d).
Proof. exact (classification_top gen_sort_facts gen_sc). Qed.
Print Assumptions C13_classification.

(** C13-c: derived parameters and assignment-defined parameters keep their value for every
    state and time (and that value is the cached one) *)
Theorem C13_frozen :
  forall fsem fsemN m c vars t e vars' t' e' k,
    WF m -> create_cache fsem fsemN gen_sort_facts m = Val c ->
    incl (keys vars) (keys (m_var m)) -> incl (keys vars') (keys (m_var m)) ->
    get_args_raw fsem fsemN m c vars t = Val e ->
    get_args_raw fsem fsemN m c vars' t' = Val e' ->
    In k (derived_parameter_names m c) \/ (exists f a, In (k, IA f a) (m_par m)) ->
    lookup k e = lookup k e' /\ lookup k e = lookup k (c_all_par c).
Proof. exact (frozen_top gen_sort_facts gen_sc). Qed.
Print Assumptions C13_frozen.

(** the environment [e0] of C13-a is unique: for an acyclic graph, two environments that agree on
    the plain parameters, plain initial values, data sets and time, and in both of which every
    initial assignment, derived quantity, rate and surrogate is its function applied to the values
    its arguments have, agree on every name of the model -- "computed once, after everything they
    name" leaves no freedom *)
Theorem C13_initial_env_unique :
  forall fsem fsemN m (e1 e2 : env),
    Acyclic (base_available m) (map dep_of (to_sort m)) ->
    (forall k, In k (base_available m) -> lookup k e1 = lookup k e2) ->
    (forall nm cmp, In (nm, cmp) (to_sort m) ->
        comp_holds fsem fsemN nm cmp e1 /\ comp_holds fsem fsemN nm cmp e2) ->
    forall k, In k (base_available m) \/ In k (flat_map (fun kc => comp_outs (fst kc) (snd kc)) (to_sort m)) ->
              lookup k e1 = lookup k e2.
Proof. exact initial_env_unique. Qed.
Print Assumptions C13_initial_env_unique.

(** "every other derived quantity, flux and computed coefficient is recomputed from the state
    supplied" is C01_args_fully_resolved / C01_rhs_is_stoichiometry_times_rates (PropsC01.v). *)

(** non-vacuity: the model of ExModel.v (assignment-defined parameter 2 and variable 4, derived
    chain 6 -> 7 -> 8, derived 15 reading a data set, computed coefficients, 2-output surrogate)
    is well formed, its cache is built, 6 and 7 are the derived parameters, 8 and 15 the derived
    variables, and between two states the frozen names keep their values while 8 is recomputed *)
Example C13_nonvacuous :
  WF ex_model /\
  exists c, create_cache FnLib.fsem FnLib.fsemN gen_sort_facts ex_model = Val c
    /\ c_init c = [(3%N, 5%Z); (4%N, 10%Z); (5%N, 1%Z)]
    /\ c_all_par c = [(1%N, 2%Z); (2%N, 4%Z); (6%N, 4%Z); (7%N, 8%Z)]
    /\ derived_parameter_names ex_model c = [6; 7]%N
    /\ derived_variable_names ex_model c = [8; 15]%N
    /\ exists e e',
         get_args_raw FnLib.fsem FnLib.fsemN ex_model c (c_init c) 0%Z = Val e
         /\ get_args_raw FnLib.fsem FnLib.fsemN ex_model c [(3%N, 1%Z); (4%N, 2%Z); (5%N, 3%Z)] 3%Z = Val e'
         /\ lookup 7%N e = Some 8%Z /\ lookup 7%N e' = Some 8%Z
         /\ lookup 8%N e = Some 40%Z /\ lookup 8%N e' = Some 8%Z.
Proof.
  split; [exact ex_model_WF|].
  eexists. split; [vm_compute; reflexivity|].
  split; [vm_compute; reflexivity|]. split; [vm_compute; reflexivity|].
  split; [vm_compute; reflexivity|]. split; [vm_compute; reflexivity|].
  eexists. eexists. split; [vm_compute; reflexivity|]. split; [vm_compute; reflexivity|].
  repeat split; vm_compute; reflexivity.
Qed.
Print Assumptions C13_nonvacuous.
