From Core Require Import GenQueryFacts.
Theorem C13_facts_pinned : gen_query_facts = mkQueryFacts true true true.
Proof. vm_compute. reflexivity. Qed.
Print Assumptions C13_facts_pinned.
