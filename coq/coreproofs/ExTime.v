(** A concrete well-formed model in which ONLY a surrogate reads the time (no derived quantity, reaction
    or coefficient names it): 2-output surrogate 11 : (x3, time) -> (12, 13) = (x3 + t, x3 * t) with flux 12
    on variable 3; derived 6 = out13 * p1 downstream of it; reaction 9 = derived 6 acting on variable 4.
    Used by the non-vacuity example of the time-course theorems (plateau rows must differ). *)
From Coq Require Import ZArith List Bool Lia.
From MxlBase Require Import ListX.
From Core Require Import Sort GenSortFacts FnLib Model Cache Query.
From CoreP Require Import Spec WFDec.
Import ListNotations.
Open Scope N_scope.

Definition ex_time_model : model := mkModel
  (* parameters *)   [(1, Plain 2%Z)]
  (* variables  *)   [(3, Plain 1%Z); (4, Plain 0%Z)]
  (* derived    *)   [(6, mkDer 4 [13; 1])]
  (* reactions  *)   [(9, mkRxn 0 [6] [(4, CStat 1%Z)])]
  (* surrogates *)   [(11, mkSur 1 [3; 0] [12; 13] [(12, [(3, CStat (-1)%Z)])])]
  (* readouts   *)   []
  (* data       *)   [].

Lemma ex_time_model_WF : WF ex_time_model.
Proof. apply wf_b_sound. vm_compute. reflexivity. Qed.
