(** C01_static_partition: every (flux, variable, coefficient) entry of the model lands in exactly
    one of the two coefficient tables of the cache -- the static table (numeric coefficients and
    computed coefficients all of whose arguments are frozen, stored as their value) or the dynamic
    table (the computed coefficient itself, evaluated at every query). *)
From Coq Require Import ZArith List Bool Lia Permutation.
From MxlBase Require Import ListX.
From Core Require Import Sort SortProofs Model Cache Query.
From CoreP Require Import Spec ProofsEnv ProofsEval ProofsNames ProofsSplit ProofsStoich ProofsCache ProofsTop.
Import ListNotations.

Lemma lookup_flat_entries {A} (g : name * coef -> list (name * A)) x :
  (forall en, fst en <> x -> g en = []) ->
  forall ent rn cf, NoDup (keys ent) -> In (x, cf) ent -> lookup rn (flat_map g ent) = lookup rn (g (x, cf)).
Proof.
  intros Hother. induction ent as [|en rest IH]; intros rn cf Hnd Hin; [destruct Hin|].
  cbn [keys map] in Hnd. inversion Hnd as [|? ? Hni Hnd']; subst. cbn [flat_map].
  destruct Hin as [->|Hin].
  - assert (E : flat_map g rest = []).
    { clear IH Hnd Hnd'. induction rest as [|en' r IHr]; [reflexivity|]. cbn [flat_map].
      rewrite Hother.
      - apply IHr. intro H. apply Hni. right. exact H.
      - intro E. apply Hni. left. exact E. }
    rewrite E, app_nil_r. reflexivity.
  - rewrite Hother; [apply IH; assumption|].
    intro E. apply Hni. rewrite E. apply (in_map fst) in Hin. exact Hin.
Qed.

Lemma keys_flat_map_in {A B} (h : B -> list (name * A)) l k :
  In k (keys (flat_map h l)) -> exists b, In b l /\ In k (keys (h b)).
Proof.
  induction l as [|b r IH]; [intros []|]. cbn [flat_map]. rewrite keys_app, in_app_iff.
  intros [H|H]; [exists b; split; [left; reflexivity|exact H]|].
  destruct (IH H) as [b' [Hb Hk]]. exists b'. split; [right; exact Hb|exact Hk].
Qed.

Lemma lookup_flat_rows {A} (h : name * list (name * coef) -> list (name * A)) :
  (forall re k, In k (keys (h re)) -> k = fst re) ->
  forall rs rn ent, NoDup (keys rs) -> In (rn, ent) rs -> lookup rn (flat_map h rs) = lookup rn (h (rn, ent)).
Proof.
  intros Hkeys. induction rs as [|re rest IH]; intros rn ent Hnd Hin; [destruct Hin|].
  cbn [keys map] in Hnd. inversion Hnd as [|? ? Hni Hnd']; subst. cbn [flat_map]. rewrite lookup_app.
  destruct Hin as [->|Hin].
  - destruct (lookup rn (h (rn, ent))) as [v|] eqn:E; [reflexivity|].
    apply lookup_None. intro H.
    apply keys_flat_map_in in H. destruct H as [re' [Hre Hk]]. apply Hkeys in Hk. apply Hni.
    cbn [fst]. rewrite Hk. apply (in_map fst). exact Hre.
  - assert (E : lookup rn (h re) = None).
    { apply lookup_None. intro H. apply Hkeys in H. apply Hni. rewrite <- H. apply (in_map fst) in Hin. exact Hin. }
    rewrite E. apply IH; assumption.
Qed.

Section Partition.
  Variable F : sort_facts.
  Hypothesis Hsc : f_shortcut F <> ScAppendBreak.
  Variable fsem : fnid -> list Z -> option Z.
  Variable fsemN : fnid -> list Z -> option (list Z).

  (** "all arguments frozen": parameters or derived parameters *)
  Definition frozen_name (m : model) (k : name) : Prop :=
    In k (keys (m_par m)) \/ (In k (keys (m_der m)) /\ OnlyParams m k).

  Lemma static_partition m c rn ent x cf :
    WF m -> create_cache fsem fsemN F m = Val c ->
    In (rn, ent) (all_rxn_entries m) -> In (x, cf) ent ->
    match cf with
    | CStat q => st_coef c x rn = Some q /\ dy_coef c x rn = None
    | CDyn f args =>
      ((forall a, In a args -> frozen_name m a)
       /\ dy_coef c x rn = None
       /\ exists v, st_coef c x rn = Some v
                    /\ forall vars t e, incl (keys vars) (keys (m_var m)) ->
                                        get_args_raw fsem fsemN m c vars t = Val e ->
                                        coef_val fsem cf e = Some v)
      \/ (~ (forall a, In a args -> frozen_name m a)
          /\ st_coef c x rn = None /\ dy_coef c x rn = Some (f, args))
    end.
  Proof.
    intros HWF Hc Hre Hen.
    destruct (create_cache_inv _ _ _ _ _ Hc) as
        (order & dependent & s & d & a & st & dy & init & all_par & Hsort & Heval & Hsplit & Hadd & Hinit & Hfill & ->).
    destruct (order_cs F Hsc m order Hsort) as (cs & Hord & Hperm & Htopo).
    destruct (add_rxns_rows fsem a dependent (all_rxn_entries m) ([], []) (st, dy) Hadd
                            (nodup_keys_all_rxn_entries m HWF)) as (_ & _ & Hok & Hrows).
    { intros rn' ent' Hin. apply (wf_st_keys m HWF rn' ent' Hin). }
    destruct (Hrows x) as [R1 R2].
    { intros rn' _. split; intros []. }
    cbn [fst snd] in R1, R2. rewrite row_of_nil in R1. rewrite row_of_nil in R2. cbn [app] in R1, R2.
    assert (S1 : st_coef (mkCache order (keys (m_var m)) d (plain_of (m_par m)) all_par st dy init) x rn
                 = lookup rn (st_entry fsem a dependent x rn (x, cf))).
    { transitivity (lookup rn (row_of x st)).
      { unfold st_coef, row_of. cbn [c_stoich]. destruct (lookup x st); reflexivity. }
      rewrite R1. unfold st_rows.
      rewrite (lookup_flat_rows (fun re => st_entries fsem a dependent x (fst re) (snd re))) with (ent := ent).
      - cbn [fst snd]. unfold st_entries. apply lookup_flat_entries.
        + intros en Hne. apply st_entry_other. exact Hne.
        + apply (wf_st_keys m HWF rn ent Hre).
        + exact Hen.
      - intros re k Hk. eapply st_entries_keys. exact Hk.
      - apply nodup_keys_all_rxn_entries. exact HWF.
      - exact Hre. }
    assert (S2 : dy_coef (mkCache order (keys (m_var m)) d (plain_of (m_par m)) all_par st dy init) x rn
                 = lookup rn (dy_entry a x rn (x, cf))).
    { transitivity (lookup rn (row_of x dy)).
      { unfold dy_coef, row_of. cbn [c_dyn_stoich]. destruct (lookup x dy); reflexivity. }
      rewrite R2. unfold dy_rows.
      rewrite (lookup_flat_rows (fun re => dy_entries a x (fst re) (snd re))) with (ent := ent).
      - cbn [fst snd]. unfold dy_entries. apply lookup_flat_entries.
        + intros en Hne. apply dy_entry_other. exact Hne.
        + apply (wf_st_keys m HWF rn ent Hre).
        + exact Hen.
      - intros re k Hk. eapply dy_entries_keys. exact Hk.
      - apply nodup_keys_all_rxn_entries. exact HWF.
      - exact Hre. }
    rewrite S1, S2. unfold st_entry, dy_entry. cbn [fst snd]. rewrite N.eqb_refl.
    destruct cf as [q|f args].
    - cbn [lookup]. rewrite N.eqb_refl. split; reflexivity.
    - assert (Hst : static_args a args = true <-> forall k, In k args -> frozen_name m k).
      { unfold static_args. rewrite forallb_forall. split.
        - intros H k Hk. apply (a_dom fsem fsemN m order cs dependent s d a all_par HWF Hord Hperm Htopo Heval Hsplit Hfill k).
          apply memN_In. apply H. exact Hk.
        - intros H k Hk. apply memN_In.
          apply (a_dom fsem fsemN m order cs dependent s d a all_par HWF Hord Hperm Htopo Heval Hsplit Hfill k).
          apply H. exact Hk. }
      destruct (static_args a args) eqn:Es.
      + left. split; [apply Hst; reflexivity|]. split; [reflexivity|].
        destruct (Hok rn ent x f args Hre Hen Es) as [v Ev]. rewrite Ev. exists v.
        split; [cbn [lookup]; rewrite N.eqb_refl; reflexivity|].
        intros vars t e Hvars Hq.
        destruct (get_args_raw_inv _ _ _ _ _ _ _ Hq) as [e1 [He1 ->]]. cbn [c_dyn_order c_all_par] in He1.
        apply (static_coef_val fsem a dependent (popped m e1)); [|exact Es|exact Ev].
        apply (popped_allpar fsem fsemN m order cs dependent s d a all_par HWF Hord Hperm Htopo Heval Hsplit Hfill
                             vars t e1 Hvars He1).
      + right. split; [intro H; apply Hst in H; discriminate|]. split; [reflexivity|].
        cbn [lookup]. rewrite N.eqb_refl. reflexivity.
  Qed.
End Partition.
