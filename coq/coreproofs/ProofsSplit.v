(** [fill_all_par] and [split_order]: what the frozen table holds, and the static/dynamic split. *)
From Coq Require Import ZArith List Bool Lia Permutation.
From MxlBase Require Import ListX.
From Core Require Import Sort Model Cache Query.
From CoreP Require Import Spec ProofsEnv ProofsEval ProofsNames.
Import ListNotations.

Lemma fill_spec m dep so : forall acc r,
  fill_all_par m dep so acc = Val r ->
  (forall k, In k so -> has k (m_var m) = false -> lookup k r = lookup k dep /\ has k r = true)
  /\ (forall k, (~ In k so \/ has k (m_var m) = true) -> lookup k r = lookup k acc)
  /\ (NoDup (keys acc) -> NoDup (keys r))
  /\ (forall k, has k r = true -> has k acc = true \/ (In k so /\ has k (m_var m) = false)).
Proof.
  induction so as [|nm rest IH]; intros acc r H; cbn [fill_all_par] in H.
  - injection H as <-. repeat split.
    + destruct H.
    + destruct H.
    + intro H. exact H.
    + intros k Hk. left. exact Hk.
  - destruct (has nm (m_var m)) eqn:Ev.
    + destruct (IH acc r H) as (I1 & I2 & I3 & I4). repeat split.
      * destruct H0 as [<-|Hin]; [congruence|]. apply (I1 k Hin H1).
      * destruct H0 as [<-|Hin]; [congruence|]. apply (I1 k Hin H1).
      * intros k [Hk|Hk]; apply I2; [left; intro Hin; apply Hk; right; exact Hin|right; exact Hk].
      * exact I3.
      * intros k Hk. destruct (I4 k Hk) as [Ha|[Ha Hb]]; [left; exact Ha|right; split; [right; exact Ha|exact Hb]].
    + destruct (has nm (m_par m) || has nm (m_der m)); [|discriminate].
      destruct (lookup nm dep) as [v|] eqn:El; [|discriminate].
      destruct (IH (dset nm v acc) r H) as (I1 & I2 & I3 & I4).
      assert (Hhead : ~ In nm rest -> lookup nm r = lookup nm dep /\ has nm r = true).
      { intro Hni. assert (E : lookup nm r = Some v).
        { rewrite (I2 nm (or_introl Hni)). apply lookup_dset_eq. }
        split; [rewrite E, El; reflexivity|unfold has; rewrite E; reflexivity]. }
      repeat split.
      * destruct (in_dec N.eq_dec k rest) as [Hin|Hni]; [apply (I1 k Hin H1)|].
        destruct H0 as [<-|Hin]; [apply (Hhead Hni)|contradiction].
      * destruct (in_dec N.eq_dec k rest) as [Hin|Hni]; [apply (I1 k Hin H1)|].
        destruct H0 as [<-|Hin]; [apply (Hhead Hni)|contradiction].
      * intros k Hk.
        assert (Hne : k <> nm).
        { destruct Hk as [Hk|Hk]; [intros ->; apply Hk; left; reflexivity|intros ->; congruence]. }
        rewrite I2.
        -- apply lookup_dset_ne. exact Hne.
        -- destruct Hk as [Hk|Hk]; [left; intro Hin; apply Hk; right; exact Hin|right; exact Hk].
      * intro Hnd. apply I3. apply NoDup_keys_dset. exact Hnd.
      * intros k Hk. destruct (I4 k Hk) as [Ha|[Ha Hb]].
        -- apply has_In in Ha. apply keys_dset_In in Ha. destruct Ha as [->|Ha].
           ++ right. split; [left; reflexivity|exact Ev].
           ++ left. apply has_In. exact Ha.
        -- right. split; [right; exact Ha|exact Hb].
Qed.

(** static/dynamic split: structure *)
Definition is_flux m k := has k (m_rxn m) || has k (m_sur m).
Definition is_varpar m k := has k (m_var m) || has k (m_par m).

Lemma split_basic m : forall order ap s d a,
  split_order m order ap = Val (s, d, a) ->
  sublist d order
  /\ Permutation (s ++ d) order
  /\ incl ap a
  /\ (forall k, In k d -> is_flux m k = true \/ is_varpar m k = false)
  /\ (forall k, In k s -> is_flux m k = false /\
        (is_varpar m k = true \/
         (In k a /\ exists der, lookup k (m_der m) = Some der /\ forall i, In i (d_args der) -> In i a)))
  /\ (forall k, In k a -> In k ap \/ (In k s /\ is_flux m k = false /\ is_varpar m k = false /\ In k (keys (m_der m)))).
Proof.
  induction order as [|nm rest IH]; intros ap s d a H; cbn [split_order] in H.
  - injection H as <- <- <-.
    split; [constructor|]. split; [constructor|]. split; [apply incl_refl|].
    split; [intros ? []|]. split; [intros ? []|]. intros k Hk. left. exact Hk.
  - fold (is_flux m nm) in H. fold (is_varpar m nm) in H.
    destruct (is_flux m nm) eqn:E1; [|destruct (is_varpar m nm) eqn:E2].
    + destruct (split_order m rest ap) as [[[s' d'] a']|] eqn:E; [|discriminate].
      cbn [bind] in H. injection H as <- <- <-.
      destruct (IH _ _ _ _ E) as (I1 & I2 & I3 & I4 & I5 & I6). split; [|split; [|split; [|split; [|split]]]].
      * apply sl_keep. exact I1.
      * eapply Permutation_trans; [apply Permutation_sym, Permutation_middle|]. constructor. exact I2.
      * exact I3.
      * intros k [<-|Hk]; [left; exact E1|apply I4; exact Hk].
      * exact I5.
      * exact I6.
    + destruct (split_order m rest ap) as [[[s' d'] a']|] eqn:E; [|discriminate].
      cbn [bind] in H. injection H as <- <- <-.
      destruct (IH _ _ _ _ E) as (I1 & I2 & I3 & I4 & I5 & I6). split; [|split; [|split; [|split; [|split]]]].
      * apply sl_skip. exact I1.
      * cbn [app]. constructor. exact I2.
      * exact I3.
      * exact I4.
      * intros k [<-|Hk]; [split; [exact E1|left; exact E2]|apply I5; exact Hk].
      * intros k Hk. destruct (I6 k Hk) as [Ha|[Ha Hb]]; [left; exact Ha|right; split; [right; exact Ha|exact Hb]].
    + destruct (lookup nm (m_der m)) as [der|] eqn:El; [|discriminate].
      destruct (forallb (fun i => memN i ap) (d_args der)) eqn:Ef.
      * destruct (split_order m rest (nm :: ap)) as [[[s' d'] a']|] eqn:E; [|discriminate].
        cbn [bind] in H. injection H as <- <- <-.
        destruct (IH _ _ _ _ E) as (I1 & I2 & I3 & I4 & I5 & I6). split; [|split; [|split; [|split; [|split]]]].
        -- apply sl_skip. exact I1.
        -- cbn [app]. constructor. exact I2.
        -- intros k Hk. apply I3. right. exact Hk.
        -- exact I4.
        -- intros k [<-|Hk]; [|apply I5; exact Hk]. split; [exact E1|right]. split.
           ++ apply I3. left. reflexivity.
           ++ exists der. split; [exact El|]. intros i Hi. apply I3. right.
              rewrite forallb_forall in Ef. apply memN_In. apply Ef. exact Hi.
        -- intros k Hk. destruct (I6 k Hk) as [[<-|Ha]|[Ha Hb]].
           ++ right. split; [left; reflexivity|]. split; [exact E1|]. split; [exact E2|].
              eapply lookup_In_keys. exact El.
           ++ left. exact Ha.
           ++ right. split; [right; exact Ha|exact Hb].
      * destruct (split_order m rest ap) as [[[s' d'] a']|] eqn:E; [|discriminate].
        cbn [bind] in H. injection H as <- <- <-.
        destruct (IH _ _ _ _ E) as (I1 & I2 & I3 & I4 & I5 & I6). split; [|split; [|split; [|split; [|split]]]].
        -- apply sl_keep. exact I1.
        -- eapply Permutation_trans; [apply Permutation_sym, Permutation_middle|]. constructor. exact I2.
        -- exact I3.
        -- intros k [<-|Hk]; [right; exact E2|apply I4; exact Hk].
        -- exact I5.
        -- exact I6.
Qed.

(** everything ever put into all_parameter_names depends only on parameters *)
Lemma split_allpar_OP m : forall order ap s d a,
  split_order m order ap = Val (s, d, a) ->
  (forall k, In k ap -> OnlyParams m k) -> forall k, In k a -> OnlyParams m k.
Proof.
  induction order as [|nm rest IH]; intros ap s d a H Hap; cbn [split_order] in H.
  - injection H as <- <- <-. exact Hap.
  - destruct (has nm (m_rxn m) || has nm (m_sur m)); [|destruct (has nm (m_var m) || has nm (m_par m))].
    + destruct (split_order m rest ap) as [[[s' d'] a']|] eqn:E; [|discriminate].
      cbn [bind] in H. injection H as <- <- <-. eapply IH; eassumption.
    + destruct (split_order m rest ap) as [[[s' d'] a']|] eqn:E; [|discriminate].
      cbn [bind] in H. injection H as <- <- <-. eapply IH; eassumption.
    + destruct (lookup nm (m_der m)) as [der|] eqn:El; [|discriminate].
      destruct (forallb (fun i => memN i ap) (d_args der)) eqn:Ef.
      * destruct (split_order m rest (nm :: ap)) as [[[s' d'] a']|] eqn:E; [|discriminate].
        cbn [bind] in H. injection H as <- <- <-. eapply IH; [eassumption|].
        intros k [<-|Hk]; [|apply Hap; exact Hk].
        apply (OP_der m nm der); [apply lookup_In; exact El|].
        intros i Hi. apply Hap. rewrite forallb_forall in Ef. apply memN_In. apply Ef. exact Hi.
      * destruct (split_order m rest ap) as [[[s' d'] a']|] eqn:E; [|discriminate].
        cbn [bind] in H. injection H as <- <- <-. eapply IH; eassumption.
Qed.

(** conversely: along a topological order, a derived quantity that depends only on parameters
    is classified static *)
Section SplitComplete.
  Variable m : model.
  Hypothesis HWF : WF m.

  Lemma OP_class k : OnlyParams m k -> In k (keys (m_par m)) \/ In k (keys (m_der m)).
  Proof.
    intros [p Hp|d' der Hd _]; [left; exact Hp|right]. apply (in_map fst) in Hd. exact Hd.
  Qed.

  Lemma split_OP_static : forall cs avail ap s d a,
    split_order m (map fst cs) ap = Val (s, d, a) ->
    topo_from avail (map dep_of cs) ->
    (forall nm c, In (nm, c) cs -> In (nm, c) (to_sort m)) ->
    incl (keys (m_par m)) ap ->
    (forall k, OnlyParams m k -> In k avail -> In k ap) ->
    forall k, OnlyParams m k -> In k (keys (m_der m)) -> In k (map fst cs) -> In k s.
  Proof.
    induction cs as [|[nm c] r IH]; intros avail ap s d a H Ht Hcs Hpar Hav k Hop Hkd Hk.
    - destruct Hk.
    - cbn [map fst split_order] in H. cbn [map fst] in Hk. cbn [map topo_from] in Ht. destruct Ht as [Hreq Ht].
      rewrite d_prov_dep_of in Ht. unfold outs_of in Ht. cbn [dep_of d_req fst snd] in Hreq, Ht.
      assert (Hin : In (nm, c) (to_sort m)) by (apply Hcs; left; reflexivity).
      assert (Hcs' : forall nm' c', In (nm', c') r -> In (nm', c') (to_sort m)).
      { intros nm' c' Hi. apply Hcs. right. exact Hi. }
      (* an OnlyParams name is never written by a flux / variable component, and a parameter is in ap *)
      assert (Hout : forall k', OnlyParams m k' -> In k' (comp_outs nm c) -> k' = nm).
      { intros k' Hop' Hk'. destruct (to_sort_outs m nm c k' Hin Hk') as [E|Hs]; [exact E|].
        destruct (OP_class k' Hop') as [Hc|Hc]; names_contra m HWF k'. }
      destruct (has nm (m_rxn m) || has nm (m_sur m)) eqn:E1; [|destruct (has nm (m_var m) || has nm (m_par m)) eqn:E2].
      + destruct (split_order m (map fst r) ap) as [[[s' d'] a']|] eqn:E; [|discriminate].
        cbn [bind] in H. injection H as <- <- <-.
        assert (Hnop : ~ OnlyParams m nm).
        { intro Hop'. apply orb_true_iff in E1.
          destruct (OP_class nm Hop') as [Hc|Hc]; destruct E1 as [E1|E1]; names_contra m HWF nm. }
        destruct Hk as [<-|Hk]; [contradiction|].
        apply (IH (comp_outs nm c ++ avail) ap _ _ _ E Ht Hcs' Hpar); try assumption.
        intros k' Hop' Hk'. apply in_app_iff in Hk'. destruct Hk' as [Hk'|Hk']; [|apply Hav; assumption].
        apply Hout in Hk'; [|exact Hop']. subst k'. contradiction.
      + destruct (split_order m (map fst r) ap) as [[[s' d'] a']|] eqn:E; [|discriminate].
        cbn [bind] in H. injection H as <- <- <-.
        apply orb_true_iff in E2.
        destruct Hk as [<-|Hk].
        { destruct E2 as [E2|E2]; names_contra m HWF nm. }
        right. apply (IH (comp_outs nm c ++ avail) ap _ _ _ E Ht Hcs' Hpar); try assumption.
        intros k' Hop' Hk'. apply in_app_iff in Hk'. destruct Hk' as [Hk'|Hk']; [|apply Hav; assumption].
        apply Hout in Hk'; [|exact Hop']. subst k'.
        destruct E2 as [E2|E2].
        * destruct (OP_class nm Hop') as [Hc|Hc]; names_contra m HWF nm.
        * apply Hpar. apply has_In. exact E2.
      + destruct (lookup nm (m_der m)) as [der|] eqn:El; [|discriminate].
        pose proof (der_comp_of m HWF nm der c El Hin) as Hc. subst c. cbn [comp_args comp_outs] in *.
        apply orb_false_iff in E2. destruct E2 as [E2v E2p].
        destruct (forallb (fun i => memN i ap) (d_args der)) eqn:Ef.
        * destruct (split_order m (map fst r) (nm :: ap)) as [[[s' d'] a']|] eqn:E; [|discriminate].
          cbn [bind] in H. injection H as <- <- <-.
          destruct Hk as [<-|Hk]; [left; reflexivity|right].
          apply (IH ([nm] ++ avail) (nm :: ap) _ _ _ E Ht Hcs'); try assumption.
          -- intros x Hx. right. apply Hpar. exact Hx.
          -- intros k' Hop' [<-|Hk']; [left; reflexivity|right; apply Hav; assumption].
        * destruct (split_order m (map fst r) ap) as [[[s' d'] a']|] eqn:E; [|discriminate].
          cbn [bind] in H. injection H as <- <- <-.
          assert (Hnop : ~ OnlyParams m nm).
          { intro Hop'. inversion Hop' as [p Hp|d0 der' Hd Hargs]; subst.
            - apply has_false in E2p. contradiction.
            - assert (der' = der).
              { apply (lookup_NoDup nm der' (m_der m) (nodup_keys_der m HWF)) in Hd. congruence. }
              subst der'.
              assert (Ht' : forallb (fun i => memN i ap) (d_args der) = true).
              { apply forallb_forall. intros i Hi. apply memN_In. apply Hav; [apply Hargs; exact Hi|apply Hreq; exact Hi]. }
              congruence. }
          destruct Hk as [<-|Hk]; [contradiction|].
          apply (IH ([nm] ++ avail) ap _ _ _ E Ht Hcs' Hpar); try assumption.
          intros k' Hop' [<-|Hk']; [contradiction|apply Hav; assumption].
  Qed.
End SplitComplete.
