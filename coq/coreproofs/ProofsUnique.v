(** Uniqueness of the resolved environment (C01_resolved_unique / C13_initial_env_unique):
    along ANY valid evaluation order, two environments that agree on the names available at the
    start and in both of which every component is "its function applied to the values its named
    arguments have" agree on everything the components provide.  No reference to the sorter, the
    cache or the evaluation pass: this is a statement about the specification vocabulary alone. *)
From Coq Require Import ZArith List Bool Lia Permutation.
From MxlBase Require Import ListX.
From Core Require Import Sort Model Cache Query.
From CoreP Require Import Spec ProofsEnv ProofsEval ProofsNames.
Import ListNotations.

Section Unique.
  Variable fsem : fnid -> list Z -> option Z.
  Variable fsemN : fnid -> list Z -> option (list Z).

  (** one component: same argument values => same outputs *)
  Lemma comp_holds_det nm c (e1 e2 : env) :
    (forall a, In a (comp_args c) -> lookup a e1 = lookup a e2) ->
    comp_holds fsem fsemN nm c e1 -> comp_holds fsem fsemN nm c e2 ->
    forall o, In o (comp_outs nm c) -> lookup o e1 = lookup o e2.
  Proof.
    intros Hargs H1 H2 o Ho. destruct c as [f args|f args outs]; cbn [comp_holds comp_args comp_outs] in *.
    - destruct Ho as [<-|[]].
      destruct H1 as (vs1 & v1 & A1 & B1 & C1). destruct H2 as (vs2 & v2 & A2 & B2 & C2).
      rewrite (lookups_ext args e2 e1 Hargs) in A1. rewrite A1 in A2. injection A2 as <-.
      rewrite B1 in B2. injection B2 as <-. rewrite C1, C2. reflexivity.
    - destruct H1 as (vs1 & ws1 & A1 & B1 & L1 & C1). destruct H2 as (vs2 & ws2 & A2 & B2 & L2 & C2).
      rewrite (lookups_ext args e2 e1 Hargs) in A1. rewrite A1 in A2. injection A2 as <-.
      rewrite B1 in B2. injection B2 as <-.
      destruct (In_nth_error _ _ Ho) as [i Hi].
      destruct (nth_error ws1 i) as [w|] eqn:Ew.
      + rewrite (C1 i o w Hi Ew), (C2 i o w Hi Ew). reflexivity.
      + exfalso. apply nth_error_None in Ew.
        assert (i < length outs) by (apply nth_error_Some; congruence). lia.
  Qed.

  (** along a valid evaluation order.  A component may instead be one on whose outputs the two
      environments are already known to agree (used at query time for the initial assignments:
      their targets are the supplied variables / the frozen parameters). *)
  Lemma unique_along cs : forall avail (e1 e2 : env),
    topo_from avail (map dep_of cs) ->
    (forall k, In k avail -> lookup k e1 = lookup k e2) ->
    (forall nm c, In (nm, c) cs ->
        (comp_holds fsem fsemN nm c e1 /\ comp_holds fsem fsemN nm c e2)
        \/ (forall o, In o (comp_outs nm c) -> lookup o e1 = lookup o e2)) ->
    forall k, In k (flat_map outs_of cs) -> lookup k e1 = lookup k e2.
  Proof.
    induction cs as [|[nm c] r IH]; intros avail e1 e2 Ht Hav Hc k Hk; [destruct Hk|].
    cbn [map topo_from] in Ht. destruct Ht as [Hreq Ht]. rewrite d_prov_dep_of in Ht.
    unfold dep_of in Hreq. cbn [d_req fst snd] in Hreq.
    assert (Hhead : forall o, In o (comp_outs nm c) -> lookup o e1 = lookup o e2).
    { destruct (Hc nm c (or_introl eq_refl)) as [[H1 H2]|H]; [|exact H].
      apply (comp_holds_det nm c e1 e2); [|exact H1|exact H2].
      intros a Ha. apply Hav. apply Hreq. exact Ha. }
    cbn [flat_map] in Hk. rewrite in_app_iff in Hk. destruct Hk as [Hk|Hk]; [apply Hhead; exact Hk|].
    apply (IH (outs_of (nm, c) ++ avail) e1 e2 Ht).
    - intros x Hx. rewrite in_app_iff in Hx. destruct Hx as [Hx|Hx]; [apply Hhead; exact Hx|apply Hav; exact Hx].
    - intros nm' c' Hin. apply Hc. right. exact Hin.
    - exact Hk.
  Qed.

  (** the same for an acyclic graph given in any declaration order *)
  Lemma unique_acyclic table avail (e1 e2 : env) :
    Acyclic avail (map dep_of table) ->
    (forall k, In k avail -> lookup k e1 = lookup k e2) ->
    (forall nm c, In (nm, c) table ->
        (comp_holds fsem fsemN nm c e1 /\ comp_holds fsem fsemN nm c e2)
        \/ (forall o, In o (comp_outs nm c) -> lookup o e1 = lookup o e2)) ->
    forall k, In k (flat_map outs_of table) -> lookup k e1 = lookup k e2.
  Proof.
    intros [ds [Hp Ht]] Hav Hc k Hk.
    apply Permutation_map_inv in Hp. destruct Hp as [cs [-> Hp]].
    apply (unique_along cs avail e1 e2 Ht Hav).
    - intros nm c Hin. apply Hc. eapply Permutation_in; [apply Permutation_sym; exact Hp|exact Hin].
    - eapply Permutation_in; [apply Permutation_flat_map; exact Hp|exact Hk].
  Qed.

  (** C13: the environment at time 0 *)
  Lemma initial_env_unique m (e1 e2 : env) :
    Acyclic (base_available m) (map dep_of (to_sort m)) ->
    (forall k, In k (base_available m) -> lookup k e1 = lookup k e2) ->
    (forall nm c, In (nm, c) (to_sort m) -> comp_holds fsem fsemN nm c e1 /\ comp_holds fsem fsemN nm c e2) ->
    forall k, In k (base_available m) \/ In k (flat_map outs_of (to_sort m)) -> lookup k e1 = lookup k e2.
  Proof.
    intros Hac Hav Hc k [Hk|Hk]; [apply Hav; exact Hk|].
    apply (unique_acyclic (to_sort m) (base_available m) e1 e2 Hac Hav); [|exact Hk].
    intros nm c Hin. left. apply Hc. exact Hin.
  Qed.

  Lemma ias_outs l nm c : In (nm, c) (ias_of l) -> In nm (keys l) /\ comp_outs nm c = [nm].
  Proof.
    unfold ias_of. intro H. apply in_flat_map in H. destruct H as [[k v] [Hin H]]. cbn [fst snd] in H.
    destruct v as [z|f a]; [destruct H|]. destruct H as [E|[]]. injection E as <- <-.
    split; [apply (in_map fst) in Hin; exact Hin|reflexivity].
  Qed.

  (** C01: the environment at a supplied state and time *)
  Lemma resolved_unique m (e1 e2 : env) :
    Acyclic (base_available m) (map dep_of (to_sort m)) ->
    lookup time_name e1 = lookup time_name e2 ->
    (forall x, In x (keys (m_var m)) -> lookup x e1 = lookup x e2) ->
    (forall p, In p (keys (m_par m)) -> lookup p e1 = lookup p e2) ->
    (forall k, In k (keys (m_dat m)) -> lookup k e1 = lookup k e2) ->
    (forall nm c, In (nm, c) (containers m) -> comp_holds fsem fsemN nm c e1 /\ comp_holds fsem fsemN nm c e2) ->
    forall k, In k (keys (m_der m)) \/ In k (keys (m_rxn m)) \/ In k (surrogate_outputs m) ->
              lookup k e1 = lookup k e2.
  Proof.
    intros Hac Ht Hv Hp Hd Hc k Hk.
    assert (Hpl : forall l x, In x (keys (plain_of l)) -> In x (keys l)).
    { intros l x Hx. apply cnt_In. apply cnt_In in Hx. pose proof (cnt_keys_plain_ias x l). lia. }
    apply (unique_acyclic (to_sort m) (base_available m) e1 e2 Hac).
    - intros x Hx. unfold base_available in Hx. rewrite !in_app_iff in Hx.
      destruct Hx as [Hx|[Hx|[Hx|[<-|[]]]]].
      + apply Hp. apply Hpl. exact Hx.
      + apply Hv. apply Hpl. exact Hx.
      + apply Hd. exact Hx.
      + exact Ht.
    - intros nm c Hin. unfold to_sort in Hin. rewrite !in_app_iff in Hin.
      destruct Hin as [Hin|[Hin|Hin]].
      + right. destruct (ias_outs _ _ _ Hin) as [Hn ->]. intros o [<-|[]]. apply Hv. exact Hn.
      + right. destruct (ias_outs _ _ _ Hin) as [Hn ->]. intros o [<-|[]]. apply Hp. exact Hn.
      + left. apply Hc. unfold containers. rewrite !in_app_iff. exact Hin.
    - rewrite outs_to_sort, !in_app_iff. right. right. exact Hk.
  Qed.
End Unique.
