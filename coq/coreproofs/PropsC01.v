From Core Require Import GenQueryFacts.
Theorem C01_facts_pinned : gen_query_facts = mkQueryFacts true true true.
Proof. vm_compute. reflexivity. Qed.
Print Assumptions C01_facts_pinned.
