(** C01 -- Derivatives equal stoichiometry x rates over fully resolved values.

    ONLY theorem statements (written out in full), each closed by [exact <lemma>] and followed by
    [Print Assumptions].  The statements are about the executable model of [Model._create_cache],
    [Model._get_args], [Model.__call__], [Model._get_right_hand_side] / [get_right_hand_side]
    (../core/Cache.v, Query.v -- tied to the source by the correspondence check of harness/c01.py
    and by [C01_facts_pinned]) run with the sorter facts [gen_sort_facts] REGENERATED from
    /repo/src/mxlpy/model.py, for EVERY meaning [fsem]/[fsemN] of the Python functions, every
    model, state and time.  Vocabulary ([WF], [comp_holds], [rhs_spec]): Spec.v. *)
From Coq Require Import ZArith List Bool.
From MxlBase Require Import ListX.
From Core Require Import Sort GenSortFacts Model Cache CacheData Query QueryTC GenQueryFacts GenCacheFacts.
From Core Require FnLib.
From CoreP Require Import Spec ProofsStoich ProofsTop ProofsRhs ProofsUnique ProofsPartition ExModel ProofsTC ExTime ProofsData.
Import ListNotations.

(** the bodies of __call__, _get_right_hand_side, _get_args (Query.v) and -- added in the second deepening
    round -- of the public wrappers get_args / get_fluxes / get_right_hand_side / get_stoichiometries /
    get_initial_conditions and of the four time-course forms (QueryTC.v) are statement for statement the
    modelled ones *)
Theorem C01_facts_pinned : gen_query_facts = mkQueryFacts true true true true true.
Proof. vm_compute. reflexivity. Qed.
Print Assumptions C01_facts_pinned.

(** C01-a: in the table [e] that [_get_args] returns, time, the supplied variables and the plain
    parameters are the supplied ones, and every flux / derived quantity / surrogate output is its
    function applied to the values its named arguments have in the SAME table.

    Two guards relative to the first draft of this statement (both needed: see
    [C01_args_draft_refuted] below):
    - [NoDup (keys vars)]: the supplied state is a Python dict; the association-list model of it
      must not bind a variable twice (the dict union keeps the LAST binding);
    - [_get_args] pops the data sets before returning, so a component that takes a data set as
      argument holds in the returned table EXTENDED BY THE DATA SETS ([env_of_dict (m_dat m) e],
      4th conjunct); a component none of whose arguments is a data set holds in [e] itself (5th). *)
Theorem C01_args_fully_resolved :
  forall fsem fsemN m c vars t e,
    WF m ->
    create_cache fsem fsemN gen_sort_facts m = Val c ->
    NoDup (keys vars) ->
    incl (keys vars) (keys (m_var m)) ->
    get_args_raw fsem fsemN m c vars t = Val e ->
    lookup time_name e = Some t
    /\ (forall x v, lookup x vars = Some v -> lookup x e = Some v)
    /\ (forall p v, In (p, Plain v) (m_par m) -> lookup p e = Some v)
    /\ (forall nm cmp, In (nm, cmp) (containers m) ->
          comp_holds fsem fsemN nm cmp (env_of_dict (m_dat m) e))
    /\ (forall nm cmp, In (nm, cmp) (containers m) ->
          (forall x, In x (comp_args cmp) -> ~ In x (keys (m_dat m))) ->
          comp_holds fsem fsemN nm cmp e).
Proof. exact (args_fully_resolved gen_sort_facts gen_sc). Qed.
Print Assumptions C01_args_fully_resolved.

(** the draft statement (no [NoDup (keys vars)], [comp_holds] in [e] for every component) is
    false of the model: (1) a derived quantity reading a data set does not hold in the returned
    table because the data key was popped; (2) a state list binding a variable twice *)
Theorem C01_args_draft_refuted :
  exists m c vars t e,
    WF m /\ create_cache FnLib.fsem FnLib.fsemN gen_sort_facts m = Val c
    /\ NoDup (keys vars) /\ incl (keys vars) (keys (m_var m))
    /\ get_args_raw FnLib.fsem FnLib.fsemN m c vars t = Val e
    /\ (exists nm cmp, In (nm, cmp) (containers m) /\ ~ comp_holds FnLib.fsem FnLib.fsemN nm cmp e)
    /\ exists vars' e' x v,
         incl (keys vars') (keys (m_var m))
         /\ get_args_raw FnLib.fsem FnLib.fsemN m c vars' t = Val e'
         /\ lookup x vars' = Some v /\ lookup x e' <> Some v.
Proof. exact args_draft_refuted. Qed.
Print Assumptions C01_args_draft_refuted.

(** C01-b: the vector handed to integrators = stoichiometry x rates over those resolved values, in
    declaration order, one entry per variable (0 for untouched variables: next theorem).
    [rhs_spec x rs e] is the sum over all reactions and surrogate fluxes [rn] of [rs] and their
    entries for [x] of (coefficient value in [e]) * (value of [rn] in [e]). *)
Theorem C01_rhs_is_stoichiometry_times_rates :
  forall fsem fsemN m c t y dx,
    WF m ->
    create_cache fsem fsemN gen_sort_facts m = Val c ->
    call fsem fsemN m c t y = Val dx ->
    exists e,
      get_args_raw fsem fsemN m c (combine (keys (m_var m)) y) t = Val e
      /\ length dx = length (m_var m)
      /\ forall i x, nth_error (keys (m_var m)) i = Some x ->
           exists v, nth_error dx i = Some v /\ rhs_spec fsem x (all_rxn_entries m) e = Some v.
Proof. exact (rhs_is_stoichiometry_times_rates gen_sort_facts gen_sc). Qed.
Print Assumptions C01_rhs_is_stoichiometry_times_rates.

Theorem C01_untouched_variable_zero :
  forall fsem x rs e v,
    (forall rn ent, In (rn, ent) rs -> ~ In x (keys ent)) -> rhs_spec fsem x rs e = Some v -> v = 0%Z.
Proof. exact untouched_variable_zero. Qed.
Print Assumptions C01_untouched_variable_zero.

(** the same holds for the named form, for ANY supplied state dict: [_get_right_hand_side] over
    the table of [_get_args] is stoichiometry x rates, keyed by the variables in declaration order *)
Theorem C01_named_rhs_is_stoichiometry_times_rates :
  forall fsem fsemN m c vars t e d,
    WF m -> create_cache fsem fsemN gen_sort_facts m = Val c ->
    incl (keys vars) (keys (m_var m)) ->
    get_args_raw fsem fsemN m c vars t = Val e ->
    rhs_of_args fsem c (keys (m_var m)) e = Val d ->
    keys d = keys (m_var m)
    /\ forall x, In x (keys (m_var m)) ->
         exists v, lookup x d = Some v /\ rhs_spec fsem x (all_rxn_entries m) e = Some v.
Proof. exact (rhs_of_args_top gen_sort_facts gen_sc). Qed.
Print Assumptions C01_named_rhs_is_stoichiometry_times_rates.

(** C01-c: the entry points return the same numbers: positional call = named right-hand side *)
Theorem C01_entry_points_agree :
  forall fsem fsemN m c t y dx,
    WF m -> create_cache fsem fsemN gen_sort_facts m = Val c ->
    call fsem fsemN m c t y = Val dx ->
    get_rhs fsem fsemN m c (combine (keys (m_var m)) y) t = Val (combine (keys (m_var m)) dx).
Proof. exact (entry_points_agree gen_sort_facts gen_sc). Qed.
Print Assumptions C01_entry_points_agree.

(** the time-course form ([get_right_hand_side_time_course]): one row of the argument table of
    [get_args_time_course] (selected by [get_arg_names(include_time=False)]: no time column) with
    the time put back ([variables.to_dict() | {"time": time}]) gives the same right-hand side as
    the table of [_get_args] itself -- also for computed coefficients that read the time *)
Theorem C01_time_course_form :
  forall fsem fsemN m c vars t e tab,
    WF m -> create_cache fsem fsemN gen_sort_facts m = Val c ->
    incl (keys vars) (keys (m_var m)) ->
    get_args_raw fsem fsemN m c vars t = Val e ->
    select (arg_names m c false) e = Val tab ->
    rhs_of_args fsem c (keys (m_var m)) ((time_name, t) :: env_of_dict tab [])
    = rhs_of_args fsem c (keys (m_var m)) e.
Proof. exact (time_course_form gen_sort_facts gen_sc). Qed.
Print Assumptions C01_time_course_form.

(** fluxes and the full argument table are selections of the one table of [_get_args] (so they
    show the numbers the right-hand side was computed from), and whenever that table exists the
    fluxes exist: every reaction and surrogate flux is bound in it *)
Theorem C01_fluxes_and_args_read_the_same_table :
  forall fsem fsemN m c vars t e,
    WF m -> create_cache fsem fsemN gen_sort_facts m = Val c ->
    incl (keys vars) (keys (m_var m)) ->
    get_args_raw fsem fsemN m c vars t = Val e ->
    (exists fl, get_fluxes fsem fsemN m c vars t = Val fl /\ keys fl = flux_names m
                /\ forall k v, In (k, v) fl -> lookup k e = Some v)
    /\ (forall tab, get_args fsem fsemN m c vars t = Val tab ->
          keys tab = arg_names m c true /\ forall k v, In (k, v) tab -> lookup k e = Some v).
Proof. exact (fluxes_args_same_table gen_sort_facts gen_sc). Qed.
Print Assumptions C01_fluxes_and_args_read_the_same_table.

(** "fully resolved values" are UNIQUE: for a model whose dependency graph is acyclic (whenever a
    cache is built: [C02_cache_only_for_acyclic]) two environments that agree on time, the
    variables, the parameters and the data sets, and in both of which every derived quantity,
    reaction rate and surrogate is its function applied to the values its named arguments have,
    agree on every derived quantity, rate and surrogate output.  So [C01_args_fully_resolved]
    characterises the table of [_get_args] completely: whatever way the values are computed
    (any evaluation order, any caching), these are the numbers.  No hypothesis on the sorter or
    the cache: a statement about the specification vocabulary alone. *)
Theorem C01_resolved_unique :
  forall fsem fsemN m (e1 e2 : env),
    Acyclic (base_available m) (map dep_of (to_sort m)) ->
    lookup time_name e1 = lookup time_name e2 ->
    (forall x, In x (keys (m_var m)) -> lookup x e1 = lookup x e2) ->
    (forall p, In p (keys (m_par m)) -> lookup p e1 = lookup p e2) ->
    (forall k, In k (keys (m_dat m)) -> lookup k e1 = lookup k e2) ->
    (forall nm cmp, In (nm, cmp) (containers m) ->
        comp_holds fsem fsemN nm cmp e1 /\ comp_holds fsem fsemN nm cmp e2) ->
    forall k, In k (keys (m_der m)) \/ In k (keys (m_rxn m)) \/ In k (surrogate_outputs m) ->
              lookup k e1 = lookup k e2.
Proof. exact resolved_unique. Qed.
Print Assumptions C01_resolved_unique.

(** every (flux, variable, coefficient) entry of the model lands in exactly one of the two
    coefficient tables of the cache ([st_coef] / [dy_coef]: the tables read as partial maps):
    a numeric coefficient in the static table; a computed coefficient in the static table, as its
    value, iff all its arguments are frozen (parameters or derived parameters) -- and then that
    value is the coefficient's value in the table of every query --, otherwise in the dynamic
    table as the coefficient itself (evaluated at every query). *)
Theorem C01_static_partition :
  forall fsem fsemN m c rn ent x cf,
    WF m -> create_cache fsem fsemN gen_sort_facts m = Val c ->
    In (rn, ent) (all_rxn_entries m) -> In (x, cf) ent ->
    match cf with
    | CStat q => st_coef c x rn = Some q /\ dy_coef c x rn = None
    | CDyn f args =>
      ((forall a, In a args -> In a (keys (m_par m)) \/ (In a (keys (m_der m)) /\ OnlyParams m a))
       /\ dy_coef c x rn = None
       /\ exists v, st_coef c x rn = Some v
                    /\ forall vars t e, incl (keys vars) (keys (m_var m)) ->
                                        get_args_raw fsem fsemN m c vars t = Val e ->
                                        coef_val fsem cf e = Some v)
      \/ (~ (forall a, In a args -> In a (keys (m_par m)) \/ (In a (keys (m_der m)) /\ OnlyParams m a))
          /\ st_coef c x rn = None /\ dy_coef c x rn = Some (f, args))
    end.
Proof. exact (static_partition gen_sort_facts gen_sc). Qed.
Print Assumptions C01_static_partition.

(** "every way of asking": leaving the state at its default ([variables=None]) means the resolved
    initial conditions evaluated AT THE TIME GIVEN -- the table reports that time, the initial
    conditions as the variables, and every flux / derived quantity / surrogate output as its function
    of the values in the same table; fluxes and right-hand side read the same state and time *)
Theorem C01_default_state_at_given_time :
  forall fsem fsemN m c t tab,
    WF m -> create_cache fsem fsemN gen_sort_facts m = Val c ->
    get_args_pub fsem fsemN m c None t = Val tab ->
    exists e,
      get_args_raw fsem fsemN m c (c_init c) t = Val e
      /\ lookup time_name e = Some t
      /\ (forall x v, lookup x (c_init c) = Some v -> lookup x e = Some v)
      /\ (forall nm cmp, In (nm, cmp) (containers m) -> comp_holds fsem fsemN nm cmp (env_of_dict (m_dat m) e))
      /\ keys tab = arg_names m c true
      /\ (forall k v, In (k, v) tab -> lookup k e = Some v)
      /\ get_fluxes_pub fsem fsemN m c None t = get_fluxes fsem fsemN m c (c_init c) t
      /\ get_rhs_pub fsem fsemN m c None t = get_rhs fsem fsemN m c (c_init c) t.
Proof. exact default_state_at_given_time. Qed.
Print Assumptions C01_default_state_at_given_time.

(** a supplied state is a mapping from names to values: two association lists that bind the same
    variables to the same values in ANY key order give the same table on every name and literally the
    same answers from get_args, get_fluxes, get_right_hand_side and the time-course row format *)
Theorem C01_state_key_order_irrelevant :
  forall fsem fsemN m c vars vars' t e e',
    WF m -> create_cache fsem fsemN gen_sort_facts m = Val c ->
    NoDup (keys vars) -> NoDup (keys vars') -> incl (keys vars) (keys (m_var m)) ->
    (forall k, lookup k vars' = lookup k vars) ->
    get_args_raw fsem fsemN m c vars t = Val e ->
    get_args_raw fsem fsemN m c vars' t = Val e' ->
    (forall k, lookup k e' = lookup k e)
    /\ get_args fsem fsemN m c vars' t = get_args fsem fsemN m c vars t
    /\ get_fluxes fsem fsemN m c vars' t = get_fluxes fsem fsemN m c vars t
    /\ get_rhs fsem fsemN m c vars' t = get_rhs fsem fsemN m c vars t
    /\ get_args_notime fsem fsemN m c vars' t = get_args_notime fsem fsemN m c vars t.
Proof. exact state_key_order_irrelevant. Qed.
Print Assumptions C01_state_key_order_irrelevant.

(** the time-course forms on a WHOLE frame (any number of rows, any time labels: repeated states at
    different times, non-monotone times, repeated labels): the table has one row per time label, and
    the row of label [t] is the single-state answer at the state and time of the LAST frame row
    labelled [t] ([last_row]; for distinct labels: of that row) -- never a value carried over from
    another row.  No hypothesis on the model: by construction of the row-wise evaluation. *)
Theorem C01_time_course_rows_are_point_queries :
  forall fsem fsemN m c rows,
    (forall out, get_args_time_course fsem fsemN m c rows = Val out ->
       NoDup (map fst out)
       /\ forall t,
         (In t (map fst rows) ->
            exists s r, last_row t s rows /\ get_args_notime fsem fsemN m c s t = Val r /\ zlookup t out = Some r)
         /\ (~ In t (map fst rows) -> zlookup t out = None))
    /\ (forall out, get_fluxes_time_course fsem fsemN m c rows = Val out ->
       NoDup (map fst out)
       /\ forall t,
         (In t (map fst rows) ->
            exists s r, last_row t s rows /\ get_fluxes fsem fsemN m c s t = Val r /\ zlookup t out = Some r)
         /\ (~ In t (map fst rows) -> zlookup t out = None)).
Proof.
  exact (fun fsem fsemN m c rows =>
           conj (args_time_course_rows fsem fsemN m c rows) (fluxes_time_course_rows fsem fsemN m c rows)).
Qed.
Print Assumptions C01_time_course_rows_are_point_queries.

(** ... and the right-hand-side table computed from that argument table holds, per label, the named
    right-hand side at that row's own state and time (with [C01_time_course_form]: also for computed
    coefficients that read the time, which the argument table does not carry) *)
Theorem C01_rhs_time_course_rows_are_point_queries :
  forall fsem fsemN m c rows out d,
    WF m -> create_cache fsem fsemN gen_sort_facts m = Val c ->
    (forall t s, In (t, s) rows -> incl (keys s) (keys (m_var m))) ->
    get_args_time_course fsem fsemN m c rows = Val out ->
    get_rhs_time_course fsem m c out = Val d ->
    forall t,
      (In t (map fst rows) ->
         exists s dx, last_row t s rows /\ get_rhs fsem fsemN m c s t = Val dx /\ zlookup t d = Some dx)
      /\ (~ In t (map fst rows) -> zlookup t d = None).
Proof. exact rhs_time_course_rows. Qed.
Print Assumptions C01_rhs_time_course_rows_are_point_queries.

(** ---- closing round: data sets (seeded change C01-9) -------------------------------------------- *)

(** the closure [all_parameter_names] of [_create_cache], which decides what is computed once and what is evaluated
    per state, starts from the PARAMETER names only (regenerated from the source; the recognised alternative
    [SeedParData] = "parameters and data sets" is the seeded shape of [C01_data_static_stale_refuted]) *)
Theorem C01_split_seed_pinned : gen_split_seed = SeedPar.
Proof. vm_compute. reflexivity. Qed.
Print Assumptions C01_split_seed_pinned.

(** a derived quantity that reads a data set, directly or through any chain of derived quantities ([ReadsData]), is
    never frozen in the cache: it is not reported as a derived parameter, it has no entry in [all_parameter_values],
    it is a derived variable -- so by [C01_args_fully_resolved] every query evaluates it from the data sets the model
    holds at that moment ([env_of_dict (m_dat m) e]) *)
Theorem C01_data_readers_are_recomputed :
  forall fsem fsemN m c d,
    WF m -> create_cache fsem fsemN gen_sort_facts m = Val c ->
    In d (keys (m_der m)) -> ReadsData m d ->
    ~ In d (derived_parameter_names m c)
    /\ In d (derived_variable_names m c)
    /\ lookup d (c_all_par c) = None.
Proof. exact (data_readers_recomputed gen_sort_facts gen_sc). Qed.
Print Assumptions C01_data_readers_are_recomputed.

(** exchanging a data set ([Model.update_data]: KeyError for an unknown name, else the one entry is replaced) keeps a
    well-formed model well formed ... *)
Theorem C01_update_data_keeps_well_formed :
  forall m k v m', WF m -> update_data m k v = Val m' -> WF m'.
Proof. exact update_data_WF. Qed.
Print Assumptions C01_update_data_keeps_well_formed.

(** ... and with the cache rebuilt (what [@_invalidate_cache] on [update_data] forces; the decorator itself is pinned
    by C03) every flux, derived quantity and surrogate output is its function of the values its arguments have NOW:
    the new value for the exchanged data set, the old ones for the others, the supplied state and time *)
Theorem C01_after_update_data :
  forall fsem fsemN m k v m' c' vars t e,
    WF m -> update_data m k v = Val m' ->
    create_cache fsem fsemN gen_sort_facts m' = Val c' ->
    NoDup (keys vars) -> incl (keys vars) (keys (m_var m)) ->
    get_args_raw fsem fsemN m' c' vars t = Val e ->
    lookup k (m_dat m') = Some v
    /\ (forall k', k' <> k -> lookup k' (m_dat m') = lookup k' (m_dat m))
    /\ lookup time_name e = Some t
    /\ (forall x w, lookup x vars = Some w -> lookup x e = Some w)
    /\ (forall nm cmp, In (nm, cmp) (containers m) -> comp_holds fsem fsemN nm cmp (env_of_dict (m_dat m') e)).
Proof. exact (after_update_data gen_sort_facts gen_sc). Qed.
Print Assumptions C01_after_update_data.

(** [create_cache_seeded] with the shipped seed IS [create_cache] *)
Theorem C01_seeded_par_is_shipped :
  forall fsem fsemN F m, create_cache_seeded fsem fsemN par_seed F m = create_cache fsem fsemN F m.
Proof. exact seeded_par_is_shipped. Qed.
Print Assumptions C01_seeded_par_is_shipped.

(** regression (seeded change C01-9, two cooperating edits): with data sets counted as static names AND a cache that
    is kept across [update_data], the data-only derived quantities 6 and 7 of [ex_data_model] keep the values of the old
    data set and the reported derivative (23) is not stoichiometry x rates over the resolved values (11); each edit alone
    gives the right answer on this model *)
Theorem C01_data_static_stale_refuted :
  exists m k v m' c_old_seeded c_old c_new c_new_seeded vars t,
    WF m /\ update_data m k v = Val m'
    /\ create_cache_seeded FnLib.fsem FnLib.fsemN par_data_seed gen_sort_facts m = Val c_old_seeded
    /\ create_cache FnLib.fsem FnLib.fsemN gen_sort_facts m = Val c_old
    /\ create_cache FnLib.fsem FnLib.fsemN gen_sort_facts m' = Val c_new
    /\ create_cache_seeded FnLib.fsem FnLib.fsemN par_data_seed gen_sort_facts m' = Val c_new_seeded
    /\ (exists e, get_args_raw FnLib.fsem FnLib.fsemN m' c_new vars t = Val e
                  /\ rhs_spec FnLib.fsem 3%N (all_rxn_entries m') e = Some 11%Z)
    /\ get_rhs FnLib.fsem FnLib.fsemN m' c_new vars t = Val [(3%N, 11%Z); (4%N, 0%Z)]
    /\ get_rhs FnLib.fsem FnLib.fsemN m' c_new_seeded vars t = Val [(3%N, 11%Z); (4%N, 0%Z)]
    /\ get_rhs FnLib.fsem FnLib.fsemN m' c_old vars t = Val [(3%N, 11%Z); (4%N, 0%Z)]
    /\ get_rhs FnLib.fsem FnLib.fsemN m' c_old_seeded vars t = Val [(3%N, 23%Z); (4%N, 0%Z)]
    /\ lookup 6%N (c_all_par c_old_seeded) = Some 9%Z /\ lookup 7%N (c_all_par c_old_seeded) = Some 18%Z.
Proof. exact data_static_stale_refuted. Qed.
Print Assumptions C01_data_static_stale_refuted.

(** non-vacuity: [ex_data_model] (derived 6 = data + parameter, derived 7 = 6 * parameter, derived 8 = data * variable,
    reaction 9 = 7 + 8) is well formed, 7 reads the data set through 6, its cache is built and reports 6, 7, 8 as derived
    variables; after update_data 14 := 1 the model is well formed again and the rebuilt cache gives 11 *)
Example C01_data_nonvacuous :
  WF ex_data_model /\ ReadsData ex_data_model 7%N /\ In 7%N (keys (m_der ex_data_model))
  /\ exists c m' c',
      create_cache FnLib.fsem FnLib.fsemN gen_sort_facts ex_data_model = Val c
      /\ derived_variable_names ex_data_model c = [6; 7; 8]%N
      /\ update_data ex_data_model 14%N 1%Z = Val m'
      /\ create_cache FnLib.fsem FnLib.fsemN gen_sort_facts m' = Val c'
      /\ get_rhs FnLib.fsem FnLib.fsemN m' c' [(3%N, 5%Z); (4%N, 1%Z)] 2%Z = Val [(3%N, 11%Z); (4%N, 0%Z)].
Proof.
  split; [exact ex_data_model_WF|]. split; [exact (proj1 ex_data_reads)|]. split; [exact (proj2 ex_data_reads)|].
  eexists. eexists. eexists. split; [vm_compute; reflexivity|]. split; [vm_compute; reflexivity|].
  split; [vm_compute; reflexivity|]. split; vm_compute; reflexivity.
Qed.
Print Assumptions C01_data_nonvacuous.

(** non-vacuity of the time-course statements: the model of ExTime.v (only a surrogate reads the time;
    a derived quantity and a reaction sit downstream of its outputs) is well formed; a 4-row frame with a
    plateau (the same state at t = 3 and t = 5), non-monotone labels, a repeated label (1) and permuted
    key order evaluates; its tables have the labels 3, 5, 1; the plateau rows DIFFER (flux 12 = x + t,
    reaction 9 = 2 x t); label 1 holds the answer for the last row labelled 1; the default state at
    t = 2 reports time 2 *)
Example C01_time_course_nonvacuous :
  WF ex_time_model /\
  exists c, create_cache FnLib.fsem FnLib.fsemN gen_sort_facts ex_time_model = Val c
    /\ let s1 := [(3%N, 1%Z); (4%N, 2%Z)] in
       let s2 := [(4%N, 1%Z); (3%N, 2%Z)] in
       let rows := [(3%Z, s1); (5%Z, s1); (1%Z, s2); (1%Z, s1)] in
       exists out fl d,
         get_args_time_course FnLib.fsem FnLib.fsemN ex_time_model c rows = Val out
         /\ get_fluxes_time_course FnLib.fsem FnLib.fsemN ex_time_model c rows = Val fl
         /\ get_rhs_time_course FnLib.fsem ex_time_model c out = Val d
         /\ map fst out = [3%Z; 5%Z; 1%Z] /\ map fst d = [3%Z; 5%Z; 1%Z]
         /\ zlookup 3%Z fl = Some [(9%N, 6%Z); (12%N, 4%Z)]
         /\ zlookup 5%Z fl = Some [(9%N, 10%Z); (12%N, 6%Z)]
         /\ zlookup 3%Z d = Some [(3%N, (-4)%Z); (4%N, 6%Z)]
         /\ zlookup 5%Z d = Some [(3%N, (-6)%Z); (4%N, 10%Z)]
         /\ (exists dx, get_rhs FnLib.fsem FnLib.fsemN ex_time_model c s1 1%Z = Val dx /\ zlookup 1%Z d = Some dx)
         /\ exists tab, get_args_pub FnLib.fsem FnLib.fsemN ex_time_model c None 2%Z = Val tab
                        /\ lookup time_name tab = Some 2%Z /\ lookup 12%N tab = Some 3%Z.
Proof.
  split; [exact ex_time_model_WF|].
  eexists. split; [vm_compute; reflexivity|]. cbv zeta.
  eexists. eexists. eexists. split; [vm_compute; reflexivity|]. split; [vm_compute; reflexivity|].
  split; [vm_compute; reflexivity|].
  split; [vm_compute; reflexivity|]. split; [vm_compute; reflexivity|]. split; [vm_compute; reflexivity|].
  split; [vm_compute; reflexivity|]. split; [vm_compute; reflexivity|]. split; [vm_compute; reflexivity|].
  split; [eexists; split; vm_compute; reflexivity|].
  eexists. split; [vm_compute; reflexivity|]. split; vm_compute; reflexivity.
Qed.
Print Assumptions C01_time_course_nonvacuous.

(** non-vacuity: the model of ExModel.v (derived chain 6 -> 7 -> 8, derived 15 reading a data
    set, reaction 9 with a numeric and a computed coefficient, reaction 10 with a state-dependent
    coefficient, 2-output surrogate 11 with flux 12, assignment-defined parameter 2 and variable 4,
    untouched variable 5) is well formed, its cache is built, and at state (1, 2, 3), time 3 the
    positional call returns (-13, 129, 0) *)
Example C01_nonvacuous :
  WF ex_model /\
  exists c, create_cache FnLib.fsem FnLib.fsemN gen_sort_facts ex_model = Val c
    /\ call FnLib.fsem FnLib.fsemN ex_model c 3%Z [1; 2; 3]%Z = Val [-13; 129; 0]%Z
    /\ exists e, get_args_raw FnLib.fsem FnLib.fsemN ex_model c [(3%N, 1%Z); (4%N, 2%Z); (5%N, 3%Z)] 3%Z = Val e
         /\ lookup 9%N e = Some 16%Z /\ lookup 10%N e = Some 1%Z /\ lookup 12%N e = Some 3%Z
         /\ rhs_spec FnLib.fsem 4%N (all_rxn_entries ex_model) e = Some 129%Z
         /\ st_coef c 3%N 9%N = Some (-1)%Z /\ st_coef c 4%N 9%N = Some 8%Z /\ dy_coef c 4%N 9%N = None
         /\ st_coef c 4%N 10%N = None /\ dy_coef c 4%N 10%N = Some (0%N, [3%N]).
Proof.
  split; [exact ex_model_WF|].
  eexists. split; [vm_compute; reflexivity|]. split; [vm_compute; reflexivity|].
  eexists. split; [vm_compute; reflexivity|]. repeat split; vm_compute; reflexivity.
Qed.
Print Assumptions C01_nonvacuous.
