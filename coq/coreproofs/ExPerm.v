(** Concrete models for the non-vacuity examples of PropsC02b.v: the well-formed model of
    ExModel.v with EVERY container declared in reverse order, a model naming a thing that does
    not exist, a model with a component naming itself and one with a 2-cycle. *)
From Coq Require Import ZArith List Bool Lia Permutation.
From MxlBase Require Import ListX.
From Core Require Import Sort GenSortFacts FnLib Model Cache Query.
From CoreP Require Import Spec WFDec ExModel.
Import ListNotations.
Open Scope N_scope.

Definition ex_model_rev : model := mkModel
  (rev (m_par ex_model)) (rev (m_var ex_model)) (rev (m_der ex_model)) (rev (m_rxn ex_model))
  (rev (m_sur ex_model)) (rev (m_ro ex_model)) (rev (m_dat ex_model)).

Lemma ex_same_components : same_components ex_model ex_model_rev.
Proof. constructor; apply Permutation_rev. Qed.

(* derived 6 reads 99, which nothing provides *)
Definition ex_missing : model := mkModel
  [(1, Plain 2%Z)] [(3, Plain 5%Z)] [(6, mkDer 6 [99]); (7, mkDer 2 [6; 1])] [] [] [] [].

(* derived 6 names itself *)
Definition ex_selfloop : model := mkModel
  [(1, Plain 2%Z)] [(3, Plain 5%Z)] [(6, mkDer 2 [6; 1])] [] [] [] [].

(* 6 reads 7, 7 reads 6 *)
Definition ex_twocycle : model := mkModel
  [(1, Plain 2%Z)] [(3, Plain 5%Z)] [(6, mkDer 2 [7; 1]); (7, mkDer 6 [6])] [] [] [] [].

Lemma ex_selfloop_WF : WF ex_selfloop.
Proof. apply wf_b_sound. vm_compute. reflexivity. Qed.
Lemma ex_twocycle_WF : WF ex_twocycle.
Proof. apply wf_b_sound. vm_compute. reflexivity. Qed.
