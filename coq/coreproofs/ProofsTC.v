(** Proofs about the public wrappers ([variables=None]), the key order of a supplied state mapping, and the
    time-course forms on whole frames (model: ../core/QueryTC.v). *)
From Coq Require Import ZArith List Bool Lia Permutation.
From MxlBase Require Import ListX.
From Core Require Import Sort GenSortFacts Model Cache Query QueryTC.
From CoreP Require Import Spec ProofsEnv ProofsNames ProofsStoich ProofsTop ProofsRhs ProofsPerm.
Import ListNotations.

(** ---- dicts keyed by a time label ---------------------------------------------------- *)
Lemma zlookup_zset_eq {A} t (v : A) d : zlookup t (zset t v d) = Some v.
Proof.
  induction d as [|[t' v'] r IH]; cbn [zset zlookup].
  - rewrite Z.eqb_refl. reflexivity.
  - destruct (Z.eqb t t') eqn:E; cbn [zlookup]; rewrite ?Z.eqb_refl, ?E; [reflexivity|exact IH].
Qed.

Lemma zlookup_zset_ne {A} t t' (v : A) d : t <> t' -> zlookup t (zset t' v d) = zlookup t d.
Proof.
  intro Hne. induction d as [|[t0 v0] r IH]; cbn [zset zlookup].
  - destruct (Z.eqb t t') eqn:E; [apply Z.eqb_eq in E; contradiction|reflexivity].
  - destruct (Z.eqb t' t0) eqn:E0; cbn [zlookup].
    + apply Z.eqb_eq in E0. subst t0.
      destruct (Z.eqb t t') eqn:E; [apply Z.eqb_eq in E; contradiction|reflexivity].
    + destruct (Z.eqb t t0); [reflexivity|exact IH].
Qed.

Lemma zset_keys_In {A} t (v : A) d x : In x (map fst (zset t v d)) <-> x = t \/ In x (map fst d).
Proof.
  induction d as [|[t0 v0] r IH]; cbn [zset map fst In].
  - split; [intros [H|[]]; left; symmetry; exact H|intros [H|[]]; left; symmetry; exact H].
  - destruct (Z.eqb t t0) eqn:E; cbn [map fst In].
    + apply Z.eqb_eq in E. subst t0. split.
      * intros [H|H]; [left; symmetry; exact H|right; right; exact H].
      * intros [H|[H|H]]; [left; symmetry; exact H|left; exact H|right; exact H].
    + rewrite IH. split.
      * intros [H|[H|H]]; [right; left; exact H|left; exact H|right; right; exact H].
      * intros [H|[H|H]]; [right; left; exact H|left; exact H|right; right; exact H].
Qed.

Lemma zset_nodup {A} t (v : A) d : NoDup (map fst d) -> NoDup (map fst (zset t v d)).
Proof.
  induction d as [|[t0 v0] r IH]; cbn [zset map fst]; intro H.
  - constructor; [intros []|constructor].
  - inversion H as [|? ? Hn Hr]; subst. destruct (Z.eqb t t0) eqn:E; cbn [map fst].
    + apply Z.eqb_eq in E. subst t0. constructor; assumption.
    + constructor; [|apply IH; exact Hr]. intro Hin. apply zset_keys_In in Hin. destruct Hin as [Heq|Hin].
      * subst t0. rewrite Z.eqb_refl in E. discriminate.
      * contradiction.
Qed.

Lemma zlookup_In {A} t (v : A) d : zlookup t d = Some v -> In (t, v) d.
Proof.
  induction d as [|[t0 v0] r IH]; cbn [zlookup]; [discriminate|].
  destruct (Z.eqb t t0) eqn:E.
  - apply Z.eqb_eq in E. subst t0. intro H. injection H as <-. left. reflexivity.
  - intro H. right. apply IH. exact H.
Qed.

Lemma zlookup_nodup_in {A} t (v : A) d : NoDup (map fst d) -> In (t, v) d -> zlookup t d = Some v.
Proof.
  induction d as [|[t0 v0] r IH]; cbn [zlookup map fst]; intros Hnd Hin; [destruct Hin|].
  inversion Hnd as [|? ? Hn Hr]; subst. destruct Hin as [Heq|Hin].
  - injection Heq as -> ->. rewrite Z.eqb_refl. reflexivity.
  - destruct (Z.eqb t t0) eqn:E.
    + apply Z.eqb_eq in E. subst t0. exfalso. apply Hn. apply (in_map fst) in Hin. exact Hin.
    + apply IH; assumption.
Qed.

Lemma zlookup_None_notin {A} t (d : list (Z * A)) : zlookup t d = None <-> ~ In t (map fst d).
Proof.
  induction d as [|[t0 v0] r IH]; cbn [zlookup map fst In]; [split; [intros _ []|reflexivity]|].
  destruct (Z.eqb t t0) eqn:E.
  - apply Z.eqb_eq in E. subst t0. split; [discriminate|intro H; exfalso; apply H; left; reflexivity].
  - rewrite IH. split.
    + intros H [Heq|Hin]; [subst t0; rewrite Z.eqb_refl in E; discriminate|contradiction].
    + intros H Hin. apply H. right. exact Hin.
Qed.

(** the row that counts for a time label: the LAST one carrying it *)
Definition last_row {A} (t : Z) (a : A) (rows : list (Z * A)) : Prop :=
  exists pre post, rows = pre ++ (t, a) :: post /\ ~ In t (map fst post).

Lemma last_row_In {A} t (a : A) rows : last_row t a rows -> In (t, a) rows.
Proof. intros (pre & post & -> & _). apply in_or_app. right. left. reflexivity. Qed.

Lemma by_time_spec {A B} (f : Z -> A -> res B) : forall rows acc out,
    by_time f rows acc = Val out ->
    forall t,
      (In t (map fst rows) -> exists a b, last_row t a rows /\ f t a = Val b /\ zlookup t out = Some b)
      /\ (~ In t (map fst rows) -> zlookup t out = zlookup t acc).
Proof.
  induction rows as [|[t0 a0] rest IH]; intros acc out H t; cbn [by_time] in H.
  - injection H as <-. split; [intros []|reflexivity].
  - destruct (f t0 a0) as [b0|] eqn:Ef; [|discriminate]. cbn [bind] in H.
    destruct (IH _ _ H t) as [Hin Hout]. cbn [map fst In].
    destruct (in_dec Z.eq_dec t (map fst rest)) as [Hr|Hr].
    + split; [|intro Hn; exfalso; apply Hn; right; exact Hr].
      intros _. destruct (Hin Hr) as (a & b & (pre & post & -> & Hpost) & Hf & Hl).
      exists a, b. split; [|split; assumption]. exists ((t0, a0) :: pre), post. split; [reflexivity|exact Hpost].
    + split.
      * intros [Heq|Hc]; [|contradiction]. subst t0. exists a0, b0. split; [|split; [exact Ef|]].
        -- exists [], rest. split; [reflexivity|exact Hr].
        -- rewrite (Hout Hr). apply zlookup_zset_eq.
      * intro Hn. rewrite (Hout Hr). apply zlookup_zset_ne. intro Heq. apply Hn. left. symmetry. exact Heq.
Qed.

Lemma by_time_nodup {A B} (f : Z -> A -> res B) : forall rows acc out,
    by_time f rows acc = Val out -> NoDup (map fst acc) -> NoDup (map fst out).
Proof.
  induction rows as [|[t0 a0] rest IH]; intros acc out H Hnd; cbn [by_time] in H.
  - injection H as <-. exact Hnd.
  - destruct (f t0 a0) as [b0|]; [|discriminate]. cbn [bind] in H. eapply IH; [exact H|]. apply zset_nodup. exact Hnd.
Qed.

Lemma select_rows_spec names : forall tab out,
    select_rows names tab = Val out ->
    map fst out = map fst tab
    /\ forall t, match zlookup t tab with
                 | Some e => exists r, select names e = Val r /\ zlookup t out = Some r
                 | None => zlookup t out = None
                 end.
Proof.
  induction tab as [|[t0 e0] rest IH]; intros out H; cbn [select_rows] in H.
  - injection H as <-. split; [reflexivity|intro t; reflexivity].
  - destruct (select names e0) as [r0|] eqn:Es; [|discriminate]. cbn [bind] in H.
    destruct (select_rows names rest) as [rs|] eqn:Er; [|discriminate]. cbn [bind] in H. injection H as <-.
    destruct (IH rs eq_refl) as [Hk Hz]. split; [cbn [map fst]; f_equal; exact Hk|].
    intro t. cbn [zlookup]. destruct (Z.eqb t t0); [exists r0; split; [exact Es|reflexivity]|apply Hz].
Qed.

Section TC.
  Variable fsem : fnid -> list Z -> option Z.
  Variable fsemN : fnid -> list Z -> option (list Z).

  (** every row of a time-course table is the single-state query at the state and time of the LAST
      frame row carrying its label; labels that do not occur in the frame do not occur in the table *)
  Lemma tc_generic m c names rows out :
    (do tab <- args_by_time fsem fsemN m c rows; select_rows names tab) = Val out ->
    NoDup (map fst out)
    /\ forall t,
      (In t (map fst rows) ->
         exists s r, last_row t s rows
                     /\ (do raw <- get_args_raw fsem fsemN m c s t; select names raw) = Val r
                     /\ zlookup t out = Some r)
      /\ (~ In t (map fst rows) -> zlookup t out = None).
  Proof.
    intro H. destruct (args_by_time fsem fsemN m c rows) as [tab|] eqn:Et; [|discriminate]. cbn [bind] in H.
    destruct (select_rows_spec names tab out H) as [Hk Hz]. unfold args_by_time in Et. split.
    { rewrite Hk. eapply by_time_nodup; [exact Et|constructor]. }
    intro t. destruct (by_time_spec _ rows [] tab Et t) as [Hin Hout]. specialize (Hz t). split.
    - intro Hr. destruct (Hin Hr) as (s & e & Hl & Hf & Hlk). rewrite Hlk in Hz. destruct Hz as (r & Hs & Ho).
      exists s, r. split; [exact Hl|]. split; [rewrite Hf; cbn [bind]; exact Hs|exact Ho].
    - intro Hn. rewrite (Hout Hn) in Hz. cbn [zlookup] in Hz. exact Hz.
  Qed.

  Lemma args_time_course_rows m c rows out :
    get_args_time_course fsem fsemN m c rows = Val out ->
    NoDup (map fst out)
    /\ forall t,
      (In t (map fst rows) ->
         exists s r, last_row t s rows /\ get_args_notime fsem fsemN m c s t = Val r /\ zlookup t out = Some r)
      /\ (~ In t (map fst rows) -> zlookup t out = None).
  Proof. exact (tc_generic m c (arg_names m c false) rows out). Qed.

  Lemma fluxes_time_course_rows m c rows out :
    get_fluxes_time_course fsem fsemN m c rows = Val out ->
    NoDup (map fst out)
    /\ forall t,
      (In t (map fst rows) ->
         exists s r, last_row t s rows /\ get_fluxes fsem fsemN m c s t = Val r /\ zlookup t out = Some r)
      /\ (~ In t (map fst rows) -> zlookup t out = None).
  Proof. exact (tc_generic m c (flux_names m) rows out). Qed.

  (** the right-hand-side table computed from the argument table: per label the named right-hand side at
      that row's own state and time (computed coefficients that read the time included) *)
  Lemma rhs_time_course_rows m c rows out d :
    WF m -> create_cache fsem fsemN gen_sort_facts m = Val c ->
    (forall t s, In (t, s) rows -> incl (keys s) (keys (m_var m))) ->
    get_args_time_course fsem fsemN m c rows = Val out ->
    get_rhs_time_course fsem m c out = Val d ->
    forall t,
      (In t (map fst rows) ->
         exists s dx, last_row t s rows /\ get_rhs fsem fsemN m c s t = Val dx /\ zlookup t d = Some dx)
      /\ (~ In t (map fst rows) -> zlookup t d = None).
  Proof.
    intros HWF Hc Hvars Ha Hd t.
    destruct (args_time_course_rows m c rows out Ha) as [Hnd Hrows]. destruct (Hrows t) as [Hin Hout].
    unfold get_rhs_time_course in Hd.
    destruct (by_time_spec _ out [] d Hd t) as [Hdin Hdout]. split.
    - intro Hr. destruct (Hin Hr) as (s & r & Hl & Hq & Hlk).
      assert (Hto : In t (map fst out)).
      { apply zlookup_In in Hlk. apply (in_map fst) in Hlk. exact Hlk. }
      destruct (Hdin Hto) as (r' & dx & Hl' & Hf & Hz).
      assert (r' = r).
      { apply last_row_In in Hl'. rewrite (zlookup_nodup_in t r' out Hnd Hl') in Hlk. injection Hlk as ->. reflexivity. }
      subst r'. exists s, dx. split; [exact Hl|]. split; [|exact Hz].
      unfold get_args_notime in Hq. unfold get_rhs.
      destruct (get_args_raw fsem fsemN m c s t) as [e|] eqn:Ee; [|discriminate]. cbn [bind] in Hq |- *.
      rewrite <- Hf. symmetry.
      apply (time_course_form gen_sort_facts gen_sc fsem fsemN m c s t e r HWF Hc); [|exact Ee|exact Hq].
      apply (Hvars t s). apply last_row_In. exact Hl.
    - intro Hn. rewrite (Hdout (proj1 (zlookup_None_notin t out) (Hout Hn))). reflexivity.
  Qed.

  (** [variables=None]: the resolved initial conditions, evaluated AT THE TIME GIVEN *)
  Lemma default_state_at_given_time m c t tab :
    WF m -> create_cache fsem fsemN gen_sort_facts m = Val c ->
    get_args_pub fsem fsemN m c None t = Val tab ->
    exists e,
      get_args_raw fsem fsemN m c (c_init c) t = Val e
      /\ lookup time_name e = Some t
      /\ (forall x v, lookup x (c_init c) = Some v -> lookup x e = Some v)
      /\ (forall nm cmp, In (nm, cmp) (containers m) -> comp_holds fsem fsemN nm cmp (env_of_dict (m_dat m) e))
      /\ keys tab = arg_names m c true
      /\ (forall k v, In (k, v) tab -> lookup k e = Some v)
      /\ get_fluxes_pub fsem fsemN m c None t = get_fluxes fsem fsemN m c (c_init c) t
      /\ get_rhs_pub fsem fsemN m c None t = get_rhs fsem fsemN m c (c_init c) t.
  Proof.
    intros HWF Hc Hq. unfold get_args_pub, state_or_default in Hq. unfold get_args in Hq.
    destruct (get_args_raw fsem fsemN m c (c_init c) t) as [e|] eqn:Ee; [|discriminate]. cbn [bind] in Hq.
    destruct (initial_assignments_resolved_once gen_sort_facts gen_sc fsem fsemN m c HWF Hc)
      as (e0 & _ & _ & _ & _ & Hk & _ & _).
    assert (Hnd : NoDup (keys (c_init c))) by (rewrite Hk; apply nodup_keys_var; exact HWF).
    assert (Hincl : incl (keys (c_init c)) (keys (m_var m))) by (rewrite Hk; apply incl_refl).
    destruct (args_fully_resolved gen_sort_facts gen_sc fsem fsemN m c (c_init c) t e HWF Hc Hnd Hincl Ee)
      as (Ht & Hv & _ & Hh & _).
    destruct (select_spec _ _ _ Hq) as [Hkeys Hvals].
    exists e. repeat split; try assumption; reflexivity.
  Qed.

  (** a supplied state is a MAPPING: two association lists that agree as maps give the same answers
      through every named entry point (key order, i.e. dict insertion order, is irrelevant) *)
  Lemma select_ext names (e e' : env) : (forall k, lookup k e' = lookup k e) -> select names e' = select names e.
  Proof.
    intro H. induction names as [|k rest IH]; [reflexivity|]. cbn [select]. rewrite H, IH. reflexivity.
  Qed.

  Lemma state_key_order_irrelevant m c vars vars' t e e' :
    WF m -> create_cache fsem fsemN gen_sort_facts m = Val c ->
    NoDup (keys vars) -> NoDup (keys vars') -> incl (keys vars) (keys (m_var m)) ->
    (forall k, lookup k vars' = lookup k vars) ->
    get_args_raw fsem fsemN m c vars t = Val e ->
    get_args_raw fsem fsemN m c vars' t = Val e' ->
    (forall k, lookup k e' = lookup k e)
    /\ get_args fsem fsemN m c vars' t = get_args fsem fsemN m c vars t
    /\ get_fluxes fsem fsemN m c vars' t = get_fluxes fsem fsemN m c vars t
    /\ get_rhs fsem fsemN m c vars' t = get_rhs fsem fsemN m c vars t
    /\ get_args_notime fsem fsemN m c vars' t = get_args_notime fsem fsemN m c vars t.
  Proof.
    intros HWF Hc Hnd Hnd' Hi Hv Hq Hq'.
    assert (Hext : forall k, lookup k e' = lookup k e).
    { exact (args_agree gen_sort_facts gen_sc gen_cap gen_cmp fsem fsemN m m HWF (same_components_refl m)
                        c c vars vars' t e e' Hc Hc Hnd Hnd' Hi Hv Hq Hq'). }
    split; [exact Hext|].
    unfold get_args, get_fluxes, get_rhs, get_args_notime. rewrite Hq, Hq'. cbn [bind].
    rewrite !(select_ext _ e e' Hext). rewrite (rhs_of_args_ext fsem e e' Hext). repeat split; reflexivity.
  Qed.
End TC.
