(** Generally useful lemmas about association lists / environments of the core model
    ([lookup], [has], [dset], [dsetdefault], [env_of_dict], [keys], [lookups], [select]),
    occurrence counting (used to derive every disjointness fact from ONE [NoDup]) and sublists. *)
From Coq Require Import ZArith List Bool Lia Permutation.
From MxlBase Require Import ListX.
From Core Require Import Sort Model Cache Query.
Import ListNotations.

(** ---- lookup ----------------------------------------------------------------------- *)

Lemma lookup_cons_eq {A} k (v : A) e : lookup k ((k, v) :: e) = Some v.
Proof. cbn [lookup]. rewrite N.eqb_refl. reflexivity. Qed.

Lemma lookup_cons_ne {A} k k' (v : A) e : k <> k' -> lookup k ((k', v) :: e) = lookup k e.
Proof. intro H. cbn [lookup]. apply N.eqb_neq in H. rewrite H. reflexivity. Qed.

Lemma lookup_app {A} k (a b : list (name * A)) :
  lookup k (a ++ b) = match lookup k a with Some v => Some v | None => lookup k b end.
Proof.
  induction a as [|[k' v] a IH]; [reflexivity|].
  cbn [app lookup]. destruct (N.eqb k k'); [reflexivity|exact IH].
Qed.

Lemma lookup_In {A} k (v : A) e : lookup k e = Some v -> In (k, v) e.
Proof.
  induction e as [|[k' v'] e IH]; [discriminate|].
  cbn [lookup]. destruct (N.eqb_spec k k') as [->|Hne]; intro H.
  - injection H as ->. left. reflexivity.
  - right. apply IH. exact H.
Qed.

Lemma lookup_In_keys {A} k (v : A) e : lookup k e = Some v -> In k (keys e).
Proof. intro H. apply lookup_In in H. unfold keys. apply (in_map fst) in H. exact H. Qed.

Lemma lookup_None {A} k (e : list (name * A)) : lookup k e = None <-> ~ In k (keys e).
Proof.
  induction e as [|[k' v'] e IH]; cbn [lookup keys map fst In].
  - split; [intros _ []|reflexivity].
  - destruct (N.eqb_spec k k') as [->|Hne].
    + split; [discriminate|]. intro H. exfalso. apply H. left. reflexivity.
    + rewrite IH. unfold keys. split.
      * intros H [E|E]; [apply Hne; symmetry; exact E|exact (H E)].
      * intros H E. apply H. right. exact E.
Qed.

Lemma lookup_Some_of_In {A} k (e : list (name * A)) : In k (keys e) -> exists v, lookup k e = Some v.
Proof.
  intro H. destruct (lookup k e) as [v|] eqn:E; [exists v; reflexivity|].
  exfalso. apply lookup_None in E. exact (E H).
Qed.

Lemma lookup_NoDup {A} k (v : A) e : NoDup (keys e) -> In (k, v) e -> lookup k e = Some v.
Proof.
  induction e as [|[k' v'] e IH]; [intros _ []|].
  cbn [keys map fst]. intros Hnd [E|Hin].
  - injection E as -> ->. apply lookup_cons_eq.
  - inversion Hnd as [|? ? Hni Hnd']; subst.
    rewrite lookup_cons_ne.
    + apply IH; assumption.
    + intros ->. apply Hni. apply (in_map fst) in Hin. exact Hin.
Qed.

Lemma has_In {A} k (e : list (name * A)) : has k e = true <-> In k (keys e).
Proof.
  unfold has. destruct (lookup k e) as [v|] eqn:E.
  - split; [intros _; exact (lookup_In_keys _ _ _ E)|reflexivity].
  - apply lookup_None in E. split; [discriminate|]. intro H. exfalso. exact (E H).
Qed.

Lemma has_false {A} k (e : list (name * A)) : has k e = false <-> ~ In k (keys e).
Proof.
  rewrite <- has_In. destruct (has k e); split; intro H; try reflexivity; try discriminate.
  exfalso. apply H. reflexivity.
Qed.

Lemma has_lookup_None {A} k (e : list (name * A)) : has k e = false <-> lookup k e = None.
Proof. rewrite has_false, lookup_None. reflexivity. Qed.

Lemma keys_app {A} (a b : list (name * A)) : keys (a ++ b) = keys a ++ keys b.
Proof. unfold keys. apply map_app. Qed.

Lemma keys_rev {A} (a : list (name * A)) : keys (rev a) = rev (keys a).
Proof. unfold keys. apply map_rev. Qed.

Lemma lookup_rev_NoDup {A} k (e : list (name * A)) : NoDup (keys e) -> lookup k (rev e) = lookup k e.
Proof.
  intro Hnd. destruct (lookup k e) as [v|] eqn:E.
  - apply lookup_NoDup.
    + rewrite keys_rev. apply NoDup_rev. exact Hnd.
    + apply in_rev. rewrite rev_involutive. apply lookup_In. exact E.
  - apply lookup_None. apply lookup_None in E. rewrite keys_rev. intro H. apply E. apply in_rev. exact H.
Qed.

Lemma lookup_env_of_dict k d e :
  lookup k (env_of_dict d e) = match lookup k (rev d) with Some v => Some v | None => lookup k e end.
Proof. unfold env_of_dict. apply lookup_app. Qed.

Lemma lookup_filter_keys k (p : name -> bool) (e : env) :
  lookup k (filter (fun kv => p (fst kv)) e) = if p k then lookup k e else None.
Proof.
  induction e as [|[k' v] e IH]; [destruct (p k); reflexivity|].
  cbn [filter fst]. destruct (p k') eqn:Ep.
  - cbn [lookup]. destruct (N.eqb_spec k k') as [->|Hne].
    + rewrite Ep. reflexivity.
    + exact IH.
  - rewrite IH. cbn [lookup]. destruct (N.eqb_spec k k') as [->|Hne]; [|reflexivity].
    rewrite Ep. reflexivity.
Qed.

Lemma lookups_ext ks (e e' : env) :
  (forall a, In a ks -> lookup a e' = lookup a e) -> lookups ks e' = lookups ks e.
Proof.
  induction ks as [|k r IH]; intro H; [reflexivity|].
  cbn [lookups]. rewrite (H k (or_introl eq_refl)). rewrite IH; [reflexivity|].
  intros a Ha. apply H. right. exact Ha.
Qed.

(** ---- dset / dsetdefault ------------------------------------------------------------ *)

Lemma lookup_dset_eq {A} k (v : A) d : lookup k (dset k v d) = Some v.
Proof.
  induction d as [|[k' v'] d IH]; cbn [dset].
  - apply lookup_cons_eq.
  - destruct (N.eqb_spec k k') as [->|Hne].
    + apply lookup_cons_eq.
    + rewrite lookup_cons_ne by exact Hne. exact IH.
Qed.

Lemma lookup_dset_ne {A} k k' (v : A) d : k <> k' -> lookup k (dset k' v d) = lookup k d.
Proof.
  intro Hne. induction d as [|[k2 v2] d IH]; cbn [dset].
  - rewrite lookup_cons_ne by exact Hne. reflexivity.
  - destruct (N.eqb_spec k' k2) as [->|Hne2].
    + rewrite !lookup_cons_ne by exact Hne. reflexivity.
    + cbn [lookup]. destruct (N.eqb k k2); [reflexivity|exact IH].
Qed.

Lemma dset_fresh {A} k (v : A) d : has k d = false -> dset k v d = d ++ [(k, v)].
Proof.
  induction d as [|[k' v'] d IH]; intro H; [reflexivity|].
  apply has_false in H. cbn [keys map fst In] in H. cbn [dset app].
  destruct (N.eqb_spec k k') as [->|Hne].
  - exfalso. apply H. left. reflexivity.
  - rewrite IH; [reflexivity|]. apply has_false. intro E. apply H. right. exact E.
Qed.

Lemma keys_dset_has {A} k (v : A) d : has k d = true -> keys (dset k v d) = keys d.
Proof.
  induction d as [|[k' v'] d IH]; intro H.
  - discriminate.
  - cbn [dset]. destruct (N.eqb_spec k k') as [->|Hne]; [reflexivity|].
    cbn [keys map fst]. f_equal. apply IH.
    unfold has in *. rewrite lookup_cons_ne in H by exact Hne. exact H.
Qed.

Lemma keys_dset {A} k (v : A) d : keys (dset k v d) = if has k d then keys d else keys d ++ [k].
Proof.
  destruct (has k d) eqn:E.
  - apply keys_dset_has. exact E.
  - rewrite dset_fresh by exact E. rewrite keys_app. reflexivity.
Qed.

Lemma keys_dset_In {A} k (v : A) d x : In x (keys (dset k v d)) <-> x = k \/ In x (keys d).
Proof.
  rewrite keys_dset. destruct (has k d) eqn:E.
  - apply has_In in E. split; [intro H; right; exact H|]. intros [->|H]; assumption.
  - rewrite in_app_iff. cbn [In]. split.
    + intros [H|[H|[]]]; [right; exact H|left; symmetry; exact H].
    + intros [->|H]; [right; left; reflexivity|left; exact H].
Qed.

Lemma NoDup_keys_dset {A} k (v : A) d : NoDup (keys d) -> NoDup (keys (dset k v d)).
Proof.
  intro Hnd. rewrite keys_dset. destruct (has k d) eqn:E; [exact Hnd|].
  apply has_false in E.
  apply NoDup_rev in Hnd. rewrite <- (rev_involutive (keys d ++ [k])). apply NoDup_rev.
  rewrite rev_app_distr. cbn [rev app]. constructor; [|exact Hnd].
  intro H. apply E. apply in_rev. exact H.
Qed.

Lemma has_dsetdefault_same {A} k (dflt : A) d : has k (dsetdefault k dflt d) = true.
Proof.
  unfold dsetdefault. destruct (has k d) eqn:E; [exact E|].
  apply has_In. rewrite keys_app, in_app_iff. right. left. reflexivity.
Qed.

Lemma lookup_dsetdefault_same {A} k (dflt : A) d :
  lookup k (dsetdefault k dflt d) = match lookup k d with Some r => Some r | None => Some dflt end.
Proof.
  unfold dsetdefault, has. destruct (lookup k d) as [r|] eqn:E; [exact E|].
  rewrite lookup_app, E. apply lookup_cons_eq.
Qed.

Lemma lookup_dsetdefault_ne {A} k k' (dflt : A) d : k <> k' -> lookup k (dsetdefault k' dflt d) = lookup k d.
Proof.
  intro Hne. unfold dsetdefault. destruct (has k' d); [reflexivity|].
  rewrite lookup_app. destruct (lookup k d); [reflexivity|]. rewrite lookup_cons_ne by exact Hne. reflexivity.
Qed.

Lemma NoDup_keys_dsetdefault {A} k (dflt : A) d : NoDup (keys d) -> NoDup (keys (dsetdefault k dflt d)).
Proof.
  intro Hnd. unfold dsetdefault. destruct (has k d) eqn:E; [exact Hnd|].
  rewrite <- (dset_fresh k dflt d E). apply NoDup_keys_dset. exact Hnd.
Qed.

(** ---- combine / nth_error ----------------------------------------------------------- *)

Lemma nth_error_combine {A B} (a : list A) (b : list B) i :
  nth_error (combine a b) i =
  match nth_error a i, nth_error b i with Some x, Some y => Some (x, y) | _, _ => None end.
Proof.
  revert b i. induction a as [|x a IH]; intros b i.
  - destruct i; reflexivity.
  - destruct b as [|y b].
    + destruct i; cbn [combine nth_error]; [reflexivity|]. destruct (nth_error a i); reflexivity.
    + destruct i; cbn [combine nth_error]; [reflexivity|]. apply IH.
Qed.

Lemma keys_combine {A} (ks : list name) (vs : list A) :
  length ks = length vs -> keys (combine ks vs) = ks.
Proof.
  revert vs. induction ks as [|k ks IH]; intros [|v vs] H; try discriminate; [reflexivity|].
  cbn [combine keys map fst]. f_equal. apply IH. injection H as H. exact H.
Qed.

Lemma keys_combine_incl {A} (ks : list name) (vs : list A) : incl (keys (combine ks vs)) ks.
Proof.
  revert vs. induction ks as [|k ks IH]; intros [|v vs] x Hx; try destruct Hx.
  - left. assumption.
  - right. eapply IH. eassumption.
Qed.

(** ---- select ------------------------------------------------------------------------ *)

Lemma select_spec names e r :
  select names e = Val r -> keys r = names /\ forall k v, In (k, v) r -> lookup k e = Some v.
Proof.
  revert r. induction names as [|k rest IH]; intros r H; cbn [select] in H.
  - injection H as <-. split; [reflexivity|intros ? ? []].
  - destruct (lookup k e) as [v|] eqn:E; [|discriminate].
    destruct (select rest e) as [r'|] eqn:E'; [|discriminate]. cbn [bind] in H. injection H as <-.
    destruct (IH r' eq_refl) as [Hk Hv]. split.
    + cbn [keys map fst]. f_equal. exact Hk.
    + intros k' v' [Eq|Hin]; [injection Eq as <- <-; exact E|apply Hv; exact Hin].
Qed.

Lemma select_self (d : env) : NoDup (keys d) -> select (keys d) d = Val d.
Proof.
  intro Hnd.
  assert (G : forall l, incl l d -> select (keys l) d = Val l).
  { induction l as [|[k v] l IH]; intro Hi; [reflexivity|].
    cbn [keys map fst select].
    rewrite (lookup_NoDup k v d Hnd) by (apply Hi; left; reflexivity).
    fold (keys l). rewrite IH; [reflexivity|]. intros x Hx. apply Hi. right. exact Hx. }
  apply G. apply incl_refl.
Qed.

(** ---- counting occurrences: every disjointness fact from one NoDup ------------------ *)

Definition cnt (x : N) (l : list N) : nat := count_occ N.eq_dec l x.

Lemma cnt_app x a b : cnt x (a ++ b) = cnt x a + cnt x b.
Proof. apply count_occ_app. Qed.
Lemma cnt_cons x y l : cnt x (y :: l) = (if N.eq_dec y x then 1 else 0) + cnt x l.
Proof. unfold cnt. cbn [count_occ]. destruct (N.eq_dec y x); reflexivity. Qed.
Lemma cnt_nil x : cnt x [] = 0.
Proof. reflexivity. Qed.
Lemma cnt_In x l : In x l <-> cnt x l > 0.
Proof. apply count_occ_In. Qed.
Lemma cnt_not_In x l : ~ In x l <-> cnt x l = 0.
Proof. apply count_occ_not_In. Qed.
Lemma cnt_NoDup l : NoDup l <-> forall x, cnt x l <= 1.
Proof. apply NoDup_count_occ. Qed.
Lemma cnt_perm l l' x : Permutation l l' -> cnt x l = cnt x l'.
Proof. intro H. apply (proj1 (Permutation_count_occ N.eq_dec l l') H). Qed.
Lemma cnt_self x l : cnt x (x :: l) = 1 + cnt x l.
Proof. rewrite cnt_cons. destruct (N.eq_dec x x); [reflexivity|congruence]. Qed.

Lemma NoDup_app_disj (a b : list N) x : NoDup (a ++ b) -> In x a -> In x b -> False.
Proof.
  intros Hnd Ha Hb. apply cnt_NoDup with (x := x) in Hnd. rewrite cnt_app in Hnd.
  apply cnt_In in Ha. apply cnt_In in Hb. lia.
Qed.

(** ---- sublists ---------------------------------------------------------------------- *)

Inductive sublist {A} : list A -> list A -> Prop :=
| sl_nil : sublist [] []
| sl_skip x l1 l2 : sublist l1 l2 -> sublist l1 (x :: l2)
| sl_keep x l1 l2 : sublist l1 l2 -> sublist (x :: l1) (x :: l2).

Lemma sublist_In {A} (l1 l2 : list A) x : sublist l1 l2 -> In x l1 -> In x l2.
Proof.
  induction 1 as [|y l1 l2 _ IH|y l1 l2 _ IH]; intro H.
  - exact H.
  - right. apply IH. exact H.
  - destruct H as [->|H]; [left; reflexivity|right; apply IH; exact H].
Qed.

Lemma sublist_map_inv {A B} (f : A -> B) (l : list A) (d : list B) :
  sublist d (map f l) -> exists l', sublist l' l /\ map f l' = d.
Proof.
  revert d. induction l as [|x l IH]; intros d H; cbn [map] in H.
  - inversion H; subst. exists []. split; [constructor|reflexivity].
  - inversion H as [|y l1 l2 Hs|y l1 l2 Hs]; subst.
    + destruct (IH d Hs) as [l' [H1 H2]]. exists l'. split; [constructor; exact H1|exact H2].
    + destruct (IH l1 Hs) as [l' [H1 H2]]. exists (x :: l'). split; [constructor; exact H1|].
      cbn [map]. rewrite H2. reflexivity.
Qed.

Lemma sublist_flat_map_In {A B} (f : A -> list B) (l1 l2 : list A) y :
  sublist l1 l2 -> In y (flat_map f l1) -> In y (flat_map f l2).
Proof.
  intros Hs H. apply in_flat_map in H. destruct H as [x [Hx Hy]].
  apply in_flat_map. exists x. split; [eapply sublist_In; eassumption|exact Hy].
Qed.

(** ---- env_of_dict, more ------------------------------------------------------------- *)

Lemma lookup_env_of_dict_notin k d e : ~ In k (keys d) -> lookup k (env_of_dict d e) = lookup k e.
Proof.
  intro H. rewrite lookup_env_of_dict.
  assert (E : lookup k (rev d) = None).
  { apply lookup_None. rewrite keys_rev. intro Hin. apply H. apply in_rev. exact Hin. }
  rewrite E. reflexivity.
Qed.

Lemma lookup_env_of_dict_nodup k d e :
  NoDup (keys d) ->
  lookup k (env_of_dict d e) = match lookup k d with Some v => Some v | None => lookup k e end.
Proof. intro H. rewrite lookup_env_of_dict, lookup_rev_NoDup by exact H. reflexivity. Qed.

Lemma lookup_env_of_dict_in k v d e :
  NoDup (keys d) -> In (k, v) d -> lookup k (env_of_dict d e) = Some v.
Proof.
  intros Hnd Hin. rewrite lookup_env_of_dict_nodup by exact Hnd.
  rewrite (lookup_NoDup k v d Hnd Hin). reflexivity.
Qed.

(** init_conditions has the shape of select *)
Lemma init_conditions_spec vars dep r :
  init_conditions vars dep = Val r -> keys r = vars /\ forall k v, In (k, v) r -> lookup k dep = Some v.
Proof.
  revert r. induction vars as [|k rest IH]; intros r H; cbn [init_conditions] in H.
  - injection H as <-. split; [reflexivity|intros ? ? []].
  - destruct (lookup k dep) as [v|] eqn:E; [|discriminate].
    destruct (init_conditions rest dep) as [r'|] eqn:E'; [|discriminate]. cbn [bind] in H. injection H as <-.
    destruct (IH r' eq_refl) as [Hk Hv]. split.
    + cbn [keys map fst]. f_equal. exact Hk.
    + intros k' v' [Eq|Hin]; [injection Eq as <- <-; exact E|apply Hv; exact Hin].
Qed.

Lemma in_keys {A} k (v : A) (l : list (name * A)) : In (k, v) l -> In k (keys l).
Proof. intro H. apply (in_map fst) in H. exact H. Qed.
