(** Hand-edited (together with a [fix:] commit in /repo only): the facts PropsC11.v expects the
    extractor to regenerate from the current tree.

    [C11_expected_register]
      RegOverwrite   the snapshot: [functions[key] = (expr, args)] -- definitions that share a key
                     overwrite each other (recorded findings C11-same-name-collapse,
                     C11-prefix-collision, C11-duplicate-argument; theorem C11_roundtrip_partial)
      RegFresh       after fixes/C11-function-name-collisions.diff: [_register_fn] / [_parameter_names]
                     (theorem C11_roundtrip, no guard)
    tools/c11_switch.py rewrites this line and known_findings.d/C11.json consistently. *)
From MxlGen Require Import SymRepr.

Definition C11_expected_register : register_mode := RegFresh.

Definition C11_facts (r : register_mode) : gen_facts :=
  mkGenFacts KsInit KsInit KsPlain KsPlain KsRxnStoich r true true.
