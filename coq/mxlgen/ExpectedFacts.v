(** Hand-edited (together with a [fix:] commit in /repo only): the facts PropsC11.v expects the
    extractor to regenerate from the current tree.

    [C11_expected_register]
      RegOverwrite   the snapshot: [functions[key] = (expr, args)] -- definitions that share a key
                     overwrite each other (recorded findings C11-same-name-collapse,
                     C11-prefix-collision, C11-duplicate-argument; theorem C11_roundtrip_partial)
      RegFresh       after fixes/C11-function-name-collisions.diff: [_register_fn] / [_parameter_names]
                     (theorem C11_roundtrip, no guard)
    tools/c11_switch.py rewrites this line and known_findings.d/C11.json consistently.

    The three naming facts are expected at their shipped values: [PnAllArgs] (a fresh parameter name is
    checked against every model name of the argument list), [IcPositional] (definitions share a name iff
    their positional forms are equal), [RnDelegated] (fn_to_sympy puts the model names in, simultaneously).
    The other values are the shapes of the seeded changes C11-1..3; PropsC11.v keeps a regression theorem
    for each. *)
From MxlGen Require Import SymRepr.

Definition C11_expected_register : register_mode := RegFresh.

(** [C11_expected_emit]
      EmSympy15   the tree as it is: plain numbers are written with 15 significant digits, units as bare
                  names, no `import math` (recorded findings C11-emit-number-literals, C11-emit-math-import,
                  C11-emit-units)
      EmExact     after fixes/C11-emitted-numbers-imports-units.diff
    tools/c11_emit_switch.py rewrites this line and known_findings.d/C11.json consistently. *)
Definition C11_expected_emit : emit_mode := EmExact.

Definition C11_facts (r : register_mode) : gen_facts :=
  mkGenFacts KsInit KsInit KsPlain KsPlain KsRxnStoich r true true
             (match r with RegFresh => PnAllArgs | _ => PnUnknown end)      (* the snapshot has no _parameter_names *)
             (match r with RegFresh => IcPositional | _ => IcUnknown end)   (* ... and no _register_fn *)
             RnDelegated
             C11_expected_emit.
