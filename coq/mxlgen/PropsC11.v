From MxlGen Require Import SymRepr GenMxlGenFacts.
Theorem C11_facts_pinned :
  gen_mxlgen_facts = mkGenFacts KsInit KsInit KsPlain KsPlain KsRxnStoich true true.
Proof. vm_compute. reflexivity. Qed.
Print Assumptions C11_facts_pinned.
