(** C11 -- Model -> generated MxlPy source -> model preserves behaviour, or generation fails.

    ONLY theorem statements (written out in full), each closed by [exact <lemma>] and followed by
    [Print Assumptions].  The executable model: SymRepr.v ([generate_from_symrepr]: the [functions]
    dict, its keys, [register]), MxlGen.v ([to_symbolic_repr], [generate], [exec_code], [fsem_gen],
    [roundtrip]); the behaviour of a model is Core's [create_cache] / [get_args] / [get_fluxes] /
    [get_rhs] (the models of C01/C13).

    The way the generator stores a definition under its key is a REGENERATED fact
    ([gf_register gen_mxlgen_facts], pinned by [C11_facts_pinned] to ExpectedFacts.v):
      RegFresh      (fixes/C11-function-name-collisions.diff applied)  ->  C11_roundtrip, the full statement
      RegOverwrite  (the snapshot)  ->  C11_roundtrip_partial under its guards, and the three
                    [_refuted] theorems (recorded findings) show that the guards are needed.
    Both theorems are stated for EVERY fact record with that way of storing (any key scheme).

    External parts enter as quantified functions with hypotheses:
      translate / eval / fsem   fn_to_sympy + SymPy's printer + CPython: C06 soundness is the hypothesis
                                [eval (translate f margs) en = fsem f (values of margs in en)]
      same_fn                   SymPy's structural comparison of two positional functions
                                ([_positional_fn(..) == _positional_fn(..)]): equal => same function.

    Three further REGENERATED facts describe the naming machinery of the repaired generator, each pinned
    at its shipped value by [C11_facts_pinned]; the other value is the shape of a seeded change and has
    a regression theorem here:
      gf_param_check   _parameter_names: a candidate name is checked against the parameters emitted so
                       far AND every model name of the argument list (PnAllArgs) / only the former
      gf_interchange   _register_fn: definitions share a name iff their POSITIONAL forms are equal
                       (IcPositional) / already when their substituted expressions are equal
      gf_rename        _fn_to_symbolic_repr: fn_to_sympy puts the model names in, simultaneously
                       (RnDelegated) / own sequential .subs *)
From Coq Require Import ZArith List Bool String.
From MxlBase Require Import ListX.
From Core Require Import Sort GenSortFacts Model Cache Query.
From MxlGen Require Import SymRepr GenMxlGenFacts ExpectedFacts MxlGen MxlGenSpec MxlGenSem MxlGenProofs
                           Corr CorrProofs ParamNames MxlGenWitness NamingWitness
                           Imports CallDefaults ImportsProofs CallDefaultsProofs
                           NameScope NameScopeProofs Session SessionProofs.
Import ListNotations.
Local Open Scope string_scope.
Local Open Scope N_scope.

Theorem C11_facts_pinned : gen_mxlgen_facts = C11_facts C11_expected_register.
Proof. vm_compute. reflexivity. Qed.
Print Assumptions C11_facts_pinned.

(** FULL STATEMENT (repaired generator: a definition whose key is taken by a different positional
    function gets a fresh name; emitted parameters are pairwise different).
    For EVERY model of variables, parameters, derived quantities and reactions (ids pairwise
    different, none is "time"), EVERY assignment of function objects to its slots -- one function
    under several argument lists, different functions with one __name__, names that look like
    generated keys, repeated arguments -- : if generation succeeds, executing the generated source
    rebuilds a model [m'] with the same component names in the same kinds and order, and -- under
    the meaning of the emitted defs -- the same outcome of cache construction: same initial
    conditions (initial assignments resolved), same parameter values (assignment-defined and
    derived parameters included) and, at EVERY state and time, the same arguments (derived values
    included), fluxes and derivatives; an error of the source model is the same error. *)
Theorem C11_roundtrip :
  forall (E : Type) (nstr : name -> string) (fname : fnid -> string)
         (translate : fnid -> list name -> option E) (eval : E -> env -> option Z)
         (same_fn : E * list name -> E * list name -> bool)
         (fsem : fnid -> list Z -> option Z) (fsemN : fnid -> list Z -> option (list Z)) (SF : sort_facts),
    (forall f margs e, translate f margs = Some e ->
       forall en vs, lookups margs en = Some vs -> eval e en = fsem f vs) ->
    (forall q p, same_fn q p = true ->
       forall vs, defsem E eval (fst q) (snd q) vs = defsem E eval (fst p) (snd p) vs) ->
    forall (F : gen_facts) (m : model) (c : code E),
      gf_register F = RegFresh ->
      UniqueIds m -> m_sur m = [] -> m_dat m = [] ->
      generate E nstr fname translate same_fn F m = Some c ->
      exists m', exec_code E c = Built m'
        /\ keys (m_var m') = keys (m_var m) /\ keys (m_par m') = keys (m_par m)
        /\ keys (m_der m') = keys (m_der m) /\ keys (m_rxn m') = keys (m_rxn m)
        /\ match create_cache fsem fsemN SF m, create_cache (fsem_gen E eval (c_defs c)) fsemN SF m' with
           | Val ch, Val ch' =>
             c_init ch' = c_init ch /\ c_base_par ch' = c_base_par ch /\ c_all_par ch' = c_all_par ch
             /\ forall vars t,
                  get_args (fsem_gen E eval (c_defs c)) fsemN m' ch' vars t = get_args fsem fsemN m ch vars t
                  /\ get_fluxes (fsem_gen E eval (c_defs c)) fsemN m' ch' vars t = get_fluxes fsem fsemN m ch vars t
                  /\ get_rhs (fsem_gen E eval (c_defs c)) fsemN m' ch' vars t = get_rhs fsem fsemN m ch vars t
           | Err e, Err e' => e' = e
           | _, _ => False
           end.
Proof. exact roundtrip_full. Qed.
Print Assumptions C11_roundtrip.

(** the search for a fresh name ([while name in functions and ...: name = f"{fn_name}_{i}"]) always
    ends within len(functions) + 1 candidates: the fuel of the model is never exhausted *)
Theorem C11_fresh_name_found :
  forall (E : Type) (same_fn : E * list name -> E * list name -> bool)
         (fn_name : string) (p : E * list name) (functions : fdict E),
    find_name E same_fn (S (length functions)) fn_name 0 p functions <> None.
Proof. exact find_name_total. Qed.
Print Assumptions C11_fresh_name_found.

(** PARTIAL (the snapshot's generator: [functions[key] = (expr, args)], the last writer of a key wins).
    The same conclusion under three guards:
      ArgsDupFree             no slot passes the same model name twice;
      NameDeterminesFunction  slots whose definitions are stored under the same key hold
                              extensionally equal functions (so: one function under any number of
                              argument lists, and same-named functions with equal meaning, are fine);
      (arity)                 the translation checks the number of arguments and a call with a wrong
                              number of arguments fails.
    Missing w.r.t. the full statement: exactly the models outside the guards -- see the three
    [_refuted] theorems below (recorded findings). *)
Theorem C11_roundtrip_partial :
  forall (E : Type) (nstr : name -> string) (fname : fnid -> string)
         (translate : fnid -> list name -> option E) (eval : E -> env -> option Z)
         (same_fn : E * list name -> E * list name -> bool)
         (fsem : fnid -> list Z -> option Z) (arity : fnid -> nat)
         (fsemN : fnid -> list Z -> option (list Z)) (SF : sort_facts),
    (forall f margs e, translate f margs = Some e ->
       forall en vs, lookups margs en = Some vs -> eval e en = fsem f vs) ->
    (forall f margs e, translate f margs = Some e -> length margs = arity f) ->
    (forall f vs, length vs <> arity f -> fsem f vs = None) ->
    forall (F : gen_facts) (m : model) (c : code E),
      gf_register F = RegOverwrite ->
      UniqueIds m -> m_sur m = [] -> m_dat m = [] ->
      (forall s, In s (slots nstr fname F m) -> NoDup (sl_args s)) ->
      (forall s1 s2, In s1 (slots nstr fname F m) -> In s2 (slots nstr fname F m) ->
                     sl_key s1 = sl_key s2 -> forall vs, fsem (sl_fn s1) vs = fsem (sl_fn s2) vs) ->
      generate E nstr fname translate same_fn F m = Some c ->
      exists m', exec_code E c = Built m'
        /\ keys (m_var m') = keys (m_var m) /\ keys (m_par m') = keys (m_par m)
        /\ keys (m_der m') = keys (m_der m) /\ keys (m_rxn m') = keys (m_rxn m)
        /\ match create_cache fsem fsemN SF m, create_cache (fsem_gen E eval (c_defs c)) fsemN SF m' with
           | Val ch, Val ch' =>
             c_init ch' = c_init ch /\ c_base_par ch' = c_base_par ch /\ c_all_par ch' = c_all_par ch
             /\ forall vars t,
                  get_args (fsem_gen E eval (c_defs c)) fsemN m' ch' vars t = get_args fsem fsemN m ch vars t
                  /\ get_fluxes (fsem_gen E eval (c_defs c)) fsemN m' ch' vars t = get_fluxes fsem fsemN m ch vars t
                  /\ get_rhs (fsem_gen E eval (c_defs c)) fsemN m' ch' vars t = get_rhs fsem fsemN m ch vars t
           | Err e, Err e' => e' = e
           | _, _ => False
           end.
Proof. exact roundtrip_guarded. Qed.
Print Assumptions C11_roundtrip_partial.

(** REFUTED for the snapshot's generator without NameDeterminesFunction (finding C11-same-name-collapse):
    v1 = moda.rate(x, k1) = x*k1, v2 = modb.rate(x, k2) = x+k2.  The round trip succeeds, the
    generated file has ONE def [rate]; source fluxes (6, 7) and dx/dt = 1, rebuilt (5, 7) and 2. *)
Theorem C11_same_name_refuted :
  exists (t : ftab) (m m' : model) (D : fdict cexpr) (ch ch' : cache),
    UniqueIds m
    /\ (forall s, In s (slots nstr (c_fname t) (C11_facts RegOverwrite) m) -> NoDup (sl_args s))
    /\ roundtrip cexpr nstr (c_fname t) (c_translate t) c_same_fn (C11_facts RegOverwrite) m = Built (m', D)
    /\ create_cache (c_fsem t) no_fsemN gen_sort_facts m = Val ch
    /\ create_cache (fsem_gen cexpr c_eval D) no_fsemN gen_sort_facts m' = Val ch'
    /\ get_fluxes (c_fsem t) no_fsemN m ch [(13, 2%Z)] 0 = Val [(14, 6%Z); (15, 7%Z)]
    /\ get_fluxes (fsem_gen cexpr c_eval D) no_fsemN m' ch' [(13, 2%Z)] 0 = Val [(14, 5%Z); (15, 7%Z)]
    /\ get_rhs (c_fsem t) no_fsemN m ch [(13, 2%Z)] 0 = Val [(13, 1%Z)]
    /\ get_rhs (fsem_gen cexpr c_eval D) no_fsemN m' ch' [(13, 2%Z)] 0 = Val [(13, 2%Z)].
Proof. exact same_name_refuted. Qed.
Print Assumptions C11_same_name_refuted.

(** REFUTED likewise across key kinds (finding C11-prefix-collision): parameter p := f_id(x) is stored
    under init_f_id; a derived uses a function literally NAMED init_f_id (= -a) and overwrites it:
    source p = 2, rebuilt p = -2. *)
Theorem C11_prefix_collision_refuted :
  exists (t : ftab) (m m' : model) (D : fdict cexpr) (ch ch' : cache),
    UniqueIds m
    /\ (forall s, In s (slots nstr (c_fname t) (C11_facts RegOverwrite) m) -> NoDup (sl_args s))
    /\ roundtrip cexpr nstr (c_fname t) (c_translate t) c_same_fn (C11_facts RegOverwrite) m = Built (m', D)
    /\ create_cache (c_fsem t) no_fsemN gen_sort_facts m = Val ch
    /\ create_cache (fsem_gen cexpr c_eval D) no_fsemN gen_sort_facts m' = Val ch'
    /\ c_all_par ch = [(12, 2%Z)] /\ c_all_par ch' = [(12, (-2)%Z)].
Proof. exact prefix_collision_refuted. Qed.
Print Assumptions C11_prefix_collision_refuted.

(** REFUTED without ArgsDupFree (finding C11-duplicate-argument): d = f_sub(x, x).  Every function is
    translatable, generation returns normally -- and the generated source is a SyntaxError. *)
Theorem C11_duplicate_argument_refuted :
  exists (t : ftab) (m : model) (c : code cexpr),
    UniqueIds m
    /\ (forall s, In s (slots nstr (c_fname t) (C11_facts RegOverwrite) m) ->
                  c_translate t (sl_fn s) (sl_args s) <> None)
    /\ generate cexpr nstr (c_fname t) (c_translate t) c_same_fn (C11_facts RegOverwrite) m = Some c
    /\ exec_code cexpr c = ExecSyntax.
Proof. exact duplicate_argument_refuted. Qed.
Print Assumptions C11_duplicate_argument_refuted.

(** ... for every generated code: a def that repeats a parameter (and was not renamed) never runs *)
Theorem C11_duplicate_parameter_is_syntax_error :
  forall (E : Type) (c : code E) (k : string) (body : E) (params : list name),
    c_renamed c = false -> In (k, (body, params)) (c_defs c) -> ~ NoDup params ->
    exec_code E c = ExecSyntax.
Proof. exact duplicate_parameter_syntax_error. Qed.
Print Assumptions C11_duplicate_parameter_is_syntax_error.

(** the same three models under the repaired generator (regression witnesses): two defs where the
    snapshot had one, the source's values are rebuilt *)
Theorem C11_witnesses_rebuild_when_repaired :
  (exists m' D ch ch',
      roundtrip cexpr nstr (c_fname Tw) (c_translate Tw) c_same_fn (C11_facts RegFresh) m_same_name = Built (m', D)
      /\ map fst D = ["rate"; "rate_1"]
      /\ create_cache (c_fsem Tw) no_fsemN gen_sort_facts m_same_name = Val ch
      /\ create_cache (fsem_gen cexpr c_eval D) no_fsemN gen_sort_facts m' = Val ch'
      /\ get_fluxes (fsem_gen cexpr c_eval D) no_fsemN m' ch' [(13, 2%Z)] 0 = get_fluxes (c_fsem Tw) no_fsemN m_same_name ch [(13, 2%Z)] 0
      /\ get_rhs (fsem_gen cexpr c_eval D) no_fsemN m' ch' [(13, 2%Z)] 0 = Val [(13, 1%Z)])
  /\ (exists m' D ch',
      roundtrip cexpr nstr (c_fname Tw) (c_translate Tw) c_same_fn (C11_facts RegFresh) m_prefix = Built (m', D)
      /\ map fst D = ["init_f_id"; "init_f_id_1"]
      /\ create_cache (fsem_gen cexpr c_eval D) no_fsemN gen_sort_facts m' = Val ch'
      /\ c_all_par ch' = [(12, 2%Z)])
  /\ (exists m' D ch',
      roundtrip cexpr nstr (c_fname Tw) (c_translate Tw) c_same_fn (C11_facts RegFresh) m_dup = Built (m', D)
      /\ create_cache (fsem_gen cexpr c_eval D) no_fsemN gen_sort_facts m' = Val ch'
      /\ get_args (fsem_gen cexpr c_eval D) no_fsemN m' ch' [(12, 5%Z)] 0 = Val [(0, 0%Z); (12, 5%Z); (11, 3%Z); (13, 0%Z)]).
Proof. exact witnesses_rebuild_when_repaired. Qed.
Print Assumptions C11_witnesses_rebuild_when_repaired.

(** "If a function cannot be translated, generation raises" -- and it raises ONLY then: the outcome
    of the whole round trip is [GenRaises] exactly if some slot of the model holds a function that
    fn_to_sympy refuses for the slot's arguments (whatever the facts) *)
Theorem C11_untranslatable_raises :
  forall (E : Type) (nstr : name -> string) (fname : fnid -> string)
         (translate : fnid -> list name -> option E)
         (same_fn : E * list name -> E * list name -> bool) (F : gen_facts) (m : model),
    roundtrip E nstr fname translate same_fn F m = GenRaises <->
    exists s, In s (slots nstr fname F m) /\ translate (sl_fn s) (sl_args s) = None.
Proof. exact roundtrip_raises_iff. Qed.
Print Assumptions C11_untranslatable_raises.

(** the hypotheses of C11_roundtrip_partial are satisfiable by a non-trivial model: f_sub serves two
    derived quantities with swapped arguments, a rate function, a computed coefficient *)
Example C11_roundtrip_partial_nonvacuous :
  (forall f margs e, c_translate Tw f margs = Some e ->
      forall en vs, lookups margs en = Some vs -> c_eval e en = c_fsem Tw f vs)
  /\ (forall f margs e, c_translate Tw f margs = Some e -> length margs = c_arity Tw f)
  /\ (forall f vs, length vs <> c_arity Tw f -> c_fsem Tw f vs = None)
  /\ UniqueIds m_reuse /\ m_sur m_reuse = [] /\ m_dat m_reuse = []
  /\ (forall s, In s (slots nstr (c_fname Tw) (C11_facts RegOverwrite) m_reuse) -> NoDup (sl_args s))
  /\ (forall s1 s2, In s1 (slots nstr (c_fname Tw) (C11_facts RegOverwrite) m_reuse) ->
                    In s2 (slots nstr (c_fname Tw) (C11_facts RegOverwrite) m_reuse) ->
                    sl_key s1 = sl_key s2 -> forall vs, c_fsem Tw (sl_fn s1) vs = c_fsem Tw (sl_fn s2) vs)
  /\ map sl_key (slots nstr (c_fname Tw) (C11_facts RegOverwrite) m_reuse) = ["f_sub"; "f_sub"; "rate"; "n0016_stoich_f_id"]
  /\ exists c, generate cexpr nstr (c_fname Tw) (c_translate Tw) c_same_fn (C11_facts RegOverwrite) m_reuse = Some c
               /\ map fst (c_defs c) = ["f_sub"; "rate"; "n0016_stoich_f_id"].
Proof. exact partial_nonvacuous. Qed.

(** the hypotheses of C11_roundtrip are satisfiable by a model with a same-name clash, a repeated
    argument and a reused function: four defs are emitted *)
Example C11_roundtrip_nonvacuous :
  (forall f margs e, c_translate Tw f margs = Some e ->
      forall en vs, lookups margs en = Some vs -> c_eval e en = c_fsem Tw f vs)
  /\ (forall q p, c_same_fn q p = true ->
        forall vs, defsem cexpr c_eval (fst q) (snd q) vs = defsem cexpr c_eval (fst p) (snd p) vs)
  /\ UniqueIds m_all /\ m_sur m_all = [] /\ m_dat m_all = []
  /\ exists c, generate cexpr nstr (c_fname Tw) (c_translate Tw) c_same_fn (C11_facts RegFresh) m_all = Some c
               /\ map fst (c_defs c) = ["f_sub"; "f_sub_1"; "rate"; "rate_1"].
Proof. exact full_nonvacuous. Qed.


(** ---------------------------------------------------------------------------------------------------
    The naming machinery of the repaired generator (facts gf_param_check / gf_interchange / gf_rename)
    --------------------------------------------------------------------------------------------------- *)

(** [_parameter_names]: the search for an unused parameter name (arg, arg_1, arg_2, ...) always ends
    within len(names) + len(args) + 1 candidates -- whatever the while condition *)
Theorem C11_parameter_names_total :
  forall (check : pn_check) (args : list string), parameter_names check args <> None.
Proof. exact parameter_names_total. Qed.
Print Assumptions C11_parameter_names_total.

(** [_parameter_names] as shipped (PnAllArgs), for EVERY argument list (component names with pairwise
    different texts; repetitions allowed; names that look like fresh names allowed): as many parameters
    as arguments, pairwise different (the def compiles), and the text of every model name of the list,
    looked up among the emitted parameters bound left to right, yields the value passed at the name's
    FIRST position -- i.e. exactly the binding [combine args vals] (first binding wins) under which
    MxlGen.defsem evaluates the body, and on which C11_roundtrip rests *)
Theorem C11_parameter_names_bind_first :
  forall (nstr : name -> string) (args : list name) (ps : list string),
    (forall x y, In x args -> In y args -> nstr x = nstr y -> x = y) ->
    parameter_names PnAllArgs (map nstr args) = Some ps ->
    length ps = length args /\ NoDup ps
    /\ forall (vals : list Z) (margs : list name), incl margs args ->
         sbinds (map nstr margs) ps vals = lookups margs (combine args vals).
Proof. exact parameter_names_sound. Qed.
Print Assumptions C11_parameter_names_bind_first.

(** REGRESSION (seeded change C11-1, PnEmittedOnly): checked only against the parameters emitted so
    far, (n0011, n0011, n0011_1) is emitted as def f(n0011, n0011_1, n0011_1_1): the parameters are
    pairwise different, the def compiles -- and the body's n0011_1 reads the value of n0011 (2, not 5) *)
Theorem C11_parameter_names_emitted_only_refuted :
  exists (args : list name) (ps : list string) (vals : list Z) (a : name),
    (forall x y, In x args -> In y args -> nstr x = nstr y -> x = y)
    /\ parameter_names PnEmittedOnly (map nstr args) = Some ps
    /\ NoDup ps /\ In a args
    /\ sbind (nstr a) ps vals = Some 2%Z
    /\ lookup a (combine args vals) = Some 5%Z.
Proof. exact parameter_names_emitted_only_refuted. Qed.
Print Assumptions C11_parameter_names_emitted_only_refuted.

(** The FULL statement for the facts as they are regenerated: [_register_fn]'s test is built from the
    fact [gf_interchange F]; with IcPositional only the positional comparison enters (soundness
    hypothesis on [same_fn] alone; [subst_eq] -- SymPy's == on the substituted expressions -- is
    arbitrary) *)
Theorem C11_roundtrip_shipped :
  forall (E : Type) (nstr : name -> string) (fname : fnid -> string)
         (translate : fnid -> list name -> option E) (eval : E -> env -> option Z)
         (subst_eq same_fn : E * list name -> E * list name -> bool)
         (fsem : fnid -> list Z -> option Z) (fsemN : fnid -> list Z -> option (list Z)) (SF : sort_facts),
    (forall f margs e, translate f margs = Some e ->
       forall en vs, lookups margs en = Some vs -> eval e en = fsem f vs) ->
    (forall q p, same_fn q p = true ->
       forall vs, defsem E eval (fst q) (snd q) vs = defsem E eval (fst p) (snd p) vs) ->
    forall (F : gen_facts) (m : model) (c : code E),
      gf_register F = RegFresh -> gf_interchange F = IcPositional ->
      UniqueIds m -> m_sur m = [] -> m_dat m = [] ->
      generate E nstr fname translate (interchange_test (gf_interchange F) subst_eq same_fn) F m = Some c ->
      exists m', exec_code E c = Built m'
        /\ keys (m_var m') = keys (m_var m) /\ keys (m_par m') = keys (m_par m)
        /\ keys (m_der m') = keys (m_der m) /\ keys (m_rxn m') = keys (m_rxn m)
        /\ match create_cache fsem fsemN SF m, create_cache (fsem_gen E eval (c_defs c)) fsemN SF m' with
           | Val ch, Val ch' =>
             c_init ch' = c_init ch /\ c_base_par ch' = c_base_par ch /\ c_all_par ch' = c_all_par ch
             /\ forall vars t,
                  get_args (fsem_gen E eval (c_defs c)) fsemN m' ch' vars t = get_args fsem fsemN m ch vars t
                  /\ get_fluxes (fsem_gen E eval (c_defs c)) fsemN m' ch' vars t = get_fluxes fsem fsemN m ch vars t
                  /\ get_rhs (fsem_gen E eval (c_defs c)) fsemN m' ch' vars t = get_rhs fsem fsemN m ch vars t
           | Err e, Err e' => e' = e
           | _, _ => False
           end.
Proof. exact roundtrip_shipped. Qed.
Print Assumptions C11_roundtrip_shipped.

(** REGRESSION (seeded change C11-2, IcSubstFirst): moda.excess(a, b) = a - b on (x, y) and
    modb.excess(a, b) = b - a on (y, x) have the same substituted expression x - y and different
    positional forms.  With "substituted expressions equal => interchangeable" ONE def [excess] (the
    later one) is emitted and the earlier component is called with swapped arguments: -3 instead of 3 *)
Theorem C11_substituted_equality_refuted :
  c_subst_eq ((3, [11; 12]), [11; 12]) ((3, [11; 12]), [12; 11]) = true
  /\ c_same_fn ((3, [11; 12]), [11; 12]) ((3, [11; 12]), [12; 11]) = false
  /\ exists (m' : model) (D : fdict cexpr) (ch ch' : cache),
       UniqueIds m_excess
       /\ roundtrip cexpr nstr (c_fname Tn) (c_translate Tn) (c_interchange IcSubstFirst) Fn m_excess = Built (m', D)
       /\ map fst D = ["excess"]
       /\ create_cache (c_fsem Tn) no_fsemN gen_sort_facts m_excess = Val ch
       /\ create_cache (fsem_gen cexpr c_eval D) no_fsemN gen_sort_facts m' = Val ch'
       /\ get_args (c_fsem Tn) no_fsemN m_excess ch [(11, 5%Z); (12, 2%Z)] 0
          = Val [(0, 0%Z); (11, 5%Z); (12, 2%Z); (14, 3%Z); (15, 3%Z)]
       /\ get_args (fsem_gen cexpr c_eval D) no_fsemN m' ch' [(11, 5%Z); (12, 2%Z)] 0
          = Val [(0, 0%Z); (11, 5%Z); (12, 2%Z); (14, (-3)%Z); (15, 3%Z)].
Proof. exact substituted_equality_refuted. Qed.
Print Assumptions C11_substituted_equality_refuted.

(** REGRESSION (seeded change C11-3, RnSequential): components a, b, c; f_sub(a, b) applied to (b, c).
    Putting the model names in one after the other (a -> b, then b -> c) yields c - c: the rebuilt
    derived quantity is 0, the source's is 3 *)
Theorem C11_sequential_renaming_refuted :
  c_translate_seq Tn 3 [9002; 9003] = Some (3, [9003; 9003])
  /\ c_translate Tn 3 [9002; 9003] = Some (3, [9002; 9003])
  /\ exists (m' : model) (D : fdict cexpr) (ch ch' : cache),
       UniqueIds m_abc
       /\ roundtrip cexpr nstr (c_fname Tn) (c_translate_by RnSequential Tn) c_same_fn Fn m_abc = Built (m', D)
       /\ create_cache (c_fsem Tn) no_fsemN gen_sort_facts m_abc = Val ch
       /\ create_cache (fsem_gen cexpr c_eval D) no_fsemN gen_sort_facts m' = Val ch'
       /\ get_args (c_fsem Tn) no_fsemN m_abc ch [(9001, 2%Z); (9002, 7%Z); (9003, 4%Z)] 0
          = Val [(0, 0%Z); (9001, 2%Z); (9002, 7%Z); (9003, 4%Z); (11, 3%Z)]
       /\ get_args (fsem_gen cexpr c_eval D) no_fsemN m' ch' [(9001, 2%Z); (9002, 7%Z); (9003, 4%Z)] 0
          = Val [(0, 0%Z); (9001, 2%Z); (9002, 7%Z); (9003, 4%Z); (11, 0%Z)].
Proof. exact sequential_renaming_refuted. Qed.
Print Assumptions C11_sequential_renaming_refuted.

(** ... and WHEN the sequential replacement is harmless (why the repo's own tests do not notice it):
    if no replacement puts in a name that a later replacement rewrites, one-after-the-other equals
    first-match-wins for every list of names; the witness above is outside this guard *)
Theorem C11_sequential_renaming_partial :
  (forall (pairs : list (name * name)) (l : list name),
      chain_free pairs = true -> subs_seq pairs l = map (sim1 pairs) l)
  /\ chain_free [(9001, 9002); (9002, 9003)] = false
  /\ subs_seq [(9001, 9002); (9002, 9003)] [9001; 9002] = [9003; 9003]
  /\ map (sim1 [(9001, 9002); (9002, 9003)]) [9001; 9002] = [9002; 9003].
Proof. exact (conj sequential_renaming_partial sequential_renaming_guard_witness). Qed.
Print Assumptions C11_sequential_renaming_partial.

(** the same three witnesses under the shipped facts: (n0011, n0011, n0011_1) is emitted as
    def f(n0011, n0011_2, n0011_1) and n0011_1 reads its own value; two defs [excess], [excess_1] with
    the source's values; f_sub(b, c) rebuilt as 3 *)
Theorem C11_naming_witnesses_rebuild :
  (parameter_names PnAllArgs (map nstr w_args) = Some ["n0011"; "n0011_2"; "n0011_1"]
   /\ sbind (nstr 10011) ["n0011"; "n0011_2"; "n0011_1"] w_vals = lookup 10011 (combine w_args w_vals))
  /\ (exists (m' : model) (D : fdict cexpr) (ch' : cache),
        roundtrip cexpr nstr (c_fname Tn) (c_translate Tn) (c_interchange IcPositional) Fn m_excess = Built (m', D)
        /\ map fst D = ["excess"; "excess_1"]
        /\ create_cache (fsem_gen cexpr c_eval D) no_fsemN gen_sort_facts m' = Val ch'
        /\ get_args (fsem_gen cexpr c_eval D) no_fsemN m' ch' [(11, 5%Z); (12, 2%Z)] 0
           = Val [(0, 0%Z); (11, 5%Z); (12, 2%Z); (14, 3%Z); (15, 3%Z)])
  /\ (exists (m' : model) (D : fdict cexpr) (ch' : cache),
        roundtrip cexpr nstr (c_fname Tn) (c_translate_by RnDelegated Tn) c_same_fn Fn m_abc = Built (m', D)
        /\ create_cache (fsem_gen cexpr c_eval D) no_fsemN gen_sort_facts m' = Val ch'
        /\ get_args (fsem_gen cexpr c_eval D) no_fsemN m' ch' [(9001, 2%Z); (9002, 7%Z); (9003, 4%Z)] 0
           = Val [(0, 0%Z); (9001, 2%Z); (9002, 7%Z); (9003, 4%Z); (11, 3%Z)]).
Proof. exact (conj parameter_names_witness (conj positional_test_witness delegated_renaming_witness)). Qed.
Print Assumptions C11_naming_witnesses_rebuild.

(** the hypotheses of C11_parameter_names_bind_first are met by an argument list with a repetition AND a
    component that looks like the first fresh name (texts pairwise different under the harness's nstr) *)
Example C11_parameter_names_nonvacuous :
  (forall x y, In x w_args -> In y w_args -> nstr x = nstr y -> x = y)
  /\ w_args = [11; 11; 10011]
  /\ map nstr w_args = ["n0011"; "n0011"; "n0011_1"]
  /\ parameter_names PnAllArgs (map nstr w_args) = Some ["n0011"; "n0011_2"; "n0011_1"].
Proof. exact (conj w_args_nstr_inj (conj eq_refl (conj eq_refl (proj1 parameter_names_witness)))). Qed.

(** ------------------------------------------------------------------------------------------------
    The text AROUND the definitions and the binding of nested calls (second deepening; seeded changes
    C11-5 and C11-6).  Two more REGENERATED facts:

      gen_import_scan    which sections of the emitted text the import loop of
                         [generate_mxlpy_code_from_symbolic_repr] searches for which module
                         (Imports.v; shipped: the whole text for each of math, scipy.special,
                         sympy.physics.units)
      gen_call_defaults  how [fn_to_sympy] binds the arguments of a translated call to the callee's
                         parameters (CallDefaults.v; shipped: strict zip, a call relying on a default
                         value is refused, so generation raises)                                     *)
Theorem C11_text_facts_pinned :
  gen_import_scan = Some scan_whole_text /\ gen_call_defaults = DfRefuse.
Proof. vm_compute. split; reflexivity. Qed.
Print Assumptions C11_text_facts_pinned.

(** FULL (imports): for EVERY emitted text -- any numbers (finite, +inf, -inf, NaN) with or without
    units in the variable / parameter lines, any numeric or computed coefficients, any modules mentioned
    by the function definitions -- , EVERY list of imports supplied by the caller and EVERY scan table
    that searches the whole text for each module (the shipped one does): every module a section of the
    file mentions is imported, so neither [create_model()] nor a later call of an emitted function raises
    NameError for a module. *)
Theorem C11_imports_cover_references :
  forall (tbl : scan_table) (user : list pymod) (e : emitted),
    covers tbl = true ->
    (forall s m, In m (refs_of e s) -> In m (file_imports tbl user e))
    /\ run_imports (file_imports tbl user e) e = ImOk.
Proof. exact (fun tbl user e H => conj (fun s m => imports_cover tbl user e s m H) (imports_run_ok tbl user e H)). Qed.
Print Assumptions C11_imports_cover_references.

(** ... and, for ANY table, an import line is only added for a module the caller did not import and some
    section mentions *)
Theorem C11_imports_only_what_is_mentioned :
  forall (tbl : scan_table) (user : list pymod) (e : emitted) (m : pymod),
    In m (added_imports tbl user e) -> ~ In m user /\ exists s, In m (refs_of e s).
Proof. exact imports_needed. Qed.
Print Assumptions C11_imports_only_what_is_mentioned.

(** seeded change C11-5 (math / scipy.special looked for in the function definitions only, the units in
    the declarations only): a parameter equal to +inf in a model whose functions mention no module --
    no import line, [create_model()] raises NameError; the shipped table imports math *)
Theorem C11_split_scan_refuted :
  file_imports scan_split [] e_cap_inf = []
  /\ run_imports (file_imports scan_split [] e_cap_inf) e_cap_inf = ImNameErrorAtBuild
  /\ file_imports scan_whole_text [] e_cap_inf = [PMath]
  /\ run_imports (file_imports scan_whole_text [] e_cap_inf) e_cap_inf = ImOk.
Proof. exact split_refuted. Qed.
Print Assumptions C11_split_scan_refuted.

(** what is left of the statement under the split search: no number outside the functions is +inf or NaN
    and the function definitions mention no unit (the witness above is outside this guard) *)
Theorem C11_split_scan_partial :
  forall (user : list pymod) (e : emitted) (s : section) (m : pymod),
    forallb plain_decl (e_vars e) = true -> forallb plain_decl (e_pars e) = true ->
    forallb (forallb plain_coef) (e_rxns e) = true ->
    ~ In PSympyUnits (e_fn_refs e) ->
    In m (refs_of e s) -> In m (file_imports scan_split user e).
Proof. exact split_partial. Qed.
Print Assumptions C11_split_scan_partial.

(** FULL (binding of a translated call, shipped tree): for EVERY callee (parameters [params], the last
    [length defaults] of them defaulted) and EVERY argument list, if the strict zip accepts the call the
    parameters are bound exactly as CPython binds them; and a call CPython accepts but the translator
    refuses (=> the slot is untranslatable => generation raises, C11_untranslatable_raises) is exactly
    a call that relies on default values. *)
Theorem C11_call_binding_refuses_or_binds_like_python :
  forall (P V : Type) (params : list P) (defaults args : list V),
    (List.length defaults <= List.length params)%nat ->
    (forall b, bind_args DfRefuse params defaults args = Some b -> py_bind params defaults args = Some b)
    /\ (forall b, bind_args DfRefuse params defaults args = None -> py_bind params defaults args = Some b ->
                  (List.length args < List.length params)%nat
                  /\ (List.length params - List.length defaults <= List.length args)%nat).
Proof.
  exact (fun P V params defaults args H =>
           conj (fun b => refuse_sound params defaults args b H)
                (fun b => refuse_only_defaults params defaults args b)).
Qed.
Print Assumptions C11_call_binding_refuses_or_binds_like_python.

(** a translator that supports defaults by giving the missing parameters the LAST defaults is CPython's
    call, for every callee and argument list (what seeded change C11-6 should have done) *)
Theorem C11_call_defaults_last_is_python :
  forall (P V : Type) (params : list P) (defaults args : list V),
    (List.length defaults <= List.length params)%nat ->
    bind_args DfLast params defaults args = py_bind params defaults args.
Proof. exact (fun P V => @last_is_python P V). Qed.
Print Assumptions C11_call_defaults_last_is_python.

(** seeded change C11-6 ([zip(missing, fn_def.args.defaults)]): hill(s, vmax, km=1, n=2) called with three
    arguments binds n to 1, the default of km; CPython and DfLast bind 2, the shipped tree refuses *)
Theorem C11_call_defaults_front_refuted :
  py_bind hill_params hill_defaults hill_args = Some [("s", 10%Z); ("vmax", 20%Z); ("km", 30%Z); ("n", 2%Z)]
  /\ bind_args DfFront hill_params hill_defaults hill_args = Some [("s", 10%Z); ("vmax", 20%Z); ("km", 30%Z); ("n", 1%Z)]
  /\ bind_args DfLast hill_params hill_defaults hill_args = Some [("s", 10%Z); ("vmax", 20%Z); ("km", 30%Z); ("n", 2%Z)]
  /\ bind_args DfRefuse hill_params hill_defaults hill_args = None.
Proof. exact front_refuted. Qed.
Print Assumptions C11_call_defaults_front_refuted.

(** what is left under the front binding: every argument passed, or every default used (in particular any
    callee with at most one default) -- the witness passes one of two defaults *)
Theorem C11_call_defaults_front_partial :
  forall (P V : Type) (params : list P) (defaults args : list V),
    (List.length defaults <= List.length params)%nat ->
    (List.length args = List.length params
     \/ (List.length args + List.length defaults)%nat = List.length params
     \/ ((List.length defaults <= 1)%nat /\ exists b, py_bind params defaults args = Some b)) ->
    bind_args DfFront params defaults args = py_bind params defaults args.
Proof. exact (fun P V => @front_partial_all P V). Qed.
Print Assumptions C11_call_defaults_front_partial.

(** non-vacuity: the shipped table meets [covers]; a text mentioning math in a declaration only, units in a
    declaration and scipy.special in a function, with the caller importing scipy already *)
Example C11_imports_nonvacuous :
  covers scan_whole_text = true /\ covers scan_split = false
  /\ file_imports scan_whole_text [PScipySpecial]
       (mkEmitted [PScipySpecial] [DNum NNan true] [DInit; DNum NNegInf false] 2 [[KRef; KNum NPosInf]])
     = [PScipySpecial; PMath; PSympyUnits].
Proof. repeat split; vm_compute; reflexivity. Qed.

(** ==== closing pass 3: what the TRANSLATOR sees of the module that defines a function =====================
    Two further regenerated facts about src/mxlpy/meta/source_tools.py (extractor: harness/c11_extract.py
    [_name_lookup] / [_scan_mode]), pinned at their shipped values; the other value of each is the shape of
    a seeded change (C11-8 / C11-7) and has a regression theorem below. *)
Theorem C11_translator_facts_pinned :
  gen_name_lookup = NlLocalsFirst /\ gen_scan_mode = ScanAtCall.
Proof. vm_compute. split; reflexivity. Qed.
Print Assumptions C11_translator_facts_pinned.

(** FULL (names, shipped order [ctx.symbols] first): for EVERY module (the numbers it has [G], the numbers
    the scan finds [Gs] among them), EVERY function made of parameters, straight-line assignments and a
    returned expression over + - *, numbers and names -- parameters and local variables named like
    module-level numbers included --, ALL arguments: if the function is translated and the Python call
    yields a value, the translated expression, with the parameter symbols standing for the arguments,
    yields that value.  (This is the translation-soundness hypothesis of C11_roundtrip for this class of
    functions, as far as the resolution of names goes.) *)
Theorem C11_parameters_and_locals_hide_module_numbers :
  forall (G Gs : menv) (f : pyfn) (args : list Z) (s : sx) (v : Z),
    scan_sub Gs G ->
    translate_fn NlLocalsFirst Gs f = Some s ->
    py_call G f args = Some v ->
    sx_eval (combine (pf_params f) args) s = Some v.
Proof. exact locals_first_sound. Qed.
Print Assumptions C11_parameters_and_locals_hide_module_numbers.

(** REGRESSION (seeded change C11-8, NlModuleFirst: the module's numbers are consulted before the
    function's own symbols).  [def sh_sub(a, b): return a - b] in a module with a = 7.0, b = 3: the emitted
    body is 7 - 3 whatever is passed (CPython: 2 - 5 = -3, emitted: 4);
    [def loc_mix(a, b, c): w = a * b; return w + c] in a module with w = 5.0: the computed local variable is
    replaced by 5 (CPython: 10, emitted: 9).  The shipped order gives -3 and 10. *)
Theorem C11_module_numbers_first_refuted :
  (translate_fn NlModuleFirst G_ab f_sh_sub = Some (SSub (SNum 7) (SNum 3))
   /\ py_call G_ab f_sh_sub [2%Z; 5%Z] = Some (-3)%Z
   /\ sx_eval (combine (pf_params f_sh_sub) [2%Z; 5%Z]) (SSub (SNum 7) (SNum 3)) = Some 4%Z
   /\ translate_fn NlLocalsFirst G_ab f_sh_sub = Some (SSub (SSym "a") (SSym "b"))
   /\ sx_eval (combine (pf_params f_sh_sub) [2%Z; 5%Z]) (SSub (SSym "a") (SSym "b")) = Some (-3)%Z)
  /\ (translate_fn NlModuleFirst G_w f_loc_mix = Some (SAdd (SNum 5) (SSym "c"))
      /\ py_call G_w f_loc_mix [2%Z; 3%Z; 4%Z] = Some 10%Z
      /\ sx_eval (combine (pf_params f_loc_mix) [2%Z; 3%Z; 4%Z]) (SAdd (SNum 5) (SSym "c")) = Some 9%Z
      /\ (exists s, translate_fn NlLocalsFirst G_w f_loc_mix = Some s
                    /\ sx_eval (combine (pf_params f_loc_mix) [2%Z; 3%Z; 4%Z]) s = Some 10%Z)).
Proof. exact (conj module_first_witness module_first_local_witness). Qed.
Print Assumptions C11_module_numbers_first_refuted.

(** ... and what is left of it (why the repo's own tests do not notice): for a function NONE of whose
    parameters and assigned names is the name of a number the scan finds, both orders translate alike; the
    first witness is outside this guard *)
Theorem C11_module_numbers_first_partial :
  (forall (Gs : menv) (f : pyfn),
      no_shadowing Gs f -> translate_fn NlModuleFirst Gs f = translate_fn NlLocalsFirst Gs f)
  /\ ~ no_shadowing G_ab f_sh_sub.
Proof. exact (conj module_first_partial module_first_refuted). Qed.
Print Assumptions C11_module_numbers_first_partial.

(** FULL (several generations in one process, shipped: the module is scanned at every call).  [W] = the
    states of a module, [translate w] / [fsem w] = what the translator yields / what CPython computes for a
    function object while the module is in state [w] (per-function soundness assumed in every state).
    For EVERY history of rebindings and generations, whatever an earlier generation saw: a generation that
    happens while the module is in state [wp] and succeeds rebuilds a model that behaves like the model
    behaves THEN -- names, initial conditions, parameter values, and at every state arguments, fluxes and
    derivatives under [fsem wp]. *)
Theorem C11_every_generation_of_a_session :
  forall (W E : Type) (nstr : name -> string) (fname : fnid -> string)
         (translate : W -> fnid -> list name -> option E) (eval : E -> env -> option Z)
         (subst_eq same_fn : E * list name -> E * list name -> bool)
         (fsem : W -> fnid -> list Z -> option Z) (fsemN : fnid -> list Z -> option (list Z)) (SF : sort_facts),
    (forall w f margs e, translate w f margs = Some e ->
       forall en vs, lookups margs en = Some vs -> eval e en = fsem w f vs) ->
    (forall q p, same_fn q p = true ->
       forall vs, defsem E eval (fst q) (snd q) vs = defsem E eval (fst p) (snd p) vs) ->
    forall (F : gen_facts) (h : list (event W)) (memo : option W) (cur ws wp : W) (m : model) (c : code E),
      gf_register F = RegFresh -> gf_interchange F = IcPositional ->
      In (ws, wp) (session_run ScanAtCall memo cur h) ->
      UniqueIds m -> m_sur m = [] -> m_dat m = [] ->
      generate E nstr fname (translate ws) (interchange_test (gf_interchange F) subst_eq same_fn) F m = Some c ->
      exists m', exec_code E c = Built m'
        /\ keys (m_var m') = keys (m_var m) /\ keys (m_par m') = keys (m_par m)
        /\ keys (m_der m') = keys (m_der m) /\ keys (m_rxn m') = keys (m_rxn m)
        /\ match create_cache (fsem wp) fsemN SF m, create_cache (fsem_gen E eval (c_defs c)) fsemN SF m' with
           | Val ch, Val ch' =>
             c_init ch' = c_init ch /\ c_base_par ch' = c_base_par ch /\ c_all_par ch' = c_all_par ch
             /\ forall vars t,
                  get_args (fsem_gen E eval (c_defs c)) fsemN m' ch' vars t = get_args (fsem wp) fsemN m ch vars t
                  /\ get_fluxes (fsem_gen E eval (c_defs c)) fsemN m' ch' vars t = get_fluxes (fsem wp) fsemN m ch vars t
                  /\ get_rhs (fsem_gen E eval (c_defs c)) fsemN m' ch' vars t = get_rhs (fsem wp) fsemN m ch vars t
           | Err e, Err e' => e' = e
           | _, _ => False
           end.
Proof. exact session_roundtrip. Qed.
Print Assumptions C11_every_generation_of_a_session.

(** the translator sees the module as it is at every generation of every history *)
Theorem C11_scan_at_call_sees_the_module_as_it_is :
  forall (W : Type) (memo : option W) (cur : W) (h : list (event W)),
    session_run ScanAtCall memo cur h = map (fun w => (w, w)) (worlds_at_generations cur h).
Proof. exact (fun W => @session_at_call W). Qed.
Print Assumptions C11_scan_at_call_sees_the_module_as_it_is.

(** REGRESSION (seeded change C11-7, ScanMemo: the scan of a module is kept for the life time of the
    process).  [def sat2(a, b): return hsat(a, b)], hsat = a * b at the first generation, rebound to a + b,
    second generation: the translator still sees the first module; the rebuilt derived quantity is 2 * 3 = 6,
    the model computes 2 + 3 = 5. *)
Theorem C11_remembered_scan_refuted :
  session_run ScanMemo None T_mul [Generate; Rebind T_add; Generate] = [(T_mul, T_mul); (T_mul, T_add)]
  /\ exists (m' : model) (D : fdict cexpr) (ch ch' : cache),
       UniqueIds m_sat
       /\ roundtrip cexpr nstr (c_fname T_mul) (c_translate T_mul) c_same_fn Fn m_sat = Built (m', D)
       /\ create_cache (c_fsem T_add) no_fsemN gen_sort_facts m_sat = Val ch
       /\ create_cache (fsem_gen cexpr c_eval D) no_fsemN gen_sort_facts m' = Val ch'
       /\ get_args (c_fsem T_add) no_fsemN m_sat ch [(12, 2%Z)] 0 = Val [(0, 0%Z); (12, 2%Z); (11, 3%Z); (13, 5%Z)]
       /\ get_args (fsem_gen cexpr c_eval D) no_fsemN m' ch' [(12, 2%Z)] 0 = Val [(0, 0%Z); (12, 2%Z); (11, 3%Z); (13, 6%Z)].
Proof. exact session_memo_refuted. Qed.
Print Assumptions C11_remembered_scan_refuted.

(** ... and what is left of it (the first generation and any single-shot generation are right): a process
    in which nothing is rebound after its first generation; generate - rebind - generate is outside *)
Theorem C11_remembered_scan_partial :
  (forall (W : Type) (cur : W) (h : list (event W)),
      rebinds_only_before_first_generation h ->
      session_run ScanMemo None cur h = map (fun w => (w, w)) (worlds_at_generations cur h))
  /\ (forall (W : Type) (w0 w1 : W),
        session_run ScanMemo None w0 [Generate; Rebind w1; Generate] = [(w0, w0); (w0, w1)]
        /\ session_run ScanAtCall None w0 [Generate; Rebind w1; Generate] = [(w0, w0); (w1, w1)]
        /\ ~ rebinds_only_before_first_generation [Generate; Rebind w1; @Generate W]).
Proof. exact (conj (fun W => @session_memo_partial W) (fun W => @session_memo_stale W)). Qed.
Print Assumptions C11_remembered_scan_partial.

(** non-vacuity: the hypotheses of C11_parameters_and_locals_hide_module_numbers with a shadowing parameter;
    the hypotheses of C11_every_generation_of_a_session for the executable instance (worlds = tables of
    function objects) and a history with a rebinding between two generations; the shipped scan rebuilds
    the witness model as it is (5) *)
Example C11_translator_nonvacuous :
  (scan_sub [("a", 7%Z)] G_ab
   /\ (exists s, translate_fn NlLocalsFirst [("a", 7%Z)] f_sh_sub = Some s)
   /\ py_call G_ab f_sh_sub [2%Z; 5%Z] = Some (-3)%Z
   /\ ~ no_shadowing [("a", 7%Z)] f_sh_sub)
  /\ ((forall (w : ftab) f margs e, c_translate w f margs = Some e ->
         forall en vs, lookups margs en = Some vs -> c_eval e en = c_fsem w f vs)
      /\ In (T_add, T_add) (session_run ScanAtCall None T_mul [Generate; Rebind T_add; Generate])
      /\ UniqueIds m_sat
      /\ generate cexpr nstr (c_fname T_add) (c_translate T_add)
                  (interchange_test (gf_interchange Fn) c_subst_eq c_same_fn) Fn m_sat <> None)
  /\ (session_run ScanAtCall None T_mul [Generate; Rebind T_add; Generate] = [(T_mul, T_mul); (T_add, T_add)]
      /\ exists (m' : model) (D : fdict cexpr) (ch' : cache),
           roundtrip cexpr nstr (c_fname T_add) (c_translate T_add) c_same_fn Fn m_sat = Built (m', D)
           /\ create_cache (fsem_gen cexpr c_eval D) no_fsemN gen_sort_facts m' = Val ch'
           /\ get_args (fsem_gen cexpr c_eval D) no_fsemN m' ch' [(12, 2%Z)] 0 = Val [(0, 0%Z); (12, 2%Z); (11, 3%Z); (13, 5%Z)]).
Proof. exact (conj locals_first_nonvacuous (conj session_nonvacuous session_at_call_witness)). Qed.
