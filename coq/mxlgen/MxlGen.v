(** Executable model of the round trip  model -> generate_mxlpy_code -> exec -> create_model()
    (src/mxlpy/meta/codegen_mxlpy.py:102-147, 273-275 on top of SymRepr.v).  No proofs here.

    Python                                        model
    ------                                        -----
    the source Model                              [Core.Model.model]; [fnid] = a Python function
                                                  OBJECT; [fname f] = f.__name__ ; [fsem f] = what
                                                  CPython computes when f is called positionally
    fn_to_sympy(fn, origin, model_args=symbols)   Section variable [translate f margs : option E]
                                                  ([None] = it returned None); its soundness is the
                                                  business of C06 and enters the theorems as a
                                                  hypothesis
    value of a SymPy expression / of the printed  Section variable [eval : E -> env -> option Z]
    Python expression under a binding of symbols
    ValueError("Unable to parse fn ...")          [to_symbolic_repr m = None]  (outcome [GenRaises])
    exec(source)                                  [exec_code]: the module is compiled first -- a def
                                                  with a repeated argument name is a SyntaxError and
                                                  nothing runs ([ExecSyntax]; cannot happen when the
                                                  parameters went through _parameter_names,
                                                  [c_renamed]); then each [def] binds its name, and
                                                  create_model() runs the chain
    a name in the chain                           [resolve]: looked up among the defs (NameError
                                                  if absent); the rebuilt function object is
                                                  identified with the POSITION of its def (+1; 0 is
                                                  mxlpy.fns.constant, used by add_reaction for str
                                                  coefficients)
    Model.add_*                                   [insert_id] ("time" -> KeyError, known name ->
                                                  NameError) then an append to the container
    calling a rebuilt function                    [fsem_gen defs i vals]: wrong number of arguments
                                                  = TypeError = [None]; otherwise the body under the
                                                  binding parameters := values (a model name that
                                                  was passed twice is bound at its FIRST position:
                                                  _parameter_names renames the later ones, and the
                                                  body only mentions model names)
    surrogates / readouts / data                  not emitted (the real code logs a warning for
                                                  surrogates and silently skips the others): the
                                                  rebuilt model has none *)
From Coq Require Import ZArith List Bool String Ascii.
From MxlBase Require Import ListX.
From Core Require Import Model.
From MxlGen Require Import SymRepr.
Import ListNotations.

Inductive outcome (A : Type) :=
| Built (a : A)
| GenRaises          (* generate_mxlpy_code raised ValueError *)
| ExecSyntax         (* the generated source does not compile *)
| ExecName           (* NameError while the chain runs *)
| ExecKey.           (* KeyError("time is a protected variable") *)
Arguments Built {A} a.
Arguments GenRaises {A}.
Arguments ExecSyntax {A}.
Arguments ExecName {A}.
Arguments ExecKey {A}.

Definition obind {A B} (r : outcome A) (f : A -> outcome B) : outcome B :=
  match r with
  | Built a => f a
  | GenRaises => GenRaises
  | ExecSyntax => ExecSyntax
  | ExecName => ExecName
  | ExecKey => ExecKey
  end.

Fixpoint nodupN (l : list N) : bool :=
  match l with
  | [] => true
  | x :: r => negb (memN x r) && nodupN r
  end.

(** ---- model -> symbolic representation ------------------------------------------------- *)

Section Gen.
  Variable E : Type.
  Variable nstr : name -> string.
  Variable fname : fnid -> string.
  Variable translate : fnid -> list name -> option E.
  Variable eval : E -> env -> option Z.
  Variable same_fn : E * list name -> E * list name -> bool.

  (** _fn_to_symbolic_repr: fn_name = fn.__name__; expr None -> raise ValueError *)
  Definition fn_to_symbolic_repr (fn : fnid) (model_args : list name) : option (symfn E) :=
    match translate fn model_args with
    | None => None
    | Some expr => Some (mkSymFn (fname fn) expr model_args)
    end.

  Definition sym_value (v : valia) : option (symval E) :=
    match v with
    | IA f a => match fn_to_symbolic_repr f a with Some s => Some (SVInit s) | None => None end
    | Plain z => Some (SVNum z)
    end.

  Fixpoint sym_values (l : list (name * valia)) : option (list (name * symval E)) :=
    match l with
    | [] => Some []
    | (k, v) :: rest =>
      match sym_value v with
      | None => None
      | Some s => match sym_values rest with Some r => Some ((k, s) :: r) | None => None end
      end
    end.

  Fixpoint sym_derived (l : list (name * derived)) : option (list (name * symfn E)) :=
    match l with
    | [] => Some []
    | (k, der) :: rest =>
      match fn_to_symbolic_repr (d_fn der) (d_args der) with
      | None => None
      | Some s => match sym_derived rest with Some r => Some ((k, s) :: r) | None => None end
      end
    end.

  Definition sym_coef (c : coef) : option (symcoef E) :=
    match c with
    | CDyn f a => match fn_to_symbolic_repr f a with Some s => Some (SCFn s) | None => None end
    | CStat q => Some (SCNum q)
    end.

  Fixpoint sym_stoich (l : list (name * coef)) : option (list (name * symcoef E)) :=
    match l with
    | [] => Some []
    | (k, c) :: rest =>
      match sym_coef c with
      | None => None
      | Some s => match sym_stoich rest with Some r => Some ((k, s) :: r) | None => None end
      end
    end.

  Fixpoint sym_reactions (l : list (name * reaction)) : option (list (name * symrxn E)) :=
    match l with
    | [] => Some []
    | (k, rxn) :: rest =>
      match fn_to_symbolic_repr (r_fn rxn) (r_args rxn) with
      | None => None
      | Some fn =>
        match sym_stoich (r_st rxn) with
        | None => None
        | Some st => match sym_reactions rest with
                     | Some r => Some ((k, mkSymRxn fn st) :: r)
                     | None => None
                     end
        end
      end
    end.

  (** _to_symbolic_repr: variables, parameters, derived, reactions -- in this order *)
  Definition to_symbolic_repr (m : model) : option (symrepr E) :=
    match sym_values (m_var m) with
    | None => None
    | Some vs =>
      match sym_values (m_par m) with
      | None => None
      | Some ps =>
        match sym_derived (m_der m) with
        | None => None
        | Some ds =>
          match sym_reactions (m_rxn m) with
          | None => None
          | Some rs => Some (mkSymRepr vs ps ds rs)
          end
        end
      end
    end.

  (** generate_mxlpy_code *)
  Definition generate (F : gen_facts) (m : model) : option (code E) :=
    match to_symbolic_repr m with
    | None => None
    | Some sym => Some (generate_from_symrepr E nstr same_fn F sym)
    end.

  (** ---- exec(source)["create_model"]() ------------------------------------------------- *)

  Definition defs_compile (d : fdict E) : bool :=
    forallb (fun kv => nodupN (snd (snd kv))) d.

  Definition constant_fn : fnid := 0%N.

  Definition resolve (d : fdict E) (key : string) : outcome fnid :=
    match sfind key d with
    | Some i => Built (N.of_nat (S i))
    | None => ExecName
    end.

  Definition insert_id (k : name) (ids : list name) : outcome (list name) :=
    if N.eqb k time_name then ExecKey
    else if memN k ids then ExecName
    else Built (k :: ids).

  Definition resolve_val (d : fdict E) (v : valref) : outcome valia :=
    match v with
    | VNum z => Built (Plain z)
    | VInit key args => obind (resolve d key) (fun f => Built (IA f args))
    end.

  Definition resolve_coef (d : fdict E) (c : coefref) : outcome coef :=
    match c with
    | CNum q => Built (CStat q)
    | CStrRef n => Built (CDyn constant_fn [n])
    | CDerRef key args => obind (resolve d key) (fun f => Built (CDyn f args))
    end.

  Fixpoint resolve_stoich (d : fdict E) (st : list (name * coefref)) : outcome (list (name * coef)) :=
    match st with
    | [] => Built []
    | (k, c) :: rest =>
      obind (resolve_coef d c) (fun c' =>
      obind (resolve_stoich d rest) (fun r => Built ((k, c') :: r)))
    end.

  Definition empty_model : model := mkModel [] [] [] [] [] [] [].

  (** the argument expressions of the call are evaluated first (name look-ups), then the method
      body runs (_insert_id, then the container write) *)
  Definition exec_op (d : fdict E) (op : addop) (st : list name * model) : outcome (list name * model) :=
    let '(ids, m) := st in
    match op with
    | AddVariable k v =>
      obind (resolve_val d v) (fun v' =>
      obind (insert_id k ids) (fun ids' =>
      Built (ids', mkModel (m_par m) (m_var m ++ [(k, v')]) (m_der m) (m_rxn m) (m_sur m) (m_ro m) (m_dat m))))
    | AddParameter k v =>
      obind (resolve_val d v) (fun v' =>
      obind (insert_id k ids) (fun ids' =>
      Built (ids', mkModel (m_par m ++ [(k, v')]) (m_var m) (m_der m) (m_rxn m) (m_sur m) (m_ro m) (m_dat m))))
    | AddDerived k key args =>
      obind (resolve d key) (fun f =>
      obind (insert_id k ids) (fun ids' =>
      Built (ids', mkModel (m_par m) (m_var m) (m_der m ++ [(k, mkDer f args)]) (m_rxn m) (m_sur m) (m_ro m) (m_dat m))))
    | AddReaction k key args sto =>
      obind (resolve d key) (fun f =>
      obind (resolve_stoich d sto) (fun sto' =>
      obind (insert_id k ids) (fun ids' =>
      Built (ids', mkModel (m_par m) (m_var m) (m_der m) (m_rxn m ++ [(k, mkRxn f args sto')]) (m_sur m) (m_ro m) (m_dat m)))))
    end.

  Fixpoint exec_ops (d : fdict E) (ops : list addop) (st : list name * model) : outcome (list name * model) :=
    match ops with
    | [] => Built st
    | op :: rest => obind (exec_op d op st) (exec_ops d rest)
    end.

  Definition exec_code (c : code E) : outcome model :=
    if negb (c_renamed c || defs_compile (c_defs c)) then ExecSyntax
    else obind (exec_ops (c_defs c) (c_ops c) ([], empty_model)) (fun st => Built (snd st)).

  (** calling the function object a def created: def key(p1, .., pn): return body *)
  Definition defsem (body : E) (params : list name) (vals : list Z) : option Z :=
    if Nat.eqb (length vals) (length params) then eval body (combine params vals) else None.

  Definition fsem_gen (d : fdict E) (f : fnid) (vals : list Z) : option Z :=
    match f with
    | N0 => match vals with [v] => Some v | _ => None end          (* mxlpy.fns.constant *)
    | _ => match nth_error d (Nat.pred (N.to_nat f)) with
           | Some (_, (body, params)) => defsem body params vals
           | None => None
           end
    end.

  (** the whole round trip: the rebuilt model together with the definitions that give its
      function ids their meaning *)
  Definition roundtrip (F : gen_facts) (m : model) : outcome (model * fdict E) :=
    match generate F m with
    | None => GenRaises
    | Some c => obind (exec_code c) (fun m' => Built (m', c_defs c))
    end.
End Gen.
