(** Executable instance of the round-trip model used by the generated correspondence files
    (coq/mxlgen/corr/*.v) -- no proofs.

    A case carries its own table of Python function objects: object [i] is
    [(its __name__, the FnLib id of its body, its arity, whether fn_to_sympy can translate it)].
    Two objects may share a name (two modules) and may or may not share a body.
    The symbolic expression of "function body [s] applied to the model symbols [args]" is kept as
    the pair [(s, args)]; its value under a binding is FnLib's meaning of [s] at the values bound to
    [args] -- i.e. the instance ASSUMES per-function translation soundness (C06) and checks everything
    around it: keys, overwriting, emitted parameters, references, builder chain, exec, rebuilt
    behaviour. *)
From Coq Require Import ZArith List Bool String Ascii.
From MxlBase Require Import ListX.
From Core Require Import Sort GenSortFacts FnLib Model Cache Query.
From MxlGen Require Import SymRepr MxlGen GenMxlGenFacts.
Import ListNotations.
Open Scope string_scope.

(** harness names (harness/c11.py nm/un): id = k + 10000 * c;
    k: 0 = "time", 9001.. = "a" "b" "c" "s1" "s2" "k" (the parameter names of the function library:
    model components called like the formal parameters of the functions applied to them),
    otherwise "n%04d";  c: a suffix that makes the name look like one of the generator's fresh
    names ("_1", "_2", "_1_1", "_3") *)
Definition digit (n : N) : string := String (ascii_of_N (48 + N.modulo n 10)) EmptyString.
Definition base_str (k : N) : string :=
  match k with
  | 0%N => "time"
  | 9001%N => "a" | 9002%N => "b" | 9003%N => "c" | 9004%N => "s1" | 9005%N => "s2" | 9006%N => "k"
  | _ => "n" ++ digit (k / 1000) ++ digit (k / 100) ++ digit (k / 10) ++ digit k
  end.
Definition suffix_str (c : N) : string :=
  match c with
  | 0%N => "" | 1%N => "_1" | 2%N => "_2" | 3%N => "_1_1" | 4%N => "_3"
  | _ => "_x" ++ digit (c / 10) ++ digit c
  end.
Definition nstr (n : name) : string := base_str (N.modulo n 10000%N) ++ suffix_str (N.div n 10000%N).

(** a Python function object: its __name__, the FnLib body it is made of, its arity, whether
    fn_to_sympy translates it, and which of its parameters the body is applied to:
    object(x_0, .., x_{arity-1}) = FnLib body [fe_sem] at [x_i for i in fe_sel]
    (so "b - a" is body 3 with selection [1; 0], "f(a, b) = a" is body 0 with arity 2 and selection [0]);
    [fe_formals] = its own parameter names as model-name ids (used by the sequential-renaming
    regression witness only) *)
Record fent := mkFent { fe_name : string; fe_sem : N; fe_arity : nat; fe_ok : bool;
                        fe_sel : list nat; fe_formals : list name }.
Definition std_formals : list name := [9001%N; 9002%N; 9003%N].
Definition mkF (n : string) (s : N) (a : nat) (ok : bool) : fent :=
  mkFent n s a ok (seq 0 a) (firstn a std_formals).
Definition ftab := list fent.

Fixpoint select {A} (I : list nat) (l : list A) : option (list A) :=
  match I with
  | [] => Some []
  | i :: r => match nth_error l i, select r l with
              | Some v, Some t => Some (v :: t)
              | _, _ => None
              end
  end.
Definition fent_at (t : ftab) (f : fnid) : option fent := nth_error t (N.to_nat f).

Definition c_fname (t : ftab) (f : fnid) : string :=
  match fent_at t f with Some e => fe_name e | None => "" end.
Definition c_fsem (t : ftab) (f : fnid) (vs : list Z) : option Z :=
  match fent_at t f with
  | Some e => if Nat.eqb (length vs) (fe_arity e)
              then match select (fe_sel e) vs with Some ws => FnLib.fsem (fe_sem e) ws | None => None end
              else None
  | None => None
  end.

Definition cexpr : Type := (N * list name)%type.
Definition c_translate (t : ftab) (f : fnid) (margs : list name) : option cexpr :=
  match fent_at t f with
  | Some e => if fe_ok e && Nat.eqb (length margs) (fe_arity e)
              then match select (fe_sel e) margs with Some sm => Some (fe_sem e, sm) | None => None end
              else None
  | None => None
  end.

(** the shape of seeded change C11-3 for this instance: the body over the function's OWN parameter
    names, then one replacement after the other *)
Definition replace_name (x y : name) (l : list name) : list name :=
  map (fun z => if N.eqb z x then y else z) l.
Fixpoint subs_seq (pairs : list (name * name)) (l : list name) : list name :=
  match pairs with
  | [] => l
  | (x, y) :: r => subs_seq r (replace_name x y l)
  end.
Definition c_translate_seq (t : ftab) (f : fnid) (margs : list name) : option cexpr :=
  match fent_at t f with
  | Some e => if fe_ok e && Nat.eqb (length margs) (fe_arity e) && Nat.eqb (length (fe_formals e)) (fe_arity e)
              then match select (fe_sel e) (fe_formals e) with
                   | Some own => Some (fe_sem e, subs_seq (combine (fe_formals e) margs) own)
                   | None => None
                   end
              else None
  | None => None
  end.
Definition c_translate_by (rn : rn_mode) (t : ftab) : fnid -> list name -> option cexpr :=
  match rn with
  | RnDelegated => c_translate t
  | RnSequential => c_translate_seq t
  | RnUnknown => fun _ _ => None
  end.
Definition c_eval (e : cexpr) (en : env) : option Z :=
  match lookups (snd e) en with Some vs => FnLib.fsem (fst e) vs | None => None end.

Definition no_fsemN (f : fnid) (vs : list Z) : option (list Z) := None.

(** [_positional_fn(e1, a1) == _positional_fn(e2, a2)] for this instance: the same body, applied to
    the same POSITIONS (a repeated parameter stands for its first position), same arity.  On the
    function library of the harness this coincides with SymPy's structural comparison (different
    bodies / different repetition patterns give different polynomials). *)
Fixpoint first_index (x : name) (ps : list name) : nat :=
  match ps with
  | [] => 0
  | p :: r => if N.eqb x p then 0 else S (first_index x r)
  end.
Definition positions (d : cexpr * list name) : list nat :=
  map (fun x => first_index x (snd d)) (snd (fst d)).
Definition c_same_fn (q p : cexpr * list name) : bool :=
  N.eqb (fst (fst q)) (fst (fst p))
  && Nat.eqb (length (snd q)) (length (snd p))
  && list_eqb Nat.eqb (positions q) (positions p).

(** [a[0] == b[0]] of seeded change C11-2 for this instance: the substituted expressions are the
    same body at the same model names *)
Definition c_subst_eq (q p : cexpr * list name) : bool :=
  N.eqb (fst (fst q)) (fst (fst p)) && list_eqb N.eqb (snd (fst q)) (snd (fst p)).
Definition c_interchange (ic : ic_test) : cexpr * list name -> cexpr * list name -> bool :=
  interchange_test ic c_subst_eq c_same_fn.

(** the parameter names written into the text of a def *)
Definition emitted_params (renamed : bool) (check : pn_check) (args : list name) : option (list string) :=
  if renamed then parameter_names check (map nstr args) else Some (map nstr args).

(** ---- comparison helpers --------------------------------------------------------------- *)

Definition list_eqb2 {A B} (eqb : A -> B -> bool) : list A -> list B -> bool :=
  fix go (a : list A) (b : list B) : bool :=
    match a, b with
    | [], [] => true
    | x :: xs, y :: ys => eqb x y && go xs ys
    | _, _ => false
    end.

Definition namesb := list_eqb N.eqb.
Definition pairsZb (a b : list (name * Z)) : bool :=
  list_eqb (fun x y => N.eqb (fst x) (fst y) && Z.eqb (snd x) (snd y)) a b.

Definition valref_eqb (a b : valref) : bool :=
  match a, b with
  | VNum x, VNum y => Z.eqb x y
  | VInit k a1, VInit k' a2 => String.eqb k k' && namesb a1 a2
  | _, _ => false
  end.
Definition coefref_eqb (a b : coefref) : bool :=
  match a, b with
  | CNum x, CNum y => Z.eqb x y
  | CStrRef x, CStrRef y => N.eqb x y
  | CDerRef k a1, CDerRef k' a2 => String.eqb k k' && namesb a1 a2
  | _, _ => false
  end.
Definition addop_eqb (a b : addop) : bool :=
  match a, b with
  | AddVariable k v, AddVariable k' v' => N.eqb k k' && valref_eqb v v'
  | AddParameter k v, AddParameter k' v' => N.eqb k k' && valref_eqb v v'
  | AddDerived k f a1, AddDerived k' f' a2 => N.eqb k k' && String.eqb f f' && namesb a1 a2
  | AddReaction k f a1 s1, AddReaction k' f' a2 s2 =>
    N.eqb k k' && String.eqb f f' && namesb a1 a2
    && list_eqb (fun x y => N.eqb (fst x) (fst y) && coefref_eqb (snd x) (snd y)) s1 s2
  | _, _ => false
  end.

(** ---- what the harness observed on the implementation ----------------------------------- *)

(* time, state, get_args, get_fluxes, get_right_hand_side of the REBUILT model *)
Definition obs_state : Type :=
  (Z * list (name * Z) * list (name * Z) * list (name * Z) * list (name * Z))%type.

Record observed := mkObs {
  o_tag : N;                                  (* 0 built | 1 generation raised ValueError | 2 SyntaxError
                                                 | 3 NameError | 4 KeyError | 5 anything else *)
  o_defs : list (string * list string);       (* emitted defs: name, parameter names AS WRITTEN; in order *)
  o_ops : list addop;                         (* emitted builder chain *)
  o_pts : list (list (list Z * Z));           (* per def: (arguments, returned value) samples *)
  o_names : list (list name);                 (* rebuilt: variables, parameters, derived, reactions *)
  o_ic : list (name * Z);                     (* rebuilt get_initial_conditions *)
  o_pv : list (name * Z);                     (* rebuilt get_parameter_values *)
  o_states : list obs_state
}.

Definition c11_case : Type := (ftab * model * observed)%type.

Definition res_is {A} (eqb : A -> A -> bool) (r : res A) (x : A) : bool :=
  match r with Val a => eqb a x | Err _ => false end.

Definition shape_ok (c : code cexpr) (o : observed) : bool :=
  list_eqb2 (fun (d : string * (cexpr * list name)) (od : string * list string) =>
               String.eqb (fst d) (fst od)
               && match emitted_params (c_renamed c) (gf_param_check gen_mxlgen_facts) (snd (snd d)) with
                  | Some ps => list_eqb String.eqb ps (snd od)
                  | None => false
                  end) (c_defs c) (o_defs o)
  && list_eqb addop_eqb (c_ops c) (o_ops o).

Definition pts_ok (c : code cexpr) (o : observed) : bool :=
  list_eqb2 (fun (d : string * (cexpr * list name)) (pts : list (list Z * Z)) =>
              forallb (fun p => match defsem cexpr c_eval (fst (snd d)) (snd (snd d)) (fst p) with
                                | Some v => Z.eqb v (snd p)
                                | None => false
                                end) pts)
           (c_defs c) (o_pts o).

Definition state_ok (fs : fnid -> list Z -> option Z) (m : model) (ch : cache) (s : obs_state) : bool :=
  let '(t, vars, o_args, o_flux, o_rhs) := s in
  res_is pairsZb (get_args fs no_fsemN m ch vars t) o_args
  && res_is pairsZb (get_fluxes fs no_fsemN m ch vars t) o_flux
  && res_is pairsZb (get_rhs fs no_fsemN m ch vars t) o_rhs.

Definition c11_case_ok (c : c11_case) : bool :=
  let '(t, m, o) := c in
  match generate cexpr nstr (c_fname t) (c_translate_by (gf_rename gen_mxlgen_facts) t)
                 (c_interchange (gf_interchange gen_mxlgen_facts)) gen_mxlgen_facts m with
  | None => N.eqb (o_tag o) 1
  | Some code =>
    shape_ok code o &&
    match exec_code cexpr code with
    | GenRaises => false
    | ExecSyntax => N.eqb (o_tag o) 2
    | ExecName => N.eqb (o_tag o) 3
    | ExecKey => N.eqb (o_tag o) 4
    | Built m' =>
      let fs := fsem_gen cexpr c_eval (c_defs code) in
      N.eqb (o_tag o) 0
      && pts_ok code o
      && list_eqb namesb [keys (m_var m'); keys (m_par m'); keys (m_der m'); keys (m_rxn m')] (o_names o)
      && match create_cache fs no_fsemN gen_sort_facts m' with
         | Err _ => false
         | Val ch =>
           pairsZb (c_init ch) (o_ic o) && pairsZb (c_base_par ch) (o_pv o)
           && forallb (state_ok fs m' ch) (o_states o)
         end
    end
  end.

(** the SOURCE model's answers under the source functions (used by the refutation witnesses and
    by replay) *)
Definition source_state_ok (t : ftab) (m : model) (s : obs_state) : bool :=
  match create_cache (c_fsem t) no_fsemN gen_sort_facts m with
  | Err _ => false
  | Val ch => state_ok (c_fsem t) m ch s
  end.
