(** Which modules the generated file imports -- model of the import scan at the end of
    [generate_mxlpy_code_from_symbolic_repr] (src/mxlpy/meta/codegen_mxlpy.py), no proofs.

        body = "\n".join([functions_source, *variable_source, *parameter_source, *reactions_source])
        for module in ("math", "scipy.special", "sympy.physics.units"):
            if f"{module}." in body and not any(<the caller's imports name it>):
                imports = [*imports, f"import {module}"]

    The emitted TEXT is abstracted to what it refers to: each of the five sections of the file
    (function definitions, variable / parameter / derived / reaction lines of the builder chain) is
    the list of modules it mentions.  What a section mentions follows from what is written there:

      a plain number is written by [_number_literal]: the repr of a finite float, [float('-inf')]
      for -inf, and -- through SymPy's printer -- [math.inf] / [math.nan] for +inf and NaN;
      a unit is written by [_unit_literal] as [sympy.physics.units.<name>];
      an initial assignment, a derived quantity and the function / argument part of a reaction
      line are names and string literals only;
      what the function DEFINITIONS mention is decided by SymPy's printer (external: a list).

    WHICH sections are searched for WHICH module is a REGENERATED fact ([scan_table], extracted
    from the loop above by harness/c11_extract.py: [gen_import_scan] in GenMxlGenFacts.v). *)
From Coq Require Import List Bool.
Import ListNotations.

Inductive pymod := PMath | PScipySpecial | PSympyUnits.
Inductive section := SecFunctions | SecVariables | SecParameters | SecDerived | SecReactions.

Definition pymod_eqb (a b : pymod) : bool :=
  match a, b with
  | PMath, PMath | PScipySpecial, PScipySpecial | PSympyUnits, PSympyUnits => true
  | _, _ => false
  end.
Definition section_eqb (a b : section) : bool :=
  match a, b with
  | SecFunctions, SecFunctions | SecVariables, SecVariables | SecParameters, SecParameters
  | SecDerived, SecDerived | SecReactions, SecReactions => true
  | _, _ => false
  end.

(** how [_number_literal] writes a binary64 number *)
Inductive numlit := NFinite | NPosInf | NNegInf | NNan.
Definition numlit_refs (n : numlit) : list pymod :=
  match n with
  | NPosInf | NNan => [PMath]        (* math.inf, math.nan *)
  | NFinite | NNegInf => []          (* repr(x), float('-inf') *)
  end.

(** a variable / parameter line: a number with or without a unit, or an initial assignment *)
Inductive decl := DNum (n : numlit) (has_unit : bool) | DInit.
Definition decl_refs (d : decl) : list pymod :=
  match d with
  | DNum n u => numlit_refs n ++ (if u then [PSympyUnits] else [])
  | DInit => []
  end.

(** a stoichiometric coefficient of a reaction line: a number, or a name / Derived(...) *)
Inductive coef := KNum (n : numlit) | KRef.
Definition coef_refs (c : coef) : list pymod :=
  match c with KNum n => numlit_refs n | KRef => [] end.

Record emitted := mkEmitted {
  e_fn_refs : list pymod;          (* modules the function definitions mention (SymPy's printer) *)
  e_vars : list decl;
  e_pars : list decl;
  e_n_derived : nat;               (* derived lines: names only *)
  e_rxns : list (list coef)
}.

Definition refs_of (e : emitted) (s : section) : list pymod :=
  match s with
  | SecFunctions => e_fn_refs e
  | SecVariables => flat_map decl_refs (e_vars e)
  | SecParameters => flat_map decl_refs (e_pars e)
  | SecDerived => []
  | SecReactions => flat_map (flat_map coef_refs) (e_rxns e)
  end.

(** the regenerated fact: per module (in the order of the loop) the sections whose text is searched *)
Definition scan_table := list (pymod * list section).

Definition text_sections : list section := [SecFunctions; SecVariables; SecParameters; SecReactions].
(** the shipped loop: one [body] made of the four sections, searched for every module *)
Definition scan_whole_text : scan_table :=
  [(PMath, text_sections); (PScipySpecial, text_sections); (PSympyUnits, text_sections)].
(** the shape of seeded change C11-5: math and scipy.special in the function definitions only,
    the units in the declarations only *)
Definition scan_split : scan_table :=
  [(PMath, [SecFunctions]); (PScipySpecial, [SecFunctions]); (PSympyUnits, [SecVariables; SecParameters])].

Definition mem_mod (m : pymod) (l : list pymod) : bool := existsb (pymod_eqb m) l.
Definition mentions (e : emitted) (secs : list section) (m : pymod) : bool :=
  existsb (fun s => mem_mod m (refs_of e s)) secs.

(** the import lines the loop ADDS to the caller's [imports] (modules the caller already imports) *)
Definition added_imports (tbl : scan_table) (user : list pymod) (e : emitted) : list pymod :=
  flat_map (fun ms => if mentions e (snd ms) (fst ms) && negb (mem_mod (fst ms) user) then [fst ms] else []) tbl.
Definition file_imports (tbl : scan_table) (user : list pymod) (e : emitted) : list pymod :=
  user ++ added_imports tbl user e.

(** executing the file: the builder chain is evaluated by [create_model()] (a module it mentions
    must be bound: NameError otherwise, no model is rebuilt); a function definition only fails when it
    is called, i.e. at the first query of the rebuilt model *)
Inductive import_outcome := ImOk | ImNameErrorAtBuild | ImNameErrorAtCall.
Definition all_bound (imps : list pymod) (refs : list pymod) : bool :=
  forallb (fun m => mem_mod m imps) refs.
Definition run_imports (imps : list pymod) (e : emitted) : import_outcome :=
  if negb (all_bound imps (refs_of e SecVariables) && all_bound imps (refs_of e SecParameters)
           && all_bound imps (refs_of e SecDerived) && all_bound imps (refs_of e SecReactions))
  then ImNameErrorAtBuild
  else if negb (all_bound imps (refs_of e SecFunctions)) then ImNameErrorAtCall
  else ImOk.

(** a table searches the whole text for every module *)
Definition covers (tbl : scan_table) : bool :=
  forallb (fun m => existsb (fun ms => pymod_eqb (fst ms) m
                                       && forallb (fun s => existsb (section_eqb s) (snd ms)) text_sections) tbl)
          [PMath; PScipySpecial; PSympyUnits].
