(** How [fn_to_sympy] (src/mxlpy/meta/source_tools.py) binds the arguments of a translated call to the
    parameters of the callee -- model, no proofs.  The generator reaches it twice: for every slot's
    function with the component's model arguments (Model checks the arity there), and for every NESTED
    call inside a function body ([_handle_call] -> [fn_to_sympy(callee, model_args=<translated
    arguments>)]), where the callee may have defaulted trailing parameters.

    The statement that does the binding is a REGENERATED fact ([gen_call_defaults] in
    GenMxlGenFacts.v, extracted by harness/c11_extract.py):

      DfRefuse   [dict(zip(fn_args, model_args, strict=True))]            -- the shipped tree: a call
                 that does not pass every parameter is refused (ValueError -> None -> generation raises)
      DfLast     missing parameters take the LAST len(missing) defaults    -- what CPython does
      DfFront    [zip(missing, fn_def.args.defaults)]: defaults from the FRONT  -- seeded change C11-6
      DfUnknown  anything else

    [py_bind] is CPython's positional call of [def f(p_1, .., p_n)] whose last [length defaults]
    parameters are defaulted (TypeError = None). *)
From Coq Require Import List Arith Bool.
Import ListNotations.

Inductive df_mode := DfRefuse | DfLast | DfFront | DfUnknown.

Section Bind.
  Context {P V : Type}.

  Definition lastn (k : nat) (l : list V) : list V := skipn (length l - k) l.

  Definition bind_args (md : df_mode) (params : list P) (defaults args : list V) : option (list (P * V)) :=
    match md with
    | DfRefuse => if Nat.eqb (length params) (length args) then Some (combine params args) else None
    | DfLast | DfFront =>
      if Nat.ltb (length params) (length args) then None            (* "Too many arguments" *)
      else
        let missing := skipn (length args) params in
        if Nat.ltb (length defaults) (length missing) then None     (* "Missing arguments" *)
        else Some (combine params args
                   ++ combine missing (match md with
                                       | DfFront => defaults
                                       | _ => lastn (length missing) defaults
                                       end))
    | DfUnknown => None
    end.

  Definition py_bind (params : list P) (defaults args : list V) : option (list (P * V)) :=
    let n := length params in
    let d := length defaults in
    let k := length args in
    if Nat.ltb n k then None                          (* takes n positional arguments but k were given *)
    else if Nat.ltb k (n - d) then None               (* missing required positional arguments *)
    else Some (combine params (args ++ skipn (k - (n - d)) defaults)).
End Bind.

Definition is_some {A} (o : option A) : bool := match o with Some _ => true | None => false end.

(** does the translator accept a call of a callee with [n] parameters, [d] of them defaulted, that
    passes [k] arguments?  (the harness compares this with what the real [fn_to_sympy] does) *)
Definition accepts (md : df_mode) (n d k : nat) : bool :=
  is_some (bind_args md (seq 0 n) (seq 0 d) (seq 0 k)).
