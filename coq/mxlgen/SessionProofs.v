(** Proofs about Session.v: with a module scan at every call, EVERY generation of EVERY history of one
    process sees the module as it is, so the round-trip theorem applies to each generation with the
    meaning the functions have at that moment; with a remembered scan (seeded change C11-7) the generation
    after a rebinding emits the outdated helper.  Lemmas only; statements in PropsC11.v. *)
From Coq Require Import ZArith List Bool String Lia.
From MxlBase Require Import ListX.
From Core Require Import Sort GenSortFacts FnLib Model Cache Query.
From MxlGen Require Import SymRepr GenMxlGenFacts ExpectedFacts MxlGen MxlGenSpec MxlGenSem MxlGenProofs
                           Corr CorrProofs ParamNames MxlGenWitness NamingWitness Session.
Import ListNotations.
Local Open Scope string_scope.
Local Open Scope N_scope.

Definition dup {W} (w : W) : W * W := (w, w).

Lemma session_at_call {W} (memo : option W) (cur : W) (h : list (event W)) :
  session_run ScanAtCall memo cur h = map dup (worlds_at_generations cur h).
Proof.
  revert memo cur. induction h as [|[w|] r IH]; intros memo cur; cbn [session_run worlds_at_generations map].
  - reflexivity.
  - apply IH.
  - rewrite IH. reflexivity.
Qed.

Lemma session_at_call_in {W} (memo : option W) (cur : W) (h : list (event W)) ws wp :
  In (ws, wp) (session_run ScanAtCall memo cur h) -> ws = wp.
Proof.
  rewrite session_at_call. intros H. apply in_map_iff in H. destruct H as [w [Hw _]].
  unfold dup in Hw. inversion Hw. reflexivity.
Qed.

Lemma session_memo_no_rebind {W} (cur : W) (h : list (event W)) :
  no_rebind h -> session_run ScanMemo (Some cur) cur h = map dup (worlds_at_generations cur h).
Proof.
  induction h as [|[w|] r IH]; intros H; cbn [session_run worlds_at_generations map].
  - reflexivity.
  - destruct H.
  - cbn [no_rebind] in H. cbn [seen remember]. rewrite (IH H). reflexivity.
Qed.

(** PARTIAL for the remembered scan: a process in which nothing is rebound after its first generation *)
Lemma session_memo_partial {W} (cur : W) (h : list (event W)) :
  rebinds_only_before_first_generation h ->
  session_run ScanMemo None cur h = map dup (worlds_at_generations cur h).
Proof.
  revert cur. induction h as [|[w|] r IH]; intros cur H; cbn [session_run worlds_at_generations map].
  - reflexivity.
  - apply IH. exact H.
  - cbn [rebinds_only_before_first_generation] in H. cbn [seen remember].
    rewrite (session_memo_no_rebind cur r H). reflexivity.
Qed.

(** ... and what happens otherwise: generate, rebind, generate -- the second generation sees the FIRST world *)
Lemma session_memo_stale {W} (w0 w1 : W) :
  session_run ScanMemo None w0 [Generate; Rebind w1; Generate] = [(w0, w0); (w0, w1)]
  /\ session_run ScanAtCall None w0 [Generate; Rebind w1; Generate] = [(w0, w0); (w1, w1)]
  /\ ~ rebinds_only_before_first_generation [Generate; Rebind w1; @Generate W].
Proof. split; [reflexivity|]. split; [reflexivity|]. cbn. intros H. exact H. Qed.

(** the round trip at EVERY generation of EVERY history (shipped: scan at every call).  [translate w] /
    [fsem w] = the translator's result / CPython's meaning of a function object while the module is in
    world [w]; per-function translation soundness is assumed in every world. *)
Lemma session_roundtrip
  (W E : Type) (nstr : name -> string) (fname : fnid -> string)
  (translate : W -> fnid -> list name -> option E) (eval : E -> env -> option Z)
  (subst_eq same_fn : E * list name -> E * list name -> bool)
  (fsem : W -> fnid -> list Z -> option Z) (fsemN : fnid -> list Z -> option (list Z)) (SF : sort_facts) :
  (forall w f margs e, translate w f margs = Some e ->
     forall en vs, lookups margs en = Some vs -> eval e en = fsem w f vs) ->
  (forall q p, same_fn q p = true ->
     forall vs, defsem E eval (fst q) (snd q) vs = defsem E eval (fst p) (snd p) vs) ->
  forall (F : gen_facts) (h : list (event W)) (memo : option W) (cur ws wp : W) (m : model) (c : code E),
    gf_register F = RegFresh -> gf_interchange F = IcPositional ->
    In (ws, wp) (session_run ScanAtCall memo cur h) ->
    UniqueIds m -> m_sur m = [] -> m_dat m = [] ->
    generate E nstr fname (translate ws) (interchange_test (gf_interchange F) subst_eq same_fn) F m = Some c ->
    exists m', exec_code E c = Built m'
      /\ same_behaviour (fsem wp) (fsem_gen E eval (c_defs c)) fsemN SF m m'.
Proof.
  intros Hsound Hsame F h memo cur ws wp m c Hr Hic Hin Hu Hs Hd Hg.
  apply session_at_call_in in Hin. subst ws.
  exact (roundtrip_shipped E nstr fname (translate wp) eval subst_eq same_fn (fsem wp) fsemN SF
                           (Hsound wp) Hsame F m c Hr Hic Hu Hs Hd Hg).
Qed.

(** ---- witness on the executable instance: worlds = tables of function objects ------------------
    the module of the harness stream `session`: [def sat2(a, b): return hsat(a, b)] with hsat = hv_mul
    (a * b) in the first world and hsat = hv_add (a + b) in the second; the function OBJECT (id 0) is the
    same *)
Definition T_mul : ftab := [mkF "sat2" 4 2 true].
Definition T_add : ftab := [mkF "sat2" 2 2 true].
(* k = 11 (3), x = 12 (2); 13 = sat2(x, k) *)
Definition m_sat : model :=
  mkModel [(11, Plain 3%Z)] [(12, Plain 2%Z)] [(13, mkDer 0 [12; 11])] [] [] [] [].

Lemma session_memo_refuted :
  session_run ScanMemo None T_mul [Generate; Rebind T_add; Generate] = [(T_mul, T_mul); (T_mul, T_add)]
  /\ exists (m' : model) (D : fdict cexpr) (ch ch' : cache),
       UniqueIds m_sat
       /\ roundtrip cexpr nstr (c_fname T_mul) (c_translate T_mul) c_same_fn Fn m_sat = Built (m', D)
       /\ create_cache (c_fsem T_add) no_fsemN gen_sort_facts m_sat = Val ch
       /\ create_cache (fsem_gen cexpr c_eval D) no_fsemN gen_sort_facts m' = Val ch'
       /\ get_args (c_fsem T_add) no_fsemN m_sat ch [(12, 2%Z)] 0 = Val [(0, 0%Z); (12, 2%Z); (11, 3%Z); (13, 5%Z)]
       /\ get_args (fsem_gen cexpr c_eval D) no_fsemN m' ch' [(12, 2%Z)] 0 = Val [(0, 0%Z); (12, 2%Z); (11, 3%Z); (13, 6%Z)].
Proof.
  split; [reflexivity|].
  do 4 eexists. split; [solve_unique|].
  split; [vm_lhs|]. split; [vm_lhs|]. split; [vm_lhs|]. split; vm_compute; reflexivity.
Qed.

(* shipped: the second generation sees T_add and rebuilds the model as it is *)
Lemma session_at_call_witness :
  session_run ScanAtCall None T_mul [Generate; Rebind T_add; Generate] = [(T_mul, T_mul); (T_add, T_add)]
  /\ exists (m' : model) (D : fdict cexpr) (ch' : cache),
       roundtrip cexpr nstr (c_fname T_add) (c_translate T_add) c_same_fn Fn m_sat = Built (m', D)
       /\ create_cache (fsem_gen cexpr c_eval D) no_fsemN gen_sort_facts m' = Val ch'
       /\ get_args (fsem_gen cexpr c_eval D) no_fsemN m' ch' [(12, 2%Z)] 0 = Val [(0, 0%Z); (12, 2%Z); (11, 3%Z); (13, 5%Z)].
Proof.
  split; [reflexivity|].
  do 3 eexists. split; [vm_lhs|]. split; [vm_lhs|]. vm_compute. reflexivity.
Qed.

(* non-vacuity of [session_roundtrip]: the hypotheses on the external parts hold for the instance with
   worlds = tables (CorrProofs), and a history with a rebinding between two generations has both worlds *)
Lemma session_nonvacuous :
  (forall (w : ftab) f margs e, c_translate w f margs = Some e ->
     forall en vs, lookups margs en = Some vs -> c_eval e en = c_fsem w f vs)
  /\ In (T_add, T_add) (session_run ScanAtCall None T_mul [Generate; Rebind T_add; Generate])
  /\ UniqueIds m_sat
  /\ generate cexpr nstr (c_fname T_add) (c_translate T_add)
              (interchange_test (gf_interchange Fn) c_subst_eq c_same_fn) Fn m_sat <> None.
Proof.
  split; [intros w; exact (c_translate_sound w)|].
  split; [right; left; reflexivity|]. split; [solve_unique|]. vm_compute. discriminate.
Qed.
