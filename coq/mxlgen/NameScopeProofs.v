(** Proofs about NameScope.v: looking a name up among the function's own symbols FIRST is what CPython
    does with parameters and local variables; looking it up among the module's numbers first (seeded change
    C11-8) is not, except for functions none of whose local names is the name of a module-level number.
    Lemmas only; statements in PropsC11.v. *)
From Coq Require Import ZArith List Bool String Lia.
From MxlGen Require Import NameScope.
Import ListNotations.
Local Open Scope string_scope.

Lemma isin_In x l : isin x l = true <-> In x l.
Proof.
  unfold isin. rewrite existsb_exists. split.
  - intros [y [Hy He]]. apply String.eqb_eq in He. subst. exact Hy.
  - intros H. exists x. split; [exact H | apply String.eqb_refl].
Qed.

Lemma isin_false_not_In x l : isin x l = false -> ~ In x l.
Proof. intros H Hin. apply isin_In in Hin. congruence. Qed.

Lemma alookup_init_symbols x ps :
  alookup x (init_symbols ps) = if isin x ps then Some (SSym x) else None.
Proof.
  induction ps as [|p ps IH]; [reflexivity|].
  cbn [init_symbols map alookup isin existsb]. fold (isin x ps). fold (init_symbols ps).
  destruct (String.eqb x p) eqn:E.
  - apply String.eqb_eq in E. subst. reflexivity.
  - cbn [orb]. exact IH.
Qed.

Lemma alookup_combine_none x ps (args : list Z) :
  isin x ps = false -> alookup x (combine ps args) = None.
Proof.
  revert args. induction ps as [|p ps IH]; intros args H; [reflexivity|].
  destruct args as [|a args]; [reflexivity|].
  cbn [isin existsb] in H. apply orb_false_iff in H. destruct H as [H1 H2].
  cbn [combine alookup]. rewrite H1. apply IH. exact H2.
Qed.

Lemma alookup_combine_some x ps (args : list Z) :
  List.length args = List.length ps -> isin x ps = true -> exists z, alookup x (combine ps args) = Some z.
Proof.
  revert args. induction ps as [|p ps IH]; intros args Hl H; [discriminate|].
  destruct args as [|a args]; [discriminate|].
  cbn [combine alookup]. destruct (String.eqb x p) eqn:E; [eexists; reflexivity|].
  cbn [isin existsb] in H. rewrite E in H. cbn [orb] in H.
  apply IH; [cbn in Hl; lia | exact H].
Qed.

(** the invariant of [_handle_fn_body] against CPython's frame: the table of symbols and the frame bind
    the same names, every bound name is a local name of the function, and the translated value of a
    name evaluates (parameter symbols standing for [P]) to what the frame holds *)
Definition Inv (loc : list string) (P : list (string * Z)) (Sy : list (string * sx)) (L : list (string * Z)) : Prop :=
  (forall x, alookup x Sy = None -> alookup x L = None)
  /\ (forall x s, alookup x Sy = Some s ->
        isin x loc = true /\ exists z, alookup x L = Some z /\ sx_eval P s = Some z).

Lemma obin_some op a b v : obin op a b = Some v -> exists x y, a = Some x /\ b = Some y /\ v = op x y.
Proof. destruct a, b; cbn; intros H; try discriminate. inversion H. eauto. Qed.

Lemma sbin_some op a b s : sbin op a b = Some s -> exists x y, a = Some x /\ b = Some y /\ s = op x y.
Proof. destruct a, b; cbn; intros H; try discriminate. inversion H. eauto. Qed.

Lemma tr_ex_sound Gs G loc P Sy L :
  scan_sub Gs G -> Inv loc P Sy L ->
  forall e s v, tr_ex NlLocalsFirst Gs Sy e = Some s -> py_eval loc G L e = Some v -> sx_eval P s = Some v.
Proof.
  intros Hsub [Hnone Hsome]. induction e as [z|x|a IHa b IHb|a IHa b IHb|a IHa b IHb]; intros s v Ht Hp.
  - cbn in Ht, Hp. inversion Ht. inversion Hp. reflexivity.
  - cbn [tr_ex name_value] in Ht. cbn [py_eval] in Hp.
    destruct (alookup x Sy) as [s'|] eqn:Es.
    + inversion Ht. subst s'. destruct (Hsome x s Es) as [Hloc [z [HL Hz]]].
      rewrite Hloc, HL in Hp. inversion Hp. subst. exact Hz.
    + destruct (alookup x Gs) as [z|] eqn:Eg; [|discriminate]. cbn in Ht. inversion Ht. subst s.
      destruct (isin x loc).
      * rewrite (Hnone x Es) in Hp. discriminate.
      * rewrite (Hsub x z Eg) in Hp. inversion Hp. reflexivity.
  - cbn [tr_ex] in Ht. cbn [py_eval] in Hp.
    apply sbin_some in Ht. destruct Ht as [sa [sb [Ha [Hb ->]]]].
    apply obin_some in Hp. destruct Hp as [va [vb [Hva [Hvb ->]]]].
    cbn [sx_eval]. rewrite (IHa _ _ Ha Hva), (IHb _ _ Hb Hvb). reflexivity.
  - cbn [tr_ex] in Ht. cbn [py_eval] in Hp.
    apply sbin_some in Ht. destruct Ht as [sa [sb [Ha [Hb ->]]]].
    apply obin_some in Hp. destruct Hp as [va [vb [Hva [Hvb ->]]]].
    cbn [sx_eval]. rewrite (IHa _ _ Ha Hva), (IHb _ _ Hb Hvb). reflexivity.
  - cbn [tr_ex] in Ht. cbn [py_eval] in Hp.
    apply sbin_some in Ht. destruct Ht as [sa [sb [Ha [Hb ->]]]].
    apply obin_some in Hp. destruct Hp as [va [vb [Hva [Hvb ->]]]].
    cbn [sx_eval]. rewrite (IHa _ _ Ha Hva), (IHb _ _ Hb Hvb). reflexivity.
Qed.

Lemma Inv_assign loc P Sy L x s v :
  Inv loc P Sy L -> isin x loc = true -> sx_eval P s = Some v -> Inv loc P ((x, s) :: Sy) ((x, v) :: L).
Proof.
  intros [Hnone Hsome] Hloc Hv. split.
  - intros y Hy. cbn [alookup] in *. destruct (String.eqb y x); [discriminate|]. apply Hnone. exact Hy.
  - intros y s' Hy. cbn [alookup] in *. destruct (String.eqb y x) eqn:E.
    + inversion Hy. subst s'. apply String.eqb_eq in E. subst y. split; [exact Hloc|]. eauto.
    + apply Hsome. exact Hy.
Qed.

Lemma tr_body_sound Gs G loc P :
  scan_sub Gs G ->
  forall body ret Sy L s v,
    Inv loc P Sy L -> (forall x, In x (map fst body) -> isin x loc = true) ->
    tr_body NlLocalsFirst Gs Sy body ret = Some s -> py_body loc G L body ret = Some v -> sx_eval P s = Some v.
Proof.
  intros Hsub. induction body as [|[x e] r IH]; intros ret Sy L s v HI Hin Ht Hp.
  - cbn in Ht, Hp. exact (tr_ex_sound Gs G loc P Sy L Hsub HI ret s v Ht Hp).
  - cbn [tr_body] in Ht. cbn [py_body] in Hp.
    destruct (tr_ex NlLocalsFirst Gs Sy e) as [s1|] eqn:E1; [|discriminate].
    destruct (py_eval loc G L e) as [v1|] eqn:E2; [|discriminate].
    pose proof (tr_ex_sound Gs G loc P Sy L Hsub HI e s1 v1 E1 E2) as H1.
    apply (IH ret ((x, s1) :: Sy) ((x, v1) :: L) s v); try assumption.
    + apply Inv_assign; [exact HI | apply Hin; left; reflexivity | exact H1].
    + intros y Hy. apply Hin. right. exact Hy.
Qed.

Lemma Inv_init f (args : list Z) :
  List.length args = List.length (pf_params f) ->
  Inv (locals_of f) (combine (pf_params f) args) (init_symbols (pf_params f)) (combine (pf_params f) args).
Proof.
  intros Hl. split.
  - intros x Hx. rewrite alookup_init_symbols in Hx.
    destruct (isin x (pf_params f)) eqn:E; [discriminate|]. apply alookup_combine_none. exact E.
  - intros x s Hx. rewrite alookup_init_symbols in Hx.
    destruct (isin x (pf_params f)) eqn:E; [|discriminate]. inversion Hx. subst s. split.
    + apply isin_In. unfold locals_of. apply in_or_app. left. apply isin_In. exact E.
    + destruct (alookup_combine_some x (pf_params f) args Hl E) as [z Hz]. exists z. split; [exact Hz|].
      cbn [sx_eval]. exact Hz.
Qed.

(** shipped order: whenever the function is translated and the Python call yields a value, the translated
    expression yields THAT value -- for every module, every function (parameters and local variables named
    like module-level numbers included), all arguments *)
Lemma locals_first_sound (G Gs : menv) (f : pyfn) (args : list Z) (s : sx) (v : Z) :
  scan_sub Gs G ->
  translate_fn NlLocalsFirst Gs f = Some s ->
  py_call G f args = Some v ->
  sx_eval (combine (pf_params f) args) s = Some v.
Proof.
  intros Hsub Ht Hp. unfold py_call in Hp.
  destruct (Nat.eqb (List.length args) (List.length (pf_params f))) eqn:El; [|discriminate].
  apply Nat.eqb_eq in El. unfold translate_fn in Ht.
  apply (tr_body_sound Gs G (locals_of f) (combine (pf_params f) args) Hsub
                       (pf_body f) (pf_ret f) (init_symbols (pf_params f)) (combine (pf_params f) args) s v).
  - apply Inv_init. exact El.
  - intros x Hx. apply isin_In. unfold locals_of. apply in_or_app. right. exact Hx.
  - exact Ht.
  - exact Hp.
Qed.

(** ---- module-level numbers first (seeded change C11-8) ----------------------------------------- *)

Definition KeysIn (loc : list string) (Sy : list (string * sx)) : Prop :=
  forall x s, alookup x Sy = Some s -> isin x loc = true.

Lemma name_value_same Gs loc Sy x :
  (forall y, isin y loc = true -> alookup y Gs = None) -> KeysIn loc Sy ->
  name_value NlModuleFirst Gs Sy x = name_value NlLocalsFirst Gs Sy x.
Proof.
  intros Hns Hk. cbn [name_value]. destruct (alookup x Gs) as [z|] eqn:Eg.
  - destruct (alookup x Sy) as [s|] eqn:Es; [|reflexivity].
    rewrite (Hns x (Hk x s Es)) in Eg. discriminate.
  - destruct (alookup x Sy); reflexivity.
Qed.

Lemma tr_ex_same Gs loc Sy e :
  (forall y, isin y loc = true -> alookup y Gs = None) -> KeysIn loc Sy ->
  tr_ex NlModuleFirst Gs Sy e = tr_ex NlLocalsFirst Gs Sy e.
Proof.
  intros Hns Hk. induction e as [z|x|a IHa b IHb|a IHa b IHb|a IHa b IHb]; cbn [tr_ex];
    try rewrite IHa, IHb; try reflexivity.
  apply (name_value_same Gs loc); assumption.
Qed.

Lemma tr_body_same Gs loc :
  (forall y, isin y loc = true -> alookup y Gs = None) ->
  forall body ret Sy, KeysIn loc Sy -> (forall x, In x (map fst body) -> isin x loc = true) ->
    tr_body NlModuleFirst Gs Sy body ret = tr_body NlLocalsFirst Gs Sy body ret.
Proof.
  intros Hns. induction body as [|[x e] r IH]; intros ret Sy Hk Hin.
  - cbn [tr_body]. apply (tr_ex_same Gs loc); assumption.
  - cbn [tr_body]. rewrite (tr_ex_same Gs loc Sy e Hns Hk).
    destruct (tr_ex NlLocalsFirst Gs Sy e) as [s1|]; [|reflexivity].
    apply IH.
    + intros y s Hy. cbn [alookup] in Hy. destruct (String.eqb y x) eqn:E.
      * apply String.eqb_eq in E. subst y. apply Hin. left. reflexivity.
      * exact (Hk y s Hy).
    + intros y Hy. apply Hin. right. exact Hy.
Qed.

Lemma module_first_partial (Gs : menv) (f : pyfn) :
  no_shadowing Gs f -> translate_fn NlModuleFirst Gs f = translate_fn NlLocalsFirst Gs f.
Proof.
  intros Hns. unfold translate_fn. apply (tr_body_same Gs (locals_of f)).
  - intros y Hy. apply Hns. apply isin_In. exact Hy.
  - intros x s Hx. rewrite alookup_init_symbols in Hx. destruct (isin x (pf_params f)) eqn:E; [|discriminate].
    apply isin_In. unfold locals_of. apply in_or_app. left. apply isin_In. exact E.
  - intros x Hx. apply isin_In. unfold locals_of. apply in_or_app. right. exact Hx.
Qed.

(** witnesses: the module of the harness stream `shadow` (a = 7.0, b = 3; w = 5.0) *)
Definition G_ab : menv := [("a", 7%Z); ("b", 3%Z); ("c", 2%Z)].
Definition f_sh_sub : pyfn := mkPyFn ["a"; "b"] [] (ESub (EName "a") (EName "b")).
Definition G_w : menv := [("w", 5%Z); ("n", 2%Z)].
Definition f_loc_mix : pyfn :=
  mkPyFn ["a"; "b"; "c"] [("w", EMul (EName "a") (EName "b"))] (EAdd (EName "w") (EName "c")).

(* def sh_sub(a, b): return a - b  in a module with a = 7.0, b = 3: the emitted body is the constant 4 *)
Lemma module_first_refuted :
  no_shadowing G_ab f_sh_sub -> False.
Proof. intros H. specialize (H "a" (or_introl eq_refl)). discriminate. Qed.

Lemma module_first_witness :
  translate_fn NlModuleFirst G_ab f_sh_sub = Some (SSub (SNum 7) (SNum 3))
  /\ py_call G_ab f_sh_sub [2%Z; 5%Z] = Some (-3)%Z
  /\ sx_eval (combine (pf_params f_sh_sub) [2%Z; 5%Z]) (SSub (SNum 7) (SNum 3)) = Some 4%Z
  /\ translate_fn NlLocalsFirst G_ab f_sh_sub = Some (SSub (SSym "a") (SSym "b"))
  /\ sx_eval (combine (pf_params f_sh_sub) [2%Z; 5%Z]) (SSub (SSym "a") (SSym "b")) = Some (-3)%Z.
Proof. repeat split; vm_compute; reflexivity. Qed.

(* def loc_mix(a, b, c): w = a * b; return w + c  in a module with w = 5.0: the computed local is lost *)
Lemma module_first_local_witness :
  translate_fn NlModuleFirst G_w f_loc_mix = Some (SAdd (SNum 5) (SSym "c"))
  /\ py_call G_w f_loc_mix [2%Z; 3%Z; 4%Z] = Some 10%Z
  /\ sx_eval (combine (pf_params f_loc_mix) [2%Z; 3%Z; 4%Z]) (SAdd (SNum 5) (SSym "c")) = Some 9%Z
  /\ (exists s, translate_fn NlLocalsFirst G_w f_loc_mix = Some s
                /\ sx_eval (combine (pf_params f_loc_mix) [2%Z; 3%Z; 4%Z]) s = Some 10%Z).
Proof.
  split; [vm_compute; reflexivity|]. split; [vm_compute; reflexivity|]. split; [vm_compute; reflexivity|].
  eexists. split; vm_compute; reflexivity.
Qed.

(* non-vacuity of [locals_first_sound]: hypotheses met with shadowing parameters AND a shadowing local *)
Lemma locals_first_nonvacuous :
  scan_sub [("a", 7%Z)] G_ab
  /\ (exists s, translate_fn NlLocalsFirst [("a", 7%Z)] f_sh_sub = Some s)
  /\ py_call G_ab f_sh_sub [2%Z; 5%Z] = Some (-3)%Z
  /\ ~ no_shadowing [("a", 7%Z)] f_sh_sub.
Proof.
  split.
  - intros x z H. cbn [alookup] in H. destruct (String.eqb x "a") eqn:E; [|discriminate].
    apply String.eqb_eq in E. subst. inversion H. reflexivity.
  - split; [eexists; vm_compute; reflexivity|]. split; [vm_compute; reflexivity|].
    intros H. specialize (H "a" (or_introl eq_refl)). discriminate.
Qed.
