(** How the function translator resolves a NAME ([_handle_name] of src/mxlpy/meta/source_tools.py), next to
    what CPython does with the same name -- model only, no proofs (NameScopeProofs.v).

    A Python function of the shapes the generator meets: parameters, a straight-line body of assignments
    [x = e] and a returned expression over [+ - *], numbers and names.  The module that defines it has
    module-level numbers.

    CPython: a name that is a parameter or is assigned ANYWHERE in the function is a local variable of the
    function (reading it before its assignment is UnboundLocalError, never the module's value); every other
    name is looked up in the module.

    The translator keeps a table [symbols] (parameters -> their symbols, assigned names -> the translated
    right-hand side) and a scan of the module for numbers.  In which ORDER the two are consulted is the
    regenerated fact [gen_name_lookup]:
      NlLocalsFirst   shipped:  [value = ctx.symbols.get(node.id); if value is None: <scan the module>]
      NlModuleFirst   seeded change C11-8: the module's numbers first, [ctx.symbols] only otherwise
    [Gs] = the numbers the scan FINDS (shipped: floats only), [G] = the numbers the module HAS. *)
From Coq Require Import ZArith List Bool String.
Import ListNotations.
Local Open Scope string_scope.

Inductive nl_mode := NlLocalsFirst | NlModuleFirst | NlUnknown.

Inductive ex :=
| ENum (z : Z)
| EName (x : string)
| EAdd (a b : ex)
| ESub (a b : ex)
| EMul (a b : ex).

Record pyfn := mkPyFn { pf_params : list string; pf_body : list (string * ex); pf_ret : ex }.

Definition menv : Type := list (string * Z).

Fixpoint alookup {A} (x : string) (l : list (string * A)) : option A :=
  match l with
  | [] => None
  | (k, v) :: r => if String.eqb x k then Some v else alookup x r
  end.

Definition isin (x : string) (l : list string) : bool := existsb (String.eqb x) l.

Definition obin (op : Z -> Z -> Z) (a b : option Z) : option Z :=
  match a, b with Some x, Some y => Some (op x y) | _, _ => None end.

(** ---- CPython ------------------------------------------------------------------------------------ *)

Definition locals_of (f : pyfn) : list string := pf_params f ++ map fst (pf_body f).

(* [loc] = the local names of the function (decided at compile time); [L] = what is bound so far;
   None = UnboundLocalError / NameError *)
Fixpoint py_eval (loc : list string) (G : menv) (L : list (string * Z)) (e : ex) : option Z :=
  match e with
  | ENum z => Some z
  | EName x => if isin x loc then alookup x L else alookup x G
  | EAdd a b => obin Z.add (py_eval loc G L a) (py_eval loc G L b)
  | ESub a b => obin Z.sub (py_eval loc G L a) (py_eval loc G L b)
  | EMul a b => obin Z.mul (py_eval loc G L a) (py_eval loc G L b)
  end.

Fixpoint py_body (loc : list string) (G : menv) (L : list (string * Z)) (body : list (string * ex)) (ret : ex)
  : option Z :=
  match body with
  | [] => py_eval loc G L ret
  | (x, e) :: r =>
    match py_eval loc G L e with
    | Some v => py_body loc G ((x, v) :: L) r ret
    | None => None
    end
  end.

(* calling the function object; a wrong number of arguments is a TypeError (None) *)
Definition py_call (G : menv) (f : pyfn) (args : list Z) : option Z :=
  if Nat.eqb (List.length args) (List.length (pf_params f))
  then py_body (locals_of f) G (combine (pf_params f) args) (pf_body f) (pf_ret f)
  else None.

(** ---- the translator --------------------------------------------------------------------------- *)

(* expressions over the parameter SYMBOLS *)
Inductive sx :=
| SNum (z : Z)
| SSym (p : string)
| SAdd (a b : sx)
| SSub (a b : sx)
| SMul (a b : sx).

Definition sbin (op : sx -> sx -> sx) (a b : option sx) : option sx :=
  match a, b with Some x, Some y => Some (op x y) | _, _ => None end.

(* [_handle_name]; None = the KeyError of a name found nowhere (nothing is translated) *)
Definition name_value (md : nl_mode) (Gs : menv) (Sy : list (string * sx)) (x : string) : option sx :=
  match md with
  | NlLocalsFirst =>
    match alookup x Sy with
    | Some v => Some v
    | None => option_map SNum (alookup x Gs)
    end
  | NlModuleFirst =>
    match alookup x Gs with
    | Some z => Some (SNum z)
    | None => alookup x Sy
    end
  | NlUnknown => None
  end.

Fixpoint tr_ex (md : nl_mode) (Gs : menv) (Sy : list (string * sx)) (e : ex) : option sx :=
  match e with
  | ENum z => Some (SNum z)
  | EName x => name_value md Gs Sy x
  | EAdd a b => sbin SAdd (tr_ex md Gs Sy a) (tr_ex md Gs Sy b)
  | ESub a b => sbin SSub (tr_ex md Gs Sy a) (tr_ex md Gs Sy b)
  | EMul a b => sbin SMul (tr_ex md Gs Sy a) (tr_ex md Gs Sy b)
  end.

(* [_handle_fn_body]: [ctx.symbols[target] = value] *)
Fixpoint tr_body (md : nl_mode) (Gs : menv) (Sy : list (string * sx)) (body : list (string * ex)) (ret : ex)
  : option sx :=
  match body with
  | [] => tr_ex md Gs Sy ret
  | (x, e) :: r =>
    match tr_ex md Gs Sy e with
    | Some v => tr_body md Gs ((x, v) :: Sy) r ret
    | None => None
    end
  end.

Definition init_symbols (ps : list string) : list (string * sx) := map (fun p => (p, SSym p)) ps.

(* [fn_to_sympy(fn)]: symbols = {name: Symbol(name) for name in fn_args} *)
Definition translate_fn (md : nl_mode) (Gs : menv) (f : pyfn) : option sx :=
  tr_body md Gs (init_symbols (pf_params f)) (pf_body f) (pf_ret f).

(* the value of a translated expression when the parameter symbols stand for [P] *)
Fixpoint sx_eval (P : list (string * Z)) (s : sx) : option Z :=
  match s with
  | SNum z => Some z
  | SSym p => alookup p P
  | SAdd a b => obin Z.add (sx_eval P a) (sx_eval P b)
  | SSub a b => obin Z.sub (sx_eval P a) (sx_eval P b)
  | SMul a b => obin Z.mul (sx_eval P a) (sx_eval P b)
  end.

(* the scan finds only numbers the module has *)
Definition scan_sub (Gs G : menv) : Prop := forall x z, alookup x Gs = Some z -> alookup x G = Some z.

(* no local name of the function is the name of a number the scan finds *)
Definition no_shadowing (Gs : menv) (f : pyfn) : Prop := forall x, In x (locals_of f) -> alookup x Gs = None.

(** ---- the comparison used by the correspondence shard c11_names ---------------------------------
    a case: the numbers of the module (what it has / what the scan finds), the function, argument values
    and what the implementation's translation evaluated to at them (None = refused) *)
Definition name_case : Type := (menv * menv * pyfn * list Z * option Z)%type.
Definition oz_eqb (a b : option Z) : bool :=
  match a, b with Some x, Some y => Z.eqb x y | None, None => true | _, _ => false end.
Definition name_case_ok (md : nl_mode) (c : name_case) : bool :=
  let '(G, Gs, f, args, seen) := c in
  oz_eqb (match translate_fn md Gs f with
          | Some s => sx_eval (combine (pf_params f) args) s
          | None => None
          end) seen.
