(** Several generations in ONE process -- model only, no proofs (SessionProofs.v).

    A rate function that calls a helper by name ([return vmax * saturation(s, k)]) is translated by looking
    the helper up in the module that defines the caller: [_handle_call] scans
    [inspect.getmembers(ctx.parent_module, predicate=callable)].  Between two calls of generate_mxlpy_code the
    module may change (a notebook cell run again, a second def, a patched helper, a number rebound) while the
    function objects of the model stay the same; CPython looks the helper up at every call, so the model
    computes with the module AS IT IS.

    [W] = the states a module can be in ("worlds": what its names are bound to).  A history of one process:
    the module is rebound ([Rebind w]) or a model is generated ([Generate]).  WHEN the module is scanned is
    the regenerated fact [gen_scan_mode]:
      ScanAtCall   shipped: every [_handle_call] / [_handle_attribute] scans the module again
      ScanMemo     seeded change C11-7: the scan is wrapped in functools.cache -- the first scan of a module
                   object is kept for the life time of the process
    [session_run] lists, for every generation of the history, the world the TRANSLATOR SEES and the world
    PYTHON IS IN. *)
From Coq Require Import List.
Import ListNotations.

Inductive scan_mode := ScanAtCall | ScanMemo | ScanUnknown.

Section Session.
  Variable W : Type.

  Inductive event := Rebind (w : W) | Generate.

  (* [memo] = what the process remembers of its first scan of the module *)
  Definition seen (md : scan_mode) (memo : option W) (cur : W) : W :=
    match md, memo with
    | ScanMemo, Some w0 => w0
    | _, _ => cur
    end.

  Definition remember (memo : option W) (cur : W) : option W :=
    match memo with None => Some cur | Some w0 => Some w0 end.

  Fixpoint session_run (md : scan_mode) (memo : option W) (cur : W) (h : list event) : list (W * W) :=
    match h with
    | [] => []
    | Rebind w :: r => session_run md memo w r
    | Generate :: r => (seen md memo cur, cur) :: session_run md (remember memo cur) cur r
    end.

  (* the worlds Python is in at the generations of a history *)
  Fixpoint worlds_at_generations (cur : W) (h : list event) : list W :=
    match h with
    | [] => []
    | Rebind w :: r => worlds_at_generations w r
    | Generate :: r => cur :: worlds_at_generations cur r
    end.

  (* nothing is rebound after the first generation *)
  Fixpoint no_rebind (h : list event) : Prop :=
    match h with
    | [] => True
    | Rebind _ :: _ => False
    | Generate :: r => no_rebind r
    end.
  Fixpoint rebinds_only_before_first_generation (h : list event) : Prop :=
    match h with
    | [] => True
    | Rebind _ :: r => rebinds_only_before_first_generation r
    | Generate :: r => no_rebind r
    end.
End Session.

Arguments Rebind {W} w.
Arguments Generate {W}.
Arguments seen {W} md memo cur.
Arguments remember {W} memo cur.
Arguments session_run {W} md memo cur h.
Arguments worlds_at_generations {W} cur h.
Arguments no_rebind {W} h.
Arguments rebinds_only_before_first_generation {W} h.
