(** Proofs about [Imports.v]: searching the whole text for every module imports every module the file
    mentions (so neither [create_model()] nor a later query fails for a missing import) and nothing
    else; the split search of seeded change C11-5 does not -- witness: a parameter equal to +inf in a
    model whose functions need nothing from math. *)
From Coq Require Import List Bool.
From MxlGen Require Import Imports.
Import ListNotations.

Lemma pymod_eqb_eq : forall a b, pymod_eqb a b = true <-> a = b.
Proof. intros [] []; cbn; split; intro H; try reflexivity; try discriminate. Qed.
Lemma section_eqb_eq : forall a b, section_eqb a b = true <-> a = b.
Proof. intros [] []; cbn; split; intro H; try reflexivity; try discriminate. Qed.

Lemma mem_mod_In : forall m l, mem_mod m l = true <-> In m l.
Proof.
  intros m l. unfold mem_mod. rewrite existsb_exists. split.
  - intros [x [Hx He]]. apply pymod_eqb_eq in He. subst x. exact Hx.
  - intro H. exists m. split; [exact H|]. apply pymod_eqb_eq. reflexivity.
Qed.

Lemma all_mods : forall m, In m [PMath; PScipySpecial; PSympyUnits].
Proof. intros []; cbn; auto. Qed.

Lemma refs_text_section : forall e s m, In m (refs_of e s) -> In s text_sections.
Proof. intros e [] m H; cbn in *; try contradiction; auto 6. Qed.

Lemma added_In : forall tbl user e m,
    In m (added_imports tbl user e) <->
    exists secs, In (m, secs) tbl /\ mentions e secs m = true /\ mem_mod m user = false.
Proof.
  intros tbl user e m. unfold added_imports. rewrite in_flat_map. split.
  - intros [[m' secs] [Hin H]]. cbn [fst snd] in H.
    destruct (mentions e secs m') eqn:E1; cbn in H; [|contradiction].
    destruct (mem_mod m' user) eqn:E2; cbn in H; [contradiction|].
    destruct H as [H|[]]. subst m'. exists secs. auto.
  - intros [secs [Hin [H1 H2]]]. exists (m, secs). split; [exact Hin|].
    cbn [fst snd]. rewrite H1, H2. cbn. auto.
Qed.

(** every module some section mentions is imported *)
Lemma imports_cover : forall tbl user e s m,
    covers tbl = true -> In m (refs_of e s) -> In m (file_imports tbl user e).
Proof.
  intros tbl user e s m Hc Hm. unfold file_imports. apply in_or_app.
  destruct (mem_mod m user) eqn:Eu; [left; apply mem_mod_In; exact Eu|right].
  unfold covers in Hc. rewrite forallb_forall in Hc. specialize (Hc m (all_mods m)).
  apply existsb_exists in Hc. destruct Hc as [[m' secs] [Hin H]]. cbn [fst snd] in H.
  apply andb_true_iff in H. destruct H as [He Hall]. apply pymod_eqb_eq in He. subst m'.
  apply added_In. exists secs. split; [exact Hin|]. split; [|exact Eu].
  unfold mentions. apply existsb_exists. exists s. split.
  - rewrite forallb_forall in Hall. specialize (Hall s (refs_text_section e s m Hm)).
    apply existsb_exists in Hall. destruct Hall as [s' [Hs' E]]. apply section_eqb_eq in E. subst s'. exact Hs'.
  - apply mem_mod_In. exact Hm.
Qed.

Lemma all_bound_spec : forall imps refs, all_bound imps refs = true <-> (forall m, In m refs -> In m imps).
Proof.
  intros imps refs. unfold all_bound. rewrite forallb_forall. split; intros H m Hm.
  - apply mem_mod_In. apply H. exact Hm.
  - apply mem_mod_In. apply H. exact Hm.
Qed.

Lemma imports_run_ok : forall tbl user e,
    covers tbl = true -> run_imports (file_imports tbl user e) e = ImOk.
Proof.
  intros tbl user e Hc. unfold run_imports.
  assert (H : forall s, all_bound (file_imports tbl user e) (refs_of e s) = true).
  { intro s. apply all_bound_spec. intros m Hm. eapply imports_cover; eauto. }
  rewrite !H. reflexivity.
Qed.

(** nothing is imported that the caller did not ask for and no searched section mentions *)
Lemma imports_needed : forall tbl user e m,
    In m (added_imports tbl user e) -> ~ In m user /\ exists s, In m (refs_of e s).
Proof.
  intros tbl user e m H. apply added_In in H. destruct H as [secs [_ [Hm Hu]]]. split.
  - intro Hin. apply mem_mod_In in Hin. congruence.
  - unfold mentions in Hm. apply existsb_exists in Hm. destruct Hm as [s [_ Hs]].
    exists s. apply mem_mod_In. exact Hs.
Qed.

Lemma scan_whole_text_covers : covers scan_whole_text = true.
Proof. reflexivity. Qed.

(** seeded change C11-5: parameter cap = +inf, polynomial functions *)
Definition e_cap_inf : emitted :=
  mkEmitted [] [DNum NFinite false; DNum NFinite false]
            [DNum NFinite false; DNum NFinite false; DNum NPosInf false] 1 [[KNum NFinite; KNum NFinite]; [KNum NFinite]].

Lemma split_refuted :
  file_imports scan_split [] e_cap_inf = []
  /\ run_imports (file_imports scan_split [] e_cap_inf) e_cap_inf = ImNameErrorAtBuild
  /\ file_imports scan_whole_text [] e_cap_inf = [PMath]
  /\ run_imports (file_imports scan_whole_text [] e_cap_inf) e_cap_inf = ImOk.
Proof. repeat split; vm_compute; reflexivity. Qed.

(** the split search suffices when no number outside the functions is +inf or NaN and the functions
    mention no unit *)
Definition plain_decl (d : decl) : bool :=
  match d with DNum NPosInf _ | DNum NNan _ => false | _ => true end.
Definition plain_coef (c : coef) : bool :=
  match c with KNum NPosInf | KNum NNan => false | _ => true end.

Lemma decl_refs_plain : forall d m, plain_decl d = true -> In m (decl_refs d) -> m = PSympyUnits.
Proof.
  intros [n u|] m Hp H; cbn in *; [|contradiction].
  destruct n; cbn in *; try discriminate; destruct u; cbn in H; try contradiction;
    destruct H as [H|[]]; auto.
Qed.
Lemma coef_refs_plain : forall c, plain_coef c = true -> coef_refs c = [].
Proof. intros [[]|] H; cbn in *; try reflexivity; discriminate. Qed.

Lemma split_partial : forall user e s m,
    forallb plain_decl (e_vars e) = true -> forallb plain_decl (e_pars e) = true ->
    forallb (forallb plain_coef) (e_rxns e) = true ->
    ~ In PSympyUnits (e_fn_refs e) ->
    In m (refs_of e s) -> In m (file_imports scan_split user e).
Proof.
  intros user e s m Hv Hp Hr Hf Hm. unfold file_imports. apply in_or_app.
  destruct (mem_mod m user) eqn:Eu; [left; apply mem_mod_In; exact Eu|right].
  apply added_In.
  assert (Hdecl : forall l, forallb plain_decl l = true -> In m (flat_map decl_refs l) -> m = PSympyUnits).
  { intros l Hl Hin. apply in_flat_map in Hin. destruct Hin as [d [Hd Hin]].
    rewrite forallb_forall in Hl. eapply decl_refs_plain; eauto. }
  destruct s; cbn [refs_of] in Hm.
  - (* functions *)
    destruct m.
    + exists [SecFunctions]. split; [cbn; auto|]. split; [|exact Eu].
      cbn. apply orb_true_iff. left. apply mem_mod_In. exact Hm.
    + exists [SecFunctions]. split; [cbn; auto|]. split; [|exact Eu].
      cbn. apply orb_true_iff. left. apply mem_mod_In. exact Hm.
    + contradiction.
  - pose proof (Hdecl _ Hv Hm) as ->.
    exists [SecVariables; SecParameters]. split; [cbn; auto|]. split; [|exact Eu].
    cbn. apply orb_true_iff. left. apply mem_mod_In. exact Hm.
  - pose proof (Hdecl _ Hp Hm) as ->.
    exists [SecVariables; SecParameters]. split; [cbn; auto|]. split; [|exact Eu].
    cbn. apply orb_true_iff. right. apply orb_true_iff. left. apply mem_mod_In. exact Hm.
  - contradiction.
  - exfalso. apply in_flat_map in Hm. destruct Hm as [r [Hr' Hm]].
    apply in_flat_map in Hm. destruct Hm as [c [Hc Hm]].
    rewrite forallb_forall in Hr. specialize (Hr r Hr'). rewrite forallb_forall in Hr.
    rewrite (coef_refs_plain c (Hr c Hc)) in Hm. contradiction.
Qed.
