(* REGENERATED from src/mxlpy/meta/codegen_mxlpy.py and sympy_tools.py by harness/c11.py; do not edit.
   An unrecognised key expression yields KsUnknown, a changed function body yields false; either
   breaks C11_facts_pinned. *)
From Coq Require Import List.
From MxlGen Require Import SymRepr Imports CallDefaults NameScope Session.
Import ListNotations.
Definition gen_mxlgen_facts : gen_facts := mkGenFacts KsInit KsInit KsPlain KsPlain KsRxnStoich RegFresh true true PnAllArgs IcPositional RnDelegated EmExact.
(* which sections of the emitted text the import loop of generate_mxlpy_code_from_symbolic_repr searches for which
   module (None = loop not understood); pinned by C11_text_facts_pinned *)
Definition gen_import_scan : option scan_table := (Some [(PMath, [SecFunctions; SecVariables; SecParameters; SecReactions]); (PScipySpecial, [SecFunctions; SecVariables; SecParameters; SecReactions]); (PSympyUnits, [SecFunctions; SecVariables; SecParameters; SecReactions])]).
(* how fn_to_sympy (source_tools.py) binds the arguments of a translated call to the callee's parameters *)
Definition gen_call_defaults : df_mode := DfRefuse.
(* _handle_name (source_tools.py): the function's own symbols before the numbers of the module, or the other way round *)
Definition gen_name_lookup : nl_mode := NlLocalsFirst.
(* when the translator scans a module for callables / sub-modules / numbers: at every call, or once per process *)
Definition gen_scan_mode : scan_mode := ScanAtCall.
