(* REGENERATED from src/mxlpy/meta/codegen_mxlpy.py and sympy_tools.py by harness/c11.py; do not edit.
   An unrecognised key expression yields KsUnknown, a changed function body yields false; either
   breaks C11_facts_pinned. *)
From MxlGen Require Import SymRepr.
Definition gen_mxlgen_facts : gen_facts := mkGenFacts KsInit KsInit KsPlain KsPlain KsRxnStoich RegFresh true true PnAllArgs IcPositional RnDelegated EmExact.
