(** Proofs about the model of [_parameter_names] (SymRepr.v: [pn_find], [pn_loop], [parameter_names]) and
    about the binding of the emitted parameters ([sbind]); lemmas only, statements in PropsC11.v.

    What is shown for the shipped while condition ([PnAllArgs]):
      * the search always ends (fuel never exhausted -- for every condition);
      * the emitted parameters are pairwise different (the def compiles);
      * a model name of the argument list, looked up among the emitted parameters, is bound to the value
        at its FIRST position -- which is what MxlGen.defsem assumes when it evaluates the body under
        [combine params vals] with first-binding-wins. *)
From Coq Require Import ZArith List Bool String Ascii Lia FinFun.
From MxlBase Require Import ListX.
From Core Require Import Model.
From MxlGen Require Import SymRepr MxlGen MxlGenSpec MxlGenSem MxlGenProofs.
Import ListNotations.
Local Open Scope list_scope.

Lemma mem_str_In x l : mem_str x l = true <-> In x l.
Proof.
  unfold mem_str. rewrite existsb_exists. split.
  - intros [y [Hy He]]. apply String.eqb_eq in He. subst. exact Hy.
  - intros H. exists x. split; [exact H|apply String.eqb_refl].
Qed.

Lemma mem_str_false x l : mem_str x l = false <-> ~ In x l.
Proof.
  split.
  - intros H Hin. apply mem_str_In in Hin. rewrite Hin in H. discriminate.
  - intros H. destruct (mem_str x l) eqn:E; [|reflexivity]. apply mem_str_In in E. contradiction.
Qed.

Lemma pcand_inj a : Injective (pcand a).
Proof. exact (cand_inj a). Qed.

(** ---- the inner while loop ------------------------------------------------------------------- *)

Lemma pn_find_none fuel : forall check a i names args,
  pn_find fuel check a i names args = None ->
  forall j, (i <= j < i + fuel)%nat -> In (pcand a j) (names ++ args).
Proof.
  induction fuel as [|fuel IH]; intros check a i names args H j Hj; [lia|].
  cbn [pn_find] in H. destruct (pn_blocked check a (pcand a i) names args) eqn:Hb; [|discriminate].
  destruct (Nat.eq_dec j i) as [->|Hne].
  - unfold pn_blocked in Hb. apply orb_prop in Hb. apply in_or_app. destruct Hb as [Hb|Hb].
    + left. apply mem_str_In. exact Hb.
    + right. destruct check; try discriminate. apply andb_prop in Hb. apply mem_str_In. apply Hb.
  - apply (IH check a (S i) names args H). lia.
Qed.

Lemma pn_find_total check a names args :
  pn_find (S (length names + length args)) check a 0 names args <> None.
Proof.
  intros H. pose proof (pn_find_none _ _ _ _ _ _ H) as Hin.
  set (n := S (length names + length args)) in *.
  assert (Hnd : NoDup (map (pcand a) (seq 0 n))).
  { apply Injective_map_NoDup; [apply pcand_inj|apply seq_NoDup]. }
  assert (Hincl : incl (map (pcand a) (seq 0 n)) (names ++ args)).
  { intros x Hx. apply in_map_iff in Hx. destruct Hx as [j [<- Hj]]. apply in_seq in Hj. apply Hin. lia. }
  pose proof (NoDup_incl_length Hnd Hincl) as Hlen. rewrite map_length, seq_length, app_length in Hlen.
  subst n. lia.
Qed.

Lemma pn_find_some fuel : forall check a i names args n,
  pn_find fuel check a i names args = Some n ->
  ~ In n names /\ (check = PnAllArgs -> n = a \/ ~ In n args).
Proof.
  induction fuel as [|fuel IH]; intros check a i names args n H; [discriminate|].
  cbn [pn_find] in H. destruct (pn_blocked check a (pcand a i) names args) eqn:Hb.
  - exact (IH _ _ _ _ _ _ H).
  - inversion H; subst n. unfold pn_blocked in Hb. apply orb_false_elim in Hb. destruct Hb as [H1 H2].
    split; [apply mem_str_false; exact H1|].
    intros ->. apply andb_false_elim in H2. destruct H2 as [H2|H2].
    + left. apply negb_false_iff in H2. apply String.eqb_eq in H2. exact H2.
    + right. apply mem_str_false. exact H2.
Qed.

Lemma pn_find_first check a names args fuel :
  ~ In a names -> pn_find (S fuel) check a 0 names args = Some a.
Proof.
  intros H. cbn [pn_find pcand]. unfold pn_blocked. apply mem_str_false in H. rewrite H.
  rewrite String.eqb_refl. cbn [negb andb orb]. destruct check; reflexivity.
Qed.

(** ---- the outer loop ---------------------------------------------------------------------------- *)

Lemma pn_loop_total check args : forall todo names, pn_loop check todo names args <> None.
Proof.
  induction todo as [|a r IH]; intros names; cbn [pn_loop]; [discriminate|].
  destruct (pn_find (S (length names + length args)) check a 0 names args) as [n|] eqn:Hf.
  - apply IH.
  - exfalso. exact (pn_find_total _ _ _ _ Hf).
Qed.

Lemma parameter_names_total check args : parameter_names check args <> None.
Proof. apply pn_loop_total. Qed.

(** what the loop produces for the arguments still to do, given the arguments already seen: a first
    occurrence keeps its name, a repetition gets a name that is no model name of the list *)
Inductive Ren (args : list string) : list string -> list string -> list string -> Prop :=
| Ren_nil seen : Ren args seen [] []
| Ren_first seen a r ps : ~ In a seen -> Ren args (a :: seen) r ps -> Ren args seen (a :: r) (a :: ps)
| Ren_again seen a n r ps : In a seen -> ~ In n args -> Ren args (a :: seen) r ps -> Ren args seen (a :: r) (n :: ps).

Lemma Ren_length args seen todo ps : Ren args seen todo ps -> length ps = length todo.
Proof. induction 1; cbn; congruence. Qed.

Lemma Ren_bind args seen todo ps : Ren args seen todo ps ->
  forall vals x, In x args -> ~ In x seen -> sbind x ps vals = sbind x todo vals.
Proof.
  induction 1 as [seen|seen a r ps Hns HR IH|seen a n r ps Hs Hn HR IH]; intros vals x Hx Hxs.
  - reflexivity.
  - destruct vals as [|v vs]; [reflexivity|]. cbn [sbind].
    destruct (String.eqb x a) eqn:E; [reflexivity|].
    apply IH; [exact Hx|]. intros [Ha|Ha]; [subst; rewrite String.eqb_refl in E; discriminate|contradiction].
  - destruct vals as [|v vs]; [reflexivity|]. cbn [sbind].
    assert (E1 : String.eqb x n = false).
    { apply String.eqb_neq. intros ->. contradiction. }
    assert (E2 : String.eqb x a = false).
    { apply String.eqb_neq. intros ->. contradiction. }
    rewrite E1, E2. apply IH; [exact Hx|]. intros [Ha|Ha]; [subst; rewrite String.eqb_refl in E2; discriminate|contradiction].
Qed.

Lemma NoDup_snoc {A} (l : list A) x : NoDup l -> ~ In x l -> NoDup (l ++ [x]).
Proof.
  intros Hn Hx. induction Hn as [|y l Hy Hn IH]; cbn.
  - constructor; [intros []|constructor].
  - constructor.
    + intros Hin. apply in_app_or in Hin. destruct Hin as [Hin|[->|[]]]; [contradiction|]. apply Hx. left. reflexivity.
    + apply IH. intros Hin. apply Hx. right. exact Hin.
Qed.

Definition PnInv (args seen names : list string) : Prop :=
  NoDup names
  /\ (forall n, In n names -> In n seen \/ ~ In n args)
  /\ (forall a, In a seen -> In a names).

Lemma pn_loop_spec args : forall todo seen names out,
  args = rev seen ++ todo -> PnInv args seen names ->
  pn_loop PnAllArgs todo names args = Some out ->
  exists ps, out = names ++ ps /\ Ren args seen todo ps /\ NoDup out.
Proof.
  induction todo as [|a r IH]; intros seen names out Hargs [Hnd [Hsrc Hkeep]] H; cbn [pn_loop] in H.
  - inversion H; subst out. exists []. rewrite app_nil_r. split; [reflexivity|]. split; [constructor|exact Hnd].
  - destruct (pn_find (S (length names + length args)) PnAllArgs a 0 names args) as [n|] eqn:Hf; [|discriminate].
    assert (Ha : In a args). { rewrite Hargs. apply in_or_app. right. left. reflexivity. }
    assert (Hargs' : args = rev (a :: seen) ++ r).
    { cbn [rev]. rewrite <- app_assoc. exact Hargs. }
    destruct (pn_find_some _ _ _ _ _ _ _ Hf) as [Hnn Hor]. specialize (Hor eq_refl).
    destruct (in_dec string_dec a seen) as [Hs|Hs].
    + (* a repetition: the name is no model name of the list *)
      assert (Hna : ~ In n args).
      { destruct Hor as [->|Hor]; [|exact Hor]. exfalso. apply Hnn. apply Hkeep. exact Hs. }
      assert (Hinv : PnInv args (a :: seen) (names ++ [n])).
      { split; [apply NoDup_snoc; assumption|]. split.
        - intros m Hm. apply in_app_or in Hm. destruct Hm as [Hm|[<-|[]]].
          + destruct (Hsrc m Hm) as [Hl|Hr]; [left; right; exact Hl|right; exact Hr].
          + right. exact Hna.
        - intros x [<-|Hx]; apply in_or_app; left; apply Hkeep; assumption. }
      destruct (IH (a :: seen) (names ++ [n]) out Hargs' Hinv H) as [ps [Ho [HR Hno]]].
      exists (n :: ps). split; [rewrite Ho, <- app_assoc; reflexivity|]. split; [|exact Hno].
      apply Ren_again; assumption.
    + (* a first occurrence keeps its name *)
      assert (Hnames : ~ In a names).
      { intros Hin. destruct (Hsrc a Hin) as [Hl|Hr]; contradiction. }
      rewrite (pn_find_first PnAllArgs a names args _ Hnames) in Hf. inversion Hf; subst n.
      assert (Hinv : PnInv args (a :: seen) (names ++ [a])).
      { split; [apply NoDup_snoc; assumption|]. split.
        - intros m Hm. apply in_app_or in Hm. destruct Hm as [Hm|[<-|[]]].
          + destruct (Hsrc m Hm) as [Hl|Hr]; [left; right; exact Hl|right; exact Hr].
          + left. left. reflexivity.
        - intros x [<-|Hx]; apply in_or_app; [right; left; reflexivity|left; apply Hkeep; exact Hx]. }
      destruct (IH (a :: seen) (names ++ [a]) out Hargs' Hinv H) as [ps [Ho [HR Hno]]].
      exists (a :: ps). split; [rewrite Ho, <- app_assoc; reflexivity|]. split; [|exact Hno].
      apply Ren_first; assumption.
Qed.

(** the shipped [_parameter_names]: as many parameters as arguments, pairwise different, and every
    model name of the list is bound to the value passed at its first position *)
Lemma parameter_names_spec args ps :
  parameter_names PnAllArgs args = Some ps ->
  length ps = length args /\ NoDup ps
  /\ forall vals x, In x args -> sbind x ps vals = sbind x args vals.
Proof.
  unfold parameter_names. intros H.
  assert (Hinv : PnInv args [] []).
  { split; [constructor|]. split; intros x []. }
  destruct (pn_loop_spec args args [] [] ps eq_refl Hinv H) as [ps' [Ho [HR Hnd]]]. cbn [app] in Ho. subst ps'.
  split; [exact (Ren_length _ _ _ _ HR)|]. split; [exact Hnd|].
  intros vals x Hx. apply (Ren_bind _ _ _ _ HR); [exact Hx|intros []].
Qed.

(** strings of the parameters vs. component ids of the model: binding the emitted parameter names and
    looking a model name's text up is the first-binding-wins lookup of MxlGen.defsem *)
Lemma sbind_map_nstr (nstr : name -> string) a : forall args vals,
  (forall y, In y args -> nstr a = nstr y -> a = y) ->
  sbind (nstr a) (map nstr args) vals = lookup a (combine args vals).
Proof.
  induction args as [|p r IH]; intros vals Hinj; [reflexivity|].
  destruct vals as [|v vs]; [reflexivity|]. cbn [map sbind combine lookup].
  destruct (N.eqb a p) eqn:E.
  - apply N.eqb_eq in E. subst p. rewrite String.eqb_refl. reflexivity.
  - assert (En : String.eqb (nstr a) (nstr p) = false).
    { apply String.eqb_neq. intros He. apply Hinj in He; [|left; reflexivity]. subst p. rewrite N.eqb_refl in E. discriminate. }
    rewrite En. apply IH. intros y Hy. apply Hinj. right. exact Hy.
Qed.

Lemma parameter_names_bind_first (nstr : name -> string) args ps vals a :
  (forall y, In y args -> nstr a = nstr y -> a = y) ->
  parameter_names PnAllArgs (map nstr args) = Some ps ->
  In a args ->
  sbind (nstr a) ps vals = lookup a (combine args vals).
Proof.
  intros Hinj Hp Ha. destruct (parameter_names_spec _ _ Hp) as [_ [_ Hb]].
  rewrite (Hb vals (nstr a) (in_map nstr _ _ Ha)). apply sbind_map_nstr. exact Hinj.
Qed.

(** consequence for a whole argument list: the values a body over the model names [margs] (all among
    the def's arguments) sees through the emitted parameters are the ones MxlGen.defsem reads *)
Fixpoint sbinds (xs ps : list string) (vs : list Z) : option (list Z) :=
  match xs with
  | [] => Some []
  | x :: r => match sbind x ps vs, sbinds r ps vs with
              | Some v, Some l => Some (v :: l)
              | _, _ => None
              end
  end.

Lemma parameter_names_bind_all (nstr : name -> string) args ps vals margs :
  (forall x y, In x args -> In y args -> nstr x = nstr y -> x = y) ->
  parameter_names PnAllArgs (map nstr args) = Some ps ->
  incl margs args ->
  sbinds (map nstr margs) ps vals = lookups margs (combine args vals).
Proof.
  intros Hinj Hp. induction margs as [|m r IH]; intros Hincl; [reflexivity|].
  cbn [map sbinds lookups].
  assert (Hm : In m args) by (apply Hincl; left; reflexivity).
  rewrite (parameter_names_bind_first nstr args ps vals m (fun y Hy => Hinj m y Hm Hy) Hp Hm).
  rewrite IH; [reflexivity|]. intros x Hx. apply Hincl. right. exact Hx.
Qed.

(** everything PropsC11.v states about the shipped [_parameter_names], in one lemma *)
Lemma parameter_names_sound (nstr : name -> string) (args : list name) (ps : list string) :
  (forall x y, In x args -> In y args -> nstr x = nstr y -> x = y) ->
  parameter_names PnAllArgs (map nstr args) = Some ps ->
  length ps = length args /\ NoDup ps
  /\ forall (vals : list Z) (margs : list name), incl margs args ->
       sbinds (map nstr margs) ps vals = lookups margs (combine args vals).
Proof.
  intros Hinj Hp. destruct (parameter_names_spec _ _ Hp) as [Hl [Hnd _]].
  split; [rewrite Hl; apply map_length|]. split; [exact Hnd|].
  intros vals margs Hincl. exact (parameter_names_bind_all nstr args ps vals margs Hinj Hp Hincl).
Qed.
