(** Proofs about [CallDefaults.v]: the shipped refusal never binds differently from CPython, binding the
    LAST defaults is CPython's call, binding from the FRONT (seeded change C11-6) is not -- witness:
    hill(s, vmax, km=1, n=2) called with three arguments. *)
From Coq Require Import List Arith Bool Lia ZArith.
From MxlGen Require Import CallDefaults.
Import ListNotations.

Section Proofs.
  Context {P V : Type}.
  Implicit Types (params : list P) (defaults args : list V).

  Lemma combine_app_r : forall params args (t : list V),
      combine params (args ++ t) = combine params args ++ combine (skipn (length args) params) t.
  Proof.
    induction params as [|p ps IH]; intros args t.
    - cbn. destruct (length args); reflexivity.
    - destruct args as [|a args']; cbn.
      + reflexivity.
      + f_equal. apply IH.
  Qed.

  Lemma skipn_all_ge : forall {A} (l : list A) k, length l <= k -> skipn k l = [].
  Proof.
    intros A; induction l as [|x l IH]; intros k Hk.
    - destruct k; reflexivity.
    - destruct k; cbn in *; [lia|]. apply IH. lia.
  Qed.

  (** the shipped translator: whatever it accepts, it binds exactly as CPython does *)
  Lemma refuse_sound : forall params defaults args b,
      length defaults <= length params ->
      bind_args DfRefuse params defaults args = Some b ->
      py_bind params defaults args = Some b.
  Proof.
    intros params defaults args b Hd H. unfold bind_args in H.
    destruct (Nat.eqb (length params) (length args)) eqn:E; [|discriminate].
    apply Nat.eqb_eq in E. inversion H; subst b; clear H.
    unfold py_bind.
    destruct (Nat.ltb (length params) (length args)) eqn:E1; [apply Nat.ltb_lt in E1; lia|].
    destruct (Nat.ltb (length args) (length params - length defaults)) eqn:E2; [apply Nat.ltb_lt in E2; lia|].
    rewrite skipn_all_ge by lia. rewrite app_nil_r. reflexivity.
  Qed.

  (** ... and what it refuses although CPython accepts it is exactly a call relying on default values *)
  Lemma refuse_only_defaults : forall params defaults args b,
      bind_args DfRefuse params defaults args = None ->
      py_bind params defaults args = Some b ->
      length args < length params /\ length params - length defaults <= length args.
  Proof.
    intros params defaults args b H Hp. unfold bind_args in H. unfold py_bind in Hp.
    destruct (Nat.eqb (length params) (length args)) eqn:E; [discriminate|].
    apply Nat.eqb_neq in E.
    destruct (Nat.ltb (length params) (length args)) eqn:E1; [discriminate|].
    destruct (Nat.ltb (length args) (length params - length defaults)) eqn:E2; [discriminate|].
    apply Nat.ltb_ge in E1. apply Nat.ltb_ge in E2. lia.
  Qed.

  (** binding the LAST defaults is CPython's call, for every callee and every argument list *)
  Lemma last_is_python : forall params defaults args,
      length defaults <= length params ->
      bind_args DfLast params defaults args = py_bind params defaults args.
  Proof.
    intros params defaults args Hd. unfold bind_args, py_bind.
    destruct (Nat.ltb (length params) (length args)) eqn:E1; [reflexivity|].
    apply Nat.ltb_ge in E1.
    rewrite skipn_length.
    destruct (Nat.ltb (length defaults) (length params - length args)) eqn:E2;
      destruct (Nat.ltb (length args) (length params - length defaults)) eqn:E3;
      try reflexivity.
    - apply Nat.ltb_lt in E2. apply Nat.ltb_ge in E3. lia.
    - apply Nat.ltb_ge in E2. apply Nat.ltb_lt in E3. lia.
    - apply Nat.ltb_ge in E2. apply Nat.ltb_ge in E3.
      rewrite combine_app_r. unfold lastn.
      replace (length defaults - (length params - length args))
        with (length args - (length params - length defaults)) by lia.
      reflexivity.
  Qed.

  (** binding from the FRONT agrees with CPython when no default or every default is used *)
  Lemma front_partial : forall params defaults args,
      length defaults <= length params ->
      length args = length params \/ length args + length defaults = length params ->
      bind_args DfFront params defaults args = py_bind params defaults args.
  Proof.
    intros params defaults args Hd Hk.
    rewrite <- last_is_python by exact Hd.
    unfold bind_args.
    destruct (Nat.ltb (length params) (length args)) eqn:E1; [reflexivity|].
    rewrite skipn_length.
    destruct (Nat.ltb (length defaults) (length params - length args)) eqn:E2; [reflexivity|].
    destruct Hk as [Hk|Hk].
    - rewrite (skipn_all_ge params) by lia. reflexivity.
    - f_equal. f_equal. unfold lastn.
      replace (length defaults - (length params - length args)) with 0 by lia. reflexivity.
  Qed.

  Lemma front_one_default : forall params defaults args b,
      length defaults <= 1 -> length defaults <= length params ->
      py_bind params defaults args = Some b ->
      bind_args DfFront params defaults args = Some b.
  Proof.
    intros params defaults args b H1 Hd Hp.
    rewrite front_partial; [exact Hp|exact Hd|].
    unfold py_bind in Hp.
    destruct (Nat.ltb (length params) (length args)) eqn:E1; [discriminate|].
    destruct (Nat.ltb (length args) (length params - length defaults)) eqn:E2; [discriminate|].
    apply Nat.ltb_ge in E1. apply Nat.ltb_ge in E2. lia.
  Qed.
  Lemma front_partial_all : forall params defaults args,
      length defaults <= length params ->
      (length args = length params
       \/ length args + length defaults = length params
       \/ (length defaults <= 1 /\ exists b, py_bind params defaults args = Some b)) ->
      bind_args DfFront params defaults args = py_bind params defaults args.
  Proof.
    intros params defaults args Hd [H|[H|[H1 [b Hb]]]].
    - apply front_partial; auto.
    - apply front_partial; auto.
    - rewrite Hb. apply front_one_default; auto.
  Qed.
End Proofs.

(** seeded change C11-6: hill(s, vmax, km=1, n=2) called as hill(10, 20, 30) *)
From Coq Require Import String.
Open Scope string_scope.
Definition hill_params : list string := ["s"; "vmax"; "km"; "n"].
Definition hill_defaults : list Z := [1%Z; 2%Z].
Definition hill_args : list Z := [10%Z; 20%Z; 30%Z].

Lemma front_refuted :
  py_bind hill_params hill_defaults hill_args = Some [("s", 10%Z); ("vmax", 20%Z); ("km", 30%Z); ("n", 2%Z)]
  /\ bind_args DfFront hill_params hill_defaults hill_args = Some [("s", 10%Z); ("vmax", 20%Z); ("km", 30%Z); ("n", 1%Z)]
  /\ bind_args DfLast hill_params hill_defaults hill_args = Some [("s", 10%Z); ("vmax", 20%Z); ("km", 30%Z); ("n", 2%Z)]
  /\ bind_args DfRefuse hill_params hill_defaults hill_args = None.
Proof. repeat split; vm_compute; reflexivity. Qed.

(** the shipped refusal per call shape: (parameters, defaults, arguments passed) *)
Lemma accepts_refuse : forall n d k, accepts DfRefuse n d k = Nat.eqb n k.
Proof.
  intros n d k. unfold accepts, bind_args. rewrite !seq_length.
  destruct (Nat.eqb n k); reflexivity.
Qed.
