(** Two models that differ only in the IDENTITY of their functions behave alike
    (proofs only; used by MxlGenProofs.v to carry the structural round-trip theorem over to
    initial conditions, parameter values, derived values, fluxes and derivatives).

    [model_rel R m m'] (MxlGenSpec.v) says: same names, kinds, order, numbers, argument lists and
    coefficients, and [R]-related function ids.  If related ids have the same meaning
    ([fs1 f = fs2 f'] pointwise) then Core's [create_cache], [get_args], [get_fluxes] and [get_rhs]
    (the models of Model._create_cache / get_args / get_fluxes / get_right_hand_side used by
    C01/C13) give the same answers on [m] under [fs1] and on [m'] under [fs2] -- at every state and
    time, errors included. *)
From Coq Require Import ZArith List Bool String Lia.
From MxlBase Require Import ListX.
From Core Require Import Sort Model Cache Query.
From MxlGen Require Import SymRepr MxlGen MxlGenSpec.
Import ListNotations.
Local Open Scope list_scope.

(** ---- association lists related entry by entry ------------------------------------------- *)

Definition kv_rel {A B} (V : A -> B -> Prop) (x : name * A) (y : name * B) : Prop :=
  fst x = fst y /\ V (snd x) (snd y).

Definition opt_rel {A B} (V : A -> B -> Prop) (x : option A) (y : option B) : Prop :=
  match x, y with
  | Some a, Some b => V a b
  | None, None => True
  | _, _ => False
  end.

Lemma lookup_rel {A B} (V : A -> B -> Prop) k d d' :
  Forall2 (kv_rel V) d d' -> opt_rel V (lookup k d) (lookup k d').
Proof.
  induction 1 as [|[k1 a] [k2 b] l l' [Hk Hv] _ IH]; cbn [lookup]; [exact I|].
  cbn in Hk, Hv. subst k2. destruct (N.eqb k k1); [exact Hv|exact IH].
Qed.

Lemma has_rel {A B} (V : A -> B -> Prop) k d d' :
  Forall2 (kv_rel V) d d' -> has k d = has k d'.
Proof.
  intros H. unfold has. pose proof (lookup_rel V k d d' H) as Hl.
  destruct (lookup k d), (lookup k d'); cbn in Hl; try contradiction; reflexivity.
Qed.

Lemma keys_rel {A B} (V : A -> B -> Prop) d d' : Forall2 (kv_rel V) d d' -> keys d = keys d'.
Proof.
  induction 1 as [|x y l l' [Hk _] _ IH]; [reflexivity|]. unfold keys in *. cbn [map]. rewrite Hk, IH. reflexivity.
Qed.

Lemma dset_rel {A B} (V : A -> B -> Prop) k a b d d' :
  V a b -> Forall2 (kv_rel V) d d' -> Forall2 (kv_rel V) (dset k a d) (dset k b d').
Proof.
  intros Hab. induction 1 as [|[k1 a1] [k2 b1] l l' [Hk Hv] Hl IH]; cbn [dset].
  - constructor; [split; [reflexivity|exact Hab]|constructor].
  - cbn in Hk, Hv. subst k2. destruct (N.eqb k k1).
    + constructor; [split; [reflexivity|exact Hab]|exact Hl].
    + constructor; [split; [reflexivity|exact Hv]|exact IH].
Qed.

Lemma dsetdefault_rel {A B} (V : A -> B -> Prop) k a b d d' :
  V a b -> Forall2 (kv_rel V) d d' -> Forall2 (kv_rel V) (dsetdefault k a d) (dsetdefault k b d').
Proof.
  intros Hab H. unfold dsetdefault. rewrite <- (has_rel V k d d' H).
  destruct (has k d); [exact H|]. apply Forall2_app; [exact H|].
  constructor; [split; [reflexivity|exact Hab]|constructor].
Qed.

Lemma has_keys {A B} k (d : list (name * A)) (d' : list (name * B)) : keys d = keys d' -> has k d = has k d'.
Proof.
  revert d'. induction d as [|[k1 a] l IH]; intros [|[k2 b] l'] H; try discriminate; [reflexivity|].
  unfold keys in H. cbn in H. inversion H; subst. unfold has in *. cbn [lookup].
  destruct (N.eqb k k2); [reflexivity|]. apply IH. exact H2.
Qed.

Definition res_rel {A B} (V : A -> B -> Prop) (r : res A) (r' : res B) : Prop :=
  match r, r' with
  | Val a, Val b => V a b
  | Err e, Err e' => e = e'
  | _, _ => False
  end.

Lemma bind_rel {A B A' B'} (V : A -> A' -> Prop) (W : B -> B' -> Prop) r r' f g :
  res_rel V r r' -> (forall a a', V a a' -> res_rel W (f a) (g a')) -> res_rel W (bind r f) (bind r' g).
Proof.
  intros H Hf. destruct r, r'; cbn in *; try contradiction; [apply Hf; exact H|exact H].
Qed.

Lemma res_rel_eq {A} (r r' : res A) : res_rel eq r r' -> r = r'.
Proof. destruct r, r'; cbn; intros H; try contradiction; subst; reflexivity. Qed.

Lemma res_rel_refl {A} (r : res A) : res_rel eq r r.
Proof. destruct r; reflexivity. Qed.

(** ---- the relations on the pieces of a model / a cache ------------------------------------- *)

Section Param.
  Variable fs1 fs2 : fnid -> list Z -> option Z.
  Variable fsN : fnid -> list Z -> option (list Z).
  Variable R : fnrel.
  Hypothesis R_sem : forall a f f', R a f f' -> forall e vs, lookups a e = Some vs -> fs1 f vs = fs2 f' vs.

  Definition comp_rel (c c' : comp) : Prop :=
    match c, c' with
    | CFn f a, CFn f' a' => R a f f' /\ a = a'
    | _, _ => False
    end.
  Definition table_rel := Forall2 (kv_rel comp_rel).

  Definition dynent_rel (p q : fnid * list name) : Prop := R (snd p) (fst p) (fst q) /\ snd p = snd q.
  Definition dyn_rel := Forall2 (kv_rel (Forall2 (kv_rel dynent_rel))).

  Definition cache_rel (c c' : cache) : Prop :=
    c_order c = c_order c' /\ c_var_names c = c_var_names c' /\ c_dyn_order c = c_dyn_order c'
    /\ c_base_par c = c_base_par c' /\ c_all_par c = c_all_par c' /\ c_stoich c = c_stoich c'
    /\ dyn_rel (c_dyn_stoich c) (c_dyn_stoich c') /\ c_init c = c_init c'.

  Lemma calc_rel f f' a e : R a f f' -> calc fs1 f a e = calc fs2 f' a e.
  Proof. intros H. unfold calc. destruct (lookups a e) eqn:El; [|reflexivity]. rewrite (R_sem _ _ _ H _ _ El). reflexivity. Qed.

  Lemma eval_comp_rel nm c c' e : comp_rel c c' -> eval_comp fs1 fsN nm c e = eval_comp fs2 fsN nm c' e.
  Proof.
    destruct c as [f a|f a o], c' as [f' a'|f' a' o']; cbn [comp_rel]; try contradiction.
    intros [H1 H2]. subst a'. cbn [eval_comp]. rewrite (calc_rel _ _ _ _ H1). reflexivity.
  Qed.

  Lemma eval_order_rel t t' order : table_rel t t' ->
    forall e, eval_order fs1 fsN t order e = eval_order fs2 fsN t' order e.
  Proof.
    intros Ht. induction order as [|nm rest IH]; intros e; cbn [eval_order]; [reflexivity|].
    pose proof (lookup_rel comp_rel nm t t' Ht) as Hl.
    destruct (lookup nm t) as [c|], (lookup nm t') as [c'|]; cbn in Hl; try contradiction; [|reflexivity].
    rewrite (eval_comp_rel nm c c' e Hl). destruct (eval_comp fs2 fsN nm c' e); cbn [bind]; [apply IH|reflexivity].
  Qed.

  Lemma table_rel_deps t t' : table_rel t t' -> map dep_of t = map dep_of t'.
  Proof.
    induction 1 as [|[k c] [k' c'] l l' [Hk Hc] _ IH]; [reflexivity|]. cbn [map]. rewrite IH. f_equal.
    cbn in Hk, Hc. subst k'. destruct c as [f a|f a o], c' as [f' a'|f' a' o']; cbn in Hc; try contradiction.
    destruct Hc as [_ Ha]. subst a'. reflexivity.
  Qed.

  (** ---- containers of related models ----------------------------------------------------- *)

  Lemma plain_of_rel l l' : Forall2 (val_rel R) l l' -> plain_of l = plain_of l'.
  Proof.
    induction 1 as [|[k v] [k' v'] r r' [Hk Hv] _ IH]; [reflexivity|].
    unfold plain_of in *. cbn [flat_map fst snd]. rewrite IH. cbn in Hk, Hv. subst k'.
    destruct v, v'; try contradiction; [subst; reflexivity|reflexivity].
  Qed.

  Lemma ias_of_rel l l' : Forall2 (val_rel R) l l' -> table_rel (ias_of l) (ias_of l').
  Proof.
    induction 1 as [|[k v] [k' v'] r r' [Hk Hv] _ IH]; [constructor|].
    unfold ias_of in *. cbn [flat_map fst snd]. cbn in Hk, Hv. subst k'.
    destruct v, v'; try contradiction; cbn [app]; [exact IH|].
    constructor; [|exact IH]. split; [reflexivity|exact Hv].
  Qed.

  Lemma val_keys l l' : Forall2 (val_rel R) l l' -> keys l = keys l'.
  Proof. induction 1 as [|x y r r' [Hk _] _ IH]; [reflexivity|]. unfold keys in *. cbn [map]. rewrite Hk, IH. reflexivity. Qed.
  Lemma der_keys l l' : Forall2 (der_rel R) l l' -> keys l = keys l'.
  Proof. induction 1 as [|x y r r' [Hk _] _ IH]; [reflexivity|]. unfold keys in *. cbn [map]. rewrite Hk, IH. reflexivity. Qed.
  Lemma rxn_keys l l' : Forall2 (rxn_rel R) l l' -> keys l = keys l'.
  Proof. induction 1 as [|x y r r' [Hk _] _ IH]; [reflexivity|]. unfold keys in *. cbn [map]. rewrite Hk, IH. reflexivity. Qed.

  Lemma der_comps_list l l' : Forall2 (der_rel R) l l' ->
    table_rel (map (fun kv => (fst kv, CFn (d_fn (snd kv)) (d_args (snd kv)))) l)
              (map (fun kv => (fst kv, CFn (d_fn (snd kv)) (d_args (snd kv)))) l').
  Proof.
    induction 1 as [|[k d] [k' d'] r r' [Hk [Hf Ha]] _ IH]; [constructor|].
    cbn [map fst snd]. constructor; [|exact IH]. cbn in Hk, Hf, Ha. subst k'. split; [reflexivity|]. split; assumption.
  Qed.

  Lemma rxn_comps_list l l' : Forall2 (rxn_rel R) l l' ->
    table_rel (map (fun kv => (fst kv, CFn (r_fn (snd kv)) (r_args (snd kv)))) l)
              (map (fun kv => (fst kv, CFn (r_fn (snd kv)) (r_args (snd kv)))) l').
  Proof.
    induction 1 as [|[k d] [k' d'] r r' [Hk [Hf [Ha _]]] _ IH]; [constructor|].
    cbn [map fst snd]. constructor; [|exact IH]. cbn in Hk, Hf, Ha. subst k'. split; [reflexivity|]. split; assumption.
  Qed.

  Lemma der_args_list l l' : Forall2 (der_rel R) l l' ->
    Forall2 (kv_rel (fun d d' => d_args d = d_args d')) l l'.
  Proof. induction 1 as [|x y r r' [Hk [_ Ha]] _ IH]; constructor; [split; assumption|exact IH]. Qed.

  Definition rxnent_rel (x y : name * list (name * coef)) : Prop :=
    fst x = fst y /\ Forall2 (coef_rel R) (snd x) (snd y).

  Lemma rxn_entries_list l l' : Forall2 (rxn_rel R) l l' ->
    Forall2 rxnent_rel (map (fun kv => (fst kv, r_st (snd kv))) l) (map (fun kv => (fst kv, r_st (snd kv))) l').
  Proof.
    induction 1 as [|x y r r' [Hk [_ [_ Hs]]] _ IH]; cbn [map]; constructor; [|exact IH].
    split; [exact Hk|exact Hs].
  Qed.

  Section Models.
  Variables m m' : model.
  Hypothesis Hvar : Forall2 (val_rel R) (m_var m) (m_var m').
  Hypothesis Hpar : Forall2 (val_rel R) (m_par m) (m_par m').
  Hypothesis Hder : Forall2 (der_rel R) (m_der m) (m_der m').
  Hypothesis Hrxn : Forall2 (rxn_rel R) (m_rxn m) (m_rxn m').
  Hypothesis Hsur : m_sur m = [].
  Hypothesis Hsur' : m_sur m' = [].
  Hypothesis Hdat : m_dat m = [].
  Hypothesis Hdat' : m_dat m' = [].

  Lemma der_comps_rel : table_rel (der_comps m) (der_comps m').
  Proof. apply der_comps_list. exact Hder. Qed.

  Lemma rxn_comps_rel : table_rel (rxn_comps m) (rxn_comps m').
  Proof. apply rxn_comps_list. exact Hrxn. Qed.

  Lemma to_sort_rel : table_rel (to_sort m) (to_sort m').
  Proof.
    unfold to_sort, sur_comps. rewrite Hsur, Hsur'. cbn [map]. rewrite !app_nil_r.
    repeat apply Forall2_app; [apply ias_of_rel; exact Hvar|apply ias_of_rel; exact Hpar|exact der_comps_rel|exact rxn_comps_rel].
  Qed.

  Lemma containers_rel : table_rel (containers m) (containers m').
  Proof.
    unfold containers, sur_comps. rewrite Hsur, Hsur'. cbn [map]. rewrite !app_nil_r.
    apply Forall2_app; [exact der_comps_rel|exact rxn_comps_rel].
  Qed.

  Lemma base_available_rel : base_available m = base_available m'.
  Proof.
    unfold base_available. rewrite (plain_of_rel _ _ Hvar), (plain_of_rel _ _ Hpar), Hdat, Hdat'. reflexivity.
  Qed.

  Lemma der_lookup_rel nm :
    opt_rel (fun d d' => d_args d = d_args d') (lookup nm (m_der m)) (lookup nm (m_der m')).
  Proof. apply lookup_rel. apply der_args_list. exact Hder. Qed.

  Lemma split_order_rel order : forall allpar, split_order m order allpar = split_order m' order allpar.
  Proof.
    induction order as [|nm rest IH]; intros allpar; cbn [split_order]; [reflexivity|].
    rewrite (has_keys nm (m_rxn m) (m_rxn m') (rxn_keys _ _ Hrxn)).
    rewrite Hsur, Hsur'.
    rewrite (has_keys nm (m_var m) (m_var m') (val_keys _ _ Hvar)).
    rewrite (has_keys nm (m_par m) (m_par m') (val_keys _ _ Hpar)).
    pose proof (der_lookup_rel nm) as Hl.
    rewrite !IH.
    destruct (has nm (m_rxn m') || has nm []); [reflexivity|].
    destruct (has nm (m_var m') || has nm (m_par m')); [reflexivity|].
    destruct (lookup nm (m_der m)) as [d|], (lookup nm (m_der m')) as [d'|]; cbn in Hl; try contradiction; [|reflexivity].
    rewrite Hl. rewrite ?IH. reflexivity.
  Qed.

  Lemma fill_all_par_rel dependent so : forall acc, fill_all_par m dependent so acc = fill_all_par m' dependent so acc.
  Proof.
    induction so as [|nm rest IH]; intros acc; cbn [fill_all_par]; [reflexivity|].
    rewrite (has_keys nm (m_var m) (m_var m') (val_keys _ _ Hvar)).
    rewrite (has_keys nm (m_par m) (m_par m') (val_keys _ _ Hpar)).
    rewrite (has_keys nm (m_der m) (m_der m') (der_keys _ _ Hder)).
    rewrite IH. destruct (has nm (m_var m')); [reflexivity|].
    destruct (has nm (m_par m') || has nm (m_der m')); [|reflexivity].
    destruct (lookup nm dependent); [apply IH|reflexivity].
  Qed.

  (** ---- stoichiometry tables ---------------------------------------------------------------- *)

  Definition tabs_rel (t t' : stoich_tables) : Prop := fst t = fst t' /\ dyn_rel (snd t) (snd t').

  Lemma add_stoich_entry_rel allpar dependent rxn t t' en en' :
    tabs_rel t t' -> coef_rel R en en' ->
    res_rel tabs_rel (add_stoich_entry fs1 allpar dependent rxn t en) (add_stoich_entry fs2 allpar dependent rxn t' en').
  Proof.
    destruct t as [st dy], t' as [st' dy']. intros [Hst Hdy] [Hk Hc]. cbn in Hst, Hdy. subst st'.
    destruct en as [cpd c], en' as [cpd' c']. cbn in Hk, Hc. subst cpd'.
    unfold add_stoich_entry. cbn [fst snd].
    destruct c as [q|f a], c' as [q'|f' a']; try contradiction.
    - subst q'. cbn. split; [reflexivity|exact Hdy].
    - destruct Hc as [Hf Ha]. subst a'.
      destruct (forallb (fun i => memN i allpar) a).
      + rewrite (calc_rel _ _ _ _ Hf). destruct (calc fs2 f' a dependent); cbn; [split; [reflexivity|exact Hdy]|reflexivity].
      + cbn. split; [reflexivity|]. cbn [snd].
        assert (Hdd : dyn_rel (dsetdefault cpd [] dy) (dsetdefault cpd [] dy')).
        { apply dsetdefault_rel; [constructor|exact Hdy]. }
        pose proof (lookup_rel _ cpd _ _ Hdd) as Hl.
        apply dset_rel; [|exact Hdd].
        apply dset_rel; [split; [exact Hf|reflexivity]|].
        destruct (lookup cpd (dsetdefault cpd [] dy)), (lookup cpd (dsetdefault cpd [] dy')); cbn in Hl; try contradiction;
          [exact Hl|constructor].
  Qed.

  Lemma add_stoich_entries_rel allpar dependent rxn ens ens' :
    Forall2 (coef_rel R) ens ens' -> forall t t', tabs_rel t t' ->
    res_rel tabs_rel (add_stoich_entries fs1 allpar dependent rxn t ens) (add_stoich_entries fs2 allpar dependent rxn t' ens').
  Proof.
    induction 1 as [|en en' r r' Hen _ IH]; intros t t' Ht; cbn [add_stoich_entries]; [exact Ht|].
    eapply bind_rel; [apply add_stoich_entry_rel; eassumption|]. intros a a' Ha. apply IH. exact Ha.
  Qed.

  Lemma add_rxn_list_rel allpar dependent rs rs' :
    Forall2 rxnent_rel rs rs' -> forall t t', tabs_rel t t' ->
    res_rel tabs_rel (add_rxn_list fs1 allpar dependent t rs) (add_rxn_list fs2 allpar dependent t' rs').
  Proof.
    induction 1 as [|[rn ens] [rn' ens'] r r' [Hk He] _ IH]; intros t t' Ht; cbn [add_rxn_list]; [exact Ht|].
    cbn in Hk, He. subst rn'.
    eapply bind_rel; [apply add_stoich_entries_rel; eassumption|]. intros a a' Ha. apply IH. exact Ha.
  Qed.

  Lemma all_rxn_entries_rel : Forall2 rxnent_rel (all_rxn_entries m) (all_rxn_entries m').
  Proof.
    unfold all_rxn_entries. rewrite Hsur, Hsur'. cbn [flat_map]. rewrite !app_nil_r.
    apply rxn_entries_list. exact Hrxn.
  Qed.

  (** ---- _create_cache ------------------------------------------------------------------------- *)

  Lemma create_cache_rel F : res_rel cache_rel (create_cache fs1 fsN F m) (create_cache fs2 fsN F m').
  Proof.
    unfold create_cache.
    rewrite <- base_available_rel, <- (table_rel_deps _ _ to_sort_rel).
    rewrite <- (plain_of_rel _ _ Hvar), <- (plain_of_rel _ _ Hpar), Hdat, Hdat'.
    rewrite <- (val_keys _ _ Hvar), <- (val_keys _ _ Hpar).
    destruct (sort_res F (base_available m) (map dep_of (to_sort m))) as [order|e]; cbn [bind]; [|reflexivity].
    rewrite (eval_order_rel _ _ order to_sort_rel).
    destruct (eval_order fs2 fsN (to_sort m') order _) as [dependent|e]; cbn [bind]; [|reflexivity].
    rewrite <- split_order_rel.
    destruct (split_order m order (keys (m_par m))) as [[[so dyo] allpar]|e]; cbn [bind]; [|reflexivity].
    pose proof (add_rxn_list_rel allpar dependent _ _ all_rxn_entries_rel ([], []) ([], [])) as Hadd.
    destruct (add_rxn_list fs1 allpar dependent ([], []) (all_rxn_entries m)) as [[st dy]|e],
             (add_rxn_list fs2 allpar dependent ([], []) (all_rxn_entries m')) as [[st' dy']|e'];
      cbn [bind]; specialize (Hadd (conj eq_refl (Forall2_nil _))); cbn in Hadd; try contradiction; [|exact Hadd].
    destruct Hadd as [Hst Hdy]. cbn [fst snd] in Hst, Hdy. subst st'.
    destruct (init_conditions (keys (m_var m)) dependent) as [init|e]; cbn [bind]; [|reflexivity].
    rewrite <- fill_all_par_rel.
    destruct (fill_all_par m dependent so (plain_of (m_par m))) as [allp|e]; cbn [bind]; [|reflexivity].
    cbn. unfold cache_rel. cbn. repeat split; try reflexivity. exact Hdy.
  Qed.

  (** ---- queries ------------------------------------------------------------------------------ *)

  Section Queries.
  Variables c c' : cache.
  Hypothesis Hc : cache_rel c c'.

  Lemma get_args_raw_rel vars t : get_args_raw fs1 fsN m c vars t = get_args_raw fs2 fsN m' c' vars t.
  Proof.
    destruct Hc as [_ [_ [Hdo [_ [Hap _]]]]].
    unfold get_args_raw. rewrite Hdat, Hdat', <- Hdo, <- Hap.
    rewrite (eval_order_rel _ _ (c_dyn_order c) containers_rel). reflexivity.
  Qed.

  Lemma arg_names_rel b : arg_names m c b = arg_names m' c' b.
  Proof.
    destruct Hc as [_ [_ [_ [_ [Hap _]]]]].
    unfold arg_names, derived_variable_names, derived_parameter_names, surrogate_output_nonflux, surrogate_reaction_names.
    rewrite Hsur, Hsur', <- Hap, <- (val_keys _ _ Hvar), <- (val_keys _ _ Hpar), <- (der_keys _ _ Hder), <- (rxn_keys _ _ Hrxn).
    reflexivity.
  Qed.

  Lemma flux_names_rel : flux_names m = flux_names m'.
  Proof. unfold flux_names, surrogate_reaction_names. rewrite Hsur, Hsur', <- (rxn_keys _ _ Hrxn). reflexivity. Qed.

  Lemma get_args_rel vars t : get_args fs1 fsN m c vars t = get_args fs2 fsN m' c' vars t.
  Proof. unfold get_args. rewrite get_args_raw_rel, arg_names_rel. reflexivity. Qed.

  Lemma get_fluxes_rel vars t : get_fluxes fs1 fsN m c vars t = get_fluxes fs2 fsN m' c' vars t.
  Proof. unfold get_fluxes. rewrite get_args_raw_rel, flux_names_rel. reflexivity. Qed.

  Lemma acc_dyn_row_rel k row row' args : Forall2 (kv_rel dynent_rel) row row' ->
    forall dxdt, acc_dyn_row fs1 k row args dxdt = acc_dyn_row fs2 k row' args dxdt.
  Proof.
    induction 1 as [|[fl [f a]] [fl' [f' a']] r r' [Hk [Hf Ha]] _ IH]; intros dxdt; cbn [acc_dyn_row]; [reflexivity|].
    cbn in Hk, Hf, Ha. subst fl' a'. rewrite (calc_rel _ _ _ _ Hf).
    destruct (calc fs2 f' a args); cbn [bind]; [|reflexivity].
    destruct (lookup k dxdt), (lookup fl args); try reflexivity. apply IH.
  Qed.

  Lemma acc_dyn_rel tab tab' args : dyn_rel tab tab' ->
    forall dxdt, acc_dyn fs1 tab args dxdt = acc_dyn fs2 tab' args dxdt.
  Proof.
    induction 1 as [|[k row] [k' row'] r r' [Hk Hr] _ IH]; intros dxdt; cbn [acc_dyn]; [reflexivity|].
    cbn in Hk, Hr. subst k'. rewrite (acc_dyn_row_rel k row row' args Hr).
    destruct (acc_dyn_row fs2 k row' args dxdt); cbn [bind]; [apply IH|reflexivity].
  Qed.

  Lemma rhs_of_args_rel vn args : rhs_of_args fs1 c vn args = rhs_of_args fs2 c' vn args.
  Proof.
    destruct Hc as [_ [_ [_ [_ [_ [Hst [Hdy _]]]]]]].
    unfold rhs_of_args. rewrite <- Hst.
    destruct (acc_static (c_stoich c) args _); cbn [bind]; [|reflexivity].
    rewrite (acc_dyn_rel _ _ args Hdy). reflexivity.
  Qed.

  Lemma get_rhs_rel vars t : get_rhs fs1 fsN m c vars t = get_rhs fs2 fsN m' c' vars t.
  Proof.
    unfold get_rhs. rewrite get_args_raw_rel, <- (val_keys _ _ Hvar).
    destruct (get_args_raw fs2 fsN m' c' vars t); cbn [bind]; [apply rhs_of_args_rel|reflexivity].
  Qed.
  End Queries.
  End Models.

  (** the statement used by PropsC11.v: everything the property lists, in one relation *)
  Definition same_behaviour (F : sort_facts) (m m' : model) : Prop :=
    keys (m_var m') = keys (m_var m) /\ keys (m_par m') = keys (m_par m)
    /\ keys (m_der m') = keys (m_der m) /\ keys (m_rxn m') = keys (m_rxn m)
    /\ match create_cache fs1 fsN F m, create_cache fs2 fsN F m' with
       | Val ch, Val ch' =>
         c_init ch' = c_init ch /\ c_base_par ch' = c_base_par ch /\ c_all_par ch' = c_all_par ch
         /\ forall vars t,
              get_args fs2 fsN m' ch' vars t = get_args fs1 fsN m ch vars t
              /\ get_fluxes fs2 fsN m' ch' vars t = get_fluxes fs1 fsN m ch vars t
              /\ get_rhs fs2 fsN m' ch' vars t = get_rhs fs1 fsN m ch vars t
       | Err e, Err e' => e' = e
       | _, _ => False
       end.

  Lemma model_rel_same_behaviour F m m' :
    model_rel R m m' -> m_sur m = [] -> m_dat m = [] -> same_behaviour F m m'.
  Proof.
    intros Hrel Hsur Hdat. unfold same_behaviour.
    destruct Hrel as [Hv [Hp [Hd [Hr [Hsur' [_ Hdat']]]]]].
    rewrite (val_keys _ _ Hv), (val_keys _ _ Hp), (der_keys _ _ Hd), (rxn_keys _ _ Hr).
    repeat (split; [reflexivity|]).
    pose proof (create_cache_rel m m' Hv Hp Hd Hr Hsur Hsur' Hdat Hdat' F) as Hc.
    destruct (create_cache fs1 fsN F m) as [ch|e], (create_cache fs2 fsN F m') as [ch'|e']; cbn in Hc; try contradiction;
      [|symmetry; exact Hc].
    pose proof Hc as [_ [_ [_ [Hbp [Hap [_ [_ Hin]]]]]]].
    repeat (split; [symmetry; assumption|]).
    intros vars t.
    rewrite (get_args_rel m m' Hv Hp Hd Hr Hsur Hsur' Hdat Hdat' ch ch' Hc),
            (get_fluxes_rel m m' Hd Hr Hsur Hsur' Hdat Hdat' ch ch' Hc),
            (get_rhs_rel m m' Hv Hd Hr Hsur Hsur' Hdat Hdat' ch ch' Hc).
    repeat split; reflexivity.
  Qed.
End Param.
