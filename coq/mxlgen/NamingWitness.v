(** Regression witnesses (closed by vm_compute) for the three naming facts of the generator
    ([gf_param_check], [gf_interchange], [gf_rename]): for each fact the shipped value rebuilds the
    witness model correctly and the other value -- the shape of a seeded change -- does not; plus the
    general lemma about the sequential replacement.  Lemmas only; statements in PropsC11.v.

    Function objects of the witnesses ([Tn]):
      0 fnlib.f_lin(a, b, c) = a*b + c     1 moda.excess(a, b) = a - b
      2 modb.excess(a, b) = b - a          3 fnlib.f_sub(a, b) = a - b
    Component names: 11 = "n0011", 10011 = "n0011_1" (looks like the first fresh parameter name for a
    repeated n0011), 9001/9002/9003 = "a"/"b"/"c" (the parameter names of the functions). *)
From Coq Require Import ZArith List Bool String Lia.
From MxlBase Require Import ListX.
From Core Require Import Sort GenSortFacts FnLib Model Cache Query.
From MxlGen Require Import SymRepr GenMxlGenFacts ExpectedFacts MxlGen MxlGenSpec MxlGenSem MxlGenProofs
                           Corr CorrProofs ParamNames MxlGenWitness.
Import ListNotations.
Local Open Scope string_scope.
Local Open Scope N_scope.

Definition Tn : ftab :=
  [mkF "f_lin" 5 3 true;
   mkFent "excess" 3 2 true [0%nat; 1%nat] [9001; 9002];
   mkFent "excess" 3 2 true [1%nat; 0%nat] [9001; 9002];
   mkF "f_sub" 3 2 true].

(** ---- _parameter_names ------------------------------------------------------------------------ *)

Definition w_args : list name := [11; 11; 10011].
Definition w_vals : list Z := [2%Z; 2%Z; 5%Z].

Lemma w_args_nstr_inj : forall x y, In x w_args -> In y w_args -> nstr x = nstr y -> x = y.
Proof.
  intros x y Hx Hy. unfold w_args in Hx, Hy. cbn [In] in Hx, Hy.
  repeat (destruct Hx as [<-|Hx]); try contradiction;
    repeat (destruct Hy as [<-|Hy]); try contradiction; vm_compute; intros H; try reflexivity; discriminate.
Qed.

(** shipped: (n0011, n0011, n0011_1) is emitted as def f(n0011, n0011_2, n0011_1) *)
Lemma parameter_names_witness :
  parameter_names PnAllArgs (map nstr w_args) = Some ["n0011"; "n0011_2"; "n0011_1"]
  /\ sbind (nstr 10011) ["n0011"; "n0011_2"; "n0011_1"] w_vals = lookup 10011 (combine w_args w_vals).
Proof. split; vm_compute; reflexivity. Qed.

(** seeded change C11-1: the candidate is only checked against the parameters emitted so far: the
    second parameter is called n0011_1, and the body's n0011_1 reads the value of n0011 *)
Lemma parameter_names_emitted_only_refuted :
  exists (args : list name) (ps : list string) (vals : list Z) (a : name),
    (forall x y, In x args -> In y args -> nstr x = nstr y -> x = y)
    /\ parameter_names PnEmittedOnly (map nstr args) = Some ps
    /\ NoDup ps /\ In a args
    /\ sbind (nstr a) ps vals = Some 2%Z
    /\ lookup a (combine args vals) = Some 5%Z.
Proof.
  exists w_args, ["n0011"; "n0011_1"; "n0011_1_1"], w_vals, 10011.
  split; [exact w_args_nstr_inj|]. split; [vm_compute; reflexivity|].
  split; [repeat (constructor; [cbn; intuition discriminate|]); constructor|].
  split; [right; right; left; reflexivity|]. split; vm_compute; reflexivity.
Qed.

(** ---- _register_fn's test ------------------------------------------------------------------------ *)

(* x = 11 (5), y = 12 (2); 14 = moda.excess(x, y) = x - y; 15 = modb.excess(y, x) = x - y *)
Definition m_excess : model :=
  mkModel [] [(11, Plain 5%Z); (12, Plain 2%Z)] [(14, mkDer 1 [11; 12]); (15, mkDer 2 [12; 11])] [] [] [] [].

Definition Fn : gen_facts := C11_facts RegFresh.

(** seeded change C11-2: "same substituted expression" makes the two [excess] share one def (the later
    one); the earlier component is evaluated with swapped arguments: -3 instead of 3 *)
Lemma substituted_equality_refuted :
  c_subst_eq ((3, [11; 12]), [11; 12]) ((3, [11; 12]), [12; 11]) = true
  /\ c_same_fn ((3, [11; 12]), [11; 12]) ((3, [11; 12]), [12; 11]) = false
  /\ exists (m' : model) (D : fdict cexpr) (ch ch' : cache),
       UniqueIds m_excess
       /\ roundtrip cexpr nstr (c_fname Tn) (c_translate Tn) (c_interchange IcSubstFirst) Fn m_excess = Built (m', D)
       /\ map fst D = ["excess"]
       /\ create_cache (c_fsem Tn) no_fsemN gen_sort_facts m_excess = Val ch
       /\ create_cache (fsem_gen cexpr c_eval D) no_fsemN gen_sort_facts m' = Val ch'
       /\ get_args (c_fsem Tn) no_fsemN m_excess ch [(11, 5%Z); (12, 2%Z)] 0
          = Val [(0, 0%Z); (11, 5%Z); (12, 2%Z); (14, 3%Z); (15, 3%Z)]
       /\ get_args (fsem_gen cexpr c_eval D) no_fsemN m' ch' [(11, 5%Z); (12, 2%Z)] 0
          = Val [(0, 0%Z); (11, 5%Z); (12, 2%Z); (14, (-3)%Z); (15, 3%Z)].
Proof.
  split; [vm_compute; reflexivity|]. split; [vm_compute; reflexivity|].
  do 4 eexists. split; [solve_unique|].
  split; [vm_lhs|]. split; [vm_compute; reflexivity|]. split; [vm_lhs|]. split; [vm_lhs|].
  split; vm_compute; reflexivity.
Qed.

(** shipped (positional forms compared): two defs, the source's values *)
Lemma positional_test_witness :
  exists (m' : model) (D : fdict cexpr) (ch' : cache),
    roundtrip cexpr nstr (c_fname Tn) (c_translate Tn) (c_interchange IcPositional) Fn m_excess = Built (m', D)
    /\ map fst D = ["excess"; "excess_1"]
    /\ create_cache (fsem_gen cexpr c_eval D) no_fsemN gen_sort_facts m' = Val ch'
    /\ get_args (fsem_gen cexpr c_eval D) no_fsemN m' ch' [(11, 5%Z); (12, 2%Z)] 0
       = Val [(0, 0%Z); (11, 5%Z); (12, 2%Z); (14, 3%Z); (15, 3%Z)].
Proof.
  do 3 eexists. split; [vm_lhs|]. split; [vm_compute; reflexivity|]. split; [vm_lhs|]. vm_compute. reflexivity.
Qed.

(** the shipped test is the positional comparison alone, whatever SymPy says about the substituted
    expressions *)
Lemma interchange_positional {X} (subst_eq same_fn : X -> X -> bool) q p :
  interchange_test IcPositional subst_eq same_fn q p = same_fn q p.
Proof. reflexivity. Qed.

(** ---- who puts the model names in ---------------------------------------------------------------- *)

(* components a = 2, b = 7, c = 4; 11 = f_sub(b, c) = 3 *)
Definition m_abc : model :=
  mkModel [] [(9001, Plain 2%Z); (9002, Plain 7%Z); (9003, Plain 4%Z)] [(11, mkDer 3 [9002; 9003])] [] [] [] [].

(** seeded change C11-3: a -> b, THEN b -> c turns a - b into c - c: the rebuilt derived is 0, not 3 *)
Lemma sequential_renaming_refuted :
  c_translate_seq Tn 3 [9002; 9003] = Some (3, [9003; 9003])
  /\ c_translate Tn 3 [9002; 9003] = Some (3, [9002; 9003])
  /\ exists (m' : model) (D : fdict cexpr) (ch ch' : cache),
       UniqueIds m_abc
       /\ roundtrip cexpr nstr (c_fname Tn) (c_translate_by RnSequential Tn) c_same_fn Fn m_abc = Built (m', D)
       /\ create_cache (c_fsem Tn) no_fsemN gen_sort_facts m_abc = Val ch
       /\ create_cache (fsem_gen cexpr c_eval D) no_fsemN gen_sort_facts m' = Val ch'
       /\ get_args (c_fsem Tn) no_fsemN m_abc ch [(9001, 2%Z); (9002, 7%Z); (9003, 4%Z)] 0
          = Val [(0, 0%Z); (9001, 2%Z); (9002, 7%Z); (9003, 4%Z); (11, 3%Z)]
       /\ get_args (fsem_gen cexpr c_eval D) no_fsemN m' ch' [(9001, 2%Z); (9002, 7%Z); (9003, 4%Z)] 0
          = Val [(0, 0%Z); (9001, 2%Z); (9002, 7%Z); (9003, 4%Z); (11, 0%Z)].
Proof.
  split; [vm_compute; reflexivity|]. split; [vm_compute; reflexivity|].
  do 4 eexists. split; [solve_unique|].
  split; [vm_lhs|]. split; [vm_lhs|]. split; [vm_lhs|]. split; vm_compute; reflexivity.
Qed.

Lemma delegated_renaming_witness :
  exists (m' : model) (D : fdict cexpr) (ch' : cache),
    roundtrip cexpr nstr (c_fname Tn) (c_translate_by RnDelegated Tn) c_same_fn Fn m_abc = Built (m', D)
    /\ create_cache (fsem_gen cexpr c_eval D) no_fsemN gen_sort_facts m' = Val ch'
    /\ get_args (fsem_gen cexpr c_eval D) no_fsemN m' ch' [(9001, 2%Z); (9002, 7%Z); (9003, 4%Z)] 0
       = Val [(0, 0%Z); (9001, 2%Z); (9002, 7%Z); (9003, 4%Z); (11, 3%Z)].
Proof. do 3 eexists. split; [vm_lhs|]. split; [vm_lhs|]. vm_compute. reflexivity. Qed.

(** ---- when the sequential replacement happens to be the simultaneous one ------------------------ *)

(** one name through the replacements one after the other / through the first matching one *)
Definition seq1 (pairs : list (name * name)) (z : name) : name :=
  fold_left (fun z p => if N.eqb z (fst p) then snd p else z) pairs z.
Fixpoint sim1 (pairs : list (name * name)) (z : name) : name :=
  match pairs with
  | [] => z
  | (x, y) :: r => if N.eqb z x then y else sim1 r z
  end.
(** no replacement puts in a name that a LATER replacement rewrites *)
Fixpoint chain_free (pairs : list (name * name)) : bool :=
  match pairs with
  | [] => true
  | (_, y) :: r => negb (memN y (map fst r)) && chain_free r
  end.

Lemma subs_seq_map pairs : forall l, subs_seq pairs l = map (seq1 pairs) l.
Proof.
  induction pairs as [|[x y] r IH]; intros l; cbn [subs_seq seq1 fold_left].
  - symmetry. apply map_id.
  - rewrite IH. unfold replace_name. rewrite map_map. apply map_ext. intros z. reflexivity.
Qed.

Lemma seq1_untouched pairs : forall y, memN y (map fst pairs) = false -> seq1 pairs y = y.
Proof.
  induction pairs as [|[x w] r IH]; intros y H; [reflexivity|].
  unfold memN in H. cbn [map fst existsb] in H. apply orb_false_elim in H. destruct H as [H1 H2].
  unfold seq1. cbn [fold_left fst snd]. rewrite H1. apply IH. exact H2.
Qed.

Lemma seq1_sim1 pairs : chain_free pairs = true -> forall z, seq1 pairs z = sim1 pairs z.
Proof.
  induction pairs as [|[x y] r IH]; intros H z; [reflexivity|].
  cbn [chain_free] in H. apply andb_prop in H. destruct H as [H1 H2]. apply negb_true_iff in H1.
  unfold seq1. cbn [fold_left fst snd sim1]. destruct (N.eqb z x).
  - apply seq1_untouched. exact H1.
  - apply IH. exact H2.
Qed.

Lemma sequential_renaming_partial pairs l :
  chain_free pairs = true -> subs_seq pairs l = map (sim1 pairs) l.
Proof. intros H. rewrite subs_seq_map. apply map_ext. intros z. apply seq1_sim1. exact H. Qed.

(** ... and the witness above is outside that guard: b is put in for a and then rewritten *)
Lemma sequential_renaming_guard_witness :
  chain_free [(9001, 9002); (9002, 9003)] = false
  /\ subs_seq [(9001, 9002); (9002, 9003)] [9001; 9002] = [9003; 9003]
  /\ map (sim1 [(9001, 9002); (9002, 9003)]) [9001; 9002] = [9002; 9003].
Proof. repeat split; vm_compute; reflexivity. Qed.

(** ---- the full theorem for the shipped facts ----------------------------------------------------
    [_register_fn]'s test as it is built from the regenerated fact: with [IcPositional] only the
    positional comparison has to be sound, whatever SymPy answers about substituted expressions *)
Lemma roundtrip_shipped
  (E : Type) (nstr : name -> string) (fname : fnid -> string)
  (translate : fnid -> list name -> option E) (eval : E -> env -> option Z)
  (subst_eq same_fn : E * list name -> E * list name -> bool)
  (fsem : fnid -> list Z -> option Z) (fsemN : fnid -> list Z -> option (list Z)) (SF : sort_facts) :
  (forall f margs e, translate f margs = Some e ->
     forall en vs, lookups margs en = Some vs -> eval e en = fsem f vs) ->
  (forall q p, same_fn q p = true ->
     forall vs, defsem E eval (fst q) (snd q) vs = defsem E eval (fst p) (snd p) vs) ->
  forall F m c,
    gf_register F = RegFresh -> gf_interchange F = IcPositional ->
    UniqueIds m -> m_sur m = [] -> m_dat m = [] ->
    generate E nstr fname translate (interchange_test (gf_interchange F) subst_eq same_fn) F m = Some c ->
    exists m', exec_code E c = Built m'
      /\ same_behaviour fsem (fsem_gen E eval (c_defs c)) fsemN SF m m'.
Proof.
  intros H1 H2 F m c Hr Hic Hu Hs Hd Hg. rewrite Hic in Hg.
  exact (roundtrip_full E nstr fname translate eval same_fn fsem fsemN SF H1 H2 F m c Hr Hu Hs Hd Hg).
Qed.
