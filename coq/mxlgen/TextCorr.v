(** Executable comparison used by the generated correspondence files corr/c11_imports.v and
    corr/c11_calls.v -- no proofs.

    An import case: the emitted text abstracted FROM THE SOURCE MODEL (class of every plain number, units,
    number of derived lines, coefficients; only [e_fn_refs] -- what SymPy's printer wrote into the function
    definitions -- is read from the generated file), the import lines of the generated file and what
    happened when it was executed and queried.
    A call case: (parameters, defaults, arguments passed) of a nested call and whether the real
    [fn_to_sympy] translated the calling function. *)
From Coq Require Import List Bool Arith.
From MxlGen Require Import Imports CallDefaults GenMxlGenFacts.
Import ListNotations.

Definition outcome_eqb (a b : import_outcome) : bool :=
  match a, b with
  | ImOk, ImOk | ImNameErrorAtBuild, ImNameErrorAtBuild | ImNameErrorAtCall, ImNameErrorAtCall => true
  | _, _ => false
  end.
Fixpoint mods_eqb (a b : list pymod) : bool :=
  match a, b with
  | [], [] => true
  | x :: xs, y :: ys => pymod_eqb x y && mods_eqb xs ys
  | _, _ => false
  end.

Definition import_case : Type := (emitted * list pymod * import_outcome)%type.
Definition import_case_ok (c : import_case) : bool :=
  let '(e, imps, out) := c in
  match gen_import_scan with
  | Some tbl => mods_eqb (file_imports tbl [] e) imps && outcome_eqb (run_imports (file_imports tbl [] e) e) out
  | None => false
  end.

Definition call_case : Type := (nat * nat * nat * bool)%type.
Definition call_case_ok (c : call_case) : bool :=
  let '(n, d, k, ok) := c in Bool.eqb (accepts gen_call_defaults n d k) ok.
